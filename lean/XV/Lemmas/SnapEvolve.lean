import XV.Lemmas.SnapVChain
import XV.Lemmas.InvBlock
/-!
Mixed histories on top of a state: submissions, blocks applied by `todoBlock`, blocks played by `play`
(`PlayAndRepost`) on ANY pool as long as no pending transaction outside the block conflicts with it (nothing is
evicted; in particular: on an empty pool), and blocks mined by `playForMiner` (the pending transactions of the block are
confirmed where they are, only the generated ones are applied). All of them are runs of admitted transactions on the
key view, in the order of application (`Evolves.run`), every transaction of the run being pending or confirmed in one
of the blocks afterwards.
-/
namespace XV.Snapshot
open XV.Chain

/-- the block loop of `play` / `todoBlock` / `playForMiner` (`blockRun`, Lemmas/InvBlock.lean) on the key view: the
transactions that are not confirmed from the pool are a run of admitted transactions -/
theorem blockRun_view (e : Env) (lh : Int) (prop : String) (isPool : Nat → Bool) (txs : List Nat) (s s2 : St)
    (h : blockRun e lh prop isPool txs s s2) :
    RunV e (txs.filter (fun i => !isPool i)) (curVer s) ∧
      curVer s2 = runV e (txs.filter (fun i => !isPool i)) (curVer s) := by
  induction txs generalizing s with
  | nil => simp only [blockRun] at h; subst h; exact ⟨trivial, rfl⟩
  | cons i rest ih =>
    unfold blockRun at h
    by_cases hp : isPool i = true
    · rw [if_pos hp] at h
      obtain ⟨i1, i2⟩ := ih _ h
      have hv : curVer (payFee (e.tx i) prop (e.tx i).outs 0 s) = curVer s := funext (payFee_curVer _ _ _ _ _)
      rw [hv] at i1 i2
      simp only [List.filter_cons, hp, Bool.not_true, Bool.false_eq_true, ↓reduceIte]
      exact ⟨i1, i2⟩
    · rw [if_neg hp] at h
      obtain ⟨hadm, hrest⟩ := h
      obtain ⟨i1, i2⟩ := ih _ hrest
      have hv : curVer (payFee (e.tx i) prop (e.tx i).outs 0 (applyTx s (e.tx i))) = stepV (e.tx i) (curVer s) := by
        funext key; rw [payFee_curVer, applyTx_view]
      rw [hv] at i1 i2
      have hp' : isPool i = false := by simpa using hp
      simp only [List.filter_cons, hp', Bool.not_false, ↓reduceIte]
      exact ⟨⟨admV_of_ok s lh _ hadm, i1⟩, by rw [i2, runV_cons]⟩

theorem filter_false' {α : Type} (l : List α) : l.filter (fun _ => false) = [] := by
  induction l with
  | nil => rfl
  | cons a r ih => simp

theorem filter_true' {α : Type} (l : List α) : l.filter (fun _ => true) = l := by
  induction l with
  | nil => rfl
  | cons a r ih => simp

theorem closure_nil (e : Env) (pool : List Nat) (n : Nat) : closure e pool n [] = [] := by
  cases n with
  | zero => rfl
  | succ m => simp [closure]

/-- no pending transaction outside the block conflicts with it: `play` evicts nothing -/
def NoEvict (e : Env) (s : St) (b : Block) : Prop :=
  (s.pool.filter (fun i => !b.txs.contains i)).filter (fun i => conflicts e s.pool b.txs i) = []

instance (e : Env) (s : St) (b : Block) : Decidable (NoEvict e s b) := by unfold NoEvict; exact inferInstance

theorem noEvict_of_empty (e : Env) (s : St) (b : Block) (h : s.pool = []) : NoEvict e s b := by
  unfold NoEvict; rw [h]; rfl

/-- a successful `play` that evicts nothing is the block loop on the state itself, the pending transactions of the block
being confirmed where they are -/
theorem play_noevict (e : Env) (s : St) (lh : Int) (b : Block) (hne : NoEvict e s b) (hok : (play e s lh b).2 = .ok) :
    ∃ s2, blockRun e lh b.prop (fun i => (s.pool.filter (fun i => b.txs.contains i)).contains i) b.txs s s2 ∧
      curVer (play e s lh b).1 = curVer s2 ∧
      (play e s lh b).1.pool = s.pool.filter (fun i => !b.txs.contains i) := by
  unfold NoEvict at hne
  unfold play at hok ⊢
  by_cases h1 : b.pre ≠ some s.pointer
  · simp [h1] at hok
  · simp only [h1, ↓reduceIte] at hok ⊢
    by_cases h2 : blockHasDupInput e b.txs = true
    · simp [h2] at hok
    · simp only [h2, Bool.false_eq_true, ↓reduceIte] at hok ⊢
      by_cases h3 : parentMissing e s.pool [] b.txs = true
      · simp [h3] at hok
      · simp only [h3, Bool.false_eq_true, ↓reduceIte] at hok ⊢
        by_cases h4 : staleMember e s.pool [] b.txs = true
        · simp [h4] at hok
        · simp only [h4, Bool.false_eq_true, ↓reduceIte, hne, closure_nil, List.contains_nil, filter_false',
            List.foldl_nil, Bool.not_false, filter_true', Bool.and_true] at hok ⊢
          cases hr : applyBlockTxs e lh b.prop (s.pool.filter (fun i => b.txs.contains i)) b.txs s with
          | none => rw [hr] at hok; simp at hok
          | some p =>
            obtain ⟨s2, res⟩ := p
            have hres : res = .ok := by
              cases res with
              | ok => rfl
              | _ => rw [hr] at hok; simp at hok
            subst hres
            exact ⟨s2, XV.Chain.applyBlockTxs_run e lh b.prop _ b.txs s s2 hr, rfl, rfl⟩

/-- a successful `playForMiner` is the block loop with the generated (coinbase) transactions applied -/
theorem playForMiner_ok (e : Env) (s : St) (lh : Int) (b : Block) (hok : (playForMiner e s lh b).2 = .ok) :
    ∃ s2, blockRun e lh b.prop (fun i => !(e.tx i).coinbase) b.txs s s2 ∧
      curVer (playForMiner e s lh b).1 = curVer s2 ∧
      (playForMiner e s lh b).1.pool = s.pool.filter (fun i => !b.txs.contains i) := by
  unfold playForMiner at hok ⊢
  by_cases h1 : b.pre ≠ some s.pointer
  · simp [h1] at hok
  · simp only [h1, ↓reduceIte] at hok ⊢
    cases hgo : playForMiner.go e lh b b.txs s with
    | none => simp [hgo] at hok
    | some s2 => exact ⟨s2, playForMiner_go_run e lh b b.txs s s2 hgo, rfl, rfl⟩

/-- `s'` is reached from `s` by submissions and blocks in any order; `bs` = the blocks, `L` = the transactions applied,
in order of application -/
inductive Evolves (e : Env) : St → List Block → List Nat → St → Prop
  | refl (s : St) : Evolves e s [] [] s
  | submit {s s1 : St} {bs : List Block} {L : List Nat} (lh : Int) (i : Nat) :
      Evolves e s bs L s1 →
      Evolves e s bs (if (doTx e s1 lh i).2 = .ok then L ++ [i] else L) (doTx e s1 lh i).1
  | todo {s s1 s2 : St} {bs : List Block} {L : List Nat} (lh : Int) (b : Block) :
      Evolves e s bs L s1 → todoBlock e s1 lh b = some s2 → Evolves e s (bs ++ [b]) (L ++ b.txs) s2
  | play {s s1 : St} {bs : List Block} {L : List Nat} (lh : Int) (b : Block) :
      Evolves e s bs L s1 → NoEvict e s1 b → (play e s1 lh b).2 = .ok →
      Evolves e s (bs ++ [b]) (L ++ b.txs.filter (fun i => !s1.pool.contains i)) (play e s1 lh b).1
  | mine {s s1 : St} {bs : List Block} {L : List Nat} (lh : Int) (b : Block) :
      Evolves e s bs L s1 → (playForMiner e s1 lh b).2 = .ok →
      Evolves e s (bs ++ [b]) (L ++ b.txs.filter (fun i => (e.tx i).coinbase)) (playForMiner e s1 lh b).1

theorem doTx_res (e : Env) (s : St) (lh : Int) (i : Nat) :
    ((doTx e s lh i).2 = .ok ∧ i ∉ s.pool ∧ admitTx s lh (e.tx i) = .ok ∧
      (doTx e s lh i).1 = { applyTx s (e.tx i) with pool := s.pool ++ [i] }) ∨
    ((doTx e s lh i).2 ≠ .ok ∧ (doTx e s lh i).1 = s) := by
  unfold doTx
  by_cases hc : s.pool.contains i = true
  · right; rw [if_pos hc]; exact ⟨by simp, rfl⟩
  · rw [if_neg hc]
    dsimp only
    cases hadm : admitTx s lh (e.tx i) with
    | ok => left; exact ⟨rfl, by simpa using hc, rfl, rfl⟩
    | _ => right; exact ⟨by simp, rfl⟩

theorem filter_contains_eq (pool txs : List Nat) :
    txs.filter (fun i => !(pool.filter (fun j => txs.contains j)).contains i) =
      txs.filter (fun i => !pool.contains i) := by
  apply List.filter_congr
  intro i hi
  congr 1
  rw [Bool.eq_iff_iff]
  simp only [List.contains_iff_mem, List.mem_filter]
  exact ⟨fun h => h.1, fun h => ⟨h, hi⟩⟩

/-- **a mixed history is a run of admitted transactions**; every transaction of the run is afterwards pending or in
one of the blocks, and the pool holds only transactions of the old pool or of the run -/
theorem Evolves.run {e : Env} {s s' : St} {bs : List Block} {L : List Nat} (h : Evolves e s bs L s') :
    RunV e L (curVer s) ∧ curVer s' = runV e L (curVer s) ∧ (∀ i ∈ L, i ∈ s'.pool ∨ i ∈ blocksTxs bs) ∧
      (∀ i ∈ s'.pool, i ∈ s.pool ∨ i ∈ L) := by
  induction h with
  | refl => exact ⟨trivial, rfl, (fun _ h => by cases h), fun i hi => Or.inl hi⟩
  | @submit s1 bs L lh i _ ih =>
    obtain ⟨i1, i2, i3, i4⟩ := ih
    rcases doTx_res e s1 lh i with ⟨hok, _, hadm, hst⟩ | ⟨hno, hst⟩
    · rw [if_pos hok, hst]
      refine ⟨(RunV_snoc e L i _).mpr ⟨i1, by rw [← i2]; exact admV_of_ok s1 lh _ hadm⟩, ?_, ?_, ?_⟩
      · have : curVer ({ applyTx s1 (e.tx i) with pool := s1.pool ++ [i] } : St) = curVer (applyTx s1 (e.tx i)) := rfl
        rw [this, runV_snoc, ← i2]
        exact funext (applyTx_view s1 (e.tx i))
      · intro j hj
        rcases List.mem_append.mp hj with hj | hj
        · rcases i3 j hj with h1 | h1
          · exact Or.inl (List.mem_append_left _ h1)
          · exact Or.inr h1
        · exact Or.inl (List.mem_append_right _ hj)
      · intro j hj
        rcases List.mem_append.mp hj with hj | hj
        · rcases i4 j hj with h1 | h1
          · exact Or.inl h1
          · exact Or.inr (List.mem_append_left _ h1)
        · exact Or.inr (List.mem_append_right _ hj)
    · rw [if_neg hno, hst]
      exact ⟨i1, i2, i3, i4⟩
  | @todo s1 s2 bs L lh b _ htodo ih =>
    obtain ⟨i1, i2, i3, i4⟩ := ih
    obtain ⟨t1, t2, t3⟩ := todoBlock_run e _ _ lh b htodo
    refine ⟨(RunV_append e _ _ _).mpr ⟨i1, by rw [← i2]; exact t1⟩, by rw [t2, i2, runV_append], ?_, ?_⟩
    · intro j hj
      rw [blocksTxs_snoc]
      rcases List.mem_append.mp hj with hj | hj
      · rcases i3 j hj with h1 | h1
        · exact Or.inl (by rw [t3]; exact h1)
        · exact Or.inr (List.mem_append_left _ h1)
      · exact Or.inr (List.mem_append_right _ hj)
    · intro j hj
      rw [t3] at hj
      rcases i4 j hj with h1 | h1
      · exact Or.inl h1
      · exact Or.inr (List.mem_append_left _ h1)
  | @play s1 bs L lh b _ hne hok ih =>
    obtain ⟨i1, i2, i3, i4⟩ := ih
    obtain ⟨s2, hrun, hv, hp⟩ := play_noevict e s1 lh b hne hok
    obtain ⟨t1, t2⟩ := blockRun_view e lh b.prop _ b.txs s1 s2 hrun
    rw [filter_contains_eq] at t1 t2
    refine ⟨(RunV_append e _ _ _).mpr ⟨i1, by rw [← i2]; exact t1⟩, by rw [hv, t2, i2, runV_append], ?_, ?_⟩
    · intro j hj
      rw [blocksTxs_snoc, hp]
      rcases List.mem_append.mp hj with hj | hj
      · rcases i3 j hj with h1 | h1
        · by_cases hb : j ∈ b.txs
          · exact Or.inr (List.mem_append_right _ hb)
          · exact Or.inl (List.mem_filter.mpr ⟨h1, by simpa using hb⟩)
        · exact Or.inr (List.mem_append_left _ h1)
      · exact Or.inr (List.mem_append_right _ (List.mem_filter.mp hj).1)
    · intro j hj
      rw [hp] at hj
      rcases i4 j (List.mem_filter.mp hj).1 with h1 | h1
      · exact Or.inl h1
      · exact Or.inr (List.mem_append_left _ h1)
  | @mine s1 bs L lh b _ hok ih =>
    obtain ⟨i1, i2, i3, i4⟩ := ih
    obtain ⟨s2, hrun, hv, hp⟩ := playForMiner_ok e s1 lh b hok
    obtain ⟨t1, t2⟩ := blockRun_view e lh b.prop _ b.txs s1 s2 hrun
    have hf : b.txs.filter (fun i => !!(e.tx i).coinbase) = b.txs.filter (fun i => (e.tx i).coinbase) := by
      apply List.filter_congr; intro i _; simp
    rw [hf] at t1 t2
    refine ⟨(RunV_append e _ _ _).mpr ⟨i1, by rw [← i2]; exact t1⟩, by rw [hv, t2, i2, runV_append], ?_, ?_⟩
    · intro j hj
      rw [blocksTxs_snoc, hp]
      rcases List.mem_append.mp hj with hj | hj
      · rcases i3 j hj with h1 | h1
        · by_cases hb : j ∈ b.txs
          · exact Or.inr (List.mem_append_right _ hb)
          · exact Or.inl (List.mem_filter.mpr ⟨h1, by simpa using hb⟩)
        · exact Or.inr (List.mem_append_left _ h1)
      · exact Or.inr (List.mem_append_right _ (List.mem_filter.mp hj).1)
    · intro j hj
      rw [hp] at hj
      rcases i4 j (List.mem_filter.mp hj).1 with h1 | h1
      · exact Or.inl h1
      · exact Or.inr (List.mem_append_left _ h1)

end XV.Snapshot
