import XV.Lemmas.PoolSwap
import XV.Lemmas.PoolGraph
/-!
What admission one by one implies about a pool (ids being fresh hashes): a key version that a pool transaction
overwrote is never read again, hence no two pool transactions overwrite the same version, and the admission order
itself respects every `edge` — so the dependency graph of an admitted pool is acyclic.
-/
namespace XV.Pool
open XV.Chain

/-- no current key version carries the id of a transaction that is yet to be applied -/
def FreshV (s : St) (l : List Nat) : Prop := ∀ K v, curVer s K = some v → v.1 ∉ l

theorem FreshV.apply {s : St} {l : List Nat} {t : Tx} (h : FreshV s l) (ht : t.id ∉ l) : FreshV (applyTx s t) l := by
  intro K v hv
  cases hw : writesKey t K with
  | true =>
    obtain ⟨v', hv', hid⟩ := curVer_written s t K ((writesKey_iff t K).mp hw)
    rw [hv'] at hv
    simp only [Option.some.injEq] at hv
    rw [← hv, hid]; exact ht
  | false =>
    rw [curVer_unwritten s t K (not_writesKey t K hw)] at hv
    exact h K v hv

theorem FreshV.mono {s : St} {l l' : List Nat} (h : FreshV s l) (hsub : ∀ x ∈ l', x ∈ l) : FreshV s l' :=
  fun K v hv hm => h K v hv (hsub _ hm)

/-- freshness (both kinds) survives the admission of a prefix whose ids are disjoint from the rest -/
theorem fresh_after (lh : Int) : ∀ (l1 : List Tx) (s m : St) (I : List Nat), admitAll s lh l1 = some m →
    (∀ t ∈ l1, t.id ∉ I) → FreshU s I → FreshV s I → FreshU m I ∧ FreshV m I := by
  intro l1
  induction l1 with
  | nil =>
    intro s m I h _ hu hv
    simp only [admitAll, Option.some.injEq] at h
    exact h ▸ ⟨hu, hv⟩
  | cons t l1 ih =>
    intro s m I h hd hu hv
    rw [admitAll_cons] at h
    exact ih _ m I h.2 (fun x hx => hd x (List.mem_cons_of_mem _ hx))
      (hu.apply (hd t List.mem_cons_self)) (hv.apply (hd t List.mem_cons_self))

/-- once the current version of `K` carries an id of the set `I`, every later reader of `K` in a sequence of
transactions with ids in `I` cites a version with an id in `I` -/
theorem tainted_reads (lh : Int) (K : String) (I : List Nat) : ∀ (l : List Tx) (st r : St),
    admitAll st lh l = some r → (∃ v, curVer st K = some v ∧ v.1 ∈ I) → (∀ t ∈ l, t.id ∈ I) →
    ∀ t2 ∈ l, ∀ k ∈ t2.kin, k.key = K → ∃ v, k.ver = some v ∧ v.1 ∈ I := by
  intro l
  induction l with
  | nil => intro _ _ _ _ _ t2 h2; simp at h2
  | cons t l ih =>
    intro st r h hj hI t2 h2 k hk hkK
    rw [admitAll_cons] at h
    rcases List.mem_cons.mp h2 with rfl | h2
    · obtain ⟨v, hv, hvi⟩ := hj
      have := (XV.C03.admit_sound st lh t2 h.1).2.2.1 k hk
      rw [hkK, hv] at this
      exact ⟨v, this.symm, hvi⟩
    · apply ih (applyTx st t) r h.2 ?_ (fun x hx => hI x (List.mem_cons_of_mem _ hx)) t2 h2 k hk hkK
      cases hw : writesKey t K with
      | true =>
        obtain ⟨v', hv', hid⟩ := curVer_written st t K ((writesKey_iff t K).mp hw)
        exact ⟨v', hv', hid ▸ hI t List.mem_cons_self⟩
      | false =>
        rw [curVer_unwritten st t K (not_writesKey t K hw)]
        exact hj

/-- **a version that was overwritten is never read again**: `t1` (admitted at `s1`, then `l2`) writes `K`; no later
transaction of the sequence cites the version `K` had before `t1` -/
theorem no_version_reuse (lh : Int) (s1 r : St) (t1 : Tx) (l2 : List Tx) (K : String)
    (h : admitAll s1 lh (t1 :: l2) = some r) (hfv : FreshV s1 (ids (t1 :: l2)))
    (hw : writesKey t1 K = true) :
    ∀ t2 ∈ l2, ∀ k ∈ t2.kin, k.key = K → k.ver ≠ curVer s1 K := by
  intro t2 h2 k hk hkK heq
  rw [admitAll_cons] at h
  obtain ⟨v', hv', hid⟩ := curVer_written s1 t1 K ((writesKey_iff t1 K).mp hw)
  obtain ⟨v, hv, hvi⟩ := tainted_reads lh K (ids (t1 :: l2)) l2 (applyTx s1 t1) r h.2
    ⟨v', hv', by rw [hid]; simp⟩
    (fun t ht => by simp only [ids_cons]; exact List.mem_cons_of_mem _ (mem_ids ht)) t2 h2 k hk hkK
  rw [hv] at heq
  exact hfv K v heq.symm hvi

/-- the state in the middle of an admitted sequence, with freshness carried along -/
theorem split_admitted (lh : Int) (s sA : St) (pre : List Tx) (t : Tx) (post : List Tx)
    (h : admitAll s lh (pre ++ t :: post) = some sA) (hnd : (ids (pre ++ t :: post)).Nodup)
    (hu : FreshU s (ids (pre ++ t :: post))) (hv : FreshV s (ids (pre ++ t :: post))) :
    ∃ m, admitAll m lh (t :: post) = some sA ∧ FreshU m (ids (t :: post)) ∧ FreshV m (ids (t :: post)) := by
  obtain ⟨m, h1, h2⟩ := admitAll_append lh pre (t :: post) s sA h
  rw [ids_append] at hnd hu hv
  have hd : ∀ x ∈ pre, x.id ∉ ids (t :: post) := by
    intro x hx hm
    exact (List.nodup_append.mp hnd).2.2 x.id (mem_ids hx) x.id hm rfl
  obtain ⟨fu, fv⟩ := fresh_after lh pre s m (ids (t :: post)) h1 hd
    (hu.mono (fun x hx => List.mem_append_right _ hx)) (hv.mono (fun x hx => List.mem_append_right _ hx))
  exact ⟨m, h2, fu, fv⟩

/-- of two different members of a list one comes first -/
theorem split_two {α : Type} : ∀ (l : List α) (a b : α), a ∈ l → b ∈ l → a ≠ b →
    (∃ pre post, l = pre ++ a :: post ∧ b ∈ post) ∨ (∃ pre post, l = pre ++ b :: post ∧ a ∈ post) := by
  intro l
  induction l with
  | nil => intro a _ ha; simp at ha
  | cons c l ih =>
    intro a b ha hb hne
    rcases List.mem_cons.mp ha with ha | ha
    · rcases List.mem_cons.mp hb with hb | hb
      · exact absurd (ha.trans hb.symm) hne
      · exact Or.inl ⟨[], l, by rw [ha]; rfl, hb⟩
    · rcases List.mem_cons.mp hb with hb | hb
      · exact Or.inr ⟨[], l, by rw [hb]; rfl, ha⟩
      · rcases ih a b ha hb hne with ⟨pre, post, rfl, h⟩ | ⟨pre, post, rfl, h⟩
        · exact Or.inl ⟨c :: pre, post, rfl, h⟩
        · exact Or.inr ⟨c :: pre, post, rfl, h⟩

/-- after the overwriter of `K@ver` nobody in the pool reads `K@ver` -/
theorem overwrite_then_read (lh : Int) (s sA : St) (pre : List Tx) (t1 : Tx) (post : List Tx)
    (h : admitAll s lh (pre ++ t1 :: post) = some sA) (hnd : (ids (pre ++ t1 :: post)).Nodup)
    (hu : FreshU s (ids (pre ++ t1 :: post))) (hv : FreshV s (ids (pre ++ t1 :: post)))
    (k1 : KIn) (hk1 : k1 ∈ t1.kin) (hw : writesKey t1 k1.key = true)
    (t2 : Tx) (h2 : t2 ∈ post) (k2 : KIn) (hk2 : k2 ∈ t2.kin) (hkey : k2.key = k1.key) (hver : k2.ver = k1.ver) :
    False := by
  obtain ⟨m, hm, _, fv⟩ := split_admitted lh s sA pre t1 post h hnd hu hv
  have hcur : curVer m k1.key = k1.ver :=
    (XV.C03.admit_sound m lh t1 ((admitAll_cons m lh t1 post sA).mp hm).1).2.2.1 k1 hk1
  exact no_version_reuse lh m sA t1 post k1.key hm fv hw t2 h2 k2 hk2 hkey (by rw [hver, hcur])

/-- **no two transactions of an admitted pool overwrite the same key version** -/
theorem admitted_unique_writers (lh : Int) (s sA : St) (adm : List Tx)
    (h : admitAll s lh adm = some sA) (hnd : (ids adm).Nodup) (hu : FreshU s (ids adm)) (hv : FreshV s (ids adm)) :
    ∀ t1 ∈ adm, ∀ t2 ∈ adm, ∀ vk, overwrites t1 vk → overwrites t2 vk → t1.id = t2.id := by
  intro t1 h1 t2 h2 vk ⟨k1, hk1, he1, hw1⟩ ⟨k2, hk2, he2, hw2⟩
  by_cases hne : t1 = t2
  · rw [hne]
  · exfalso
    have hkv : (k2.key, k2.ver) = (k1.key, k1.ver) := he2.trans he1.symm
    simp only [Prod.mk.injEq] at hkv
    rcases split_two adm t1 t2 h1 h2 hne with ⟨pre, post, rfl, hp⟩ | ⟨pre, post, rfl, hp⟩
    · exact overwrite_then_read lh s sA pre t1 post h hnd hu hv k1 hk1 hw1 t2 hp k2 hk2 hkv.1 hkv.2
    · exact overwrite_then_read lh s sA pre t2 post h hnd hu hv k2 hk2 hw2 t1 hp k1 hk1 hkv.1.symm hkv.2.symm

/-- `v` admitted before `u` (still pending) cannot depend on `u` in any of the three ways -/
theorem no_back_edge (lh : Int) (s sA : St) (pre : List Tx) (v : Tx) (post : List Tx)
    (h : admitAll s lh (pre ++ v :: post) = some sA) (hnd : (ids (pre ++ v :: post)).Nodup)
    (hu : FreshU s (ids (pre ++ v :: post))) (hv : FreshV s (ids (pre ++ v :: post)))
    (u : Tx) (hup : u ∈ post) : edge u v = false := by
  obtain ⟨m, hm, fu, fv⟩ := split_admitted lh s sA pre v post h hnd hu hv
  have hadm := ((admitAll_cons m lh v post sA).mp hm).1
  have huid : u.id ∈ ids (v :: post) := by simp only [ids_cons]; exact List.mem_cons_of_mem _ (mem_ids hup)
  cases he : edge u v with
  | false => rfl
  | true =>
    exfalso
    unfold edge at he
    simp only [Bool.or_eq_true] at he
    rcases he with (h1 | h1) | h1
    · unfold tokDep at h1
      simp only [List.any_eq_true, beq_iff_eq] at h1
      obtain ⟨r, hr, hrt⟩ := h1
      obtain ⟨x, hx⟩ := admit_inputs_exist hadm r hr
      rw [fu (r.tx, r.off) (by simp only [hrt]; exact huid)] at hx
      simp at hx
    · unfold keyDep at h1
      simp only [List.any_eq_true] at h1
      obtain ⟨ki, hki, hm1⟩ := h1
      cases hver : ki.ver with
      | none => simp [hver] at hm1
      | some w =>
        simp only [hver, beq_iff_eq] at hm1
        have hcur := (XV.C03.admit_sound m lh v hadm).2.2.1 ki hki
        rw [hver] at hcur
        exact fv ki.key w hcur (hm1 ▸ huid)
    · unfold antiDep at h1
      simp only [Bool.and_eq_true, bne_iff_ne, ne_eq, List.any_eq_true, Bool.not_eq_true', beq_iff_eq] at h1
      obtain ⟨_, pk, hpk, _, ck, hck, ⟨hk, hvv⟩, hw⟩ := h1
      exact overwrite_then_read lh s sA pre v post h hnd hu hv ck hck hw u hup pk hpk hk.symm hvv.symm

/-- a transaction never depends on itself -/
theorem no_self_edge (lh : Int) (s sA : St) (pre : List Tx) (v : Tx) (post : List Tx)
    (h : admitAll s lh (pre ++ v :: post) = some sA) (hnd : (ids (pre ++ v :: post)).Nodup)
    (hu : FreshU s (ids (pre ++ v :: post))) (hv : FreshV s (ids (pre ++ v :: post))) : edge v v = false := by
  obtain ⟨m, hm, fu, fv⟩ := split_admitted lh s sA pre v post h hnd hu hv
  have hadm := ((admitAll_cons m lh v post sA).mp hm).1
  have huid : v.id ∈ ids (v :: post) := by simp
  cases he : edge v v with
  | false => rfl
  | true =>
    exfalso
    unfold edge at he
    simp only [Bool.or_eq_true] at he
    rcases he with (h1 | h1) | h1
    · unfold tokDep at h1
      simp only [List.any_eq_true, beq_iff_eq] at h1
      obtain ⟨r, hr, hrt⟩ := h1
      obtain ⟨x, hx⟩ := admit_inputs_exist hadm r hr
      rw [fu (r.tx, r.off) (by simp only [hrt]; exact huid)] at hx
      simp at hx
    · unfold keyDep at h1
      simp only [List.any_eq_true] at h1
      obtain ⟨ki, hki, hm1⟩ := h1
      cases hver : ki.ver with
      | none => simp [hver] at hm1
      | some w =>
        simp only [hver, beq_iff_eq] at hm1
        have hcur := (XV.C03.admit_sound m lh v hadm).2.2.1 ki hki
        rw [hver] at hcur
        exact fv ki.key w hcur (hm1 ▸ huid)
    · unfold antiDep at h1
      simp at h1

/-- **the admission order respects every edge** -/
theorem admitted_respects_edges (lh : Int) (s sA : St) (adm : List Tx)
    (h : admitAll s lh adm = some sA) (hnd : (ids adm).Nodup) (hu : FreshU s (ids adm)) (hv : FreshV s (ids adm)) :
    ∀ u ∈ adm, ∀ v ∈ adm, edge u v = true → Before (ids adm) u.id v.id := by
  intro u hu' v hv' he
  by_cases hne : u = v
  · exfalso
    subst hne
    obtain ⟨pre, post, rfl⟩ := List.append_of_mem hu'
    rw [no_self_edge lh s sA pre u post h hnd hu hv] at he
    simp at he
  · rcases split_two adm u v hu' hv' hne with ⟨pre, post, rfl, hp⟩ | ⟨pre, post, rfl, hp⟩
    · exact ⟨ids pre, ids post, by rw [ids_append, ids_cons], mem_ids hp⟩
    · exfalso
      rw [no_back_edge lh s sA pre v post h hnd hu hv u hp] at he
      simp at he

/-- position in a list (0 for the head; the length for absent elements) -/
def pos : List Nat → Nat → Nat
  | [], _ => 0
  | y :: l, x => if y = x then 0 else pos l x + 1

theorem pos_lt_of_before : ∀ (l : List Nat) (a b : Nat), l.Nodup → Before l a b → pos l a < pos l b := by
  intro l
  induction l with
  | nil =>
    intro a b _ hb
    obtain ⟨l1, l2, heq, _⟩ := hb
    simp at heq
  | cons y l ih =>
    intro a b hnd hb
    obtain ⟨hyl, hnd'⟩ := List.nodup_cons.mp hnd
    obtain ⟨l1, l2, heq, hbm⟩ := hb
    cases l1 with
    | nil =>
      simp only [List.nil_append, List.cons.injEq] at heq
      obtain ⟨rfl, rfl⟩ := heq
      have : y ≠ b := fun e => hyl (e ▸ hbm)
      simp [pos, this]
    | cons c l1 =>
      simp only [List.cons_append, List.cons.injEq] at heq
      obtain ⟨rfl, rfl⟩ := heq
      have hya : y ≠ a := fun e => hyl (by rw [e]; simp)
      have hyb : y ≠ b := fun e => hyl (by rw [e]; simp [hbm])
      have := ih a b hnd' ⟨l1, l2, rfl, hbm⟩
      simp only [pos, hya, hyb, ↓reduceIte]
      omega

theorem id_inj_of_nodup : ∀ (l : List Tx), (ids l).Nodup → ∀ a ∈ l, ∀ b ∈ l, a.id = b.id → a = b := by
  intro l
  induction l with
  | nil => intro _ a ha; simp at ha
  | cons c l ih =>
    intro hnd a ha b hb hab
    simp only [ids_cons, List.nodup_cons] at hnd
    rcases List.mem_cons.mp ha with ha | ha <;> rcases List.mem_cons.mp hb with hb | hb
    · rw [ha, hb]
    · exfalso; apply hnd.1; rw [← ha, hab]; exact mem_ids hb
    · exfalso; apply hnd.1; rw [← hb, ← hab]; exact mem_ids ha
    · exact ih hnd.2 a ha b hb hab

theorem nodup_of_ids : ∀ (l : List Tx), (ids l).Nodup → l.Nodup := by
  intro l
  induction l with
  | nil => intro _; exact List.nodup_nil
  | cons c l ih =>
    intro hnd
    simp only [ids_cons, List.nodup_cons] at hnd
    exact List.nodup_cons.mpr ⟨fun h => hnd.1 (mem_ids h), ih hnd.2⟩


end XV.Pool
