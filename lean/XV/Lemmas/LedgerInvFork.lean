import XV.Lemmas.LedgerInvConfirm
/-!
Ledger main-chain invariant, part 6: `handleFork`. Started on two stored blocks of EQUAL height (with fuel above that
height) it terminates, finds their lowest common ancestor `s`, flags the `q`-branch from `q` down to `s` as trunk
(with `next` links along that branch), un-flags the `p`-branch strictly above `s`, re-points the confirmed table to
the `q`-branch blocks strictly above `s`, rewrites the height index between `s` and `q`, and touches nothing else.
-/
namespace XV.Ledger
open XV.Chain (lookup put del lookup_put lookup_del lookup_put_same lookup_cons lookup_nil)

theorem handleFork_same (l0 : L) (fuel q : Nat) (nh : Option Nat) (l : L) (sb : Hdr) (h : lookup l0.B q = some sb) :
    handleFork l0 (fuel + 1) q q nh l = some (saveBlock l q { sb with inTrunk := true, next := nh }, sb.height) := by
  simp [handleFork, h]

theorem handleFork_step (l0 : L) (fuel p q pp qp : Nat) (nh : Option Nat) (l : L) (pb qb : Hdr) (hne : p ≠ q)
    (sp : lookup l0.B p = some pb) (sq : lookup l0.B q = some qb) (e1 : pb.pre = some pp) (e2 : qb.pre = some qp) :
    handleFork l0 (fuel + 1) p q nh l =
      handleFork l0 fuel pp qp (some q)
        (saveBlock (saveBlock (correctTxs l q qb.txs) p { pb with inTrunk := false, next := none }) q
          { qb with inTrunk := true, next := nh }) := by
  simp [handleFork, hne, sp, sq, e1, e2]

namespace TreeInv
variable {l : L}

theorem not_anc_of_lt (T : TreeInv l) {a b : Nat} {ha hb : Hdr} (sa : lookup l.B a = some ha) (sb : lookup l.B b = some hb)
    (hlt : hb.height < ha.height) : ¬ Anc l a b := by
  intro h
  have := T.anc_height_le h sa sb
  omega

theorem not_anc_of_eq_ne (T : TreeInv l) {a b : Nat} {ha hb : Hdr} (sa : lookup l.B a = some ha) (sb : lookup l.B b = some hb)
    (he : ha.height = hb.height) (hne : a ≠ b) : ¬ Anc l a b := by
  intro h
  exact hne (T.anc_eq_of_height h sa sb he)

end TreeInv

/-- what `handleFork l0 _ p q nh l` returns as tables `l'`, with `s` (header `sb`) the lowest common ancestor and
`qh` the height of `q` -/
structure ForkSpec (l0 l l' : L) (p q : Nat) (nh : Option Nat) (s : Nat) (sb : Hdr) (qh : Nat) : Prop where
  s_stored : lookup l0.B s = some sb
  s_p : Anc l0 s p
  s_q : Anc l0 s q
  s_max : ∀ x, Anc l0 x p → Anc l0 x q → Anc l0 x s
  Bq : ∀ x xb, lookup l0.B x = some xb → Anc l0 x q → Anc l0 s x →
    ∃ nx, lookup l'.B x = some { xb with inTrunk := true, next := nx } ∧ (x = q → nx = nh) ∧
      (∀ c, par l0 c = some x → Anc l0 c q → nx = some c)
  Bp : ∀ x xb, lookup l0.B x = some xb → Anc l0 x p → ¬ Anc l0 x q →
    lookup l'.B x = some { xb with inTrunk := false, next := none }
  Bo : ∀ x, ¬ (Anc l0 x q ∧ Anc l0 s x) → ¬ (Anc l0 x p ∧ ¬ Anc l0 x q) → lookup l'.B x = lookup l.B x
  ZHq : ∀ x xb, lookup l0.B x = some xb → Anc l0 x q → Anc l0 s x → lookup l'.ZH xb.height = some x
  ZHo : ∀ k, (k < sb.height ∨ qh < k) → lookup l'.ZH k = lookup l.ZH k
  Co : ∀ t, (∀ x xb, lookup l0.B x = some xb → Anc l0 x q → ¬ Anc l0 x p → t ∉ xb.txs) → lookup l'.C t = lookup l.C t
  Cq : ∀ t x xb, lookup l0.B x = some xb → Anc l0 x q → ¬ Anc l0 x p → t ∈ xb.txs →
    (∀ y yb, lookup l0.B y = some yb → Anc l0 y x → y ≠ x → t ∉ yb.txs) → lookup l'.C t = some x
  rest : l'.ZI = l.ZI ∧ l'.root = l.root ∧ l'.tip = l.tip ∧ l'.trunkHeight = l.trunkHeight

theorem handleFork_spec {l0 : L} (T : TreeInv l0) (fuel p q : Nat) (nh : Option Nat) (l : L) (pb qb : Hdr)
    (sp : lookup l0.B p = some pb) (sq : lookup l0.B q = some qb) (heq : pb.height = qb.height)
    (hf : qb.height < fuel) :
    ∃ l' s sb, handleFork l0 fuel p q nh l = some (l', sb.height) ∧ ForkSpec l0 l l' p q nh s sb qb.height := by
  induction fuel generalizing p q nh l pb qb with
  | zero => omega
  | succ n ih =>
    by_cases e : p = q
    · subst e
      rw [sp] at sq; cases sq
      refine ⟨_, p, pb, handleFork_same l0 n p nh l pb sp, ?_⟩
      have hBp : ∀ x, lookup (saveBlock l p { pb with inTrunk := true, next := nh }).B x =
          if p = x then some { pb with inTrunk := true, next := nh } else lookup l.B x := fun x => saveBlock_B _ _ _ x
      refine
        { s_stored := sp, s_p := Anc.refl _, s_q := Anc.refl _, s_max := fun x h _ => h, Bq := ?_, Bp := ?_, Bo := ?_,
          ZHq := ?_, ZHo := ?_, Co := fun t _ => rfl, Cq := ?_, rest := ⟨rfl, rfl, rfl, rfl⟩ }
      · intro x xb sx h1 h2
        have ex : x = p := T.anc_antisymm h1 h2 sp
        subst ex
        rw [sp] at sx; cases sx
        refine ⟨nh, by rw [hBp, if_pos rfl], fun _ => rfl, ?_⟩
        intro c hc hcx
        obtain ⟨cb, _, sc, _, sx', hh⟩ := T.par_stored hc
        rw [sp] at sx'; cases sx'
        exact absurd hcx (T.not_anc_of_lt sc sp (by omega))
      · intro x xb _ h1 h2
        exact absurd h1 h2
      · intro x h1 _
        have : p ≠ x := by
          intro e; subst e
          exact h1 ⟨Anc.refl _, Anc.refl _⟩
        rw [hBp, if_neg this]
      · intro x xb sx h1 h2
        have ex : x = p := T.anc_antisymm h1 h2 sp
        subst ex
        rw [sp] at sx; cases sx
        simp [saveBlock, lookup_put]
      · intro k hk
        simp only [saveBlock, ↓reduceIte, lookup_put]
        rw [if_neg (by omega)]
      · intro t x xb _ h1 h2
        exact absurd h1 h2
    · -- the cursors differ: both have parents
      have hq0 : qb.height ≠ 0 := by
        intro h0
        have e1 := T.height_zero sq h0
        have e2 := T.height_zero sp (by omega)
        exact e (e2.trans e1.symm)
      have hpr : p ≠ l0.root := by
        intro er
        obtain ⟨rh, r1, _, r3⟩ := T.root
        rw [← er, sp] at r1; cases r1; omega
      have hqr : q ≠ l0.root := by
        intro er
        obtain ⟨rh, r1, _, r3⟩ := T.root
        rw [← er, sq] at r1; cases r1; omega
      obtain ⟨pp, ppb, e1, spp, hp1⟩ := T.parent p pb sp hpr
      obtain ⟨qp, qpb, e2, sqp, hq1⟩ := T.parent q qb sq hqr
      have parp : par l0 p = some pp := by rw [par_of_lookup sp, e1]
      have parq : par l0 q = some qp := by rw [par_of_lookup sq, e2]
      obtain ⟨l', s, sb, hrun, S⟩ := ih pp qp (some q)
        (saveBlock (saveBlock (correctTxs l q qb.txs) p { pb with inTrunk := false, next := none }) q
          { qb with inTrunk := true, next := nh }) ppb qpb spp sqp (by omega) (by omega)
      refine ⟨l', s, sb, by rw [handleFork_step l0 n p q pp qp nh l pb qb e sp sq e1 e2]; exact hrun, ?_⟩
      -- impossible ancestries (by height)
      have nq_qp : ¬ Anc l0 q qp := T.not_anc_of_lt sq sqp (by omega)
      have nq_pp : ¬ Anc l0 q pp := T.not_anc_of_lt sq spp (by omega)
      have np_qp : ¬ Anc l0 p qp := T.not_anc_of_lt sp sqp (by omega)
      have np_pp : ¬ Anc l0 p pp := T.not_anc_of_lt sp spp (by omega)
      have np_q : ¬ Anc l0 p q := T.not_anc_of_eq_ne sp sq heq e
      have nq_p : ¬ Anc l0 q p := T.not_anc_of_eq_ne sq sp heq.symm (fun h => e h.symm)
      have up_q : ∀ {x}, Anc l0 x qp → Anc l0 x q := fun h => Anc.step parq h
      have up_p : ∀ {x}, Anc l0 x pp → Anc l0 x p := fun h => Anc.step parp h
      have dn_q : ∀ {x}, Anc l0 x q → x ≠ q → Anc l0 x qp := by
        intro x h hne
        obtain ⟨p', h1, h2⟩ := T.anc_par_of_ne h hne
        rw [parq] at h1; cases h1; exact h2
      have dn_p : ∀ {x}, Anc l0 x p → x ≠ p → Anc l0 x pp := by
        intro x h hne
        obtain ⟨p', h1, h2⟩ := T.anc_par_of_ne h hne
        rw [parp] at h1; cases h1; exact h2
      have hB3 : ∀ x, lookup (saveBlock (saveBlock (correctTxs l q qb.txs) p { pb with inTrunk := false, next := none }) q
          { qb with inTrunk := true, next := nh }).B x =
          if q = x then some { qb with inTrunk := true, next := nh }
          else if p = x then some { pb with inTrunk := false, next := none } else lookup l.B x := by
        intro x
        rw [saveBlock_B, saveBlock_B]
        rfl
      have hs_le : sb.height ≤ qpb.height := T.anc_height_le S.s_q S.s_stored sqp
      refine
        { s_stored := S.s_stored, s_p := up_p S.s_p, s_q := up_q S.s_q, s_max := ?_, Bq := ?_, Bp := ?_, Bo := ?_,
          ZHq := ?_, ZHo := ?_, Co := ?_, Cq := ?_, rest := S.rest }
      · intro x h1 h2
        have x1 : x ≠ p := fun ex => np_q (ex ▸ h2)
        have x2 : x ≠ q := fun ex => nq_p (ex ▸ h1)
        exact S.s_max x (dn_p h1 x1) (dn_q h2 x2)
      · intro x xb sx h1 h2
        by_cases ex : x = q
        · subst ex
          rw [sq] at sx; cases sx
          refine ⟨nh, ?_, fun _ => rfl, ?_⟩
          · rw [S.Bo x (fun h => nq_qp h.1) (fun h => nq_pp h.1), hB3, if_pos rfl]
          · intro c hc hcx
            obtain ⟨cb, _, sc, _, sx', hh⟩ := T.par_stored hc
            rw [sq] at sx'; cases sx'
            exact absurd hcx (T.not_anc_of_lt sc sq (by omega))
        · obtain ⟨nx, n1, n2, n3⟩ := S.Bq x xb sx (dn_q h1 ex) h2
          refine ⟨nx, n1, fun h => absurd h ex, ?_⟩
          intro c hc hcq
          by_cases ec : c = q
          · subst ec
            rw [parq] at hc; cases hc
            exact n2 rfl
          · exact n3 c hc (dn_q hcq ec)
      · intro x xb sx h1 h2
        by_cases ex : x = p
        · subst ex
          rw [sp] at sx; cases sx
          rw [S.Bo x (fun h => np_qp h.1) (fun h => np_pp h.1), hB3, if_neg (fun h => e h.symm), if_pos rfl]
        · exact S.Bp x xb sx (dn_p h1 ex) (fun h => h2 (up_q h))
      · intro x h1 h2
        have xq : x ≠ q := by
          intro ex; subst ex
          exact h1 ⟨Anc.refl _, up_q S.s_q⟩
        have xp : x ≠ p := by
          intro ex; subst ex
          exact h2 ⟨Anc.refl _, np_q⟩
        rw [S.Bo x (fun h => h1 ⟨up_q h.1, h.2⟩) ?_, hB3, if_neg (fun h => xq h.symm), if_neg (fun h => xp h.symm)]
        rintro ⟨a1, a2⟩
        apply h2
        refine ⟨up_p a1, fun hxq => ?_⟩
        exact a2 (dn_q hxq xq)
      · intro x xb sx h1 h2
        by_cases ex : x = q
        · subst ex
          rw [sq] at sx; cases sx
          rw [S.ZHo _ (Or.inr (by omega))]
          simp [saveBlock, lookup_put]
        · exact S.ZHq x xb sx (dn_q h1 ex) h2
      · intro k hk
        rw [S.ZHo k (by omega)]
        simp only [saveBlock, ↓reduceIte, lookup_put]
        rw [if_neg (by omega)]
        simp [correctTxs]
      · intro t ht
        rw [S.Co t (fun x xb sx h1 h2 => ht x xb sx (up_q h1) (fun h => ?_))]
        · have : t ∉ qb.txs := ht q qb sq (Anc.refl _) nq_p
          show lookup (correctTxs l q qb.txs).C t = _
          rw [correctTxs_C, if_neg this]
        · have xp : x ≠ p := fun ex => np_qp (ex ▸ h1)
          exact h2 (dn_p h xp)
      · intro t x xb sx h1 h2 ht hlow
        by_cases ex : x = q
        · subst ex
          rw [sq] at sx; cases sx
          rw [S.Co t ?_]
          · show lookup (correctTxs l x qb.txs).C t = _
            rw [correctTxs_C, if_pos ht]
          · intro y yb sy hy1 _
            have : y ≠ x := fun ey => nq_qp (ey ▸ hy1)
            exact hlow y yb sy (up_q hy1) this
        · exact S.Cq t x xb sx (dn_q h1 ex) (fun h => h2 (up_p h)) ht hlow

end XV.Ledger
