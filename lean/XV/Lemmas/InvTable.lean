import XV.Lemmas.Assoc
import XV.Lemmas.ChainFrame
/-!
Row-level lemmas about the UTXO table of the chain model (`XV.Model.Chain`): what `applyOuts`, `undoOuts`,
`payFee`, `undoPayFee`, the spending fold and the restoring fold do to the row stored at a key, stated by the
*index* of the output in the transaction (`outs[idx]?`, key `(t.id, off + idx)`).
Used by the history-level invariants in `XV.Props.C02` / `XV.Props.C03`.
-/
namespace XV.Chain

-- ---------------------------------------------------------------- spending / restoring folds

theorem spendU_lookup (ins : List InRef) (u : List (Ver × UItem)) (k : Ver) :
    lookup (ins.foldl (fun u r => del u (r.tx, r.off)) u) k =
      if k ∈ ins.map (fun r => (r.tx, r.off)) then none else lookup u k := by
  induction ins generalizing u with
  | nil => simp
  | cons r rest ih =>
    simp only [List.foldl_cons, List.map_cons, List.mem_cons]
    rw [ih, lookup_del]
    by_cases h1 : k ∈ rest.map (fun r => (r.tx, r.off))
    · simp [h1]
    · by_cases h2 : (r.tx, r.off) = k
      · simp [h1, h2]
      · have : ¬ k = (r.tx, r.off) := fun e => h2 e.symm
        simp [h1, h2, this]

theorem restoreU_lookup_other (ins : List InRef) (u : List (Ver × UItem)) (k : Ver)
    (hk : k ∉ ins.map (fun r => (r.tx, r.off))) :
    lookup (ins.foldl (fun u r => put u (r.tx, r.off) ⟨r.addr, r.amt, r.frozen⟩) u) k = lookup u k := by
  induction ins generalizing u with
  | nil => rfl
  | cons r rest ih =>
    simp only [List.map_cons, List.mem_cons, not_or] at hk
    simp only [List.foldl_cons]
    rw [ih _ hk.2, lookup_put]
    have : ¬ (r.tx, r.off) = k := fun e => hk.1 e.symm
    simp [this]

theorem restoreU_lookup_in (ins : List InRef) (u : List (Ver × UItem))
    (hnd : (ins.map (fun r => (r.tx, r.off))).Nodup) (r : InRef) (hr : r ∈ ins) :
    lookup (ins.foldl (fun u r => put u (r.tx, r.off) ⟨r.addr, r.amt, r.frozen⟩) u) (r.tx, r.off) =
      some ⟨r.addr, r.amt, r.frozen⟩ := by
  induction ins generalizing u with
  | nil => cases hr
  | cons x rest ih =>
    simp only [List.map_cons, List.nodup_cons] at hnd
    simp only [List.foldl_cons]
    rcases List.mem_cons.mp hr with rfl | hr'
    · rw [restoreU_lookup_other _ _ _ hnd.1, lookup_put_same]
    · exact ih _ hnd.2 hr'

-- ---------------------------------------------------------------- applyOuts

theorem applyOuts_lookup_otherid (t : Tx) (l : List Out) (off : Nat) (s : St) (k : Ver) (hk : k.1 ≠ t.id) :
    lookup (applyOuts t l off s).U k = lookup s.U k := by
  induction l generalizing off s with
  | nil => simp [applyOuts]
  | cons o rest ih =>
    unfold applyOuts
    rw [ih]
    split
    · rfl
    · simp only
      rw [lookup_put]
      have : ¬ (t.id, off) = k := fun e => hk (by rw [← e])
      simp [this]

theorem applyOuts_lookup_below (t : Tx) (l : List Out) (off : Nat) (s : St) (o : Nat) (h : o < off) :
    lookup (applyOuts t l off s).U (t.id, o) = lookup s.U (t.id, o) := by
  induction l generalizing off s with
  | nil => simp [applyOuts]
  | cons x rest ih =>
    unfold applyOuts
    rw [ih _ _ (by omega)]
    split
    · rfl
    · simp only
      rw [lookup_put]
      have : ¬ (t.id, off) = (t.id, o) := by intro e; injection e with _ e2; omega
      simp [this]

/-- the row at the key of output number `idx` after `applyOuts` -/
theorem applyOuts_lookup_idx (t : Tx) (l : List Out) (off : Nat) (s : St) (idx : Nat) :
    lookup (applyOuts t l off s).U (t.id, off + idx) =
      match l[idx]? with
      | some o => if (o.addr == "$" || o.amt == 0) = true then lookup s.U (t.id, off + idx)
                  else some ⟨o.addr, o.amt, o.frozen⟩
      | none => lookup s.U (t.id, off + idx) := by
  induction l generalizing off s idx with
  | nil => simp [applyOuts]
  | cons x rest ih =>
    unfold applyOuts
    cases idx with
    | zero =>
      simp only [Nat.add_zero, List.getElem?_cons_zero]
      rw [applyOuts_lookup_below _ _ _ _ _ (by omega)]
      split
      · rfl
      · simp only; rw [lookup_put_same]
    | succ n =>
      have hkey : off + (n + 1) = (off + 1) + n := by omega
      simp only [List.getElem?_cons_succ]
      rw [hkey, ih]
      have hne : ¬ (t.id, off) = (t.id, off + 1 + n) := by intro e; injection e with _ e2; omega
      have hsame : lookup (if (x.addr == "$" || x.amt == 0) = true then s
          else { s with U := put s.U (t.id, off) ⟨x.addr, x.amt, x.frozen⟩,
                        total := if t.coinbase then s.total + x.amt else s.total }).U (t.id, off + 1 + n)
          = lookup s.U (t.id, off + 1 + n) := by
        split
        · rfl
        · simp only; rw [lookup_put]; simp [hne]
      rw [hsame]

/-- `applyOuts` never removes a row -/
theorem applyOuts_lookup_some (t : Tx) (l : List Out) (off : Nat) (s : St) (k : Ver) (u : UItem)
    (h : lookup s.U k = some u) : ∃ u', lookup (applyOuts t l off s).U k = some u' := by
  induction l generalizing off s u with
  | nil => exact ⟨u, by simpa [applyOuts] using h⟩
  | cons x rest ih =>
    unfold applyOuts
    split
    · exact ih _ _ _ h
    · by_cases hk : (t.id, off) = k
      · exact ih _ _ ⟨x.addr, x.amt, x.frozen⟩ (by simp only; rw [lookup_put]; simp [hk])
      · exact ih _ _ u (by simp only; rw [lookup_put]; simp [hk, h])

-- ---------------------------------------------------------------- undoOuts

theorem undoOuts_lookup_otherid (t : Tx) (l : List Out) (off : Nat) (s : St) (k : Ver) (hk : k.1 ≠ t.id) :
    lookup (undoOuts t l off s).U k = lookup s.U k := by
  induction l generalizing off s with
  | nil => simp [undoOuts]
  | cons o rest ih =>
    unfold undoOuts
    rw [ih]
    split
    · rfl
    · simp only
      rw [lookup_del]
      have : ¬ (t.id, off) = k := fun e => hk (by rw [← e])
      simp [this]

theorem undoOuts_lookup_below (t : Tx) (l : List Out) (off : Nat) (s : St) (o : Nat) (h : o < off) :
    lookup (undoOuts t l off s).U (t.id, o) = lookup s.U (t.id, o) := by
  induction l generalizing off s with
  | nil => simp [undoOuts]
  | cons x rest ih =>
    unfold undoOuts
    rw [ih _ _ (by omega)]
    split
    · rfl
    · simp only
      rw [lookup_del]
      have : ¬ (t.id, off) = (t.id, o) := by intro e; injection e with _ e2; omega
      simp [this]

theorem undoOuts_lookup_idx (t : Tx) (l : List Out) (off : Nat) (s : St) (idx : Nat) :
    lookup (undoOuts t l off s).U (t.id, off + idx) =
      match l[idx]? with
      | some o => if (o.addr == "$" || o.amt == 0) = true then lookup s.U (t.id, off + idx) else none
      | none => lookup s.U (t.id, off + idx) := by
  induction l generalizing off s idx with
  | nil => simp [undoOuts]
  | cons x rest ih =>
    unfold undoOuts
    cases idx with
    | zero =>
      simp only [Nat.add_zero, List.getElem?_cons_zero]
      rw [undoOuts_lookup_below _ _ _ _ _ (by omega)]
      split
      · rfl
      · simp only; rw [lookup_del_same]
    | succ n =>
      have hkey : off + (n + 1) = (off + 1) + n := by omega
      simp only [List.getElem?_cons_succ]
      rw [hkey, ih]
      have hne : ¬ (t.id, off) = (t.id, off + 1 + n) := by intro e; injection e with _ e2; omega
      have hsame : lookup (if (x.addr == "$" || x.amt == 0) = true then s
          else { s with U := del s.U (t.id, off),
                        total := if t.coinbase then s.total - x.amt else s.total }).U (t.id, off + 1 + n)
          = lookup s.U (t.id, off + 1 + n) := by
        split
        · rfl
        · simp only; rw [lookup_del]; simp [hne]
      rw [hsame]

/-- `undoOuts` never creates a row -/
theorem undoOuts_lookup_none (t : Tx) (l : List Out) (off : Nat) (s : St) (k : Ver)
    (h : lookup s.U k = none) : lookup (undoOuts t l off s).U k = none := by
  induction l generalizing off s with
  | nil => simpa [undoOuts] using h
  | cons x rest ih =>
    unfold undoOuts
    apply ih
    split
    · exact h
    · simp only; rw [lookup_del, h]; split <;> rfl

-- ---------------------------------------------------------------- payFee

theorem payFee_lookup_otherid (t : Tx) (prop : String) (l : List Out) (off : Nat) (s : St) (k : Ver)
    (hk : k.1 ≠ t.id) : lookup (payFee t prop l off s).U k = lookup s.U k := by
  induction l generalizing off s with
  | nil => simp [payFee]
  | cons o rest ih =>
    unfold payFee
    rw [ih]
    split
    · simp only
      rw [lookup_put]
      have : ¬ (t.id, off) = k := fun e => hk (by rw [← e])
      simp [this]
    · rfl

theorem payFee_lookup_below (t : Tx) (prop : String) (l : List Out) (off : Nat) (s : St) (o : Nat) (h : o < off) :
    lookup (payFee t prop l off s).U (t.id, o) = lookup s.U (t.id, o) := by
  induction l generalizing off s with
  | nil => simp [payFee]
  | cons x rest ih =>
    unfold payFee
    rw [ih _ _ (by omega)]
    split
    · simp only
      rw [lookup_put]
      have : ¬ (t.id, off) = (t.id, o) := by intro e; injection e with _ e2; omega
      simp [this]
    · rfl

theorem payFee_lookup_idx (t : Tx) (prop : String) (l : List Out) (off : Nat) (s : St) (idx : Nat) :
    lookup (payFee t prop l off s).U (t.id, off + idx) =
      match l[idx]? with
      | some o => if (o.addr == "$") = true then some ⟨prop, o.amt, 0⟩ else lookup s.U (t.id, off + idx)
      | none => lookup s.U (t.id, off + idx) := by
  induction l generalizing off s idx with
  | nil => simp [payFee]
  | cons x rest ih =>
    unfold payFee
    cases idx with
    | zero =>
      simp only [Nat.add_zero, List.getElem?_cons_zero]
      rw [payFee_lookup_below _ _ _ _ _ _ (by omega)]
      split
      · simp only; rw [lookup_put_same]
      · rfl
    | succ n =>
      have hkey : off + (n + 1) = (off + 1) + n := by omega
      simp only [List.getElem?_cons_succ]
      rw [hkey, ih]
      have hne : ¬ (t.id, off) = (t.id, off + 1 + n) := by intro e; injection e with _ e2; omega
      have hsame : lookup (if (x.addr == "$") = true then { s with U := put s.U (t.id, off) ⟨prop, x.amt, 0⟩ }
          else s).U (t.id, off + 1 + n) = lookup s.U (t.id, off + 1 + n) := by
        split
        · simp only; rw [lookup_put]; simp [hne]
        · rfl
      rw [hsame]

/-- `payFee` never removes a row -/
theorem payFee_lookup_some (t : Tx) (prop : String) (l : List Out) (off : Nat) (s : St) (k : Ver) (u : UItem)
    (h : lookup s.U k = some u) : ∃ u', lookup (payFee t prop l off s).U k = some u' := by
  induction l generalizing off s u with
  | nil => exact ⟨u, by simpa [payFee] using h⟩
  | cons x rest ih =>
    unfold payFee
    split
    · by_cases hk : (t.id, off) = k
      · exact ih _ _ ⟨prop, x.amt, 0⟩ (by simp only; rw [lookup_put]; simp [hk])
      · exact ih _ _ u (by simp only; rw [lookup_put]; simp [hk, h])
    · exact ih _ _ _ h

-- ---------------------------------------------------------------- undoPayFee

theorem undoPayFee_lookup_otherid (t : Tx) (l : List Out) (off : Nat) (s : St) (k : Ver)
    (hk : k.1 ≠ t.id) : lookup (undoPayFee t l off s).U k = lookup s.U k := by
  induction l generalizing off s with
  | nil => simp [undoPayFee]
  | cons o rest ih =>
    unfold undoPayFee
    rw [ih]
    split
    · simp only
      rw [lookup_del]
      have : ¬ (t.id, off) = k := fun e => hk (by rw [← e])
      simp [this]
    · rfl

theorem undoPayFee_lookup_below (t : Tx) (l : List Out) (off : Nat) (s : St) (o : Nat) (h : o < off) :
    lookup (undoPayFee t l off s).U (t.id, o) = lookup s.U (t.id, o) := by
  induction l generalizing off s with
  | nil => simp [undoPayFee]
  | cons x rest ih =>
    unfold undoPayFee
    rw [ih _ _ (by omega)]
    split
    · simp only
      rw [lookup_del]
      have : ¬ (t.id, off) = (t.id, o) := by intro e; injection e with _ e2; omega
      simp [this]
    · rfl

theorem undoPayFee_lookup_idx (t : Tx) (l : List Out) (off : Nat) (s : St) (idx : Nat) :
    lookup (undoPayFee t l off s).U (t.id, off + idx) =
      match l[idx]? with
      | some o => if (o.addr == "$") = true then none else lookup s.U (t.id, off + idx)
      | none => lookup s.U (t.id, off + idx) := by
  induction l generalizing off s idx with
  | nil => simp [undoPayFee]
  | cons x rest ih =>
    unfold undoPayFee
    cases idx with
    | zero =>
      simp only [Nat.add_zero, List.getElem?_cons_zero]
      rw [undoPayFee_lookup_below _ _ _ _ _ (by omega)]
      split
      · simp only; rw [lookup_del_same]
      · rfl
    | succ n =>
      have hkey : off + (n + 1) = (off + 1) + n := by omega
      simp only [List.getElem?_cons_succ]
      rw [hkey, ih]
      have hne : ¬ (t.id, off) = (t.id, off + 1 + n) := by intro e; injection e with _ e2; omega
      have hsame : lookup (if (x.addr == "$") = true then { s with U := del s.U (t.id, off) }
          else s).U (t.id, off + 1 + n) = lookup s.U (t.id, off + 1 + n) := by
        split
        · simp only; rw [lookup_del]; simp [hne]
        · rfl
      rw [hsame]

theorem undoPayFee_lookup_none (t : Tx) (l : List Out) (off : Nat) (s : St) (k : Ver)
    (h : lookup s.U k = none) : lookup (undoPayFee t l off s).U k = none := by
  induction l generalizing off s with
  | nil => simpa [undoPayFee] using h
  | cons x rest ih =>
    unfold undoPayFee
    apply ih
    split
    · simp only; rw [lookup_del, h]; split <;> rfl
    · exact h

-- ---------------------------------------------------------------- whole transactions

theorem applyTx_lookup_otherid (s : St) (t : Tx) (k : Ver) (hk : k.1 ≠ t.id) :
    lookup (applyTx s t).U k = if k ∈ t.ins.map (fun r => (r.tx, r.off)) then none else lookup s.U k := by
  unfold applyTx
  rw [applyOuts_lookup_otherid _ _ _ _ _ hk]
  simp only
  rw [spendU_lookup, (applyKOut_frame t t.kout 0 s).1]

theorem applyTx_lookup_idx (s : St) (t : Tx) (idx : Nat) (hself : ∀ r ∈ t.ins, r.tx ≠ t.id) :
    lookup (applyTx s t).U (t.id, idx) =
      match t.outs[idx]? with
      | some o => if (o.addr == "$" || o.amt == 0) = true then lookup s.U (t.id, idx)
                  else some ⟨o.addr, o.amt, o.frozen⟩
      | none => lookup s.U (t.id, idx) := by
  have hk : (t.id, idx) ∉ t.ins.map (fun r => (r.tx, r.off)) := by
    intro hm
    obtain ⟨r, hr, he⟩ := List.mem_map.mp hm
    injection he with e1 _
    exact hself r hr e1
  have hbase : lookup (t.ins.foldl (fun u r => del u (r.tx, r.off)) (applyKOut t t.kout 0 s).U) (t.id, idx)
      = lookup s.U (t.id, idx) := by
    rw [spendU_lookup, (applyKOut_frame t t.kout 0 s).1]; simp [hk]
  unfold applyTx
  have := applyOuts_lookup_idx t t.outs 0
    { applyKOut t t.kout 0 s with U := t.ins.foldl (fun u r => del u (r.tx, r.off)) (applyKOut t t.kout 0 s).U } idx
  simp only [Nat.zero_add] at this
  rw [this, hbase]

theorem undoTx_lookup_otherid (e : Env) (s : St) (t : Tx) (k : Ver) (hk : k.1 ≠ t.id)
    (hnot : k ∉ t.ins.map (fun r => (r.tx, r.off))) :
    lookup (undoTx e s t).U k = lookup s.U k := by
  unfold undoTx
  rw [undoOuts_lookup_otherid _ _ _ _ _ hk]
  simp only
  rw [restoreU_lookup_other _ _ _ hnot, (undoKOut_frame e t t.kout s).1]

theorem undoTx_lookup_in (e : Env) (s : St) (t : Tx)
    (hnd : (t.ins.map (fun r => (r.tx, r.off))).Nodup) (hself : ∀ r ∈ t.ins, r.tx ≠ t.id)
    (r : InRef) (hr : r ∈ t.ins) :
    lookup (undoTx e s t).U (r.tx, r.off) = some ⟨r.addr, r.amt, r.frozen⟩ := by
  unfold undoTx
  rw [undoOuts_lookup_otherid _ _ _ _ _ (by simpa using hself r hr)]
  simp only
  rw [restoreU_lookup_in _ _ hnd r hr]

theorem undoTx_lookup_idx (e : Env) (s : St) (t : Tx) (idx : Nat) (hself : ∀ r ∈ t.ins, r.tx ≠ t.id) :
    lookup (undoTx e s t).U (t.id, idx) =
      match t.outs[idx]? with
      | some o => if (o.addr == "$" || o.amt == 0) = true then lookup s.U (t.id, idx) else none
      | none => lookup s.U (t.id, idx) := by
  have hk : (t.id, idx) ∉ t.ins.map (fun r => (r.tx, r.off)) := by
    intro hm
    obtain ⟨r, hr, he⟩ := List.mem_map.mp hm
    injection he with e1 _
    exact hself r hr e1
  have hbase : lookup (t.ins.foldl (fun u r => put u (r.tx, r.off) ⟨r.addr, r.amt, r.frozen⟩)
      (undoKOut e t t.kout s).U) (t.id, idx) = lookup s.U (t.id, idx) := by
    rw [restoreU_lookup_other _ _ _ hk, (undoKOut_frame e t t.kout s).1]
  unfold undoTx
  have := undoOuts_lookup_idx t t.outs 0
    { undoKOut e t t.kout s with
      U := t.ins.foldl (fun u r => put u (r.tx, r.off) ⟨r.addr, r.amt, r.frozen⟩) (undoKOut e t t.kout s).U } idx
  simp only [Nat.zero_add] at this
  rw [this, hbase]

/-- `payFee` at offset 0 by output index -/
theorem payFee_lookup_idx0 (t : Tx) (prop : String) (s : St) (idx : Nat) :
    lookup (payFee t prop t.outs 0 s).U (t.id, idx) =
      match t.outs[idx]? with
      | some o => if (o.addr == "$") = true then some ⟨prop, o.amt, 0⟩ else lookup s.U (t.id, idx)
      | none => lookup s.U (t.id, idx) := by
  have := payFee_lookup_idx t prop t.outs 0 s idx
  simpa only [Nat.zero_add] using this

theorem undoPayFee_lookup_idx0 (t : Tx) (s : St) (idx : Nat) :
    lookup (undoPayFee t t.outs 0 s).U (t.id, idx) =
      match t.outs[idx]? with
      | some o => if (o.addr == "$") = true then none else lookup s.U (t.id, idx)
      | none => lookup s.U (t.id, idx) := by
  have := undoPayFee_lookup_idx t t.outs 0 s idx
  simpa only [Nat.zero_add] using this

/-- decidable form of "no row of the table carries transaction id `i`" -/
theorem lookup_none_of_noid (u : List (Ver × UItem)) (i : Nat) (h : ∀ p ∈ u, p.1.1 ≠ i) :
    ∀ o, lookup u (i, o) = none := by
  intro o
  induction u with
  | nil => rfl
  | cons p r ih =>
    obtain ⟨a, b⟩ := p
    rw [lookup_cons]
    have h1 : ¬ a = (i, o) := by
      intro e2
      have := h (a, b) List.mem_cons_self
      exact this (by simp [e2])
    simp only [h1, ↓reduceIte]
    exact ih (fun p hp => h p (List.mem_cons_of_mem _ hp))

end XV.Chain
