import XV.Lemmas.SnapChain
/-!
Snapshots after a walk (reorganisation): by C01 `walk_canonical` the tables after a successful walk are those of the
canonical state of the destination with the re-submitted pool on top, so the chain theorem of Lemmas/SnapChain.lean
applies to the destination branch, whatever branch the node came from.
-/
namespace XV.Snapshot
open XV.Chain

/-- the ancestor chain of `dest`, oldest first, splits at any of its blocks `B` into the chain of `B` and the blocks
above it; heights separate the two parts -/
theorem ancestors_split_at (e : Env) (hpl : XV.Chain.ParentLower e) (dest B : Nat)
    (hB : B ∈ ancestors e (e.blocks.length + 1) dest) :
    ∃ l2, (ancestors e (e.blocks.length + 1) dest).reverse = (ancestors e (e.blocks.length + 1) B).reverse ++ l2 ∧
      (∀ b ∈ (ancestors e (e.blocks.length + 1) B).reverse, (e.block b).height ≤ (e.block B).height) ∧
      (∀ b ∈ l2, (e.block B).height < (e.block b).height) := by
  obtain ⟨A1, r, hsplit⟩ := List.append_of_mem hB
  have htail := ancestors_tail_eq e hpl dest B A1 r hsplit
  have hpw := ancestors_pairwise e hpl (e.blocks.length + 1) dest
  rw [hsplit] at hpw
  obtain ⟨_, _, h3⟩ := List.pairwise_append.mp hpw
  refine ⟨A1.reverse, ?_, ?_, ?_⟩
  · rw [hsplit, ← htail, List.reverse_append]
  · intro b hb
    exact ancestors_height_le e hpl _ B b (List.mem_reverse.mp hb)
  · intro b hb
    exact h3 b (List.mem_reverse.mp hb) B List.mem_cons_self

end XV.Snapshot

namespace XV.Snapshot
open XV.Chain

/-- **a snapshot after a walk**, for any height table that gives every transaction of the destination chain the height
of its block on that chain. Under the hypotheses of C01 `walk_canonical` (block tree with parent links strictly
down in height, base state `g` well-formed, the chain of the old tip and the old pool valid, the state refining
"canonical state of the old tip + pool"), with `g` holding no keys, the destination chain valid: after a successful
walk to `dest` — undoing any number of blocks and applying any number — the snapshot at any block `B` of the
destination's chain (in particular at the common ancestor of the two branches) reads every key as the canonical
state of `B` does, i.e. as the live reader did when `B` was the tip. Nothing is assumed about the transactions the walk
re-submits. -/
theorem snapshot_walk_gen (e : Env) (hids : EnvIds e) (s : St) (lh : Int) (dest : Nat) (prune : Bool) (g : St)
    (confH : Nat → Option Nat)
    (hpl : ParentLower e) (hok : (walk e s lh dest prune).2 = true) (hinv : KVInv e g)
    (hg : ∀ key, curVer g key = none)
    (hchain : XV.C01.ChainValid e (ancestors e (e.blocks.length + 1) s.pointer).reverse g)
    (hpool : XV.C01.PoolValid e s.pool (XV.C01.canon e g s.pointer))
    (hs : TRefines s (applyPool e s.pool (XV.C01.canon e g s.pointer)))
    (hdchain : XV.C01.ChainValid e (ancestors e (e.blocks.length + 1) dest).reverse g)
    (hconf : ∀ b ∈ ancestors e (e.blocks.length + 1) dest, ∀ i ∈ (e.block b).txs, confH i = some (e.block b).height)
    (B : Nat) (hB : B ∈ ancestors e (e.blocks.length + 1) dest)
    (key : String) (fuel : Nat)
    (hfuel : (chainTxs e (ancestors e (e.blocks.length + 1) dest).reverse).length +
      (walk e s lh dest prune).1.pool.length + 1 ≤ fuel) :
    snapshotGet e (walk e s lh dest prune).1 confH (e.block B).height key fuel = curVer (XV.C01.canon e g B) key := by
  obtain ⟨w1, w2⟩ := XV.C01.walk_canonical e s lh dest prune g hpl hok hinv hchain hpool hs
  have hP := pends_foldl e lh (repostList e s) ({ XV.C01.canon e g dest with pool := [] } : St)
  obtain ⟨l, p1, p2, p3⟩ := hP.run
  have hX : curVer ({ XV.C01.canon e g dest with pool := [] } : St) =
      curVer (replayChain e (ancestors e (e.blocks.length + 1) dest).reverse g) := rfl
  rw [hX] at p2 p3
  have p1' : (walk e s lh dest prune).1.pool = l := by
    rw [w2, p1]; rfl
  obtain ⟨l2, hsplit, hlow, hhigh⟩ := ancestors_split_at e hpl dest B hB
  rw [hsplit] at p2 p3 hdchain hfuel
  have hconfH : ∀ b ∈ (ancestors e (e.blocks.length + 1) B).reverse ++ l2, ∀ i ∈ (e.block b).txs,
      confH i = some (e.block b).height := by
    intro b hb i hi
    rw [← hsplit] at hb
    exact hconf b (List.mem_reverse.mp hb) i hi
  rw [p1'] at hfuel
  show _ = curVer (replayChain e (ancestors e (e.blocks.length + 1) B).reverse g) key
  apply snapshot_chain_core e hids g _ l2 _ _ l _ hg (chainValid_run e _ g hdchain) hconfH hlow hhigh p1' p2
    (funext fun k => (w1.obs.ver k).trans (congrFun p3 k)) key fuel
  have h1 := nWrites_le e (chainTxs e l2 ++ l) key
  rw [chainTxs_append, List.length_append] at hfuel
  rw [List.length_append] at h1
  omega

/-- the same with `confOf` of the destination chain, which has no repeated transaction -/
theorem snapshot_walk_core (e : Env) (hids : EnvIds e) (s : St) (lh : Int) (dest : Nat) (prune : Bool) (g : St)
    (hpl : ParentLower e) (hok : (walk e s lh dest prune).2 = true) (hinv : KVInv e g)
    (hg : ∀ key, curVer g key = none)
    (hchain : XV.C01.ChainValid e (ancestors e (e.blocks.length + 1) s.pointer).reverse g)
    (hpool : XV.C01.PoolValid e s.pool (XV.C01.canon e g s.pointer))
    (hs : TRefines s (applyPool e s.pool (XV.C01.canon e g s.pointer)))
    (hdchain : XV.C01.ChainValid e (ancestors e (e.blocks.length + 1) dest).reverse g)
    (honce : TxOnce e (ancestors e (e.blocks.length + 1) dest))
    (B : Nat) (hB : B ∈ ancestors e (e.blocks.length + 1) dest)
    (key : String) (fuel : Nat)
    (hfuel : (chainTxs e (ancestors e (e.blocks.length + 1) dest).reverse).length +
      (walk e s lh dest prune).1.pool.length + 1 ≤ fuel) :
    snapshotGet e (walk e s lh dest prune).1 (confOf e (ancestors e (e.blocks.length + 1) dest))
      (e.block B).height key fuel = curVer (XV.C01.canon e g B) key :=
  snapshot_walk_gen e hids s lh dest prune g _ hpl hok hinv hg hchain hpool hs hdchain
    (fun b hb i hi => confOf_eq e _ honce b hb i hi) B hB key fuel hfuel

end XV.Snapshot

namespace XV.Snapshot
open XV.Chain

/-- a valid pool (C01 `PoolValid`) is a run of admitted transactions -/
theorem poolValid_run (e : Env) (l : List Nat) (s : St) (h : XV.C01.PoolValid e l s) : RunV e l (curVer s) := by
  induction l generalizing s with
  | nil => trivial
  | cons i rest ih =>
    obtain ⟨⟨lh, hadm⟩, _, _, _, hrest⟩ := h
    refine ⟨admV_of_ok s lh _ hadm, ?_⟩
    rw [← funext (applyTx_view s (e.tx i))]
    exact ih _ hrest

/-- **a snapshot on a node in canonical form** (the state refines "canonical state of the tip, pool applied"): at any
block `B` of the tip's chain it reads every key as the canonical state of `B` does -/
theorem snapshot_canonical_core (e : Env) (hids : EnvIds e) (s : St) (g : St) (hpl : ParentLower e)
    (hg : ∀ key, curVer g key = none)
    (hchain : XV.C01.ChainValid e (ancestors e (e.blocks.length + 1) s.pointer).reverse g)
    (hpool : XV.C01.PoolValid e s.pool (XV.C01.canon e g s.pointer))
    (hs : TRefines s (applyPool e s.pool (XV.C01.canon e g s.pointer)))
    (honce : TxOnce e (ancestors e (e.blocks.length + 1) s.pointer))
    (B : Nat) (hB : B ∈ ancestors e (e.blocks.length + 1) s.pointer)
    (key : String) (fuel : Nat)
    (hfuel : (chainTxs e (ancestors e (e.blocks.length + 1) s.pointer).reverse).length + s.pool.length + 1 ≤ fuel) :
    snapshotGet e s (confOf e (ancestors e (e.blocks.length + 1) s.pointer)) (e.block B).height key fuel =
      curVer (XV.C01.canon e g B) key := by
  have p2 := poolValid_run e s.pool _ hpool
  have hX : curVer (XV.C01.canon e g s.pointer) =
      curVer (replayChain e (ancestors e (e.blocks.length + 1) s.pointer).reverse g) := rfl
  rw [hX] at p2
  have p3 : curVer s = runV e s.pool (curVer (replayChain e (ancestors e (e.blocks.length + 1) s.pointer).reverse g)) := by
    funext k
    rw [hs.obs.ver k, applyPool_view]
    rfl
  obtain ⟨l2, hsplit, hlow, hhigh⟩ := ancestors_split_at e hpl s.pointer B hB
  rw [hsplit] at p2 p3 hchain hfuel
  have hconfH : ∀ b ∈ (ancestors e (e.blocks.length + 1) B).reverse ++ l2, ∀ i ∈ (e.block b).txs,
      confOf e (ancestors e (e.blocks.length + 1) s.pointer) i = some (e.block b).height := by
    intro b hb i hi
    rw [← hsplit] at hb
    exact confOf_eq e _ honce b (List.mem_reverse.mp hb) i hi
  show _ = curVer (replayChain e (ancestors e (e.blocks.length + 1) B).reverse g) key
  apply snapshot_chain_core e hids g _ l2 _ _ s.pool _ hg (chainValid_run e _ g hchain) hconfH hlow hhigh rfl p2
    p3 key fuel
  have h1 := nWrites_le e (chainTxs e l2 ++ s.pool) key
  rw [chainTxs_append, List.length_append] at hfuel
  rw [List.length_append] at h1
  omega

end XV.Snapshot

-- ------------------------------------------------------------------ checkable forms of the C01 side conditions

namespace XV.Snapshot
open XV.Chain XV.C01

/-- the hypotheses of C01 `BlockValid`, as a decidable conjunction (admission at ledger height 0) -/
def blockOk (e : Env) (r : St) (b : Block) : Prop :=
  (applyBlockTxs e 0 b.prop [] b.txs r).map (·.2) = some .ok ∧
  (∀ i ∈ b.txs, (e.tx i).id = i ∧ (∀ x ∈ (e.tx i).ins, x.tx ≠ i) ∧ koutDistinct (e.tx i)) ∧
  b.txs.Nodup ∧ (∀ p ∈ r.U, p.1.1 ∉ b.txs) ∧ FrozenAlong e b.prop b.txs r

instance (e : Env) (r : St) (b : Block) : Decidable (blockOk e r b) := by unfold blockOk; exact inferInstance

theorem blockValid_of_ok (e : Env) (r : St) (b : Block) (h : blockOk e r b) : BlockValid e r b := by
  obtain ⟨h1, h2, h3, h4, h5⟩ := h
  refine ⟨⟨0, fwd_of_res _ _ _ _ _ h1⟩, fun i hi => ⟨(h2 i hi).1, (h2 i hi).2.1, (h2 i hi).2.2⟩, h3, ?_, h5⟩
  intro i hi
  exact absent_of_rows _ _ (fun p hp e' => h4 p hp (e' ▸ hi))

/-- C01 `ChainValid`, decidable -/
def chainOk (e : Env) : List Nat → St → Prop
  | [], _ => True
  | bi :: rest, r => blockOk e r (e.block bi) ∧ chainOk e rest (replayBlock e r (e.block bi))

instance decChainOk (e : Env) : (l : List Nat) → (r : St) → Decidable (chainOk e l r)
  | [], _ => isTrue trivial
  | bi :: rest, r =>
    have := decChainOk e rest (replayBlock e r (e.block bi))
    by unfold chainOk; exact inferInstance

theorem chainValid_of_ok (e : Env) (l : List Nat) (r : St) (h : chainOk e l r) : ChainValid e l r := by
  induction l generalizing r with
  | nil => trivial
  | cons bi rest ih => exact ⟨blockValid_of_ok e r _ h.1, ih _ h.2⟩

/-- C01 `PoolValid`, decidable (admission at ledger height 0) -/
def poolOk (e : Env) : List Nat → St → Prop
  | [], _ => True
  | i :: rest, s => admitTx s 0 (e.tx i) = .ok ∧
      ((e.tx i).id = i ∧ (∀ x ∈ (e.tx i).ins, x.tx ≠ i) ∧ koutDistinct (e.tx i)) ∧
      (∀ p ∈ s.U, p.1.1 ≠ i) ∧ citesFrozen s (e.tx i) ∧ poolOk e rest (applyTx s (e.tx i))

instance decPoolOk (e : Env) : (l : List Nat) → (s : St) → Decidable (poolOk e l s)
  | [], _ => isTrue trivial
  | i :: rest, s =>
    have := decPoolOk e rest (applyTx s (e.tx i))
    by unfold poolOk; exact inferInstance

theorem poolValid_of_ok (e : Env) (l : List Nat) (s : St) (h : poolOk e l s) : PoolValid e l s := by
  induction l generalizing s with
  | nil => trivial
  | cons i rest ih =>
    obtain ⟨h1, h2, h3, h4, h5⟩ := h
    exact ⟨⟨0, h1⟩, ⟨h2.1, h2.2.1, h2.2.2⟩, absent_of_rows _ _ h3, h4, ih _ h5⟩

end XV.Snapshot
