import XV.Lemmas.LedgerInvConfirm
/-!
Ledger main-chain invariant, part 5: a block attached to a side branch (no higher than the trunk) preserves it.
-/
namespace XV.Ledger
open XV.Chain (lookup put del lookup_put lookup_del lookup_put_same lookup_cons lookup_nil)

theorem overw_false_of_stored {l : L} {t b : Nat} {h : Hdr} (hc : lookup l.C t = some b) (hb : lookup l.B b = some h) :
    overw l false t = false := by
  simp [overw, hc, hb]

theorem overw_false_inv {l : L} {t : Nat} (h : overw l false t = false) :
    ∃ b hb, lookup l.C t = some b ∧ lookup l.B b = some hb := by
  unfold overw at h
  cases hc : lookup l.C t with
  | none => simp [hc] at h
  | some b =>
    cases hb : lookup l.B b with
    | none => simp [hc, hb] at h
    | some x => exact ⟨b, x, rfl, hb⟩

theorem side_inv {l l' : L} {id pre ph : Nat} {txids : List Nat} (I : LedgerInv l)
    (A : AddLeaf l l' id pre ph txids)
    (hB : ∀ x, x ≠ id → lookup l'.B x = lookup l.B x)
    (hnew : lookup l'.B id = some ⟨some pre, ph + 1, false, none, txids⟩)
    (hZH : l'.ZH = l.ZH) (hZI : l'.ZI = put (del l.ZI pre) id (ph + 1)) (htip : l'.tip = l.tip)
    (hth : l'.trunkHeight = l.trunkHeight)
    (hC : ∀ t, lookup l'.C t = if t ∈ txids ∧ overw l false t = true then some id else lookup l.C t)
    (hle : ph + 1 ≤ l.trunkHeight)
    (hfresh : ∀ a ha, Anc l a pre → lookup l.B a = some ha → ∀ t, t ∈ txids → t ∉ ha.txs)
    (hidC : ∀ t, lookup l.C t = some id → t ∈ txids) : LedgerInv l' ∧ (CStored l → CStored l') := by
  have T := I.tree
  obtain ⟨th, hts, hth0⟩ := I.tip
  have tipne : l.tip ≠ id := A.ne_of_stored hts
  have onp : ∀ b, OnPath l' b ↔ OnPath l b := by
    intro b
    unfold OnPath
    rw [htip]
    exact A.anc_old_iff T tipne
  have stored_ne : ∀ {b : Nat}, OnPath l b → b ≠ id := by
    intro b hb
    obtain ⟨h, hs⟩ := I.path_stored hb
    exact A.ne_of_stored hs
  refine ⟨?_, ?_⟩
  refine
    { tree := A.tree T, tip := ⟨th, by rw [htip, hB _ tipne]; exact hts, by rw [hth]; exact hth0⟩, trunk := ?_,
      zh_sound := ?_, zh_complete := ?_, next_path := ?_, next_none := ?_, height_le := ?_,
      zi := A.zi T I.zi hZI, zi_nodup := ?_,
      c_sound := ?_, c_total := ?_, c_trunk := ?_, norepeat := A.norepeat T I.norepeat hfresh }
  · -- trunk
    intro b h hb
    rw [onp]
    by_cases e : b = id
    · subst e
      rw [hnew] at hb; cases hb
      constructor
      · intro h; cases h
      · intro h; exact absurd rfl (stored_ne h)
    · rw [hB _ e] at hb
      exact I.trunk b h hb
  · -- zh_sound
    intro k b hz
    rw [hZH] at hz
    obtain ⟨h, hs, e, hp⟩ := I.zh_sound k b hz
    exact ⟨h, by rw [hB _ (A.ne_of_stored hs)]; exact hs, e, (onp b).2 hp⟩
  · -- zh_complete
    intro b h hb hp
    have hp' := (onp b).1 hp
    rw [hB _ (stored_ne hp')] at hb
    rw [hZH]
    exact I.zh_complete b h hb hp'
  · -- next_path
    intro b h c hb hc hpar
    have hc' := (onp c).1 hc
    rw [A.par_old (stored_ne hc')] at hpar
    obtain ⟨_, pb, _, _, sb, _⟩ := T.par_stored hpar
    rw [hB _ (A.ne_of_stored sb)] at hb
    exact I.next_path b h c hb hc' hpar
  · -- next_none
    intro b h hb hor
    by_cases e : b = id
    · subst e
      rw [hnew] at hb; cases hb; rfl
    · rw [hB _ e] at hb
      rw [htip, onp] at hor
      exact I.next_none b h hb hor
  · -- height_le
    intro b h hb
    rw [hth]
    by_cases e : b = id
    · subst e
      rw [hnew] at hb; cases hb; exact hle
    · rw [hB _ e] at hb
      exact I.height_le b h hb
  · -- zi_nodup
    rw [hZI]
    exact nodup_keys_put _ _ _ (nodup_keys_del _ _ I.zi_nodup)
  · -- c_sound
    intro t c ch hc hb
    rw [hC] at hc
    by_cases e : t ∈ txids ∧ overw l false t = true
    · rw [if_pos e] at hc
      cases hc
      rw [hnew] at hb; cases hb
      exact e.1
    · rw [if_neg e] at hc
      by_cases e2 : c = id
      · subst e2
        rw [hnew] at hb; cases hb
        exact hidC t hc
      · rw [hB _ e2] at hb
        exact I.c_sound t c ch hc hb
  · -- c_total
    refine A.c_total I.c_total ?_ ?_
    · intro t c hc
      rw [hC]
      by_cases e : t ∈ txids ∧ overw l false t = true
      · exact ⟨id, by rw [if_pos e]⟩
      · exact ⟨c, by rw [if_neg e]; exact hc⟩
    · intro t ht
      rw [hC]
      by_cases e : overw l false t = true
      · exact ⟨id, by rw [if_pos ⟨ht, e⟩]⟩
      · have e' : overw l false t = false := by simpa using e
        obtain ⟨b, _, h1, _⟩ := overw_false_inv e'
        exact ⟨b, by rw [if_neg (fun h => e h.2)]; exact h1⟩
  · -- c_trunk
    intro b h t hb hp ht
    have hp' := (onp b).1 hp
    rw [hB _ (stored_ne hp')] at hb
    have hc := I.c_trunk b h t hb hp' ht
    rw [hC, if_neg]
    · exact hc
    · rintro ⟨_, h2⟩
      rw [overw_false_of_stored hc hb] at h2
      cases h2
  · -- CStored
    intro CS t c hc
    rw [hC] at hc
    by_cases e : t ∈ txids ∧ overw l false t = true
    · rw [if_pos e] at hc; cases hc
      exact ⟨_, hnew⟩
    · rw [if_neg e] at hc
      obtain ⟨ch, sc⟩ := CS t c hc
      exact ⟨ch, by rw [hB _ (A.ne_of_stored sc)]; exact sc⟩

/-- the side-attachment outcome of `confirm` preserves the invariant -/
theorem confirm_side_inv {l l4 : L} {id pre : Nat} {pb : Hdr} {txs : List (Nat × Bool)} (I : LedgerInv l)
    (hid : lookup l.B id = none) (hp : lookup l.B pre = some pb) (hle : ¬ pb.height + 1 > l.trunkHeight)
    (hc : confirmTxs l id false l.trunkHeight txs 0 (withNew l id pre (pb.height + 1) false (txs.map (·.1))) = some l4)
    (hfresh : ∀ a ha, Anc l a pre → lookup l.B a = some ha → ∀ t, t ∈ txs.map (·.1) → t ∉ ha.txs)
    (hidC : ∀ t, lookup l.C t = some id → t ∈ txs.map (·.1)) : LedgerInv l4 ∧ (CStored l → CStored l4) := by
  obtain ⟨fB, fZH, fZI, ftip, fth, froot⟩ := cTxs_frame _ _ _ _ _ _ _ _ hc
  obtain ⟨wZH, wZI, wC, wroot, wtip, wth⟩ := withNew_rest l id pre (pb.height + 1) false (txs.map (·.1))
  have hB : ∀ x, lookup l4.B x = if id = x then some ⟨some pre, pb.height + 1, false, none, txs.map (·.1)⟩ else lookup l.B x := by
    intro x; rw [fB, withNew_B]
  have hBo : ∀ x, x ≠ id → lookup l4.B x = lookup l.B x := by
    intro x hx
    rw [hB, if_neg (fun e => hx e.symm)]
  have hnew : lookup l4.B id = some ⟨some pre, pb.height + 1, false, none, txs.map (·.1)⟩ := by
    rw [hB, if_pos rfl]
  have A : AddLeaf l l4 id pre pb.height (txs.map (·.1)) :=
    { fresh := hid, pre_stored := ⟨pb, hp, rfl⟩, root := by rw [froot, wroot],
      new := ⟨_, hnew, rfl, rfl, rfl⟩, old := fun x hx => by rw [hBo x hx] }
  refine side_inv I A hBo hnew (by rw [fZH, wZH]; rfl) (by rw [fZI, wZI]) (by rw [ftip, wtip]) (by rw [fth, wth]) ?_
    (by omega) hfresh hidC
  intro t
  rw [cTxs_C _ _ _ _ _ _ _ _ hc t, wC]

end XV.Ledger
