import XV.Model.Sandbox
/-! helper lemmas for `Props/C10.lean` (stores, `get`/`put`, the scan machine) -/
namespace XV.Sandbox

/-! ### ordered association lists -/

def Sorted (l : List (Key × α)) : Prop := l.Pairwise (fun a b => a.1 < b.1)

theorem find_ins_same (k : Key) (v : VData) (l : KV) : find k (ins k v l) = some v := by
  induction l with
  | nil => simp [ins, find]
  | cons e r ih =>
    unfold ins
    split
    · simp [find]
    · split
      · simp [find]
      · rename_i h1 h2
        simp [find, h2, ih]

theorem find_ins_other (k k' : Key) (v : VData) (l : KV) (h : k' ≠ k) :
    find k' (ins k v l) = find k' l := by
  induction l with
  | nil => simp [ins, find, h]
  | cons e r ih =>
    unfold ins
    split
    · simp [find, h]
    · split
      · rename_i h1 h2
        have : k' ≠ e.1 := by omega
        simp [find, h, this]
      · simp [find, ih]

theorem find_some_mem {k : Key} {d : VData} {l : KV} (h : find k l = some d) : (k, d) ∈ l := by
  induction l with
  | nil => simp [find] at h
  | cons e r ih =>
    unfold find at h
    split at h
    · rename_i hk
      have : e = (k, d) := by
        cases e; simp at hk h; simp [hk, h]
      simp [this]
    · exact List.mem_cons_of_mem _ (ih h)

theorem mem_find_of_sorted {k : Key} {d : VData} {l : KV} (hs : Sorted l) (h : (k, d) ∈ l) :
    find k l = some d := by
  induction l with
  | nil => simp at h
  | cons e r ih =>
    unfold find
    rcases List.mem_cons.mp h with h | h
    · subst h; simp
    · have hlt : e.1 < k := (List.pairwise_cons.mp hs).1 _ h
      have : k ≠ e.1 := by omega
      simp [this]
      exact ih (List.pairwise_cons.mp hs).2 h

theorem find_none_iff {k : Key} {l : KV} : find k l = none ↔ k ∉ l.map (·.1) := by
  induction l with
  | nil => simp [find]
  | cons e r ih =>
    unfold find
    by_cases h : k = e.1
    · simp [h]
    · simp [h, ih]

theorem sorted_ins (k : Key) (v : VData) (l : KV) (hs : Sorted l) : Sorted (ins k v l) := by
  induction l with
  | nil => simp [ins, Sorted]
  | cons e r ih =>
    have hr := (List.pairwise_cons.mp hs).2
    have he := (List.pairwise_cons.mp hs).1
    unfold ins
    split
    · rename_i h
      refine List.pairwise_cons.mpr ⟨?_, hs⟩
      intro a ha
      rcases List.mem_cons.mp ha with ha | ha
      · subst ha; exact h
      · have := he a ha
        show k < a.1
        omega
    · split
      · rename_i h1 h2
        refine List.pairwise_cons.mpr ⟨?_, hr⟩
        intro a ha
        have := he a ha
        show k < a.1
        omega
      · rename_i h1 h2
        refine List.pairwise_cons.mpr ⟨?_, ih hr⟩
        intro a ha
        have hk : e.1 < k := by omega
        -- members of `ins k v r` are `(k, v)` or members of `r`
        have hmem : ∀ (l : KV) a, a ∈ ins k v l → a = (k, v) ∨ a ∈ l := by
          intro l
          induction l with
          | nil => intro a ha; simp [ins] at ha; exact Or.inl ha
          | cons e' r' ih' =>
            intro a ha
            unfold ins at ha
            split at ha
            · rcases List.mem_cons.mp ha with ha | ha
              · exact Or.inl ha
              · exact Or.inr ha
            · split at ha
              · rcases List.mem_cons.mp ha with ha | ha
                · exact Or.inl ha
                · exact Or.inr (List.mem_cons_of_mem _ ha)
              · rcases List.mem_cons.mp ha with ha | ha
                · exact Or.inr (by simp [ha])
                · rcases ih' a ha with h | h
                  · exact Or.inl h
                  · exact Or.inr (List.mem_cons_of_mem _ h)
        rcases hmem r a ha with h | h
        · subst h; exact hk
        · exact he a h

theorem Store.get_put_same (m : Store) (b : Bucket) (k : Key) (v : VData) :
    (m.put b k v).get b k = some v := by
  simp [Store.get, Store.put, find_ins_same]

theorem Store.get_put_other (m : Store) (b b' : Bucket) (k k' : Key) (v : VData)
    (h : ¬ (b' = b ∧ k' = k)) : (m.put b k v).get b' k' = m.get b' k' := by
  unfold Store.get Store.put
  by_cases hb : b' = b
  · subst hb
    have : k' ≠ k := fun hk => h ⟨rfl, hk⟩
    simp [find_ins_other _ _ _ _ this]
  · simp [hb]

theorem Store.put_other_bucket (m : Store) (b b' : Bucket) (k : Key) (v : VData) (h : b' ≠ b) :
    (m.put b k v) b' = m b' := by
  simp [Store.put, h]

theorem Store.put_same_bucket (m : Store) (b : Bucket) (k : Key) (v : VData) :
    (m.put b k v) b = ins k v (m b) := by
  simp [Store.put]

/-! ### `get` / `put` -/

/-- the value a reader of the underlying state sees: a deleted or never-written key is absent -/
def backView (r : Reader) (b : Bucket) (k : Key) : Option Nat :=
  match r.get b k with
  | some d => if d.isEmptyVer || d.isDel then none else some d.val
  | none => none

/-- the value this execution sees: its own latest write/delete first, else the underlying state -/
def view (r : Reader) (s : State) (b : Bucket) (k : Key) : Option Nat :=
  match s.outputs.get b k with
  | some d => if d.isDel then none else some d.val
  | none => backView r b k

def GetRes.toOpt : GetRes → Option Nat
  | .val v => some v
  | .notFound => none
  | .hasDel => none

/-- every entry of the read set is what the reader returned for that key; trees are ordered -/
structure Inv (r : Reader) (s : State) : Prop where
  faithful : ∀ b k d, s.inputs.get b k = some d → r.get b k = some d
  sortedIn : ∀ b, Sorted (s.inputs b)
  sortedOut : ∀ b, Sorted (s.outputs b)

theorem Inv.init (r : Reader) : Inv r State.init :=
  ⟨by intro b k d h; simp [State.init, Store.empty, Store.get, find] at h,
   by intro b; simp [State.init, Store.empty, Sorted],
   by intro b; simp [State.init, Store.empty, Sorted]⟩

/-- `s'` is `s` after some more reads: same write set, read set grown by entries of the reader -/
structure Reach (r : Reader) (s s' : State) : Prop where
  outputs_eq : s'.outputs = s.outputs
  mono : ∀ b k d, s.inputs.get b k = some d → s'.inputs.get b k = some d
  fromReader : ∀ b k d, s'.inputs.get b k = some d → s.inputs.get b k = some d ∨ r.get b k = some d
  sorted : (∀ b, Sorted (s.inputs b)) → ∀ b, Sorted (s'.inputs b)

theorem Reach.refl (r : Reader) (s : State) : Reach r s s :=
  ⟨rfl, fun _ _ _ h => h, fun _ _ _ h => Or.inl h, fun h => h⟩

theorem Reach.trans {r : Reader} {s1 s2 s3 : State} (h12 : Reach r s1 s2) (h23 : Reach r s2 s3) :
    Reach r s1 s3 :=
  ⟨h23.outputs_eq.trans h12.outputs_eq,
   fun b k d h => h23.mono b k d (h12.mono b k d h),
   fun b k d h => by
     rcases h23.fromReader b k d h with h | h
     · exact h12.fromReader b k d h
     · exact Or.inr h,
   fun h => h23.sorted (h12.sorted h)⟩

theorem Reach.inv {r : Reader} {s s' : State} (h : Reach r s s') (hi : Inv r s) : Inv r s' :=
  ⟨fun b k d hd => by
     rcases h.fromReader b k d hd with h1 | h1
     · exact hi.faithful b k d h1
     · exact h1,
   h.sorted hi.sortedIn,
   by rw [h.outputs_eq]; exact hi.sortedOut⟩

theorem get_reach (r : Reader) (s : State) (b : Bucket) (k : Key) : Reach r s (get r s b k).1 := by
  unfold get
  cases hout : s.outputs.get b k with
  | some d => by_cases h : d.isDel <;> simp [h] <;> exact Reach.refl r s
  | none =>
    cases hin : s.inputs.get b k with
    | some d => exact Reach.refl r s
    | none =>
      cases hd : r.get b k with
      | none => exact Reach.refl r s
      | some d =>
        refine ⟨rfl, ?_, ?_, ?_⟩
        · intro b' k' d' h
          by_cases hbk : b' = b ∧ k' = k
          · obtain ⟨rfl, rfl⟩ := hbk
            rw [hin] at h; exact absurd h (by simp)
          · simp only []
            rw [Store.get_put_other _ _ _ _ _ _ hbk]; exact h
        · intro b' k' d' h
          simp only [] at h
          by_cases hbk : b' = b ∧ k' = k
          · obtain ⟨rfl, rfl⟩ := hbk
            rw [Store.get_put_same] at h
            cases h
            exact Or.inr hd
          · rw [Store.get_put_other _ _ _ _ _ _ hbk] at h; exact Or.inl h
        · intro hs b'
          simp only []
          by_cases hb : b' = b
          · subst hb
            rw [Store.put_same_bucket]
            exact sorted_ins _ _ _ (hs _)
          · rw [Store.put_other_bucket _ _ _ _ _ hb]; exact hs b'

/-- the result of `Get` is the execution's own latest write, else the underlying state -/
theorem get_spec {r : Reader} {s : State} (hi : Inv r s) (b : Bucket) (k : Key) :
    (get r s b k).2.toOpt = view r s b k := by
  unfold get view
  cases hout : s.outputs.get b k with
  | some d => by_cases h : d.isDel <;> simp [h, GetRes.toOpt]
  | none =>
    cases hin : s.inputs.get b k with
    | some d =>
      have := hi.faithful b k d hin
      simp only [backView, this, classify]
      by_cases h1 : d.isEmptyVer <;> by_cases h2 : d.isDel <;> simp [h1, h2, GetRes.toOpt]
    | none =>
      cases hd : r.get b k with
      | none => simp [backView, hd, GetRes.toOpt]
      | some d =>
        simp only [backView, hd, classify]
        by_cases h1 : d.isEmptyVer <;> by_cases h2 : d.isDel <;> simp [h1, h2, GetRes.toOpt]

/-- after `Get` the key is in the read set, or shadowed by the write set, or the reader refused it -/
theorem get_records (r : Reader) (s : State) (b : Bucket) (k : Key) :
    (get r s b k).1.inputs.get b k ≠ none ∨ s.outputs.get b k ≠ none ∨ r.get b k = none := by
  unfold get
  cases hout : s.outputs.get b k with
  | some d => exact Or.inr (Or.inl (by simp))
  | none =>
    cases hin : s.inputs.get b k with
    | some d => exact Or.inl (by simp [hin])
    | none =>
      cases hd : r.get b k with
      | none => exact Or.inr (Or.inr rfl)
      | some d => exact Or.inl (by simp [Store.get_put_same])

theorem put_outputs (r : Reader) (s : State) (b : Bucket) (k : Key) (v : Nat) :
    (put r s b k v).outputs = s.outputs.put b k ⟨0, v⟩ := by
  unfold put
  by_cases hb : b = transient
  · simp [hb]
  · simp [hb, (get_reach r s b k).outputs_eq]

theorem put_inputs_reach (r : Reader) (s : State) (b : Bucket) (k : Key) (v : Nat) :
    Reach r s { (put r s b k v) with outputs := s.outputs } := by
  unfold put
  by_cases hb : b = transient
  · simp [hb]; exact Reach.refl r s
  · simp [hb]
    have h := get_reach r s b k
    exact ⟨rfl, h.mono, h.fromReader, h.sorted⟩

theorem put_inv {r : Reader} {s : State} (hi : Inv r s) (b : Bucket) (k : Key) (v : Nat) :
    Inv r (put r s b k v) := by
  have h := put_inputs_reach r s b k v
  have hi' := h.inv hi
  refine ⟨hi'.faithful, hi'.sortedIn, ?_⟩
  intro b'
  rw [put_outputs]
  by_cases hb : b' = b
  · subst hb; rw [Store.put_same_bucket]; exact sorted_ins _ _ _ (hi.sortedOut _)
  · rw [Store.put_other_bucket _ _ _ _ _ hb]; exact hi.sortedOut b'

/-! ### the pure merge the iterator stack evaluates lazily -/

/-- two-way merge, equal keys: the front element wins and the back one is dropped -/
def merge : KV → KV → KV
  | [], ys => ys
  | x :: xs, [] => x :: xs
  | x :: xs, y :: ys =>
    if x.1 = y.1 then x :: merge xs ys
    else if x.1 < y.1 then x :: merge xs (y :: ys)
    else y :: merge (x :: xs) ys
termination_by xs ys => xs.length + ys.length

theorem merge_nil_right (xs : KV) : merge xs [] = xs := by
  cases xs <;> simp [merge]

theorem merge_nil_left (ys : KV) : merge [] ys = ys := by
  simp [merge]

def keys (l : List (Key × α)) : List Key := l.map (·.1)

theorem keys_merge (xs ys : KV) (k : Key) : k ∈ keys (merge xs ys) ↔ k ∈ keys xs ∨ k ∈ keys ys := by
  fun_induction merge xs ys with
  | case1 ys => simp [keys]
  | case2 x xs => simp [keys]
  | case3 x xs y ys h ih =>
    simp only [keys, List.map_cons, List.mem_cons] at ih ⊢
    rw [ih]
    constructor
    · rintro (h1 | h1 | h1)
      · exact Or.inl (Or.inl h1)
      · exact Or.inl (Or.inr h1)
      · exact Or.inr (Or.inr h1)
    · rintro ((h1 | h1) | (h1 | h1))
      · exact Or.inl h1
      · exact Or.inr (Or.inl h1)
      · exact Or.inl (by omega)
      · exact Or.inr (Or.inr h1)
  | case4 x xs y ys h1 h2 ih =>
    simp only [keys, List.map_cons, List.mem_cons] at ih ⊢
    rw [ih]
    constructor
    · rintro (h | h | h | h)
      · exact Or.inl (Or.inl h)
      · exact Or.inl (Or.inr h)
      · exact Or.inr (Or.inl h)
      · exact Or.inr (Or.inr h)
    · rintro ((h | h) | (h | h))
      · exact Or.inl h
      · exact Or.inr (Or.inl h)
      · exact Or.inr (Or.inr (Or.inl h))
      · exact Or.inr (Or.inr (Or.inr h))
  | case5 x xs y ys h1 h2 ih =>
    simp only [keys, List.map_cons, List.mem_cons] at ih ⊢
    rw [ih]
    constructor
    · rintro (h | (h | h) | h)
      · exact Or.inr (Or.inl h)
      · exact Or.inl (Or.inl h)
      · exact Or.inl (Or.inr h)
      · exact Or.inr (Or.inr h)
    · rintro ((h | h) | (h | h))
      · exact Or.inr (Or.inl (Or.inl h))
      · exact Or.inr (Or.inl (Or.inr h))
      · exact Or.inl h
      · exact Or.inr (Or.inr h)

theorem length_merge_le (xs ys : KV) : (merge xs ys).length ≤ xs.length + ys.length := by
  fun_induction merge xs ys with
  | case1 ys => simp
  | case2 x xs => simp
  | case3 x xs y ys h ih => simp only [List.length_cons]; omega
  | case4 x xs y ys h1 h2 ih => simp only [List.length_cons] at ih ⊢; omega
  | case5 x xs y ys h1 h2 ih => simp only [List.length_cons] at ih ⊢; omega

theorem mem_keys_of_mem {e : Key × α} {l : List (Key × α)} (h : e ∈ l) : e.1 ∈ keys l :=
  List.mem_map_of_mem h

theorem sorted_cons_iff {e : Key × α} {l : List (Key × α)} :
    Sorted (e :: l) ↔ (∀ k ∈ keys l, e.1 < k) ∧ Sorted l := by
  unfold Sorted keys
  rw [List.pairwise_cons]
  constructor
  · rintro ⟨h1, h2⟩
    refine ⟨?_, h2⟩
    intro k hk
    obtain ⟨a, ha, rfl⟩ := List.mem_map.mp hk
    exact h1 a ha
  · rintro ⟨h1, h2⟩
    exact ⟨fun a ha => h1 _ (List.mem_map_of_mem ha), h2⟩

theorem sorted_merge (xs ys : KV) (hx : Sorted xs) (hy : Sorted ys) : Sorted (merge xs ys) := by
  fun_induction merge xs ys with
  | case1 ys => exact hy
  | case2 x xs => exact hx
  | case3 x xs y ys h ih =>
    obtain ⟨hx1, hx2⟩ := sorted_cons_iff.mp hx
    obtain ⟨hy1, hy2⟩ := sorted_cons_iff.mp hy
    refine sorted_cons_iff.mpr ⟨?_, ih hx2 hy2⟩
    intro k hk
    rcases (keys_merge _ _ _).mp hk with h1 | h1
    · exact hx1 k h1
    · have := hy1 k h1; omega
  | case4 x xs y ys h1 h2 ih =>
    obtain ⟨hx1, hx2⟩ := sorted_cons_iff.mp hx
    obtain ⟨hy1, hy2⟩ := sorted_cons_iff.mp hy
    refine sorted_cons_iff.mpr ⟨?_, ih hx2 hy⟩
    intro k hk
    rcases (keys_merge _ _ _).mp hk with h3 | h3
    · exact hx1 k h3
    · simp only [keys, List.map_cons, List.mem_cons] at h3
      rcases h3 with h3 | h3
      · omega
      · have := hy1 k h3; omega
  | case5 x xs y ys h1 h2 ih =>
    obtain ⟨hx1, hx2⟩ := sorted_cons_iff.mp hx
    obtain ⟨hy1, hy2⟩ := sorted_cons_iff.mp hy
    refine sorted_cons_iff.mpr ⟨?_, ih hx hy2⟩
    intro k hk
    rcases (keys_merge _ _ _).mp hk with h3 | h3
    · simp only [keys, List.map_cons, List.mem_cons] at h3
      rcases h3 with h3 | h3
      · omega
      · have := hx1 k h3; omega
    · exact hy1 k h3

/-- membership in a merge of ordered lists: the front list shadows the back list key by key -/
theorem mem_merge (xs ys : KV) (hx : Sorted xs) (hy : Sorted ys) (e : Elem) :
    e ∈ merge xs ys ↔ e ∈ xs ∨ (e ∈ ys ∧ e.1 ∉ keys xs) := by
  fun_induction merge xs ys with
  | case1 ys => simp [keys]
  | case2 x xs => simp
  | case3 x xs y ys h ih =>
    obtain ⟨hx1, hx2⟩ := sorted_cons_iff.mp hx
    obtain ⟨hy1, hy2⟩ := sorted_cons_iff.mp hy
    simp only [List.mem_cons, ih hx2 hy2, keys, List.map_cons, not_or]
    constructor
    · rintro (h1 | h1 | ⟨h1, h2⟩)
      · exact Or.inl (Or.inl h1)
      · exact Or.inl (Or.inr h1)
      · refine Or.inr ⟨Or.inr h1, ?_, h2⟩
        have := hy1 _ (mem_keys_of_mem h1); omega
    · rintro ((h1 | h1) | ⟨h1 | h1, h2, h3⟩)
      · exact Or.inl h1
      · exact Or.inr (Or.inl h1)
      · subst h1; exact absurd h.symm h2
      · exact Or.inr (Or.inr ⟨h1, h3⟩)
  | case4 x xs y ys h1 h2 ih =>
    obtain ⟨hx1, hx2⟩ := sorted_cons_iff.mp hx
    obtain ⟨hy1, hy2⟩ := sorted_cons_iff.mp hy
    simp only [List.mem_cons, ih hx2 hy, keys, List.map_cons, not_or]
    constructor
    · rintro (h3 | h3 | ⟨h3 | h3, h4⟩)
      · exact Or.inl (Or.inl h3)
      · exact Or.inl (Or.inr h3)
      · subst h3; exact Or.inr ⟨Or.inl rfl, by omega, h4⟩
      · refine Or.inr ⟨Or.inr h3, ?_, h4⟩
        have := hy1 _ (mem_keys_of_mem h3); omega
    · rintro ((h3 | h3) | ⟨h3, h4, h5⟩)
      · exact Or.inl h3
      · exact Or.inr (Or.inl h3)
      · exact Or.inr (Or.inr ⟨h3, h5⟩)
  | case5 x xs y ys h1 h2 ih =>
    obtain ⟨hx1, hx2⟩ := sorted_cons_iff.mp hx
    obtain ⟨hy1, hy2⟩ := sorted_cons_iff.mp hy
    simp only [List.mem_cons, ih hx hy2, keys, List.map_cons, not_or]
    constructor
    · rintro (h3 | (h3 | h3) | ⟨h3, h4, h5⟩)
      · subst h3
        refine Or.inr ⟨Or.inl rfl, by omega, ?_⟩
        intro hm
        obtain ⟨a, ha, hak⟩ := List.mem_map.mp hm
        have := hx1 _ (mem_keys_of_mem ha)
        omega
      · exact Or.inl (Or.inl h3)
      · exact Or.inl (Or.inr h3)
      · exact Or.inr ⟨Or.inr h3, h4, h5⟩
    · rintro ((h3 | h3) | ⟨h3 | h3, h4, h5⟩)
      · exact Or.inr (Or.inl (Or.inl h3))
      · exact Or.inr (Or.inl (Or.inr h3))
      · exact Or.inl h3
      · exact Or.inr (Or.inr ⟨h3, h4, h5⟩)

/-! ### the scan machine evaluates `filter (merge O (merge F (strip B)))` lazily -/

def optL (o : Option Elem) : KV := match o with | none => [] | some e => [e]
def stripL (c : Cfg) (l : KV) : KV := l.filter (fun e => !c.inner e.2)
/-- what the inner multiIterator will still yield after its look-ahead -/
def innerL (c : Cfg) (sc : Scan) : KV := merge sc.fi (optL sc.bp ++ stripL c sc.br)
/-- what the outer multiIterator will still yield -/
def pending (c : Cfg) (sc : Scan) : KV := merge sc.o (optL sc.ip ++ innerL c sc)

theorem optL_head_tail (l : KV) : optL l.head? ++ l.tail = l := by
  cases l <;> simp [optL]

/-- key `k` of bucket `b` has been looked up: it is in the read set, or shadowed by the write set,
or the reader has no entry for it -/
def Rec (r : Reader) (s : State) (b : Bucket) (k : Key) : Prop :=
  s.inputs.get b k ≠ none ∨ s.outputs.get b k ≠ none ∨ r.get b k = none

theorem Rec.mono {r : Reader} {s s' : State} {b : Bucket} {k : Key} (h : Reach r s s')
    (hr : Rec r s b k) : Rec r s' b k := by
  rcases hr with hr | hr | hr
  · left
    cases hd : s.inputs.get b k with
    | none => exact absurd hd hr
    | some d => rw [h.mono b k d hd]; simp
  · right; left; rw [h.outputs_eq]; exact hr
  · right; right; exact hr

/-- the backend iterator: `B` is everything it iterates, `pre ++ bp` has been pulled (and looked up) -/
structure BackInv (r : Reader) (b : Bucket) (B : KV) (s : State) (bp : Option Elem) (br : KV) : Prop where
  exhausted : bp = none → br = []
  split : ∃ pre, B = pre ++ (optL bp ++ br) ∧ ∀ e ∈ pre ++ optL bp, Rec r s b e.1

theorem backNext_spec (c : Cfg) (r : Reader) (b : Bucket) (B : KV) :
    ∀ (br : KV) (s : State) (pre : KV), B = pre ++ br → (∀ e ∈ pre, Rec r s b e.1) →
      optL (backNext c r b s br).2.1 ++ stripL c (backNext c r b s br).2.2 = stripL c br ∧
      BackInv r b B (backNext c r b s br).1 (backNext c r b s br).2.1 (backNext c r b s br).2.2 ∧
      Reach r s (backNext c r b s br).1 := by
  intro br
  induction br with
  | nil =>
    intro s pre hB hpre
    simp only [backNext, optL, stripL, List.filter_nil, List.append_nil]
    exact ⟨trivial, ⟨fun _ => rfl, pre, by simpa [optL] using hB, by simpa [optL] using hpre⟩, Reach.refl r s⟩
  | cons e rest ih =>
    intro s pre hB hpre
    have hre := get_reach r s b e.1
    have hrec : Rec r (get r s b e.1).1 b e.1 := by
      rcases get_records r s b e.1 with h | h | h
      · exact Or.inl h
      · exact Or.inr (Or.inl (by rw [hre.outputs_eq]; exact h))
      · exact Or.inr (Or.inr h)
    have hpre' : ∀ x ∈ pre ++ [e], Rec r (get r s b e.1).1 b x.1 := by
      intro x hx
      rcases List.mem_append.mp hx with hx | hx
      · exact (hpre x hx).mono hre
      · simp at hx; subst hx; exact hrec
    unfold backNext
    by_cases hc : c.inner e.2
    · simp only [hc, if_true]
      obtain ⟨h1, h2, h3⟩ := ih (get r s b e.1).1 (pre ++ [e]) (by simp [hB]) hpre'
      refine ⟨?_, h2, hre.trans h3⟩
      rw [h1]; simp [stripL, hc]
    · simp only [hc]
      refine ⟨by simp [optL, stripL, hc], ⟨fun h => by simp at h, pre, by simpa [optL] using hB, ?_⟩, hre⟩
      simpa [optL] using hpre'

theorem innerNext_spec (c : Cfg) (r : Reader) (b : Bucket) (B : KV) (s : State) (sc : Scan)
    (hb : BackInv r b B s sc.bp sc.br) :
    (innerNext c r b s sc).2.2 = (innerL c sc).head? ∧
    innerL c (innerNext c r b s sc).2.1 = (innerL c sc).tail ∧
    (innerNext c r b s sc).2.1.o = sc.o ∧ (innerNext c r b s sc).2.1.ip = sc.ip ∧
    BackInv r b B (innerNext c r b s sc).1 (innerNext c r b s sc).2.1.bp (innerNext c r b s sc).2.1.br ∧
    Reach r s (innerNext c r b s sc).1 := by
  obtain ⟨o, fi, bp, br, ip⟩ := sc
  obtain ⟨hex, pre, hB, hpre⟩ := hb
  simp only at hex hB hpre
  obtain ⟨h1, h2, h3⟩ := backNext_spec c r b B br s (pre ++ optL bp) (by simp [hB]) hpre
  cases fi with
  | nil =>
    cases bp with
    | none =>
      have hbr := hex rfl
      subst hbr
      have e : innerNext c r b s ⟨o, [], none, [], ip⟩ = (s, ⟨o, [], none, [], ip⟩, none) := by
        simp [innerNext, pick]
      rw [e]
      exact ⟨by simp [innerL, optL, stripL, merge], by simp [innerL, optL, stripL, merge], rfl, rfl,
        ⟨fun _ => rfl, pre, hB, hpre⟩, Reach.refl r s⟩
    | some y =>
      have e : innerNext c r b s ⟨o, [], some y, br, ip⟩ =
          ((backNext c r b s br).1, ⟨o, [], (backNext c r b s br).2.1, (backNext c r b s br).2.2, ip⟩, some y) := by
        simp [innerNext, pick]
      rw [e]
      refine ⟨by simp [innerL, optL, merge], ?_, rfl, rfl, h2, h3⟩
      simp only [innerL, merge_nil_left]
      rw [h1]; simp [optL]
  | cons x xs =>
    cases bp with
    | none =>
      have hbr := hex rfl
      subst hbr
      have e : innerNext c r b s ⟨o, x :: xs, none, [], ip⟩ = (s, ⟨o, xs, none, [], ip⟩, some x) := by
        simp [innerNext, pick]
      rw [e]
      exact ⟨by simp [innerL, optL, stripL, merge_nil_right], by simp [innerL, optL, stripL, merge_nil_right],
        rfl, rfl, ⟨fun _ => rfl, pre, hB, hpre⟩, Reach.refl r s⟩
    | some y =>
      by_cases hxy : x.1 = y.1
      · have e : innerNext c r b s ⟨o, x :: xs, some y, br, ip⟩ =
            ((backNext c r b s br).1, ⟨o, xs, (backNext c r b s br).2.1, (backNext c r b s br).2.2, ip⟩, some x) := by
          simp [innerNext, pick, hxy]
        rw [e]
        have hm : innerL c ⟨o, x :: xs, some y, br, ip⟩ = x :: merge xs (stripL c br) := by
          simp only [innerL, optL, List.cons_append, List.nil_append]
          rw [merge]; simp [hxy]
        rw [hm]
        exact ⟨rfl, by simp only [innerL, h1, List.tail_cons], rfl, rfl, h2, h3⟩
      · by_cases hlt : x.1 < y.1
        · have e : innerNext c r b s ⟨o, x :: xs, some y, br, ip⟩ = (s, ⟨o, xs, some y, br, ip⟩, some x) := by
            simp [innerNext, pick, hxy, hlt]
          rw [e]
          have hm : innerL c ⟨o, x :: xs, some y, br, ip⟩ = x :: merge xs (y :: stripL c br) := by
            simp only [innerL, optL, List.cons_append, List.nil_append]
            rw [merge]; simp [hxy, hlt]
          rw [hm]
          exact ⟨rfl, by simp [innerL, optL], rfl, rfl, ⟨hex, pre, hB, hpre⟩, Reach.refl r s⟩
        · have e : innerNext c r b s ⟨o, x :: xs, some y, br, ip⟩ =
              ((backNext c r b s br).1, ⟨o, x :: xs, (backNext c r b s br).2.1, (backNext c r b s br).2.2, ip⟩, some y) := by
            simp [innerNext, pick, hxy, hlt]
          rw [e]
          have hm : innerL c ⟨o, x :: xs, some y, br, ip⟩ = y :: merge (x :: xs) (stripL c br) := by
            simp only [innerL, optL, List.cons_append, List.nil_append]
            rw [merge]; simp [hxy, hlt]
          rw [hm]
          exact ⟨rfl, by simp only [innerL, h1, List.tail_cons], rfl, rfl, h2, h3⟩

structure ScanInv (c : Cfg) (r : Reader) (b : Bucket) (B : KV) (s : State) (sc : Scan) : Prop where
  back : BackInv r b B s sc.bp sc.br
  ipNone : sc.ip = none → innerL c sc = []

theorem head?_eq_none_iff' {l : KV} : l.head? = none ↔ l = [] := by
  cases l <;> simp

theorem outerNext_spec (c : Cfg) (r : Reader) (b : Bucket) (B : KV) (s : State) (sc : Scan)
    (h : ScanInv c r b B s sc) :
    (outerNext c r b s sc).2.2 = (pending c sc).head? ∧
    pending c (outerNext c r b s sc).2.1 = (pending c sc).tail ∧
    ScanInv c r b B (outerNext c r b s sc).1 (outerNext c r b s sc).2.1 ∧
    Reach r s (outerNext c r b s sc).1 := by
  obtain ⟨g1, g2, g3, g4, g5, g6⟩ := innerNext_spec c r b B s sc h.back
  obtain ⟨o, fi, bp, br, ip⟩ := sc
  obtain ⟨hback, hip⟩ := h
  simp only at hback hip g3 g4
  -- the scan after the inner iterator has been advanced and its result taken as the new look-ahead
  have adv : ∀ o', ScanInv c r b B (innerNext c r b s ⟨o, fi, bp, br, ip⟩).1
        ⟨o', (innerNext c r b s ⟨o, fi, bp, br, ip⟩).2.1.fi, (innerNext c r b s ⟨o, fi, bp, br, ip⟩).2.1.bp,
          (innerNext c r b s ⟨o, fi, bp, br, ip⟩).2.1.br, (innerNext c r b s ⟨o, fi, bp, br, ip⟩).2.2⟩ ∧
      optL (innerNext c r b s ⟨o, fi, bp, br, ip⟩).2.2 ++ innerL c
        ⟨o', (innerNext c r b s ⟨o, fi, bp, br, ip⟩).2.1.fi, (innerNext c r b s ⟨o, fi, bp, br, ip⟩).2.1.bp,
          (innerNext c r b s ⟨o, fi, bp, br, ip⟩).2.1.br, (innerNext c r b s ⟨o, fi, bp, br, ip⟩).2.2⟩
        = innerL c ⟨o, fi, bp, br, ip⟩ := by
    intro o'
    have hL : ∀ x, innerL c ⟨o', (innerNext c r b s ⟨o, fi, bp, br, ip⟩).2.1.fi,
        (innerNext c r b s ⟨o, fi, bp, br, ip⟩).2.1.bp, (innerNext c r b s ⟨o, fi, bp, br, ip⟩).2.1.br, x⟩
        = (innerL c ⟨o, fi, bp, br, ip⟩).tail := by
      intro x; rw [← g2]; rfl
    refine ⟨⟨g5, ?_⟩, ?_⟩
    · intro hn
      simp only at hn
      rw [hL, show innerL c ⟨o, fi, bp, br, ip⟩ = [] from head?_eq_none_iff'.mp (g1 ▸ hn)]
      rfl
    · rw [hL, g1, optL_head_tail]
  cases o with
  | nil =>
    cases ip with
    | none =>
      have e : outerNext c r b s ⟨[], fi, bp, br, none⟩ = (s, ⟨[], fi, bp, br, none⟩, none) := by
        simp [outerNext, pick]
      rw [e]
      have : pending c ⟨[], fi, bp, br, none⟩ = [] := by
        simp only [pending, optL, List.nil_append, merge_nil_left]; exact hip rfl
      rw [this]
      exact ⟨rfl, rfl, ⟨hback, hip⟩, Reach.refl r s⟩
    | some y =>
      have e : outerNext c r b s ⟨[], fi, bp, br, some y⟩ =
          ((innerNext c r b s ⟨[], fi, bp, br, some y⟩).1,
           ⟨[], (innerNext c r b s ⟨[], fi, bp, br, some y⟩).2.1.fi, (innerNext c r b s ⟨[], fi, bp, br, some y⟩).2.1.bp,
             (innerNext c r b s ⟨[], fi, bp, br, some y⟩).2.1.br, (innerNext c r b s ⟨[], fi, bp, br, some y⟩).2.2⟩,
           some y) := by
        simp [outerNext, pick]
      rw [e]
      obtain ⟨a1, a2⟩ := adv []
      have hp : pending c ⟨[], fi, bp, br, some y⟩ = y :: innerL c ⟨[], fi, bp, br, some y⟩ := by
        simp [pending, optL, merge_nil_left]
      rw [hp]
      refine ⟨rfl, ?_, a1, g6⟩
      simp only [pending, merge_nil_left, List.tail_cons]
      exact a2
  | cons x xs =>
    cases ip with
    | none =>
      have e : outerNext c r b s ⟨x :: xs, fi, bp, br, none⟩ = (s, ⟨xs, fi, bp, br, none⟩, some x) := by
        simp [outerNext, pick]
      rw [e]
      have hi : innerL c ⟨x :: xs, fi, bp, br, none⟩ = [] := hip rfl
      have hi' : innerL c ⟨xs, fi, bp, br, none⟩ = [] := hi
      have hp : pending c ⟨x :: xs, fi, bp, br, none⟩ = x :: xs := by
        simp only [pending, optL, List.nil_append, hi, merge_nil_right]
      have hp' : pending c ⟨xs, fi, bp, br, none⟩ = xs := by
        simp only [pending, optL, List.nil_append, hi', merge_nil_right]
      rw [hp, hp']
      exact ⟨rfl, rfl, ⟨hback, fun _ => hi'⟩, Reach.refl r s⟩
    | some y =>
      have hL : ∀ o1 o2, innerL c ⟨o1, fi, bp, br, some y⟩ = innerL c ⟨o2, fi, bp, br, some y⟩ := fun _ _ => rfl
      by_cases hxy : x.1 = y.1
      · have e : outerNext c r b s ⟨x :: xs, fi, bp, br, some y⟩ =
            ((innerNext c r b s ⟨x :: xs, fi, bp, br, some y⟩).1,
             ⟨xs, (innerNext c r b s ⟨x :: xs, fi, bp, br, some y⟩).2.1.fi, (innerNext c r b s ⟨x :: xs, fi, bp, br, some y⟩).2.1.bp,
               (innerNext c r b s ⟨x :: xs, fi, bp, br, some y⟩).2.1.br, (innerNext c r b s ⟨x :: xs, fi, bp, br, some y⟩).2.2⟩,
             some x) := by
          simp [outerNext, pick, hxy]
        rw [e]
        obtain ⟨a1, a2⟩ := adv xs
        have hp : pending c ⟨x :: xs, fi, bp, br, some y⟩ = x :: merge xs (innerL c ⟨x :: xs, fi, bp, br, some y⟩) := by
          simp only [pending, optL, List.cons_append, List.nil_append]
          rw [merge]; simp [hxy]
        rw [hp]
        refine ⟨rfl, ?_, a1, g6⟩
        simp only [pending, List.tail_cons]
        rw [a2]
      · by_cases hlt : x.1 < y.1
        · have e : outerNext c r b s ⟨x :: xs, fi, bp, br, some y⟩ = (s, ⟨xs, fi, bp, br, some y⟩, some x) := by
            simp [outerNext, pick, hxy, hlt]
          rw [e]
          have hp : pending c ⟨x :: xs, fi, bp, br, some y⟩ =
              x :: merge xs (y :: innerL c ⟨x :: xs, fi, bp, br, some y⟩) := by
            simp only [pending, optL, List.cons_append, List.nil_append]
            rw [merge]; simp [hxy, hlt]
          rw [hp]
          refine ⟨rfl, ?_, ⟨hback, fun hn => by simp at hn⟩, Reach.refl r s⟩
          simp only [pending, optL, List.cons_append, List.nil_append, List.tail_cons]
          rw [hL xs (x :: xs)]
        · have e : outerNext c r b s ⟨x :: xs, fi, bp, br, some y⟩ =
              ((innerNext c r b s ⟨x :: xs, fi, bp, br, some y⟩).1,
               ⟨x :: xs, (innerNext c r b s ⟨x :: xs, fi, bp, br, some y⟩).2.1.fi, (innerNext c r b s ⟨x :: xs, fi, bp, br, some y⟩).2.1.bp,
                 (innerNext c r b s ⟨x :: xs, fi, bp, br, some y⟩).2.1.br, (innerNext c r b s ⟨x :: xs, fi, bp, br, some y⟩).2.2⟩,
               some y) := by
            simp [outerNext, pick, hxy, hlt]
          rw [e]
          obtain ⟨a1, a2⟩ := adv (x :: xs)
          have hp : pending c ⟨x :: xs, fi, bp, br, some y⟩ =
              y :: merge (x :: xs) (innerL c ⟨x :: xs, fi, bp, br, some y⟩) := by
            simp only [pending, optL, List.cons_append, List.nil_append]
            rw [merge]; simp [hxy, hlt]
          rw [hp]
          refine ⟨rfl, ?_, a1, g6⟩
          simp only [pending, List.tail_cons]
          rw [a2]

def filterOut (c : Cfg) (l : KV) : KV := l.filter (fun e => !c.outer e.2)

theorem scanNext_spec (c : Cfg) (r : Reader) (b : Bucket) (B : KV) :
    ∀ (fuel : Nat) (s : State) (sc : Scan), ScanInv c r b B s sc → (pending c sc).length < fuel →
      (∃ dropped, pending c sc = dropped ++ (optL (scanNext c r b fuel s sc).2.2 ++ pending c (scanNext c r b fuel s sc).2.1) ∧
        ∀ d ∈ dropped, c.outer d.2 = true) ∧
      (∀ e, (scanNext c r b fuel s sc).2.2 = some e → c.outer e.2 = false) ∧
      ((scanNext c r b fuel s sc).2.2 = none → pending c (scanNext c r b fuel s sc).2.1 = []) ∧
      ScanInv c r b B (scanNext c r b fuel s sc).1 (scanNext c r b fuel s sc).2.1 ∧
      Reach r s (scanNext c r b fuel s sc).1 := by
  intro fuel
  induction fuel with
  | zero => intro s sc _ h; exact absurd h (Nat.not_lt_zero _)
  | succ fuel ih =>
    intro s sc hinv hlen
    obtain ⟨q1, q2, q3, q4⟩ := outerNext_spec c r b B s sc hinv
    unfold scanNext
    generalize hq : outerNext c r b s sc = q at q1 q2 q3 q4
    obtain ⟨s', sc', y⟩ := q
    simp only at q1 q2 q3 q4
    cases y with
    | none =>
      have hp : pending c sc = [] := head?_eq_none_iff'.mp q1.symm
      have hp' : pending c sc' = [] := by rw [q2, hp]; rfl
      simp only
      exact ⟨⟨[], by simp [optL, hp, hp'], by simp⟩, by simp, fun _ => hp', q3, q4⟩
    | some e =>
      have hp : pending c sc = e :: pending c sc' := by
        rw [q2]
        cases hpe : pending c sc with
        | nil => rw [hpe] at q1; simp at q1
        | cons a l => rw [hpe] at q1; simp at q1; simp [q1]
      simp only
      by_cases ho : c.outer e.2 = true
      · simp only [ho, if_true]
        have hlen' : (pending c sc').length < fuel := by
          rw [hp] at hlen; simp only [List.length_cons] at hlen; omega
        obtain ⟨⟨dropped, hd1, hd2⟩, i2, i3, i4, i5⟩ := ih s' sc' q3 hlen'
        refine ⟨⟨e :: dropped, ?_, ?_⟩, i2, i3, i4, q4.trans i5⟩
        · rw [hp, hd1]; simp
        · intro d hd
          rcases List.mem_cons.mp hd with hd | hd
          · subst hd; exact ho
          · exact hd2 d hd
      · simp only [ho, if_false, Bool.false_eq_true]
        refine ⟨⟨[], by simp [optL, hp], by simp⟩, ?_, by simp, q3, q4⟩
        intro e' he'
        simp at he'; subst he'
        simpa using ho

theorem pending_length_lt_size (c : Cfg) (sc : Scan) : (pending c sc).length < sc.size + 1 := by
  have h1 := length_merge_le sc.o (optL sc.ip ++ innerL c sc)
  have h2 := length_merge_le sc.fi (optL sc.bp ++ stripL c sc.br)
  have h3 : (stripL c sc.br).length ≤ sc.br.length := List.length_filter_le _ _
  have h4 : (optL sc.ip).length ≤ 1 := by cases sc.ip <;> simp [optL]
  have h5 : (optL sc.bp).length ≤ 1 := by cases sc.bp <;> simp [optL]
  simp only [pending, innerL, Scan.size, List.length_append] at *
  omega

theorem key_of_bp_pending (c : Cfg) (sc : Scan) (y : Elem) (h : sc.bp = some y) :
    y.1 ∈ keys (pending c sc) := by
  unfold pending
  rw [keys_merge]; right
  simp only [keys, List.map_append, List.mem_append]; right
  show y.1 ∈ keys (innerL c sc)
  unfold innerL
  rw [keys_merge]; right
  simp [keys, h, optL]

theorem sorted_append_cons_lt {pre l : KV} {y x : Elem} (hs : Sorted (pre ++ (y :: l))) (hx : x ∈ l) :
    y.1 < x.1 := by
  have h1 := (List.pairwise_append.mp hs).2.1
  exact (List.pairwise_cons.mp h1).1 x hx

/-- every backend entry up to a key below everything still pending has been pulled and looked up -/
theorem pulled_upto (c : Cfg) (r : Reader) (b : Bucket) (B : KV) (s : State) (sc : Scan) (kmax : Key)
    (hinv : ScanInv c r b B s sc) (hB : Sorted B) (hk : ∀ k ∈ keys (pending c sc), kmax < k) :
    ∀ x ∈ B, x.1 ≤ kmax → Rec r s b x.1 := by
  intro x hx hle
  obtain ⟨pre, hBeq, hrec⟩ := hinv.back.split
  rw [hBeq] at hx
  rcases List.mem_append.mp hx with h | h
  · exact hrec x (List.mem_append_left _ h)
  · rcases List.mem_append.mp h with h | h
    · exact hrec x (List.mem_append_right _ h)
    · cases hbp : sc.bp with
      | none => rw [hinv.back.exhausted hbp] at h; simp at h
      | some y =>
        have h1 := hk _ (key_of_bp_pending c sc y hbp)
        rw [hBeq, hbp] at hB
        have h2 : y.1 < x.1 := sorted_append_cons_lt (by simpa [optL] using hB) h
        omega

theorem exhausted_all_rec (c : Cfg) (r : Reader) (b : Bucket) (B : KV) (s : State) (sc : Scan)
    (hinv : ScanInv c r b B s sc) (hp : pending c sc = []) : ∀ x ∈ B, Rec r s b x.1 := by
  intro x hx
  obtain ⟨pre, hBeq, hrec⟩ := hinv.back.split
  cases hbp : sc.bp with
  | some y =>
    have := key_of_bp_pending c sc y hbp
    rw [hp] at this; simp [keys] at this
  | none =>
    rw [hBeq, hbp, hinv.back.exhausted hbp] at hx
    simp only [optL, List.append_nil] at hx
    exact hrec x (List.mem_append_left _ hx)

theorem sorted_of_append_right {l1 l2 : KV} (h : Sorted (l1 ++ l2)) : Sorted l2 :=
  (List.pairwise_append.mp h).2.1

theorem scanTake_spec (c : Cfg) (r : Reader) (b : Bucket) (B : KV) (hB : Sorted B) :
    ∀ (n : Nat) (s : State) (sc : Scan), ScanInv c r b B s sc → Sorted (pending c sc) →
      (scanTake c r b n s sc).2 = (filterOut c (pending c sc)).take n ∧
      Reach r s (scanTake c r b n s sc).1 ∧
      ((scanTake c r b n s sc).2.length < n → ∀ x ∈ B, Rec r (scanTake c r b n s sc).1 b x.1) ∧
      (∀ e ∈ (scanTake c r b n s sc).2, ∀ x ∈ B, x.1 ≤ e.1 → Rec r (scanTake c r b n s sc).1 b x.1) := by
  intro n
  induction n with
  | zero =>
    intro s sc _ _
    simp [scanTake]
    exact Reach.refl r s
  | succ n ih =>
    intro s sc hinv hsorted
    obtain ⟨⟨dropped, hd1, hd2⟩, j2, j3, j4, j5⟩ :=
      scanNext_spec c r b B (sc.size + 1) s sc hinv (pending_length_lt_size c sc)
    unfold scanTake
    generalize hq : scanNext c r b (sc.size + 1) s sc = q at hd1 j2 j3 j4 j5
    obtain ⟨s', sc', y⟩ := q
    simp only at hd1 j2 j3 j4 j5
    have hfd : filterOut c dropped = [] := by
      simp only [filterOut, List.filter_eq_nil_iff]
      intro a ha; simp [hd2 a ha]
    cases y with
    | none =>
      have hp' := j3 rfl
      simp only
      refine ⟨?_, j5, fun _ => exhausted_all_rec c r b B s' sc' j4 hp', by simp⟩
      rw [hd1, hp']
      simp only [optL, List.append_nil, filterOut] at hfd ⊢
      rw [hfd]; rfl
    | some e =>
      have he := j2 e rfl
      have hs' : Sorted (e :: pending c sc') := by
        rw [hd1] at hsorted
        simpa [optL] using sorted_of_append_right hsorted
      obtain ⟨hlt, hs''⟩ := sorted_cons_iff.mp hs'
      obtain ⟨k1, k2, k3, k4⟩ := ih s' sc' j4 hs''
      simp only
      generalize hq2 : scanTake c r b n s' sc' = q2 at k1 k2 k3 k4
      obtain ⟨s'', l⟩ := q2
      simp only at k1 k2 k3 k4 ⊢
      refine ⟨?_, j5.trans k2, ?_, ?_⟩
      · rw [hd1]
        simp only [filterOut, List.filter_append, optL, List.cons_append, List.nil_append] at hfd ⊢
        rw [hfd]
        simp only [List.nil_append, List.filter_cons, he, Bool.not_false, if_true, List.take_succ_cons]
        rw [k1]; rfl
      · intro hlen
        simp only [List.length_cons] at hlen
        exact k3 (by omega)
      · intro e' he' x hx hle
        rcases List.mem_cons.mp he' with h | h
        · subst h
          exact (pulled_upto c r b B s' sc' _ j4 hB hlt x hx hle).mono k2
        · exact k4 e' h x hx hle

theorem sorted_filter {l : KV} (p : Elem → Bool) (h : Sorted l) : Sorted (l.filter p) :=
  List.Pairwise.filter p h

theorem openScan_spec (c : Cfg) (r : Reader) (s : State) (b : Bucket) (lo : Nat) (hi : Option Nat) :
    ScanInv c r b (rangeOf (r.sel b) lo hi) (openScan c r s b lo hi).1 (openScan c r s b lo hi).2 ∧
    pending c (openScan c r s b lo hi).2 =
      merge (rangeOf (s.outputs b) lo hi)
        (merge (stripL c (rangeOf (s.inputs b) lo hi)) (stripL c (rangeOf (r.sel b) lo hi))) ∧
    Reach r s (openScan c r s b lo hi).1 := by
  obtain ⟨h1, h2, h3⟩ := backNext_spec c r b (rangeOf (r.sel b) lo hi) (rangeOf (r.sel b) lo hi) s []
    (by simp) (by simp)
  unfold openScan
  generalize backNext c r b s (rangeOf (r.sel b) lo hi) = q at h1 h2 h3
  obtain ⟨s1, bp, br⟩ := q
  simp only at h1 h2 h3 ⊢
  obtain ⟨g1, g2, g3, g4, g5, g6⟩ := innerNext_spec c r b (rangeOf (r.sel b) lo hi) s1
    ⟨rangeOf (s.outputs b) lo hi, (rangeOf (s.inputs b) lo hi).filter (fun e => !c.inner e.2), bp, br, none⟩ h2
  generalize innerNext c r b s1
    ⟨rangeOf (s.outputs b) lo hi, (rangeOf (s.inputs b) lo hi).filter (fun e => !c.inner e.2), bp, br, none⟩ = q
    at g1 g2 g3 g4 g5 g6
  obtain ⟨s2, sc, ip⟩ := q
  simp only at g1 g2 g3 g4 g5 g6 ⊢
  have hL : innerL c { sc with ip := ip } = innerL c sc := rfl
  refine ⟨⟨g5, ?_⟩, ?_, h3.trans g6⟩
  · intro hn
    simp only at hn
    have hnil := head?_eq_none_iff'.mp (by rw [← g1]; exact hn)
    rw [hL, g2, hnil]; rfl
  · simp only [pending]
    rw [hL, g2, g1, optL_head_tail, g3]
    simp only [innerL]
    rw [h1]; rfl

/-- the backing reader is consistent: `Select` iterates in key order entries that `Get` returns too;
what `Get` finds beyond that carries a delete mark or an empty version (deleted / never-written keys) -/
structure Reader.WF (r : Reader) : Prop where
  sorted : ∀ b, Sorted (r.sel b)
  selGet : ∀ b k d, (k, d) ∈ r.sel b → r.get b k = some d
  getSel : ∀ b k d, r.get b k = some d → (k, d) ∈ r.sel b ∨ d.isDel = true ∨ d.isEmptyVer = true

theorem memReader_wf (m : Store) (hs : ∀ b, Sorted (m b)) : (memReader m).WF :=
  ⟨hs, fun b _ _ h => mem_find_of_sorted (hs b) h, fun _ _ _ h => Or.inl (find_some_mem h)⟩

/-- the merged list of which `Select` yields a prefix -/
def selList (c : Cfg) (r : Reader) (s : State) (b : Bucket) (lo : Nat) (hi : Option Nat) : KV :=
  filterOut c (merge (rangeOf (s.outputs b) lo hi)
    (merge (stripL c (rangeOf (s.inputs b) lo hi)) (stripL c (rangeOf (r.sel b) lo hi))))

theorem select_bad (c : Cfg) (r : Reader) (s : State) (b : Bucket) (lo : Nat) (hi : Option Nat) (n : Nat)
    (h : badRange lo hi = true) : select c r s b lo hi n = (s, none) := by
  unfold select
  simp [h]

theorem select_spec (c : Cfg) (r : Reader) (s : State) (b : Bucket) (lo : Nat) (hi : Option Nat) (n : Nat)
    (hr : r.WF) (hi' : Inv r s) (h : badRange lo hi = false) :
    (select c r s b lo hi n).2 =
      some (((selList c r s b lo hi).take n).map (fun e => (e.1, e.2.val))) ∧
    Reach r s (select c r s b lo hi n).1 ∧
    (((selList c r s b lo hi).take n).length < n →
      ∀ x ∈ rangeOf (r.sel b) lo hi, Rec r (select c r s b lo hi n).1 b x.1) ∧
    (∀ e ∈ (selList c r s b lo hi).take n, ∀ x ∈ rangeOf (r.sel b) lo hi, x.1 ≤ e.1 →
      Rec r (select c r s b lo hi n).1 b x.1) := by
  obtain ⟨o1, o2, o3⟩ := openScan_spec c r s b lo hi
  have hB : Sorted (rangeOf (r.sel b) lo hi) := sorted_filter _ (hr.sorted b)
  have hsp : Sorted (pending c (openScan c r s b lo hi).2) := by
    rw [o2]
    exact sorted_merge _ _ (sorted_filter _ (hi'.sortedOut b))
      (sorted_merge _ _ (sorted_filter _ (sorted_filter _ (hi'.sortedIn b))) (sorted_filter _ hB))
  obtain ⟨t1, t2, t3, t4⟩ := scanTake_spec c r b _ hB n _ _ o1 hsp
  unfold select
  simp only [h, Bool.false_eq_true, if_false]
  generalize openScan c r s b lo hi = q at o1 o2 o3 hsp t1 t2 t3 t4
  obtain ⟨s1, sc⟩ := q
  simp only at o1 o2 o3 hsp t1 t2 t3 t4 ⊢
  generalize scanTake c r b n s1 sc = q2 at t1 t2 t3 t4
  obtain ⟨s2, l⟩ := q2
  simp only at t1 t2 t3 t4 ⊢
  have hl : l = (selList c r s b lo hi).take n := by rw [t1, o2]; rfl
  subst hl
  exact ⟨rfl, o3.trans t2, t3, t4⟩

/-! ### what the repaired `Select` yields, key by key -/

theorem mem_keys_iff {l : List (Key × α)} {k : Key} : k ∈ keys l ↔ ∃ d, (k, d) ∈ l := by
  unfold keys
  constructor
  · intro h
    obtain ⟨a, ha, rfl⟩ := List.mem_map.mp h
    exact ⟨a.2, ha⟩
  · rintro ⟨d, hd⟩
    exact List.mem_map.mpr ⟨(k, d), hd, rfl⟩

theorem sorted_unique {l : List (Key × α)} (hs : Sorted l) {k : Key} {d d' : α}
    (h : (k, d) ∈ l) (h' : (k, d') ∈ l) : d = d' := by
  induction l with
  | nil => simp at h
  | cons e r ih =>
    obtain ⟨h1, h2⟩ := sorted_cons_iff.mp hs
    rcases List.mem_cons.mp h with h | h <;> rcases List.mem_cons.mp h' with h' | h'
    · rw [← h] at h'; exact (Prod.mk.inj h').2.symm
    · have := h1 k (mem_keys_iff.mpr ⟨d', h'⟩); rw [← h] at this; simp at this
    · have := h1 k (mem_keys_iff.mpr ⟨d, h⟩); rw [← h'] at this; simp at this
    · exact ih h2 h h'

theorem mem_rangeOf {l : KV} {lo : Nat} {hi : Option Nat} {e : Elem} :
    e ∈ rangeOf l lo hi ↔ e ∈ l ∧ inRange lo hi e.1 = true := by
  simp [rangeOf]

theorem keys_rangeOf {l : KV} {lo : Nat} {hi : Option Nat} {k : Key} :
    k ∈ keys (rangeOf l lo hi) ↔ k ∈ keys l ∧ inRange lo hi k = true := by
  rw [mem_keys_iff, mem_keys_iff]
  constructor
  · rintro ⟨d, hd⟩
    obtain ⟨h1, h2⟩ := mem_rangeOf.mp hd
    exact ⟨⟨d, h1⟩, h2⟩
  · rintro ⟨⟨d, hd⟩, h2⟩
    exact ⟨d, mem_rangeOf.mpr ⟨hd, h2⟩⟩

def live (d : VData) : Prop := d.isDel = false ∧ d.isEmptyVer = false

theorem mem_stripL_fixed {l : KV} {e : Elem} : e ∈ stripL fixed l ↔ e ∈ l ∧ live e.2 := by
  simp [stripL, fixed, live]

/-- the repaired `Select`: an entry is yielded iff it is in the range and either a pending write that
is not a delete mark, or — its key not being written in this execution — a live entry of the reader -/
theorem mem_selList_fixed {r : Reader} {s : State} (hr : r.WF) (hi : Inv r s) (b : Bucket) (lo : Nat)
    (hiB : Option Nat) (e : Elem) :
    e ∈ selList fixed r s b lo hiB ↔
      inRange lo hiB e.1 = true ∧
        ((e ∈ s.outputs b ∧ e.2.isDel = false) ∨
         (e.1 ∉ keys (s.outputs b) ∧ e ∈ r.sel b ∧ live e.2)) := by
  have hO : Sorted (rangeOf (s.outputs b) lo hiB) := sorted_filter _ (hi.sortedOut b)
  have hF : Sorted (stripL fixed (rangeOf (s.inputs b) lo hiB)) :=
    sorted_filter _ (sorted_filter _ (hi.sortedIn b))
  have hSB : Sorted (stripL fixed (rangeOf (r.sel b) lo hiB)) :=
    sorted_filter _ (sorted_filter _ (hr.sorted b))
  -- entries of the inputs iterator are entries of the backend iterator
  have hsub : ∀ x, x ∈ stripL fixed (rangeOf (s.inputs b) lo hiB) → x ∈ stripL fixed (rangeOf (r.sel b) lo hiB) := by
    intro x hx
    obtain ⟨hx1, hx2⟩ := mem_stripL_fixed.mp hx
    obtain ⟨hx3, hx4⟩ := mem_rangeOf.mp hx1
    have hg : r.get b x.1 = some x.2 := hi.faithful b x.1 x.2 (mem_find_of_sorted (hi.sortedIn b) hx3)
    rcases hr.getSel b x.1 x.2 hg with h | h | h
    · exact mem_stripL_fixed.mpr ⟨mem_rangeOf.mpr ⟨h, hx4⟩, hx2⟩
    · rw [hx2.1] at h; exact absurd h (by simp)
    · rw [hx2.2] at h; exact absurd h (by simp)
  have hinner : e ∈ merge (stripL fixed (rangeOf (s.inputs b) lo hiB)) (stripL fixed (rangeOf (r.sel b) lo hiB))
      ↔ e ∈ stripL fixed (rangeOf (r.sel b) lo hiB) := by
    rw [mem_merge _ _ hF hSB]
    constructor
    · rintro (h | ⟨h, _⟩)
      · exact hsub e h
      · exact h
    · intro h
      by_cases hk : e.1 ∈ keys (stripL fixed (rangeOf (s.inputs b) lo hiB))
      · obtain ⟨d, hd⟩ := mem_keys_iff.mp hk
        have := sorted_unique hSB (hsub _ hd) (show (e.1, e.2) ∈ _ from h)
        left; rw [this] at hd; exact hd
      · exact Or.inr ⟨h, hk⟩
  unfold selList filterOut
  rw [List.mem_filter, mem_merge _ _ hO (sorted_merge _ _ hF hSB), hinner, mem_stripL_fixed, mem_rangeOf,
    mem_rangeOf, keys_rangeOf]
  simp only [fixed, Bool.not_eq_eq_eq_not, Bool.not_true]
  constructor
  · rintro ⟨(⟨h1, h2⟩ | ⟨⟨⟨h1, h2⟩, h3⟩, h4⟩), h5⟩
    · exact ⟨h2, Or.inl ⟨h1, h5⟩⟩
    · exact ⟨h2, Or.inr ⟨fun hk => h4 ⟨hk, h2⟩, h1, h3⟩⟩
  · rintro ⟨h1, (⟨h2, h3⟩ | ⟨h2, h3, h4⟩)⟩
    · exact ⟨Or.inl ⟨h2, h1⟩, h3⟩
    · exact ⟨Or.inr ⟨⟨⟨h3, h1⟩, h4⟩, fun hk => h2 hk.1⟩, h4.1⟩

theorem sorted_selList {r : Reader} {s : State} (c : Cfg) (hr : r.WF) (hi : Inv r s) (b : Bucket) (lo : Nat)
    (hiB : Option Nat) : Sorted (selList c r s b lo hiB) :=
  sorted_filter _ (sorted_merge _ _ (sorted_filter _ (hi.sortedOut b))
    (sorted_merge _ _ (sorted_filter _ (sorted_filter _ (hi.sortedIn b)))
      (sorted_filter _ (sorted_filter _ (hr.sorted b)))))

/-- two ordered lists, the second contained in the first and containing the first `n` entries of the
first: their first `n` entries coincide -/
theorem take_eq_of_sub {α : Type} : ∀ (L L' : List (Key × α)) (n : Nat), Sorted L → Sorted L' →
    (∀ x ∈ L', x ∈ L) → (∀ x ∈ L.take n, x ∈ L') → L'.take n = L.take n := by
  intro L
  induction L with
  | nil =>
    intro L' n _ _ hsub _
    cases L' with
    | nil => rfl
    | cons a l => exact absurd (hsub a List.mem_cons_self) (by simp)
  | cons x xs ih =>
    intro L' n hs hs' hsub htake
    cases n with
    | zero => simp
    | succ m =>
      obtain ⟨hx1, hx2⟩ := sorted_cons_iff.mp hs
      have hxL' : x ∈ L' := htake x (by simp)
      cases L' with
      | nil => simp at hxL'
      | cons a l =>
        obtain ⟨ha1, ha2⟩ := sorted_cons_iff.mp hs'
        have hax : a = x := by
          rcases List.mem_cons.mp hxL' with h | h
          · exact h.symm
          · have h1 : a.1 < x.1 := ha1 _ (mem_keys_of_mem h)
            rcases List.mem_cons.mp (hsub a List.mem_cons_self) with h2 | h2
            · rw [h2] at h1; omega
            · have := hx1 _ (mem_keys_of_mem h2); omega
        subst hax
        simp only [List.take_succ_cons]
        congr 1
        apply ih l m hx2 ha2
        · intro y hy
          rcases List.mem_cons.mp (hsub y (List.mem_cons_of_mem _ hy)) with h | h
          · have := ha1 _ (mem_keys_of_mem hy); rw [h] at this; omega
          · exact h
        · intro y hy
          have hy' : y ∈ (a :: xs).take (m + 1) := by simp [hy]
          rcases List.mem_cons.mp (htake y hy') with h | h
          · have := hx1 _ (mem_keys_of_mem (List.mem_of_mem_take hy)); rw [h] at this; omega
          · exact h

/-! ### programs -/

theorem select_reach {r : Reader} {s : State} (c : Cfg) (hr : r.WF) (hi : Inv r s) (b : Bucket) (lo : Nat)
    (hiB : Option Nat) (n : Nat) : Reach r s (select c r s b lo hiB n).1 := by
  cases h : badRange lo hiB with
  | true => rw [select_bad c r s b lo hiB n h]; exact Reach.refl r s
  | false => exact (select_spec c r s b lo hiB n hr hi h).2.1

/-- the value an op writes to key `k` of bucket `b`, if it writes there -/
def writeOf (b : Bucket) (k : Key) : Op → Option Nat
  | .put b' k' v => if b' = b ∧ k' = k then some v else none
  | .del b' k' => if b' = b ∧ k' = k then some 0 else none
  | _ => none

/-- the latest write of a program to key `k` of bucket `b` -/
def lastWrite (b : Bucket) (k : Key) : List Op → Option Nat
  | [] => none
  | op :: ops => match lastWrite b k ops with
    | some v => some v
    | none => writeOf b k op

theorem step_inv {r : Reader} {s : State} (c : Cfg) (hr : r.WF) (hi : Inv r s) (op : Op) :
    Inv r (stepOp c r s op).1 := by
  cases op with
  | get b k => exact (get_reach r s b k).inv hi
  | put b k v => exact put_inv hi b k v
  | del b k => exact put_inv hi b k 0
  | sel b lo hiB n => exact (select_reach c hr hi b lo hiB n).inv hi

theorem step_mono {r : Reader} {s : State} (c : Cfg) (hr : r.WF) (hi : Inv r s) (op : Op) :
    ∀ b k d, s.inputs.get b k = some d → (stepOp c r s op).1.inputs.get b k = some d := by
  cases op with
  | get b k => exact (get_reach r s b k).mono
  | put b k v => exact (put_inputs_reach r s b k v).mono
  | del b k => exact (put_inputs_reach r s b k 0).mono
  | sel b lo hiB n => exact (select_reach c hr hi b lo hiB n).mono

theorem step_outputs {r : Reader} {s : State} (c : Cfg) (hr : r.WF) (hi : Inv r s) (op : Op) (b : Bucket) (k : Key) :
    (stepOp c r s op).1.outputs.get b k =
      match writeOf b k op with
      | some v => some ⟨0, v⟩
      | none => s.outputs.get b k := by
  cases op with
  | get b' k' => simp only [stepOp, writeOf]; rw [(get_reach r s b' k').outputs_eq]
  | put b' k' v =>
    simp only [stepOp, writeOf, put_outputs]
    by_cases h : b' = b ∧ k' = k
    · obtain ⟨rfl, rfl⟩ := h; simp [Store.get_put_same]
    · simp only [h, if_false]
      exact Store.get_put_other _ _ _ _ _ _ (fun h' => h ⟨h'.1.symm, h'.2.symm⟩)
  | del b' k' =>
    simp only [stepOp, writeOf, del, put_outputs]
    by_cases h : b' = b ∧ k' = k
    · obtain ⟨rfl, rfl⟩ := h; simp [Store.get_put_same]
    · simp only [h, if_false]
      exact Store.get_put_other _ _ _ _ _ _ (fun h' => h ⟨h'.1.symm, h'.2.symm⟩)
  | sel b' lo hiB n =>
    simp only [stepOp, writeOf]; rw [(select_reach c hr hi b' lo hiB n).outputs_eq]

theorem run_cons (c : Cfg) (r : Reader) (s : State) (op : Op) (ops : List Op) :
    run c r s (op :: ops) =
      ((run c r (stepOp c r s op).1 ops).1, (stepOp c r s op).2 :: (run c r (stepOp c r s op).1 ops).2) := by
  simp only [run]

theorem run_inv {r : Reader} (c : Cfg) (hr : r.WF) : ∀ (ops : List Op) (s : State), Inv r s →
    Inv r (run c r s ops).1 := by
  intro ops
  induction ops with
  | nil => intro s hi; exact hi
  | cons op ops ih => intro s hi; rw [run_cons]; exact ih _ (step_inv c hr hi op)

theorem run_mono {r : Reader} (c : Cfg) (hr : r.WF) : ∀ (ops : List Op) (s : State), Inv r s →
    ∀ b k d, s.inputs.get b k = some d → (run c r s ops).1.inputs.get b k = some d := by
  intro ops
  induction ops with
  | nil => intro s _ b k d h; exact h
  | cons op ops ih =>
    intro s hi b k d h
    rw [run_cons]
    exact ih _ (step_inv c hr hi op) b k d (step_mono c hr hi op b k d h)

theorem run_outputs {r : Reader} (c : Cfg) (hr : r.WF) (b : Bucket) (k : Key) :
    ∀ (ops : List Op) (s : State), Inv r s →
      (run c r s ops).1.outputs.get b k =
        match lastWrite b k ops with
        | some v => some ⟨0, v⟩
        | none => s.outputs.get b k := by
  intro ops
  induction ops with
  | nil => intro s _; rfl
  | cons op ops ih =>
    intro s hi
    rw [run_cons]
    simp only [lastWrite]
    rw [ih _ (step_inv c hr hi op)]
    cases lastWrite b k ops with
    | some v => rfl
    | none => exact step_outputs c hr hi op b k

/-! ### re-running over the read set -/

/-- for a key the execution has not written, `Get` answers what the reader holds -/
theorem get_result {r : Reader} {s : State} (hi : Inv r s) (b : Bucket) (k : Key)
    (hout : s.outputs.get b k = none) :
    (get r s b k).2 = match r.get b k with
      | some d => classify d
      | none => .notFound := by
  unfold get
  rw [hout]
  cases hin : s.inputs.get b k with
  | some d => simp only [hi.faithful b k d hin]
  | none => cases hd : r.get b k <;> simp

theorem get_result_out (r : Reader) (s : State) (b : Bucket) (k : Key) (d : VData)
    (hout : s.outputs.get b k = some d) :
    (get r s b k).2 = if d.isDel then .hasDel else .val d.val := by
  unfold get
  rw [hout]
  by_cases h : d.isDel <;> simp [h]

theorem get_recorded_value {r : Reader} {s : State} (hi : Inv r s) (b : Bucket) (k : Key) (d : VData)
    (hout : s.outputs.get b k = none) (hd : r.get b k = some d) :
    (get r s b k).1.inputs.get b k = some d := by
  have hi' := (get_reach r s b k).inv hi
  rcases get_records r s b k with h | h | h
  · cases hx : (get r s b k).1.inputs.get b k with
    | none => exact absurd hx h
    | some d' => have := hi'.faithful b k d' hx; rw [hd] at this; rw [this]
  · exact absurd hout h
  · rw [hd] at h; exact absurd h (by simp)

theorem put_inputs_eq_get (r : Reader) (s : State) (b : Bucket) (k : Key) (v : Nat) :
    (put r s b k v).inputs = if b = transient then s.inputs else (get r s b k).1.inputs := by
  unfold put
  by_cases hb : b = transient <;> simp [hb]

/-- One step of the simulation behind `replay_deterministic`.  `RS` is the final read set of the
first run; the re-run uses `memReader RS`.  As long as the first run's read set stays inside `RS`,
both runs answer every op identically and keep equal write sets. -/
theorem replay_step {r : Reader} (hr : r.WF) (RS : Store) (hRS : ∀ b, Sorted (RS b))
    (hfaith : ∀ b k d, find k (RS b) = some d → r.get b k = some d)
    (s t : State) (hs : Inv r s) (ht : Inv (memReader RS) t) (hout : t.outputs = s.outputs) (op : Op)
    (hsub : ∀ b k d, (stepOp fixed r s op).1.inputs.get b k = some d → find k (RS b) = some d) :
    (stepOp fixed (memReader RS) t op).2 = (stepOp fixed r s op).2 ∧
    (stepOp fixed (memReader RS) t op).1.outputs = (stepOp fixed r s op).1.outputs := by
  have hr' : (memReader RS).WF := memReader_wf RS hRS
  cases op with
  | get b k =>
    simp only [stepOp] at hsub ⊢
    refine ⟨?_, by rw [(get_reach _ t b k).outputs_eq, (get_reach r s b k).outputs_eq, hout]⟩
    congr 1
    cases ho : s.outputs.get b k with
    | some d => rw [get_result_out r s b k d ho, get_result_out _ t b k d (by rw [hout]; exact ho)]
    | none =>
      rw [get_result hs b k ho, get_result ht b k (by rw [hout]; exact ho)]
      show (match find k (RS b) with | some d => classify d | none => GetRes.notFound) = _
      cases hd : r.get b k with
      | none =>
        cases hx : find k (RS b) with
        | none => rfl
        | some d => rw [hfaith b k d hx] at hd; exact absurd hd (by simp)
      | some d => rw [hsub b k d (get_recorded_value hs b k d ho hd)]
  | put b k v =>
    simp only [stepOp]
    exact ⟨trivial, by rw [put_outputs, put_outputs, hout]⟩
  | del b k =>
    simp only [stepOp, del]
    exact ⟨trivial, by rw [put_outputs, put_outputs, hout]⟩
  | sel b lo hiB n =>
    simp only [stepOp] at hsub ⊢
    refine ⟨?_, by rw [(select_reach fixed hr' ht b lo hiB n).outputs_eq,
      (select_reach fixed hr hs b lo hiB n).outputs_eq, hout]⟩
    congr 1
    cases hbad : badRange lo hiB with
    | true => rw [select_bad _ _ _ _ _ _ _ hbad, select_bad _ _ _ _ _ _ _ hbad]
    | false =>
      obtain ⟨a1, a2, _, a4⟩ := select_spec fixed r s b lo hiB n hr hs hbad
      obtain ⟨b1, _, _, _⟩ := select_spec fixed (memReader RS) t b lo hiB n hr' ht hbad
      rw [a1, b1]
      congr 2
      have hs2 : Inv r (select fixed r s b lo hiB n).1 := a2.inv hs
      apply take_eq_of_sub _ _ n (sorted_selList fixed hr hs b lo hiB) (sorted_selList fixed hr' ht b lo hiB)
      · -- whatever the re-run yields, the first run yields
        intro x hx
        rw [mem_selList_fixed hr' ht] at hx
        rw [mem_selList_fixed hr hs]
        obtain ⟨h1, h2⟩ := hx
        refine ⟨h1, ?_⟩
        rw [hout] at h2
        rcases h2 with h2 | ⟨h2, h3, h4⟩
        · exact Or.inl h2
        · refine Or.inr ⟨h2, ?_, h4⟩
          have hg : r.get b x.1 = some x.2 := hfaith b x.1 x.2 (mem_find_of_sorted (hRS b) h3)
          rcases hr.getSel b x.1 x.2 hg with h | h | h
          · exact h
          · rw [h4.1] at h; exact absurd h (by simp)
          · rw [h4.2] at h; exact absurd h (by simp)
      · -- what the first run consumed has been recorded, hence the re-run finds it
        intro x hx
        have hxL := List.mem_of_mem_take hx
        rw [mem_selList_fixed hr hs] at hxL
        rw [mem_selList_fixed hr' ht, hout]
        obtain ⟨h1, h2⟩ := hxL
        refine ⟨h1, ?_⟩
        rcases h2 with h2 | ⟨h2, h3, h4⟩
        · exact Or.inl h2
        · refine Or.inr ⟨h2, ?_, h4⟩
          have hg : r.get b x.1 = some x.2 := hr.selGet b x.1 x.2 h3
          have hnone : s.outputs.get b x.1 = none := find_none_iff.mpr h2
          have hrec := a4 x hx x (mem_rangeOf.mpr ⟨h3, h1⟩) (Nat.le_refl _)
          have hin : (select fixed r s b lo hiB n).1.inputs.get b x.1 = some x.2 := by
            rcases hrec with h | h | h
            · cases hv : (select fixed r s b lo hiB n).1.inputs.get b x.1 with
              | none => exact absurd hv h
              | some d' => have := hs2.faithful b x.1 d' hv; rw [hg] at this; rw [this]
            · rw [a2.outputs_eq] at h; exact absurd hnone h
            · rw [hg] at h; exact absurd h (by simp)
          exact find_some_mem (hsub b x.1 x.2 hin)

theorem step_inv_mem (RS : Store) (hRS : ∀ b, Sorted (RS b)) (t : State) (ht : Inv (memReader RS) t) (op : Op) :
    Inv (memReader RS) (stepOp fixed (memReader RS) t op).1 :=
  step_inv fixed (memReader_wf RS hRS) ht op

theorem replay_aux {r : Reader} (hr : r.WF) (RS : Store) (hRS : ∀ b, Sorted (RS b))
    (hfaith : ∀ b k d, find k (RS b) = some d → r.get b k = some d) :
    ∀ (ops : List Op) (s t : State), Inv r s → Inv (memReader RS) t → t.outputs = s.outputs →
      (∀ b k d, (run fixed r s ops).1.inputs.get b k = some d → find k (RS b) = some d) →
      (run fixed (memReader RS) t ops).2 = (run fixed r s ops).2 ∧
      (run fixed (memReader RS) t ops).1.outputs = (run fixed r s ops).1.outputs := by
  intro ops
  induction ops with
  | nil => intro s t _ _ hout _; exact ⟨rfl, hout⟩
  | cons op ops ih =>
    intro s t hs ht hout hsub
    rw [run_cons] at hsub ⊢
    rw [run_cons]
    have hs1 := step_inv fixed hr hs op
    have hsub1 : ∀ b k d, (stepOp fixed r s op).1.inputs.get b k = some d → find k (RS b) = some d :=
      fun b k d h => hsub b k d (run_mono fixed hr ops _ hs1 b k d h)
    obtain ⟨e1, e2⟩ := replay_step hr RS hRS hfaith s t hs ht hout op hsub1
    obtain ⟨i1, i2⟩ := ih _ _ hs1 (step_inv_mem RS hRS t ht op) e2 hsub
    simp only
    exact ⟨by rw [e1, i1], i2⟩

end XV.Sandbox
