import XV.Lemmas.Assoc
/-!
What the guard `staleMember` of the repaired `play` (`processUnconfirmTxs`, second pass) says when it does not fire:
a pending member of the block read, of every key that an earlier transaction of the block wrote, exactly the last version
written before it. `writtenBy e w l` is the table `written` of `staleMember` after the transactions `l`.
-/
namespace XV.Chain

/-- the versions transaction `i` writes, recorded on top of `w` (one step of the table `written` of `staleMember`) -/
def writeStep (e : Env) (w : List (String × Ver)) (i : Nat) : List (String × Ver) :=
  (e.tx i).kout.zipIdx.foldl (fun w (ko, off) => put w ko.key (i, off)) w

/-- the table `written` of `staleMember` after the transactions `l` -/
def writtenBy (e : Env) (w : List (String × Ver)) (l : List Nat) : List (String × Ver) := l.foldl (writeStep e) w

theorem staleMember_cons (e : Env) (pool : List Nat) (w : List (String × Ver)) (i : Nat) (rest : List Nat) :
    staleMember e pool w (i :: rest) =
      ((pool.contains i && (e.tx i).kin.any (fun ki => match lookup w ki.key with
        | some v => ki.ver != some v
        | none => false)) || staleMember e pool (writeStep e w i) rest) := by
  rw [staleMember]
  rfl

theorem writtenBy_cons (e : Env) (w : List (String × Ver)) (i : Nat) (l : List Nat) :
    writtenBy e w (i :: l) = writtenBy e (writeStep e w i) l := rfl

theorem writtenBy_append (e : Env) (w : List (String × Ver)) (l1 l2 : List Nat) :
    writtenBy e w (l1 ++ l2) = writtenBy e (writtenBy e w l1) l2 := by
  unfold writtenBy; rw [List.foldl_append]

/-- the inner loop: the entry of a key is the old one or a version of `i` -/
private theorem foldPut_cases (i : Nat) (zs : List (KOut × Nat)) (w : List (String × Ver)) (k : String) :
    lookup (zs.foldl (fun w (p : KOut × Nat) => put w p.1.key (i, p.2)) w) k = lookup w k ∨
    ∃ off, lookup (zs.foldl (fun w (p : KOut × Nat) => put w p.1.key (i, p.2)) w) k = some (i, off) := by
  induction zs generalizing w with
  | nil => exact Or.inl rfl
  | cons z rest ih =>
    simp only [List.foldl_cons]
    rcases ih (put w z.1.key (i, z.2)) with h | ⟨off, h⟩
    · rw [h, lookup_put]
      by_cases hk : z.1.key = k
      · exact Or.inr ⟨z.2, by rw [if_pos hk]⟩
      · exact Or.inl (by rw [if_neg hk])
    · exact Or.inr ⟨off, h⟩

/-- the inner loop: a key that is written ends at a version of `i` -/
private theorem foldPut_written (i : Nat) (zs : List (KOut × Nat)) (w : List (String × Ver)) (k : String)
    (hk : ∃ p ∈ zs, p.1.key = k) :
    ∃ off, lookup (zs.foldl (fun w (p : KOut × Nat) => put w p.1.key (i, p.2)) w) k = some (i, off) := by
  induction zs generalizing w with
  | nil => obtain ⟨p, hp, _⟩ := hk; cases hp
  | cons z rest ih =>
    simp only [List.foldl_cons]
    by_cases hr : ∃ p ∈ rest, p.1.key = k
    · exact ih _ hr
    · obtain ⟨p, hp, hpk⟩ := hk
      rcases List.mem_cons.mp hp with rfl | hp'
      · rcases foldPut_cases i rest (put w p.1.key (i, p.2)) k with h | h
        · exact ⟨p.2, by rw [h, lookup_put, if_pos hpk]⟩
        · exact h
      · exact absurd ⟨p, hp', hpk⟩ hr

theorem writeStep_eq (e : Env) (w : List (String × Ver)) (i : Nat) :
    writeStep e w i = (e.tx i).kout.zipIdx.foldl (fun w (p : KOut × Nat) => put w p.1.key (i, p.2)) w := rfl

/-- one transaction: the entry of a key is the old one or a version of that transaction -/
theorem writeStep_cases (e : Env) (w : List (String × Ver)) (i : Nat) (k : String) :
    lookup (writeStep e w i) k = lookup w k ∨ ∃ off, lookup (writeStep e w i) k = some (i, off) := by
  rw [writeStep_eq]
  exact foldPut_cases i _ w k

/-- one transaction: a key it writes ends at one of its versions -/
theorem writeStep_written (e : Env) (w : List (String × Ver)) (i : Nat) (k : String)
    (hk : ∃ ko ∈ (e.tx i).kout, ko.key = k) : ∃ off, lookup (writeStep e w i) k = some (i, off) := by
  rw [writeStep_eq]
  apply foldPut_written
  obtain ⟨ko, hko, hkk⟩ := hk
  obtain ⟨n, hn⟩ := List.getElem?_of_mem hko
  exact ⟨(ko, n), List.mem_zipIdx_iff_getElem?.mpr hn, hkk⟩

/-- the entry of a key after a list of transactions is the old one or a version of one of them -/
theorem writtenBy_cases (e : Env) (l : List Nat) (w : List (String × Ver)) (k : String) :
    lookup (writtenBy e w l) k = lookup w k ∨ ∃ x ∈ l, ∃ off, lookup (writtenBy e w l) k = some (x, off) := by
  induction l generalizing w with
  | nil => exact Or.inl rfl
  | cons i rest ih =>
    rw [writtenBy_cons]
    rcases ih (writeStep e w i) with h | ⟨x, hx, off, h⟩
    · rcases writeStep_cases e w i k with h2 | ⟨off, h2⟩
      · exact Or.inl (h.trans h2)
      · exact Or.inr ⟨i, List.mem_cons_self, off, h.trans h2⟩
    · exact Or.inr ⟨x, List.mem_cons_of_mem _ hx, off, h⟩

/-- **the last writer**: if `i` writes the key, the entry after `l1 ++ i :: l2` is a version of `i` or of a later
transaction -/
theorem writtenBy_writer (e : Env) (l1 l2 : List Nat) (i : Nat) (w : List (String × Ver)) (k : String)
    (hk : ∃ ko ∈ (e.tx i).kout, ko.key = k) :
    ∃ x ∈ i :: l2, ∃ off, lookup (writtenBy e w (l1 ++ i :: l2)) k = some (x, off) := by
  rw [writtenBy_append, writtenBy_cons]
  obtain ⟨off, h1⟩ := writeStep_written e (writtenBy e w l1) i k hk
  rcases writtenBy_cases e l2 (writeStep e (writtenBy e w l1) i) k with h | ⟨x, hx, off', h⟩
  · exact ⟨i, List.mem_cons_self, off, h.trans h1⟩
  · exact ⟨x, List.mem_cons_of_mem _ hx, off', h⟩

/-- **what the guard gives**: in a block that passes `staleMember`, a pending member read, of every key written earlier in
the block, exactly the last version written before it -/
theorem staleMember_false (e : Env) (pool : List Nat) (pre : List Nat) (a : Nat) (post : List Nat)
    (w : List (String × Ver)) (h : staleMember e pool w (pre ++ a :: post) = false) (ha : a ∈ pool) :
    ∀ pk ∈ (e.tx a).kin, ∀ v, lookup (writtenBy e w pre) pk.key = some v → pk.ver = some v := by
  induction pre generalizing w with
  | nil =>
    intro pk hpk v hv
    rw [List.nil_append, staleMember_cons] at h
    simp only [Bool.or_eq_false_iff, Bool.and_eq_false_iff] at h
    have hany : ((e.tx a).kin.any fun ki => match lookup w ki.key with
        | some v => ki.ver != some v
        | none => false) = false := by
      rcases h.1 with h1 | h1
      · have : pool.contains a = true := by simpa using ha
        rw [this] at h1; cases h1
      · exact h1
    have := List.any_eq_false.mp hany pk hpk
    have hv' : lookup w pk.key = some v := hv
    rw [hv'] at this
    simpa using this
  | cons x rest ih =>
    intro pk hpk v hv
    rw [List.cons_append, staleMember_cons] at h
    simp only [Bool.or_eq_false_iff] at h
    exact ih (writeStep e w x) h.2 pk hpk v hv

/-- the converse reading, for the record: the guard fires on a pending member that read another version than the last one
written before it in the block -/
theorem staleMember_true_of (e : Env) (pool : List Nat) (pre : List Nat) (a : Nat) (post : List Nat)
    (w : List (String × Ver)) (ha : a ∈ pool) (pk : KIn) (hpk : pk ∈ (e.tx a).kin) (v : Ver)
    (hv : lookup (writtenBy e w pre) pk.key = some v) (hne : pk.ver ≠ some v) :
    staleMember e pool w (pre ++ a :: post) = true := by
  cases h : staleMember e pool w (pre ++ a :: post) with
  | true => rfl
  | false => exact absurd (staleMember_false e pool pre a post w h ha pk hpk v hv) hne

end XV.Chain
