import XV.Model.Pool
/-! helper lemmas about the model of `TopSortDFS` (visiting phase, component split) -/
namespace XV.Pool
open XV.Chain

theorem mem_children (g : Graph) (u v : Nat) : v ∈ g.children u ↔ (u, v) ∈ g.edges := by
  unfold Graph.children
  simp only [List.mem_map, List.mem_filter, beq_iff_eq]
  constructor
  · rintro ⟨e, ⟨he, h1⟩, h2⟩
    have : e = (u, v) := by cases e; simp_all
    exact this ▸ he
  · intro h
    exact ⟨(u, v), ⟨h, rfl⟩, rfl⟩

theorem mem_parents (g : Graph) (u v : Nat) : u ∈ g.parents v ↔ (u, v) ∈ g.edges := by
  unfold Graph.parents
  simp only [List.mem_map, List.mem_filter, beq_iff_eq]
  constructor
  · rintro ⟨e, ⟨he, h1⟩, h2⟩
    have : e = (u, v) := by cases e; simp_all
    exact this ▸ he
  · intro h
    exact ⟨(u, v), ⟨h, rfl⟩, rfl⟩

theorem mem_allNodes (g : Graph) (x : Nat) : x ∈ g.allNodes ↔ x ∈ g.nodes ∨ ∃ u, (u, x) ∈ g.edges := by
  unfold Graph.allNodes
  simp only [List.mem_eraseDups, List.mem_append, List.mem_map]
  constructor
  · rintro (h | ⟨e, he, rfl⟩)
    · exact Or.inl h
    · exact Or.inr ⟨e.1, he⟩
  · rintro (h | ⟨u, hu⟩)
    · exact Or.inl h
    · exact Or.inr ⟨(u, x), hu, rfl⟩

theorem child_in_allNodes (g : Graph) {u v : Nat} (h : (u, v) ∈ g.edges) : v ∈ g.allNodes :=
  (mem_allNodes g v).mpr (Or.inr ⟨u, h⟩)

theorem nodup_eraseDups : ∀ (l : List Nat), l.eraseDups.Nodup
  | [] => by simp
  | a :: as => by
    rw [List.eraseDups_cons]
    have : (as.filter fun b => !b == a).length < (a :: as).length :=
      Nat.lt_succ_of_le (List.length_filter_le _ as)
    refine List.nodup_cons.mpr ⟨?_, nodup_eraseDups _⟩
    intro h
    have h2 := (List.mem_filter.mp (List.mem_eraseDups.mp h)).2
    simp at h2
termination_by l => l.length

theorem allNodes_nodup (g : Graph) : g.allNodes.Nodup := by
  unfold Graph.allNodes
  exact nodup_eraseDups _

-- ---------------------------------------------------------------- Before

theorem Before.cons {l : List Nat} {u v : Nat} (n : Nat) (h : Before l u v) : Before (n :: l) u v := by
  obtain ⟨l1, l2, rfl, hv⟩ := h
  exact ⟨n :: l1, l2, rfl, hv⟩

theorem Before.head {l : List Nat} {v : Nat} (n : Nat) (h : v ∈ l) : Before (n :: l) n v :=
  ⟨[], l, rfl, h⟩

theorem Before.append_left {l : List Nat} {u v : Nat} (pre : List Nat) (h : Before l u v) : Before (pre ++ l) u v := by
  obtain ⟨l1, l2, rfl, hv⟩ := h
  exact ⟨pre ++ l1, l2, by simp, hv⟩

theorem Before.mem_left {l : List Nat} {u v : Nat} (h : Before l u v) : u ∈ l := by
  obtain ⟨l1, l2, rfl, _⟩ := h
  simp

theorem Before.mem_right {l : List Nat} {u v : Nat} (h : Before l u v) : v ∈ l := by
  obtain ⟨l1, l2, rfl, hv⟩ := h
  simp [hv]

/-- in a duplicate-free list "before" is irreflexive and asymmetric -/
theorem Before.ne_of_nodup {l : List Nat} {u v : Nat} (hn : l.Nodup) (h : Before l u v) : u ≠ v := by
  obtain ⟨l1, l2, rfl, hv⟩ := h
  intro e
  subst e
  have := (List.nodup_append.mp hn).2.1
  simp only [List.nodup_cons] at this
  exact this.1 hv

/-- nothing precedes the head of a duplicate-free list -/
theorem Before.not_head {x : Nat} {l : List Nat} (hn : (x :: l).Nodup) (y : Nat) : ¬ Before (x :: l) y x := by
  rintro ⟨l1, l2, heq, hx⟩
  have hxl : x ∉ l := (List.nodup_cons.mp hn).1
  cases l1 with
  | nil =>
    simp only [List.nil_append, List.cons.injEq] at heq
    exact hxl (heq.2 ▸ hx)
  | cons a l1 =>
    simp only [List.cons_append, List.cons.injEq] at heq
    exact hxl (heq.2 ▸ (by simp [hx]))

theorem Before.tail {x u v : Nat} {l : List Nat} (h : Before (x :: l) u v) (hne : u ≠ x) : Before l u v := by
  obtain ⟨l1, l2, heq, hv⟩ := h
  cases l1 with
  | nil =>
    simp only [List.nil_append, List.cons.injEq] at heq
    exact absurd heq.1.symm hne
  | cons a l1 =>
    simp only [List.cons_append, List.cons.injEq] at heq
    exact ⟨l1, l2, heq.2, hv⟩

-- ---------------------------------------------------------------- visiting phase

theorem visit_zero (g : Graph) (n : Nat) (s : VS) : visit g 0 n s = { s with cyc := true } := rfl

theorem visit_succ (g : Graph) (fuel n : Nat) (s : VS) :
    visit g (fuel + 1) n s =
      if s.temp.contains n then { s with cyc := true }
      else if s.perm.contains n then s
      else
        let s1 := visitList g fuel (g.children n) { s with temp := n :: s.temp }
        if s1.cyc then s1
        else { s1 with temp := s1.temp.erase n, perm := n :: s1.perm, out := n :: s1.out } := rfl

theorem visitList_nil (g : Graph) (fuel : Nat) (s : VS) : visitList g fuel [] s = s := rfl

theorem visitList_cons (g : Graph) (fuel m : Nat) (ms : List Nat) (s : VS) :
    visitList g fuel (m :: ms) s = visitList g fuel ms (if s.cyc then s else visit g fuel m s) := rfl

theorem visitList_sticky (g : Graph) (fuel : Nat) (ms : List Nat) (s : VS) (h : s.cyc = true) :
    visitList g fuel ms s = s := by
  induction ms with
  | nil => rfl
  | cons m ms ih => rw [visitList_cons]; simp only [h, ↓reduceIte]; exact ih

/-- the invariant of the visiting phase -/
structure Inv (g : Graph) (s : VS) : Prop where
  nodup : s.out.Nodup
  same : ∀ x, x ∈ s.out ↔ x ∈ s.perm
  closed : ∀ u ∈ s.perm, ∀ v ∈ g.children u, Before s.out u v
  disj : ∀ x ∈ s.temp, x ∉ s.perm
  sub : ∀ x ∈ s.perm, x ∈ g.allNodes

/-- what one (cycle-free) visit guarantees -/
def VisitPost (g : Graph) (s r : VS) : Prop :=
  Inv g r ∧ r.temp = s.temp ∧ (∀ x ∈ s.perm, x ∈ r.perm) ∧ ∃ pre, r.out = pre ++ s.out

theorem VisitPost.refl (g : Graph) (s : VS) (h : Inv g s) : VisitPost g s s :=
  ⟨h, rfl, fun _ hx => hx, [], rfl⟩

theorem VisitPost.trans {g : Graph} {a b c : VS} (h1 : VisitPost g a b) (h2 : VisitPost g b c) : VisitPost g a c := by
  obtain ⟨_, t1, m1, ⟨p1, o1⟩⟩ := h1
  obtain ⟨i2, t2, m2, ⟨p2, o2⟩⟩ := h2
  exact ⟨i2, t2.trans t1, fun x hx => m2 x (m1 x hx), ⟨p2 ++ p1, by rw [o2, o1, List.append_assoc]⟩⟩

theorem visitList_spec (g : Graph) (fuel : Nat)
    (ih : ∀ n s, Inv g s → n ∈ g.allNodes → (visit g fuel n s).cyc = false →
      VisitPost g s (visit g fuel n s) ∧ n ∈ (visit g fuel n s).perm) :
    ∀ (ms : List Nat) (s : VS), Inv g s → (∀ m ∈ ms, m ∈ g.allNodes) → (visitList g fuel ms s).cyc = false →
      VisitPost g s (visitList g fuel ms s) ∧ ∀ m ∈ ms, m ∈ (visitList g fuel ms s).perm := by
  intro ms
  induction ms with
  | nil =>
    intro s hs _ _
    exact ⟨VisitPost.refl g s hs, fun m hm => absurd hm List.not_mem_nil⟩
  | cons m ms ihl =>
    intro s hs hm hc
    rw [visitList_cons] at hc ⊢
    have hsc : s.cyc = false := by
      cases h : s.cyc with
      | false => rfl
      | true =>
        simp only [h, ↓reduceIte] at hc
        rw [visitList_sticky g fuel ms s h] at hc
        rw [h] at hc; exact hc
    simp only [hsc, Bool.false_eq_true, ↓reduceIte] at hc ⊢
    have h1c : (visit g fuel m s).cyc = false := by
      cases h : (visit g fuel m s).cyc with
      | false => rfl
      | true =>
        rw [visitList_sticky g fuel ms _ h] at hc
        rw [h] at hc; exact hc
    obtain ⟨p1, hmp⟩ := ih m s hs (hm m List.mem_cons_self) h1c
    obtain ⟨p2, hall⟩ := ihl (visit g fuel m s) p1.1 (fun x hx => hm x (List.mem_cons_of_mem _ hx)) hc
    refine ⟨p1.trans p2, ?_⟩
    intro x hx
    rcases List.mem_cons.mp hx with rfl | hx
    · exact p2.2.2.1 x hmp
    · exact hall x hx

theorem visit_spec (g : Graph) : ∀ (fuel n : Nat) (s : VS), Inv g s → n ∈ g.allNodes →
    (visit g fuel n s).cyc = false →
    VisitPost g s (visit g fuel n s) ∧ n ∈ (visit g fuel n s).perm := by
  intro fuel
  induction fuel with
  | zero =>
    intro n s _ _ hc
    rw [visit_zero] at hc
    simp at hc
  | succ fuel ih =>
    intro n s hs hn hc
    rw [visit_succ] at hc ⊢
    by_cases h1 : s.temp.contains n = true
    · simp only [h1, ↓reduceIte] at hc
      simp at hc
    · simp only [h1, Bool.false_eq_true, ↓reduceIte] at hc ⊢
      by_cases h2 : s.perm.contains n = true
      · simp only [h2, ↓reduceIte]
        exact ⟨VisitPost.refl g s hs, by simpa using h2⟩
      · simp only [h2, Bool.false_eq_true, ↓reduceIte] at hc ⊢
        have hnt : n ∉ s.temp := by simpa using h1
        have hnp : n ∉ s.perm := by simpa using h2
        -- the state handed to the children
        have hs0 : Inv g { s with temp := n :: s.temp } :=
          { nodup := hs.nodup, same := hs.same, closed := hs.closed, sub := hs.sub,
            disj := by
              intro x hx
              rcases List.mem_cons.mp hx with rfl | hx
              · exact hnp
              · exact hs.disj x hx }
        generalize hs1 : visitList g fuel (g.children n) { s with temp := n :: s.temp } = s1 at hc ⊢
        have hc1 : s1.cyc = false := by
          cases h : s1.cyc with
          | false => rfl
          | true => simp only [h, ↓reduceIte] at hc; exact hc
        simp only [hc1, Bool.false_eq_true, ↓reduceIte]
        have hch : ∀ m ∈ g.children n, m ∈ g.allNodes :=
          fun m hm => child_in_allNodes g ((mem_children g n m).mp hm)
        obtain ⟨⟨i1, t1, m1, pre, o1⟩, hall⟩ := visitList_spec g fuel ih (g.children n) _ hs0 hch (by rw [hs1]; exact hc1)
        rw [hs1] at i1 t1 m1 o1 hall
        simp only at t1 m1 o1
        have hn1 : n ∉ s1.perm := i1.disj n (by rw [t1]; exact List.mem_cons_self)
        have hno : n ∉ s1.out := fun h => hn1 ((i1.same n).mp h)
        refine ⟨⟨?_, ?_, ?_, ?_⟩, ?_⟩
        · exact
            { nodup := List.nodup_cons.mpr ⟨hno, i1.nodup⟩
              same := by
                intro x
                simp only [List.mem_cons, i1.same x]
              closed := by
                intro u hu v hv
                rcases List.mem_cons.mp hu with rfl | hu
                · exact Before.head _ ((i1.same v).mpr (hall v hv))
                · exact Before.cons n (i1.closed u hu v hv)
              disj := by
                intro x hx
                simp only [t1, List.erase_cons_head] at hx
                intro hxp
                rcases List.mem_cons.mp hxp with rfl | hxp
                · exact hnt hx
                · exact i1.disj x (by rw [t1]; exact List.mem_cons_of_mem _ hx) hxp
              sub := by
                intro x hx
                rcases List.mem_cons.mp hx with rfl | hx
                · exact hn
                · exact i1.sub x hx }
        · simp only [t1, List.erase_cons_head]
        · intro x hx
          exact List.mem_cons_of_mem _ (m1 x hx)
        · exact ⟨n :: pre, by simp [o1]⟩
        · exact List.mem_cons_self

theorem inv_init (g : Graph) : Inv g {} :=
  { nodup := List.nodup_nil, same := by simp, closed := by simp, disj := by simp, sub := by simp }

-- ---------------------------------------------------------------- fuel is sufficient, acyclic graphs sort

/-- acyclicity witness: a rank that strictly increases along every edge -/
def Acyclic (g : Graph) : Prop := ∃ rank : Nat → Nat, ∀ e ∈ g.edges, rank e.1 < rank e.2

theorem visitList_nocycle (g : Graph) (rank : Nat → Nat) (fuel : Nat)
    (ih : ∀ n s, s.cyc = false → s.temp.Nodup → (∀ t ∈ s.temp, t ∈ g.allNodes) → n ∈ g.allNodes →
      (∀ t ∈ s.temp, rank t < rank n) → g.allNodes.length < fuel + s.temp.length →
      (visit g fuel n s).cyc = false ∧ (visit g fuel n s).temp = s.temp) :
    ∀ (ms : List Nat) (s : VS), s.cyc = false → s.temp.Nodup → (∀ t ∈ s.temp, t ∈ g.allNodes) →
      (∀ m ∈ ms, m ∈ g.allNodes) → (∀ m ∈ ms, ∀ t ∈ s.temp, rank t < rank m) →
      g.allNodes.length < fuel + s.temp.length →
      (visitList g fuel ms s).cyc = false ∧ (visitList g fuel ms s).temp = s.temp := by
  intro ms
  induction ms with
  | nil => intro s hc _ _ _ _ _; exact ⟨hc, rfl⟩
  | cons m ms ihl =>
    intro s hc hnd hsub hm hr hf
    rw [visitList_cons]
    simp only [hc, Bool.false_eq_true, ↓reduceIte]
    obtain ⟨c1, t1⟩ := ih m s hc hnd hsub (hm m List.mem_cons_self) (hr m List.mem_cons_self) hf
    obtain ⟨c2, t2⟩ := ihl (visit g fuel m s) c1 (t1 ▸ hnd) (t1 ▸ hsub)
      (fun x hx => hm x (List.mem_cons_of_mem _ hx))
      (fun x hx => t1 ▸ hr x (List.mem_cons_of_mem _ hx)) (t1 ▸ hf)
    exact ⟨c2, t2.trans t1⟩

theorem visit_nocycle (g : Graph) (rank : Nat → Nat) (hr : ∀ e ∈ g.edges, rank e.1 < rank e.2) :
    ∀ (fuel n : Nat) (s : VS), s.cyc = false → s.temp.Nodup → (∀ t ∈ s.temp, t ∈ g.allNodes) → n ∈ g.allNodes →
      (∀ t ∈ s.temp, rank t < rank n) → g.allNodes.length < fuel + s.temp.length →
      (visit g fuel n s).cyc = false ∧ (visit g fuel n s).temp = s.temp := by
  intro fuel
  induction fuel with
  | zero =>
    intro n s _ hnd hsub _ _ hf
    have := List.Nodup.length_le_of_subset hnd (fun x hx => hsub x hx)
    omega
  | succ fuel ih =>
    intro n s hc hnd hsub hn hrk hf
    rw [visit_succ]
    have hnt : n ∉ s.temp := fun h => Nat.lt_irrefl _ (hrk n h)
    have h1 : ¬ s.temp.contains n = true := by simpa using hnt
    simp only [h1, Bool.false_eq_true, ↓reduceIte]
    by_cases h2 : s.perm.contains n = true
    · simp only [h2, ↓reduceIte]; exact ⟨hc, trivial⟩
    · simp only [h2, Bool.false_eq_true, ↓reduceIte]
      obtain ⟨c1, t1⟩ := visitList_nocycle g rank fuel ih (g.children n) { s with temp := n :: s.temp } hc
        (List.nodup_cons.mpr ⟨hnt, hnd⟩)
        (by
          intro t ht
          rcases List.mem_cons.mp ht with rfl | ht
          · exact hn
          · exact hsub t ht)
        (fun m hm => child_in_allNodes g ((mem_children g n m).mp hm))
        (by
          intro m hm t ht
          have hnm : rank n < rank m := hr (n, m) ((mem_children g n m).mp hm)
          rcases List.mem_cons.mp ht with rfl | ht
          · exact hnm
          · exact Nat.lt_trans (hrk t ht) hnm)
        (by simp only [List.length_cons]; omega)
      simp only [c1, Bool.false_eq_true, ↓reduceIte, t1, List.erase_cons_head]
      exact ⟨trivial, trivial⟩

-- ---------------------------------------------------------------- component split

theorem cdfs_zero (g : Graph) (n : Nat) (s : CS) : cdfs g 0 n s = s := rfl

/-- the list of neighbours handled by a fold of `cdfs` -/
def cdfsList (g : Graph) (fuel : Nat) (ms : List Nat) (s : CS) : CS :=
  ms.foldl (fun st m => cdfs g fuel m st) s

theorem cdfs_succ (g : Graph) (fuel n : Nat) (s : CS) :
    cdfs g (fuel + 1) n s =
      if s.marked.contains n then s
      else
        let s1 := cdfsList g fuel (g.children n ++ g.parents n) { s with marked := n :: s.marked }
        { s1 with sub := s1.sub ++ [n] } := rfl

/-- the split keeps `marked = old marked ∪ sub` and only grows -/
def CPost (s r : CS) : Prop :=
  (∀ x ∈ s.marked, x ∈ r.marked) ∧ (∀ x ∈ s.sub, x ∈ r.sub) ∧
  (∀ x ∈ r.marked, x ∈ s.marked ∨ x ∈ r.sub)

theorem CPost.refl (s : CS) : CPost s s := ⟨fun _ h => h, fun _ h => h, fun _ h => Or.inl h⟩

theorem CPost.trans {a b c : CS} (h1 : CPost a b) (h2 : CPost b c) : CPost a c := by
  obtain ⟨m1, s1, k1⟩ := h1
  obtain ⟨m2, s2, k2⟩ := h2
  refine ⟨fun x hx => m2 x (m1 x hx), fun x hx => s2 x (s1 x hx), ?_⟩
  intro x hx
  rcases k2 x hx with h | h
  · rcases k1 x h with h | h
    · exact Or.inl h
    · exact Or.inr (s2 x h)
  · exact Or.inr h

theorem cdfsList_post (g : Graph) (fuel : Nat) (ih : ∀ n s, CPost s (cdfs g fuel n s)) :
    ∀ (ms : List Nat) (s : CS), CPost s (cdfsList g fuel ms s) := by
  intro ms
  induction ms with
  | nil => intro s; exact CPost.refl s
  | cons m ms ihl =>
    intro s
    show CPost s (cdfsList g fuel ms (cdfs g fuel m s))
    exact (ih m s).trans (ihl _)

theorem cdfs_post (g : Graph) : ∀ (fuel n : Nat) (s : CS), CPost s (cdfs g fuel n s) := by
  intro fuel
  induction fuel with
  | zero => intro n s; rw [cdfs_zero]; exact CPost.refl s
  | succ fuel ih =>
    intro n s
    rw [cdfs_succ]
    by_cases h : s.marked.contains n = true
    · simp only [h, ↓reduceIte]; exact CPost.refl s
    · simp only [h, Bool.false_eq_true, ↓reduceIte]
      obtain ⟨m1, s1, k1⟩ := cdfsList_post g fuel ih (g.children n ++ g.parents n) { s with marked := n :: s.marked }
      refine ⟨?_, ?_, ?_⟩
      · intro x hx; exact m1 x (List.mem_cons_of_mem _ hx)
      · intro x hx; simp only [List.mem_append]; exact Or.inl (s1 x hx)
      · intro x hx
        simp only [List.mem_append, List.mem_singleton]
        rcases k1 x hx with h | h
        · rcases List.mem_cons.mp h with rfl | h
          · exact Or.inr (Or.inr rfl)
          · exact Or.inl h
        · exact Or.inr (Or.inl h)

/-- with fuel an unmarked start node ends up in its component -/
theorem cdfs_self (g : Graph) (fuel n : Nat) (s : CS) (h : n ∉ s.marked) :
    n ∈ (cdfs g (fuel + 1) n s).sub ∧ n ∈ (cdfs g (fuel + 1) n s).marked := by
  rw [cdfs_succ]
  have h' : ¬ s.marked.contains n = true := by simpa using h
  simp only [h', Bool.false_eq_true, ↓reduceIte]
  refine ⟨by simp, ?_⟩
  exact (cdfsList_post g fuel (cdfs_post g fuel) _ _).1 n List.mem_cons_self

/-- every key of the map ends up in some component: the flattened components cover `keyOrder` -/
theorem components_cover (g : Graph) (fuel : Nat) :
    ∀ (ko marked : List Nat), ∀ x ∈ ko, x ∈ marked ∨ x ∈ (components g (fuel + 1) ko marked).flatten := by
  intro ko
  induction ko with
  | nil => intro _ x hx; simp at hx
  | cons n rest ih =>
    intro marked x hx
    unfold components
    by_cases hm : marked.contains n = true
    · simp only [hm, ↓reduceIte]
      rcases List.mem_cons.mp hx with rfl | hx
      · exact Or.inl (by simpa using hm)
      · exact ih marked x hx
    · simp only [hm, Bool.false_eq_true, ↓reduceIte, List.flatten_cons, List.mem_append]
      have hn : n ∉ ({ marked := marked, sub := [] } : CS).marked := by simpa using hm
      have hpost := cdfs_post g (fuel + 1) n { marked := marked, sub := [] }
      rcases List.mem_cons.mp hx with rfl | hx
      · exact Or.inr (Or.inl (cdfs_self g fuel x _ hn).1)
      · rcases ih (cdfs g (fuel + 1) n { marked := marked, sub := [] }).marked x hx with h | h
        · rcases hpost.2.2 x h with h | h
          · exact Or.inl h
          · exact Or.inr (Or.inl h)
        · exact Or.inr (Or.inr h)

/-- the components only contain nodes reached from the keys along edges: members of `allNodes` -/
theorem cdfs_sub (g : Graph) : ∀ (fuel n : Nat) (s : CS), n ∈ g.allNodes → (∀ e ∈ g.edges, e.1 ∈ g.allNodes) →
    (∀ x ∈ s.sub, x ∈ g.allNodes) → ∀ x ∈ (cdfs g fuel n s).sub, x ∈ g.allNodes := by
  intro fuel
  induction fuel with
  | zero => intro n s _ _ hs; rw [cdfs_zero]; exact hs
  | succ fuel ih =>
    intro n s hn hsrc hs
    rw [cdfs_succ]
    by_cases h : s.marked.contains n = true
    · simp only [h, ↓reduceIte]; exact hs
    · simp only [h, Bool.false_eq_true, ↓reduceIte]
      have hl : ∀ (ms : List Nat) (st : CS), (∀ m ∈ ms, m ∈ g.allNodes) → (∀ x ∈ st.sub, x ∈ g.allNodes) →
          ∀ x ∈ (cdfsList g fuel ms st).sub, x ∈ g.allNodes := by
        intro ms
        induction ms with
        | nil => intro st _ h; exact h
        | cons m ms ihl =>
          intro st hm hst
          show ∀ x ∈ (cdfsList g fuel ms (cdfs g fuel m st)).sub, x ∈ g.allNodes
          exact ihl _ (fun y hy => hm y (List.mem_cons_of_mem _ hy)) (ih m st (hm m List.mem_cons_self) hsrc hst)
      intro x hx
      simp only [List.mem_append, List.mem_singleton] at hx
      rcases hx with hx | rfl
      · refine hl _ { s with marked := n :: s.marked } ?_ hs x hx
        intro m hm
        rcases List.mem_append.mp hm with hm | hm
        · exact child_in_allNodes g ((mem_children g n m).mp hm)
        · exact hsrc (m, n) ((mem_parents g m n).mp hm)
      · exact hn

theorem components_sub (g : Graph) (fuel : Nat) (hsrc : ∀ e ∈ g.edges, e.1 ∈ g.allNodes) :
    ∀ (ko marked : List Nat), (∀ x ∈ ko, x ∈ g.allNodes) →
      ∀ x ∈ (components g fuel ko marked).flatten, x ∈ g.allNodes := by
  intro ko
  induction ko with
  | nil => intro _ _ x hx; simp [components] at hx
  | cons n rest ih =>
    intro marked hko x hx
    unfold components at hx
    by_cases hm : marked.contains n = true
    · simp only [hm, ↓reduceIte] at hx
      exact ih marked (fun y hy => hko y (List.mem_cons_of_mem _ hy)) x hx
    · simp only [hm, Bool.false_eq_true, ↓reduceIte, List.flatten_cons, List.mem_append] at hx
      rcases hx with hx | hx
      · exact cdfs_sub g fuel n _ (hko n List.mem_cons_self) hsrc (by simp) x hx
      · exact ih _ (fun y hy => hko y (List.mem_cons_of_mem _ hy)) x hx

end XV.Pool
