import XV.Lemmas.CrashTrace
import XV.Lemmas.Repost
/-!
The skip list of a walk is supplied PER WALK by the owner of the ledger (`walkEnv` of the driver): the environment of a walk
is `e.withSkip l` = `e` with `skipRepost := l`. Nothing but the re-admission list of `walk` reads that field: every other
function of the model gives the same result on `e.withSkip l` as on `e` (congruence lemmas below), and

  `walk (e.withSkip l) s lh dest prune` = `walkCore e s lh dest prune`, then (on success) the re-admission, in `e`, of the
  pool of `s` without the transactions of `l`                                                      (`walk_withSkip`).

So invariants stated for the fixed environment `e` of a history can be carried through walks whose skip lists differ.
-/
namespace XV.Chain

/-- the environment of one walk: `e` with the skip list the ledger supplies for it -/
def Env.withSkip (e : Env) (l : List Nat) : Env := { e with skipRepost := l }

@[simp] theorem withSkip_txs (e : Env) (l : List Nat) : (e.withSkip l).txs = e.txs := rfl
@[simp] theorem withSkip_blocks (e : Env) (l : List Nat) : (e.withSkip l).blocks = e.blocks := rfl
@[simp] theorem withSkip_window (e : Env) (l : List Nat) : (e.withSkip l).window = e.window := rfl
@[simp] theorem withSkip_skipRepost (e : Env) (l : List Nat) : (e.withSkip l).skipRepost = l := rfl
@[simp] theorem withSkip_tx (e : Env) (l : List Nat) (i : Nat) : (e.withSkip l).tx i = e.tx i := rfl
@[simp] theorem withSkip_block (e : Env) (l : List Nat) (i : Nat) : (e.withSkip l).block i = e.block i := rfl

/-- supplying the skip list an environment already has changes nothing -/
theorem withSkip_self (e : Env) : e.withSkip e.skipRepost = e := rfl

theorem withSkip_withSkip (e : Env) (l l' : List Nat) : (e.withSkip l).withSkip l' = e.withSkip l' := rfl

theorem repostList_withSkip (e : Env) (l : List Nat) (s : St) :
    repostList (e.withSkip l) s = s.pool.filter (fun i => !l.contains i) := rfl

theorem verIsDel_withSkip (e : Env) (l : List Nat) (v : Ver) : verIsDel (e.withSkip l) v = verIsDel e v := rfl

theorem undoKOut_withSkip (e : Env) (l : List Nat) (t : Tx) (kos : List KOut) :
    ∀ s, undoKOut (e.withSkip l) t kos s = undoKOut e t kos s := by
  induction kos with
  | nil => intro s; rfl
  | cons ko rest ih =>
    intro s
    simp only [undoKOut, verIsDel_withSkip, ih]
    rfl

theorem undoTx_withSkip (e : Env) (l : List Nat) (s : St) (t : Tx) : undoTx (e.withSkip l) s t = undoTx e s t := by
  unfold undoTx
  rw [undoKOut_withSkip]

theorem doTx_withSkip (e : Env) (l : List Nat) (s : St) (lh : Int) (i : Nat) :
    doTx (e.withSkip l) s lh i = doTx e s lh i := rfl

theorem ancestors_withSkip (e : Env) (l : List Nat) (n : Nat) : ∀ b, ancestors (e.withSkip l) n b = ancestors e n b := by
  induction n with
  | zero => intro b; rfl
  | succ n ih =>
    intro b
    simp only [ancestors, withSkip_block, ih]

theorem undoTodo_withSkip (e : Env) (l : List Nat) (cur dest : Nat) :
    undoTodo (e.withSkip l) cur dest = undoTodo e cur dest := by
  unfold undoTodo
  simp only [ancestors_withSkip, withSkip_blocks]

theorem undoBlock_withSkip (e : Env) (l : List Nat) (s : St) (b : Block) (prune : Bool) :
    undoBlock (e.withSkip l) s b prune = undoBlock e s b prune := by
  unfold undoBlock
  simp only [undoTx_withSkip, withSkip_tx, withSkip_window]

theorem blockHasDupInput_withSkip (e : Env) (l : List Nat) (txs : List Nat) :
    blockHasDupInput (e.withSkip l) txs = blockHasDupInput e txs := rfl

theorem applyBlockTxs_withSkip (e : Env) (l : List Nat) (lh : Int) (prop : String) (already : List Nat)
    (txs : List Nat) : ∀ s, applyBlockTxs (e.withSkip l) lh prop already txs s = applyBlockTxs e lh prop already txs s := by
  induction txs with
  | nil => intro s; rfl
  | cons i rest ih =>
    intro s
    simp only [applyBlockTxs, withSkip_tx, ih]

theorem todoBlock_withSkip (e : Env) (l : List Nat) (s : St) (lh : Int) (b : Block) :
    todoBlock (e.withSkip l) s lh b = todoBlock e s lh b := by
  unfold todoBlock
  simp only [blockHasDupInput_withSkip, applyBlockTxs_withSkip, withSkip_window]

theorem undoAll_withSkip (e : Env) (l : List Nat) (prune : Bool) (bs : List Nat) :
    ∀ st, walk.undoAll (e.withSkip l) prune bs st = walk.undoAll e prune bs st := by
  induction bs with
  | nil => intro st; rfl
  | cons bi rest ih =>
    intro st
    simp only [walk.undoAll, withSkip_block, undoBlock_withSkip, ih]
    rfl

theorem todoAll_withSkip (e : Env) (l : List Nat) (lh : Int) (bs : List Nat) :
    ∀ st, walk.todoAll (e.withSkip l) lh bs st = walk.todoAll e lh bs st := by
  induction bs with
  | nil => intro st; rfl
  | cons bi rest ih =>
    intro st
    simp only [walk.todoAll, withSkip_block, todoBlock_withSkip, ih]

end XV.Chain

namespace XV.Crash
open XV.Chain

theorem rolledBack_withSkip (e : Env) (l : List Nat) (s : St) : rolledBack (e.withSkip l) s = rolledBack e s := by
  unfold rolledBack
  simp only [undoTx_withSkip, withSkip_tx]

theorem walkCore_withSkip (e : Env) (l : List Nat) (s : St) (lh : Int) (dest : Nat) (prune : Bool) :
    walkCore (e.withSkip l) s lh dest prune = walkCore e s lh dest prune := by
  unfold walkCore
  simp only [rolledBack_withSkip, undoTodo_withSkip, undoAll_withSkip, todoAll_withSkip]

/-- **a walk with the skip list `l` supplied for it**: the block part of the walk in `e`, then (on success) the
re-admission, in `e`, of the old pool without the transactions of `l` -/
theorem walk_withSkip (e : Env) (l : List Nat) (s : St) (lh : Int) (dest : Nat) (prune : Bool) :
    walk (e.withSkip l) s lh dest prune =
      if (walkCore e s lh dest prune).2 = true then
        ((s.pool.filter (fun i => !l.contains i)).foldl (fun st i => (doTx e st lh i).1)
          (walkCore e s lh dest prune).1, true)
      else ((walkCore e s lh dest prune).1, false) := by
  rw [walk_eq_core, walkCore_withSkip, repostList_withSkip]
  rfl

/-- the verdict of a walk does not depend on the skip list -/
theorem walk_withSkip_ok (e : Env) (l : List Nat) (s : St) (lh : Int) (dest : Nat) (prune : Bool) :
    (walk (e.withSkip l) s lh dest prune).2 = (walkCore e s lh dest prune).2 := by
  rw [walk_withSkip]
  cases h : (walkCore e s lh dest prune).2 <;> simp

/-- `walk` in any environment, in the same form (`walk_eq_core` read through `repostList`) -/
theorem walk_eq_core_filter (e : Env) (s : St) (lh : Int) (dest : Nat) (prune : Bool) :
    walk e s lh dest prune = walk (e.withSkip e.skipRepost) s lh dest prune := rfl

end XV.Crash
