import XV.Model.Pool
import XV.Drv.Chain
/-!
line-protocol driver of the pool model (`xvdriver pool`); op language (documented in go/cmd/pool/main.go):

  reset                               -> ok
  sync                                -> -         a new check phase: start state and pool are described afresh
  dtx atx submit fblock pack sample   -> -         implementation-side only
  utxo <tx>.<off> <addr> <amt>        -> ok        start state: an unspent output
  key <k> <tx>.<off>                  -> ok        start state: current version of a key
  dkey <k> <tx>.<off>                 -> ok        start state: delete marker (version) of a deleted key
  ptx <id> in=.. out=.. kin=.. kout=  -> ok|reject admission into the pool on the evolving state
  graph                               -> edges of SortUnconfirmedTx, sorted, de-duplicated (`none` if empty)
  order <id,id,..>                    -> possible|impossible
  replay <id,id,..>                   -> ok|reject  admitted one by one from the start state and same final tables
  rawsort nodes=a,b e=a>b,..          -> cyclic | ok sizes=<sorted component sizes>
-/
namespace XV.Drv.Pool
open XV.Chain XV.Pool XV.Drv XV.Drv.Chain

structure DS where
  s0 : St := {}
  cur : St := {}
  pool : List Tx := []
deriving Inhabited

def natList (s : String) : List Nat := (splitList s).filterMap String.toNat?

def sortNat (l : List Nat) : List Nat := l.mergeSort (fun a b => a ≤ b)

def edgeStr (es : List (Nat × Nat)) : String :=
  let ss := sortStr (es.eraseDups.map (fun e => s!"{e.1}>{e.2}"))
  if ss.isEmpty then "none" else String.intercalate "," ss

def parseEdge (s : String) : Option (Nat × Nat) :=
  match s.splitOn ">" with
  | [a, b] => match a.toNat?, b.toNat? with
    | some a, some b => some (a, b)
    | _, _ => none
  | _ => none

/-- canonical dump of the tables the property names: U rows, live and deleted key versions, total -/
def dump (s : St) (keys : List String) : String :=
  let us := sortStr ((s.U.map (·.1)).eraseDups.filterMap (fun k => (lookup s.U k).map (fun u =>
    s!"{k.1}.{k.2}:{u.addr}:{u.amt}:{u.frozen}")))
  let ks := keys.map (fun k => k ++ "@" ++ (match lookup s.ZU k with | some v => verStr v | none => "-") ++ "/" ++
    (match lookup s.ZD k with | some v => verStr v | none => "-"))
  s!"U={String.intercalate "," us} K={String.intercalate "," ks} total={s.total}"

def keysOf (pool : List Tx) (s0 : St) : List String :=
  sortStr ((pool.flatMap (fun t => t.kin.map (·.key) ++ t.kout.map (·.key)) ++ s0.ZU.map (·.1) ++ s0.ZD.map (·.1)).eraseDups)

def txOf (pool : List Tx) (i : Nat) : Option Tx := pool.find? (fun t => t.id == i)

def step (d : DS) (line : String) : DS × String :=
  let ws := words line
  match ws with
  | [] => (d, "bad-op")
  | op :: rest =>
    let kv := kvOf rest
    let pos := posOf rest
    match op with
    | "reset" => ({}, "ok")
    | "sync" => ({}, "-")      -- a new check phase: start state and pool are described afresh
    | "dtx" | "atx" | "submit" | "fblock" | "pack" | "sample" => (d, "-")
    | "utxo" =>
      match pos with
      | [v, addr, amt] =>
        match parseVer v, amt.toNat? with
        | some ver, some a =>
          let s := { d.s0 with U := put d.s0.U ver ⟨addr, a, 0⟩ }
          ({ d with s0 := s, cur := s }, "ok")
        | _, _ => (d, "bad-op")
      | _ => (d, "bad-op")
    | "key" =>
      match pos with
      | [k, v] =>
        match parseVer v with
        | some ver =>
          let s := { d.s0 with ZU := put d.s0.ZU k ver }
          ({ d with s0 := s, cur := s }, "ok")
        | none => (d, "bad-op")
      | _ => (d, "bad-op")
    | "dkey" =>
      match pos with
      | [k, v] =>
        match parseVer v with
        | some ver =>
          let s := { d.s0 with ZD := put d.s0.ZD k ver }
          ({ d with s0 := s, cur := s }, "ok")
        | none => (d, "bad-op")
      | _ => (d, "bad-op")
    | "ptx" =>
      match pos with
      | [ids] =>
        match ids.toNat? with
        | some id =>
          match parseTx id kv with
          | some t =>
            if admitTx d.cur 0 t = .ok then ({ d with cur := applyTx d.cur t, pool := d.pool ++ [t] }, "ok")
            else (d, "reject")
          | none => (d, "bad-op")
        | none => (d, "bad-op")
      | _ => (d, "bad-op")
    | "graph" => (d, edgeStr (sortUnconfirmed d.pool).edges)
    | "order" =>
      let l := natList (pos.headD "")
      (d, if possibleOrder (sortUnconfirmed d.pool) l then "possible" else "impossible")
    | "replay" =>
      let l := natList (pos.headD "")
      match l.mapM (txOf d.pool) with
      | none => (d, "bad-op")
      | some txs =>
        match admitAll d.s0 0 txs with
        | none => (d, "reject")
        | some s' =>
          -- replaying all of the pool must end in the producer's tables; a proper prefix only has to be admissible
          let ks := keysOf d.pool d.s0
          if l.length == d.pool.length && dump s' ks != dump d.cur ks then (d, "differ") else (d, "ok")
    | "rawsort" =>
      let nodes := natList (getKV kv "nodes")
      let edges := (splitList (getKV kv "e")).filterMap parseEdge
      let g : Graph := { nodes := nodes, edges := edges }
      let r := topSortDFS g g.allNodes
      match r.order with
      | none => (d, "cyclic")
      | some o =>
        if possibleOrder g o then
          (d, "ok sizes=" ++ String.intercalate "," ((sortNat r.dagSizes).map toString))
        else (d, "model-order-wrong")
    | _ => (d, "bad-op")

def run : IO Unit := loop step {}

end XV.Drv.Pool
