import XV.Model.Pool
import XV.Model.Miner
import XV.Drv.Chain
/-!
line-protocol driver of the pool model (`xvdriver pool`); op language (documented in go/cmd/pool/main.go):

  reset                               -> ok
  sync                                -> -         a new check phase: start state and pool are described afresh
  dtx atx submit fblock pack sample   -> -         implementation-side only
  utxo <tx>.<off> <addr> <amt>        -> ok        start state: an unspent output
  key <k> <tx>.<off>                  -> ok        start state: current version of a key
  dkey <k> <tx>.<off>                 -> ok        start state: delete marker (version) of a deleted key
  ptx <id> in=.. out=.. kin=.. kout=  -> ok|reject admission into the pool on the evolving state
  graph                               -> edges of SortUnconfirmedTx, sorted, de-duplicated (`none` if empty)
  order <id,id,..>                    -> possible|impossible
  replay <id,id,..>                   -> ok|reject  admitted one by one from the start state and same final tables
  rawsort nodes=a,b e=a>b,..          -> cyclic | ok sizes=<sorted component sizes>

the miner round (model `XV.Miner`; the state of this part survives `sync`):

  reset fee=0|1 [award=A] [decay=G:N/D]  the award schedule of the genesis configuration (no fee: award 0)
  award <h>                           -> CalcAward(h)
  height <h>                          -> ok|differ  claim: the trunk height (tracked: pack / fblock / mine)
  task <H> <id> c=<h> | task <H> <id> p -> ok       a timer task of the live state, confirmed at height h / pending
  mine [trunc=K]                      -> h=<height> award=<amount> timer=<ids|->   one round of Miner.mining
  mine fault=state|ledger             -> failed h=<ledger height>   a round whose PlayForMiner / ConfirmBlock write fails
-/
namespace XV.Drv.Pool
open XV.Chain XV.Pool XV.Drv XV.Drv.Chain

/-- the miner part: award schedule, trunk height, the timer tasks claimed since the last block (task, confirming
height; `none` = pending) -/
structure MS where
  cfg : XV.Miner.AwardCfg := {}
  height : Nat := 0
  tasks : List (XV.Miner.Task × Option Nat) := []
deriving Inhabited

structure DS where
  s0 : St := {}
  cur : St := {}
  pool : List Tx := []
  ms : MS := {}
deriving Inhabited

/-- `reset fee=1 award=A decay=G:N/D` -/
def cfgOf (kv : List (String × String)) : XV.Miner.AwardCfg :=
  if getKV kv "fee" != "1" then {}
  else
    let award := ((lookup kv "award").bind String.toNat?).getD 50
    match (getKV kv "decay").splitOn ":" with
    | [g, r] =>
      match g.toNat?, r.splitOn "/" with
      | some g, [n, d] =>
        match n.toNat?, d.toNat? with
        | some n, some d => { award := award, gap := g, num := n, den := d }
        | _, _ => { award := award }
      | _, _ => { award := award }
    | _ => { award := award }

/-- the node of the miner model: block i of the trunk registers the tasks claimed as confirmed at height i -/
def nodeOf (m : MS) : XV.Miner.Node :=
  { trunk := (List.range m.height).reverse.map (fun i =>
      { height := i + 1, award := XV.Miner.calcAward m.cfg (i + 1), timer := [],
        adds := m.tasks.filterMap (fun p => if p.2 == some (i + 1) then some p.1 else none) }),
    pendingAdds := m.tasks.filterMap (fun p => if p.2 == none then some p.1 else none) }

/-- a block was added by other means than `mine` -/
def bump (d : DS) : DS := { d with ms := { d.ms with height := d.ms.height + 1, tasks := [] } }

def natList (s : String) : List Nat := (splitList s).filterMap String.toNat?

def sortNat (l : List Nat) : List Nat := l.mergeSort (fun a b => a ≤ b)

def edgeStr (es : List (Nat × Nat)) : String :=
  let ss := sortStr (es.eraseDups.map (fun e => s!"{e.1}>{e.2}"))
  if ss.isEmpty then "none" else String.intercalate "," ss

def parseEdge (s : String) : Option (Nat × Nat) :=
  match s.splitOn ">" with
  | [a, b] => match a.toNat?, b.toNat? with
    | some a, some b => some (a, b)
    | _, _ => none
  | _ => none

/-- canonical dump of the tables the property names: U rows, live and deleted key versions, total -/
def dump (s : St) (keys : List String) : String :=
  let us := sortStr ((s.U.map (·.1)).eraseDups.filterMap (fun k => (lookup s.U k).map (fun u =>
    s!"{k.1}.{k.2}:{u.addr}:{u.amt}:{u.frozen}")))
  let ks := keys.map (fun k => k ++ "@" ++ (match lookup s.ZU k with | some v => verStr v | none => "-") ++ "/" ++
    (match lookup s.ZD k with | some v => verStr v | none => "-"))
  s!"U={String.intercalate "," us} K={String.intercalate "," ks} total={s.total}"

def keysOf (pool : List Tx) (s0 : St) : List String :=
  sortStr ((pool.flatMap (fun t => t.kin.map (·.key) ++ t.kout.map (·.key)) ++ s0.ZU.map (·.1) ++ s0.ZD.map (·.1)).eraseDups)

def txOf (pool : List Tx) (i : Nat) : Option Tx := pool.find? (fun t => t.id == i)

def step (d : DS) (line : String) : DS × String :=
  let ws := words line
  match ws with
  | [] => (d, "bad-op")
  | op :: rest =>
    let kv := kvOf rest
    let pos := posOf rest
    match op with
    | "reset" => ({ ms := { cfg := cfgOf kv } }, "ok")
    | "sync" => ({ ms := d.ms }, "-")      -- a new check phase: start state and pool are described afresh
    | "dtx" | "atx" | "submit" | "sample" => (d, "-")
    | "fblock" | "pack" => (bump d, "-")
    | "award" =>
      match (pos.headD "").toNat? with
      | some h => (d, toString (XV.Miner.calcAward d.ms.cfg h))
      | none => (d, "bad-op")
    | "height" =>
      match pos with
      | [h] => (d, if h.toNat? == some d.ms.height then "ok" else "differ")
      | _ => (d, "bad-op")
    | "task" =>
      match pos with
      | hs :: is :: rest =>
        match hs.toNat?, is.toNat? with
        | some h, some i =>
          let st : Option (Option Nat) :=
            if rest == ["p"] then some none else ((lookup kv "c").bind String.toNat?).map some
          match st with
          | some c => ({ d with ms := { d.ms with tasks := d.ms.tasks ++ [(⟨h, i⟩, c)] } }, "ok")
          | none => (d, "bad-op")
        | _, _ => (d, "bad-op")
      | _ => (d, "bad-op")
    | "mine" =>
      let k := ((lookup kv "trunc").bind String.toNat?).getD 0
      if k > d.ms.height then (d, "bad-op")
      else if (lookup kv "fault").isSome then
        -- a round that fails on an injected write: the ledger keeps the block iff the STATE write failed
        let s0 : XV.Miner.NodeS := { node := nodeOf d.ms, played := d.ms.height, total := 0 }
        match (if k > 0 then none else match getKV kv "fault" with
            | "state" => some XV.Miner.Fault.state
            | "ledger" => some XV.Miner.Fault.ledger
            | _ => none) with
        | none => (d, "bad-op")
        | some f =>
          let s := XV.Miner.roundS d.ms.cfg false s0 (some f)
          ({ d with ms := { d.ms with height := s.node.height, tasks := [] } }, s!"failed h={s.node.height}")
      else
        let (b, _) := XV.Miner.mineRound d.ms.cfg (nodeOf d.ms) k
        let tm := if b.timer.isEmpty then "-" else String.intercalate "," ((sortNat b.timer).map toString)
        ({ d with ms := { d.ms with height := b.height, tasks := [] } },
          s!"h={b.height} award={b.award} timer={tm}")
    | "utxo" =>
      match pos with
      | [v, addr, amt] =>
        match parseVer v, amt.toNat? with
        | some ver, some a =>
          let s := { d.s0 with U := put d.s0.U ver ⟨addr, a, 0⟩ }
          ({ d with s0 := s, cur := s }, "ok")
        | _, _ => (d, "bad-op")
      | _ => (d, "bad-op")
    | "key" =>
      match pos with
      | [k, v] =>
        match parseVer v with
        | some ver =>
          let s := { d.s0 with ZU := put d.s0.ZU k ver }
          ({ d with s0 := s, cur := s }, "ok")
        | none => (d, "bad-op")
      | _ => (d, "bad-op")
    | "dkey" =>
      match pos with
      | [k, v] =>
        match parseVer v with
        | some ver =>
          let s := { d.s0 with ZD := put d.s0.ZD k ver }
          ({ d with s0 := s, cur := s }, "ok")
        | none => (d, "bad-op")
      | _ => (d, "bad-op")
    | "ptx" =>
      match pos with
      | [ids] =>
        match ids.toNat? with
        | some id =>
          match parseTx id kv with
          | some t =>
            if admitTx d.cur 0 t = .ok then ({ d with cur := applyTx d.cur t, pool := d.pool ++ [t] }, "ok")
            else (d, "reject")
          | none => (d, "bad-op")
        | none => (d, "bad-op")
      | _ => (d, "bad-op")
    | "graph" => (d, edgeStr (sortUnconfirmed d.pool).edges)
    | "order" =>
      let l := natList (pos.headD "")
      (d, if possibleOrder (sortUnconfirmed d.pool) l then "possible" else "impossible")
    | "replay" =>
      let l := natList (pos.headD "")
      match l.mapM (txOf d.pool) with
      | none => (d, "bad-op")
      | some txs =>
        match admitAll d.s0 0 txs with
        | none => (d, "reject")
        | some s' =>
          -- replaying all of the pool must end in the producer's tables; a proper prefix only has to be admissible
          let ks := keysOf d.pool d.s0
          if l.length == d.pool.length && dump s' ks != dump d.cur ks then (d, "differ") else (d, "ok")
    | "rawsort" =>
      let nodes := natList (getKV kv "nodes")
      let edges := (splitList (getKV kv "e")).filterMap parseEdge
      let g : Graph := { nodes := nodes, edges := edges }
      let r := topSortDFS g g.allNodes
      match r.order with
      | none => (d, "cyclic")
      | some o =>
        if possibleOrder g o then
          (d, "ok sizes=" ++ String.intercalate "," ((sortNat r.dagSizes).map toString))
        else (d, "model-order-wrong")
    | _ => (d, "bad-op")

def run : IO Unit := loop step {}

end XV.Drv.Pool
