import XV.Model.Schema
import XV.Model.SigLogic
import XV.Drv.Enc
/-! C07 ops of the `enc` driver: pre-images of the v3 digest / id, the v1/v2 collision, and the
decision model of transaction verification on symbolic transactions. -/
namespace XV.Drv.EncTx
open XV.Enc XV.Schema XV.Drv XV.Drv.Enc

/-- a byte string of the op line: hex, or symbolic (address, account, signer uri, public key) -/
def symBytes (tok : String) : Option Bytes :=
  let num (s : String) : Option UInt8 := s.toNat?.map UInt8.ofNat
  if tok == "-" || tok == "" then some []
  else match tok.toList with
    | 'A' :: r => (num (String.ofList r)).map fun i => [0x41, i]
    | 'K' :: r => (num (String.ofList r)).map fun i => [0x50, i]
    | 'C' :: r =>
      match (String.ofList r).splitOn "/A" with
      | [n] => (num n).map fun n => [0x43, n]
      | [n, i] => do pure [0x43, ← num n, 0x2f, 0x41, ← num i]
      | _ => none
    | _ => unhex tok

/-- a signature of the op line: raw bytes, or "key k over digest r" / "keys ks aggregated over digest r" -/
inductive SigTok where
  | raw (b : Bytes)
  | s (k : Nat) (ref : String)
  | x (ks : List Nat) (ref : String)

def parseSigTok (tok : String) : Option SigTok :=
  match tok.toList with
  | 'S' :: r =>
    match (String.ofList r).splitOn "." with
    | [k, ref] => k.toNat?.map fun k => SigTok.s k ref
    | _ => none
  | 'X' :: r =>
    match (String.ofList r).splitOn "." with
    | [ks, ref] => ((ks.splitOn "_").mapM String.toNat?).map fun ks => SigTok.x ks ref
    | _ => none
  | _ => (symBytes tok).map SigTok.raw

def w8 (i : Int) : W8 := ⟨be8 (i % 18446744073709551616).toNat, be8_length _⟩

def listOf {α : Type} (s : String) (sep : String) (f : String → Option α) : Option (List α) :=
  if s == "~" || s == "" then some [] else (s.splitOn sep).mapM f

structure PTx where
  core : Core
  isig : List (Bytes × SigTok)
  asig : List (Bytes × SigTok)
  xs : Bool
  xpk : List Bytes
  xsg : SigTok
  version : Int
  autogen : Bool

def parseSigs (s : String) : Option (List (Bytes × SigTok)) :=
  listOf s "," fun e => match e.splitOn "/" with
    | [pk, sg] => do pure (← symBytes pk, ← parseSigTok sg)
    | _ => none

def parsePTx (spec : String) : Option PTx := do
  let ws := spec.splitOn ";"
  let get (k : String) : Option String := kv ws k
  let ins ← listOf (← get "in") "," fun e => match e.splitOn "/" with
    | [a, b, c, d, f] => do pure (⟨← symBytes a, w8 (← b.toInt?), ← symBytes c, ← symBytes d, w8 (← f.toInt?)⟩ : TxInput)
    | _ => none
  let outs ← listOf (← get "out") "," fun e => match e.splitOn "/" with
    | [a, b, c] => do pure (⟨← symBytes a, ← symBytes b, w8 (← c.toInt?)⟩ : TxOutput)
    | _ => none
  let inx ← listOf (← get "inx") "," fun e => match e.splitOn "/" with
    | [a, b, c, d] => do pure (⟨← symBytes a, ← symBytes b, ← symBytes c, w8 (← d.toInt?)⟩ : TxInputExt)
    | _ => none
  let outx ← listOf (← get "outx") "," fun e => match e.splitOn "/" with
    | [a, b, c] => do pure (⟨← symBytes a, ← symBytes b, ← symBytes c⟩ : TxOutputExt)
    | _ => none
  let reqs ← listOf (← get "req") "," fun e => match e.splitOn "/" with
    | [a, b, c, args, lims, amt] => do
      let args ← listOf args "+" fun kvs => match kvs.splitOn ":" with
        | [k, v] => do pure (← symBytes k, ← symBytes v)
        | _ => none
      let lims ← listOf lims "+" fun kvs => match kvs.splitOn ":" with
        | [t, l] => do pure (⟨w8 (← t.toInt?), w8 (← l.toInt?)⟩ : Limit)
        | _ => none
      pure (⟨← symBytes a, ← symBytes b, ← symBytes c, args, lims, ← symBytes amt⟩ : Request)
    | _ => none
  let auth ← listOf (← get "auth") "," fun a => symBytes (a.replace "|" "/")
  let ver ← (← get "ver").toInt?
  let ag := (← get "ag") == "1"
  let cb := (← get "cb") == "1"
  let core : Core := {
    inputs := ins, outputs := outs, desc := ← symBytes (← get "desc"), coinbase := w8 (if cb then 1 else 0),
    nonce := ← symBytes (← get "nonce"), timestamp := w8 (← (← get "ts").toInt?), version := w8 ver,
    autogen := w8 (if ag then 1 else 0), inputsExt := inx, outputsExt := outx, requests := reqs,
    initiator := ← symBytes (← get "init"), authRequire := auth,
    hdPublicKey := ← symBytes (← get "hdpk"), hdOriginalHash := ← symBytes (← get "hdoh") }
  pure { core := core, isig := ← parseSigs (← get "isig"), asig := ← parseSigs (← get "asig"),
         xs := (← get "xs") == "1", xpk := ← listOf (← get "xpk") "," symBytes, xsg := ← parseSigTok (← get "xsg"),
         version := ver, autogen := ag }

/-- symbolic signature bytes: `'S' k ‖ digest`, `'X' ks '.' ‖ digest` -/
def sigBytes (digB digM : Bytes) : SigTok → Bytes
  | .raw b => b
  | .s k ref => [0x53, UInt8.ofNat k] ++ (if ref == "B" then digB else if ref == "M" then digM else [0x4f])
  | .x ks ref => [0x58] ++ ks.map UInt8.ofNat ++ [0x2e] ++ (if ref == "B" then digB else if ref == "M" then digM else [0x4f])

def resolve (p : PTx) (digB : Bytes) : Schema.Tx :=
  let digM := cDigest.enc p.core
  let f := fun (e : Bytes × SigTok) => (⟨e.1, sigBytes digB digM e.2⟩ : SigInfo)
  { core := p.core, signs := ⟨p.isig.map f, p.asig.map f, p.xpk, sigBytes digB digM p.xsg⟩ }

/-! ### names -/

def isDigit (b : UInt8) : Bool := 0x30 ≤ b && b ≤ 0x39

/-- `IsAccount` on a raw name: "XC" + 16 digits, optionally followed by "@…" -/
def rawIsAccount (b : Bytes) : Bool :=
  b.take 2 == [0x58, 0x43] &&
  (let r := (b.drop 2).takeWhile (· != 0x40)
   r.length == 16 && r.all isDigit)

def bytesId (b : Bytes) : Nat := b.foldl (fun a x => a * 257 + x.toNat + 1) 0

def nameOf (b : Bytes) : SigLogic.Name :=
  match b with
  | [] => .invalid
  | [0x41, i] => .ak i.toNat
  | [0x43, n] => .account n.toNat
  | _ => if rawIsAccount b then .account (1000 + bytesId b) else .ak (1000 + bytesId b)

def addrId (b : Bytes) : Nat :=
  match b with
  | [0x41, i] => i.toNat
  | _ => 1000 + bytesId b

def splitLast (b : Bytes) : Bytes × Bytes :=
  -- (everything before the last '/', last component)
  let r := b.reverse
  let last := (r.takeWhile (· != 0x2f)).reverse
  let before := ((r.dropWhile (· != 0x2f)).drop 1).reverse
  (before, last)

def authReqOf (b : Bytes) : SigLogic.AuthReq :=
  let (pre, last) := splitLast b
  ⟨match pre with
    | [0x43, n] => some n.toNat
    | _ => none, addrId last⟩

def keyOf (pk : Bytes) : Option Nat :=
  match pk with
  | [0x50, i] => some i.toNat
  | _ => none

/-- the in-memory ACL table of the harness: account `Cn` (n < 8) is controlled by address `An`, threshold 1 -/
def env : SigLogic.Env where
  acctOk := fun n uris => n < 8 && uris.any (fun u => u.prefixAcct == some n && u.addr == n)
  acctExists := fun n => n < 8

def toSigTx (t : Schema.Tx) (xs : Bool) (txidOk : Bool) : SigLogic.Tx :=
  let dig := cDigest.enc t.core
  let sg := fun (s : SigInfo) => (⟨keyOf s.publicKey, match keyOf s.publicKey with
    | some k => s.sign == [0x53, UInt8.ofNat k] ++ dig
    | none => false⟩ : SigLogic.Sig)
  let ks := t.signs.xuperPublicKeys.map keyOf
  { txidOk := txidOk, initiator := nameOf t.core.initiator, initiatorSigns := t.signs.initiatorSigns.map sg,
    authRequire := t.core.authRequire.map authReqOf, authRequireSigns := t.signs.authRequireSigns.map sg,
    -- an `X` token is a multi-signature of the keys it names
    xuper := if xs then some ⟨ks, ks.all (·.isSome) &&
      t.signs.xuperSignature == [0x58] ++ (ks.filterMap id).map UInt8.ofNat ++ [0x2e] ++ dig, true⟩ else none,
    inputs := t.core.inputs.map fun i => { owner := nameOf i.fromAddr } }

/-- value of `k=` in a token list, split at the first '=' only (transaction specs contain '=') -/
def kv1 (ws : List String) (k : String) : Option String :=
  ws.findSome? fun w => if w.startsWith (k ++ "=") then some ((w.drop (k.length + 1)).toString) else none

def vt (ws : List String) : String :=
  match kv1 ws "txid", (kv1 ws "base").bind parsePTx, (kv1 ws "mut").bind parsePTx with
  | some idk, some pb, some pm =>
    if pb.version < 3 then "n/m" else
    let base := resolve pb []
    let digB := cDigest.enc base.core
    -- a mutant of another version hashes with another encoder: its digest differs from the base's
    let mu := resolve pm (if pm.version < 3 then [0x3f] else digB)
    let txidOk := idk == "M" || (idk == "B" && pm.version ≥ 3 && cId.enc mu == cId.enc base)
    if pm.version < 1 || pm.version > 3 || pm.autogen then "reject"
    else if SigLogic.verifyTx env (toSigTx mu pm.xs txidOk) then "accept" else "reject"
  | _, _, _ => "bad-op"

/-! ### vc: outputs spent by the carried contract code (`$xvvault.withdraw`) -/

/-- owner / recipient token: `V` the vault contract, `A<i>` address i, `C<n>` account n -/
def vcName (tok : String) : Option SigLogic.Name :=
  match tok.toList with
  | ['V'] => some (.ak 999)
  | 'A' :: r => (String.ofList r).toNat?.map SigLogic.Name.ak
  | 'C' :: r => (String.ofList r).toNat?.map SigLogic.Name.account
  | _ => none

def vcInput (e : String) : Option SigLogic.Input :=
  match e.splitOn "/" with
  | [ref, o, a] =>
    match ref.splitOn "." with
    | [t, off] => do pure ⟨← vcName o, ← t.toNat?, ← off.toInt?, ← a.toNat?⟩
    | _ => none
  | _ => none

def vcOutput (e : String) : Option SigLogic.Output :=
  match e.splitOn "/" with
  | [a, to] => do pure ⟨← a.toNat?, ← vcName to⟩
  | _ => none

/-- a listed signer `A<i>` or `C<n>|A<i>`; it signs validly with key i -/
def vcSigner (tok : String) : Option (SigLogic.AuthReq × SigLogic.Sig) :=
  match tok.splitOn "|" with
  | [a] => match vcName a with
    | some (.ak i) => some (⟨none, i⟩, ⟨some i, true⟩)
    | _ => none
  | [c, a] => match vcName c, vcName a with
    | some (.account n), some (.ak i) => some (⟨some n, i⟩, ⟨some i, true⟩)
    | _, _ => none
  | _ => none

def vc (ws : List String) : String :=
  let r : Option String := do
    let sg ← listOf (← kv1 ws "sg") "," some
    let ini ← match sg.head? with
      | some a => match vcName a with
        | some (.ak i) => some i
        | _ => none
      | none => none
    let signers ← (sg.drop 1).mapM vcSigner
    let amts ← listOf (← kv1 ws "amts") "," String.toInt?
    let payer : SigLogic.Name ← match (← kv1 ws "from") with
      | "V" => some (.ak 999)
      | "I" => some (.ak ini)
      | _ => none
    let t : SigLogic.Tx := {
      txidOk := true, initiator := .ak ini, initiatorSigns := [⟨some ini, true⟩],
      authRequire := signers.map (·.1), authRequireSigns := signers.map (·.2), xuper := none,
      inputs := ← listOf (← kv1 ws "in") "," vcInput, outputs := ← listOf (← kv1 ws "out") "," vcOutput,
      contractInputs := ← listOf (← kv1 ws "cin") "," vcInput, contractOutputs := ← listOf (← kv1 ws "cout") "," vcOutput }
    let code : List SigLogic.Transfer := amts.map fun a => ⟨payer, .ak ini, a⟩
    let ok := if kv1 ws "req" == some "0" then SigLogic.verifyTxNoCode (fun t => SigLogic.byContract t.contractInputs) env t
      else SigLogic.verifyTxC (fun t => SigLogic.byContract t.contractInputs) env code t
    pure (if ok then "accept" else "reject")
  r.getD "bad-op"

/-! ### sx: `State.VerifyTx` and `Chain.SubmitTx` of a real node -/

/-- a decimal number below `bound`, spelled without leading zeros -/
def sxNum (s : String) (bound : Nat) : Option Nat :=
  match s.toNat? with
  | some n => if n < bound && toString n == s then some n else none
  | none => none

/-- `A<i>` (i < 8) | `C<n>` (n < 6, where accounts are allowed) -/
def sxName (tok : String) (accountsToo : Bool) : Option SigLogic.Name :=
  match tok.toList with
  | 'A' :: r => (sxNum (String.ofList r) 8).map SigLogic.Name.ak
  | 'C' :: r => if accountsToo then (sxNum (String.ofList r) 6).map SigLogic.Name.account else none
  | _ => none

def sxUri (tok : String) : Option SigLogic.AuthReq :=
  match tok.splitOn "|" with
  | [a] => match sxName a false with
    | some (.ak i) => some ⟨none, i⟩
    | _ => none
  | [c, a] => match sxName c true, sxName a false with
    | some (.account n), some (.ak i) => some ⟨some n, i⟩
    | _, _ => none
  | _ => none

/-- a signature entry `<k>` (valid) | `<k>x` (does not verify), under the public key of key k -/
def sxEntry (tok : String) : Option SigLogic.Sig :=
  if tok.endsWith "x" then (sxNum ((tok.dropEnd 1).toString) 8).map fun k => ⟨some k, false⟩
  else (sxNum tok 8).map fun k => ⟨some k, true⟩

/-- the chain of the harness: accounts C0..C3 are controlled by A0..A3 (threshold 1); a name without
stored rule is open to everybody (`IdentifyAccount`), but what it owns cannot be spent -/
def sxEnv : SigLogic.Env where
  acctOk := fun n uris => if n < 4 then uris.any (fun u => u.prefixAcct == some n && u.addr == n) else true
  acctExists := fun n => n < 4
  -- method 1 = `$xvgate.guarded`, rule {A3: 1, C2: 1}, threshold 1: address 3 among the users, or account 2 through its key
  methodOk := fun m us => m != 1 || us.any (fun u => (u.prefixAcct == none && u.addr == 3) || (u.prefixAcct == some 2 && u.addr == 2))

def sxAct (tok : String) : Option (Bool × List SigLogic.AclWrite) :=
  match tok.toList with
  | ['T'] => some (false, [])
  | ['K'] => some (true, [])
  | ['G'] => some (true, [])
  | ['S', ':', 'C', d] => (sxNum (String.singleton d) 4).map fun n => (true, [.account n])
  | ['N', ':', 'C', d] => match sxNum (String.singleton d) 6 with
    | some n => if 4 ≤ n then some (true, [.account n]) else none
    | none => none
  | ['M', ':', 'c', d] => match sxNum (String.singleton d) 4 with
    | some 1 => some (true, [.method (some 1)])
    | some 2 => some (true, [.method (some 2)])
    | some 3 => some (true, [.method none])
    | _ => none
  | _ => none

def sx (ws : List String) : String :=
  let r : Option String := do
    let ch ← kv1 ws "ch"
    let form ← kv1 ws "form"
    let ver ← (← kv1 ws "ver").toNat?
    let xst ← kv1 ws "xst"
    let ini ← sxName (← kv1 ws "init") true
    let isg ← listOf (← kv1 ws "isg") "," sxEntry
    let auth ← listOf (← kv1 ws "auth") "," sxUri
    let asg ← listOf (← kv1 ws "asg") "," sxEntry
    let xk ← listOf (← kv1 ws "xk") "," (sxNum · 8)
    let xsg ← listOf (← kv1 ws "xsg") "_" (sxNum · 8)
    let ins ← listOf (← kv1 ws "in") "," (sxName · true)
    let (hasReq, writes) ← sxAct (← kv1 ws "act")
    if !(ch == "p" || ch == "m") || !(form == "c" || form == "x") || ver < 1 || ver > 3 then none
    -- what the signing library can produce
    if !(["m", "e", "v", "s", "r"].contains xst) || (xst == "m" && xsg.length == 1) || (xst != "m" && xsg.length != 1) then none
    if xst == "r" && (!xk.Nodup || ((xk.filter (fun k => some k != xsg.head?)).length < 2)) then none
    if ins.any (fun o => (ins.filter (· == o)).length > 4) then none
    let sigOk : Bool :=
      if xst == "m" then xk == xsg && decide (2 ≤ xk.length)
      else if xst == "r" then xsg.any (xk.contains ·)
      else xk.head? == xsg.head? && !xk.isEmpty
    let t : SigLogic.Tx := {
      txidOk := true, initiator := ini,
      initiatorSigns := if form == "c" then isg else [], authRequire := auth,
      authRequireSigns := if form == "c" then asg else [],
      xuper := if form == "x" then some { keyAddrs := xk.map some, sigOk := sigOk, multi := xst == "m" } else none,
      inputs := ins.map fun o => { owner := o }, hasRequests := hasReq, aclWrites := writes,
      calls := if (← kv1 ws "act") == "G" then [1] else if hasReq then [0] else [] }
    let relies := ch == "m" && !ins.isEmpty
    let v := SigLogic.stateVerifyTx relies sxEnv t
    pure s!"verify={if v.ok then "accept" else "reject"} pool={if SigLogic.submitTx relies sxEnv t true then "in" else "out"}"
  r.getD "bad-op"

def stepC07 (line : String) : Option String :=
  match words line with
  | ["d3", spec] => some <| match parsePTx spec with
    | some p => hexStr (cDigest.enc (resolve p []).core)
    | none => "bad-op"
  | ["i3", spec] => some <| match parsePTx spec with
    | some p => hexStr (cId.enc (resolve p []))
    | none => "bad-op"
  | "dm3" :: a :: b :: _ => some <| match parsePTx a, parsePTx b with
    -- two version-3 transactions: same signing digest / same id?
    | some p, some q =>
      let dd := if cDigest.enc (resolve p []).core == cDigest.enc (resolve q []).core then "collide" else "distinct"
      let ii := if cId.enc (resolve p []) == cId.enc (resolve q []) then "collide" else "distinct"
      s!"digest={dd} id={ii}"
    | _, _ => "bad-op"
  | ["d1", _] => some "ok"
  | ["k1", ver, "addr-amount"] =>
    -- the witness of `XV.C07.digest_binds_fields_counterexample` (v1/v2 stream); under v3 the framed encoding differs
    let a : In1 := ⟨[1], 0, [7], [], 0⟩
    let b : In1 := ⟨[1], 0, [], [7], 0⟩
    if ver == "3" then
      let i (f am : Bytes) : TxInput := ⟨[1], w8 0, f, am, w8 0⟩
      some (if lenBytes.enc [] ++ (counted cInput).enc [i [7] []] == lenBytes.enc [] ++ (counted cInput).enc [i [] [7]] then "collide" else "distinct")
    else some (if v1Stream [a] [] == v1Stream [b] [] then "collide" else "distinct")
  | "vt" :: ws => some (vt ws)
  | "vc" :: ws => some (vc ws)
  | "sx" :: ws => some (sx ws)
  | _ => none

end XV.Drv.EncTx
