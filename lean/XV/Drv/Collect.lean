import XV.Model.Collect
import XV.Drv.Safety
import XV.Drv.Util
namespace XV.Drv.Collect
open XV.Collect XV.Safety XV.Drv

/-- validator sets of a case: `0..n-1` for every view; with `m > 0`: `b0..b0+m-1` for views `≥ c` -/
structure Cfg where
  n  : Nat
  c  : Int
  b0 : Nat
  m  : Nat

def Cfg.vals (cfg : Cfg) (v : Int) : List Nat :=
  if cfg.m > 0 && cfg.c ≤ v then List.range' cfg.b0 cfg.m else List.range cfg.n

def fmtLog (es : List Entry) : String :=
  if es.isEmpty then "-" else "+".intercalate (es.map (fun e => toString e.addr ++ (if e.valid then "v" else "x")))

def retStr : Ret → String
  | .ok => "ok" | .reject => "reject" | .drop => "drop"

def obs (s : State) : String := "high=" ++ toString s.high.id ++ " view=" ++ toString s.view

/-- entries of a message naming proposal `id`: the tokens of engine safety, plus kind `o` = the member's
genuine signature over the root id 0 (verifies only in a message naming 0) -/
def parseEntries (id : Nat) (ts : List String) : Option (List Entry) :=
  ts.mapM (fun t =>
    if t.endsWith "o" then (XV.Drv.Safety.parseEntry t).map (fun e => { e with valid := id == 0 })
    else XV.Drv.Safety.parseEntry t)

abbrev St := Option (Cfg × State)

/-- justify entries of a restart line: `-` or entries joined by `,`, signatures over proposal `id` -/
def parseCert (id : Nat) (t : String) : Option (List Entry) :=
  if t == "-" then some [] else parseEntries id (t.splitOn ",")

def fmtLogs (s : State) : String :=
  " ".intercalate ((List.range s.nodes.length).map (fun i => "log" ++ toString i ++ "=" ++ fmtLog ((logOf s.log i).getD [])))

def step (st : St) (line : String) : St × String :=
  match words line with
  | ["reset", kind, n, col, start, tip, j1, j2, j3] =>
    match n.toNat?, col.toNat?, start.toNat?, tip.toNat? with
    | some n, some col, some start, some tip =>
      if !(kind == "xp" || kind == "td") || n < 1 || n > 40 || col ≥ 90 || start < 1 || tip + 1 < start || tip > 60 then (st, "bad-op")
      else
        let r := rootHeight start tip
        -- the justify of block b certifies block b-1
        match parseCert (relId r (tip - 3)) j1, parseCert (relId r (tip - 2)) j2, parseCert (relId r (tip - 1)) j3 with
        | some e1, some e2, some e3 =>
          if (e1 ++ e2 ++ e3).any (fun e => e.addr ≥ 90) then (st, "bad-op")
          else
            let just : Nat → List Entry := fun b =>
              if b ≤ start then [] else if b == tip then e3 else if b + 1 == tip then e2 else if b + 2 == tip then e1 else []
            let s := restart col start tip just
            (some (⟨n, 0, 0, 0⟩, s), obs s ++ " " ++ fmtLogs s)
        | _, _, _ => (st, "bad-op")
    | _, _, _, _ => (st, "bad-op")
  | ["reset", n, col] =>
    match n.toNat?, col.toNat? with
    | some n, some col => if n ≥ 1 then (some (⟨n, 0, 0, 0⟩, init col), "ok") else (st, "bad-op")
    | _, _ => (st, "bad-op")
  | ["reset", n, col, c, b0, m] =>
    match n.toNat?, col.toNat?, c.toInt?, b0.toNat?, m.toNat? with
    | some n, some col, some c, some b0, some m =>
      if n ≥ 1 && m ≥ 1 then (some (⟨n, c, b0, m⟩, init col), "ok") else (st, "bad-op")
    | _, _, _, _, _ => (st, "bad-op")
  | "prop" :: id :: view :: parent :: pview :: es =>
    match st, id.toNat?, view.toInt?, parent.toNat?, pview.toInt?, parent.toNat?.bind (fun q => parseEntries q es) with
    | some (cfg, s), some id, some view, some parent, some pview, some es =>
      let s' := handleProp cfg.vals s ⟨id, view, parent, pview, es⟩
      (some (cfg, s'), obs s')
    | _, _, _, _, _, _ => (st, "bad-op")
  | "vote" :: id :: dview :: es =>
    match st, id.toNat?, dview.toInt?, id.toNat?.bind (fun q => parseEntries q es) with
    | some (cfg, s), some id, some dview, some es =>
      let r := handleVote cfg.vals s ⟨id, dview, es⟩
      (some (cfg, r.1), retStr r.2.1 ++ " " ++ obs r.1 ++ " log=" ++ fmtLog ((logOf r.1.log id).getD []))
    | _, _, _, _ => (st, "bad-op")
  | ["cert"] =>
    match st with
    | some (_, s) => (st, "id=" ++ toString (cert s).1 ++ " sigs=" ++ fmtLog (cert s).2)
    | none => (st, "bad-op")
  | ["propose"] =>
    match st with
    | some (_, s) =>
      match nextJustify s with
      | some (id, es) => (st, "id=" ++ toString id ++ " sigs=" ++ fmtLog es)
      | none => (st, "none")
    | none => (st, "bad-op")
  | _ => (st, "bad-op")

def run : IO Unit := loop step none

end XV.Drv.Collect
