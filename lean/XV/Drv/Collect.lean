import XV.Model.Collect
import XV.Drv.Safety
import XV.Drv.Util
namespace XV.Drv.Collect
open XV.Collect XV.Safety XV.Drv

/-- validator sets of a case: `0..n-1` for every view; with `m > 0`: `b0..b0+m-1` for views `≥ c` -/
structure Cfg where
  n  : Nat
  c  : Int
  b0 : Nat
  m  : Nat

def Cfg.vals (cfg : Cfg) (v : Int) : List Nat :=
  if cfg.m > 0 && cfg.c ≤ v then List.range' cfg.b0 cfg.m else List.range cfg.n

def fmtLog (es : List Entry) : String :=
  if es.isEmpty then "-" else "+".intercalate (es.map (fun e => toString e.addr ++ (if e.valid then "v" else "x")))

def retStr : Ret → String
  | .ok => "ok" | .reject => "reject" | .drop => "drop"

def obs (s : State) : String := "high=" ++ toString s.high.id ++ " view=" ++ toString s.view

/-- entries of a message naming proposal `id`: the tokens of engine safety, plus kind `o` = the member's
genuine signature over the root id 0 (verifies only in a message naming 0) -/
def parseEntries (id : Nat) (ts : List String) : Option (List Entry) :=
  ts.mapM (fun t =>
    if t.endsWith "o" then (XV.Drv.Safety.parseEntry t).map (fun e => { e with valid := id == 0 })
    else XV.Drv.Safety.parseEntry t)

abbrev St := Option (Cfg × State)

def step (st : St) (line : String) : St × String :=
  match words line with
  | ["reset", n, col] =>
    match n.toNat?, col.toNat? with
    | some n, some col => if n ≥ 1 then (some (⟨n, 0, 0, 0⟩, init col), "ok") else (st, "bad-op")
    | _, _ => (st, "bad-op")
  | ["reset", n, col, c, b0, m] =>
    match n.toNat?, col.toNat?, c.toInt?, b0.toNat?, m.toNat? with
    | some n, some col, some c, some b0, some m =>
      if n ≥ 1 && m ≥ 1 then (some (⟨n, c, b0, m⟩, init col), "ok") else (st, "bad-op")
    | _, _, _, _, _ => (st, "bad-op")
  | "prop" :: id :: view :: parent :: pview :: es =>
    match st, id.toNat?, view.toInt?, parent.toNat?, pview.toInt?, parent.toNat?.bind (fun q => parseEntries q es) with
    | some (cfg, s), some id, some view, some parent, some pview, some es =>
      let s' := handleProp cfg.vals s ⟨id, view, parent, pview, es⟩
      (some (cfg, s'), obs s')
    | _, _, _, _, _, _ => (st, "bad-op")
  | "vote" :: id :: dview :: es =>
    match st, id.toNat?, dview.toInt?, id.toNat?.bind (fun q => parseEntries q es) with
    | some (cfg, s), some id, some dview, some es =>
      let r := handleVote cfg.vals s ⟨id, dview, es⟩
      (some (cfg, r.1), retStr r.2.1 ++ " " ++ obs r.1 ++ " log=" ++ fmtLog ((logOf r.1.log id).getD []))
    | _, _, _, _ => (st, "bad-op")
  | ["cert"] =>
    match st with
    | some (_, s) => (st, "id=" ++ toString (cert s).1 ++ " sigs=" ++ fmtLog (cert s).2)
    | none => (st, "bad-op")
  | ["propose"] =>
    match st with
    | some (_, s) =>
      match nextJustify s with
      | some (id, es) => (st, "id=" ++ toString id ++ " sigs=" ++ fmtLog es)
      | none => (st, "none")
    | none => (st, "bad-op")
  | _ => (st, "bad-op")

def run : IO Unit := loop step none

end XV.Drv.Collect
