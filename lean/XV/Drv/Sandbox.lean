import XV.Model.Sandbox
import XV.Drv.Util
/-! line-protocol driver of the sandbox model; op lines are documented in go/cmd/sandbox/main.go -/
namespace XV.Drv.Sandbox
open XV.Sandbox XV.Drv

structure DState where
  r : Reader
  s : State
  hist : List Op    -- most recent first
  res : List Res    -- most recent first

def DState.init : DState := ⟨memReader Store.empty, State.init, [], []⟩

/-- buckets the harness uses: 0 = transient, 1..3 -/
def buckets : List Nat := [0, 1, 2, 3]

def parseEntry (t : String) : Option (Nat × Nat × Nat × Nat) :=
  match (t.splitOn ":").mapM (·.toNat?) with
  | some [b, k, ver, val] => some (b, k, ver, val)
  | _ => none

def mkReader (kind : String) (es : List (Nat × Nat × Nat × Nat)) : Reader :=
  if kind == "m" then
    memReader (es.foldl (fun m (b, k, ver, val) => m.put b k ⟨ver, val⟩) Store.empty)
  else
    let live := es.foldl (fun m (b, k, ver, val) => if val == 0 then m else m.put b k ⟨ver, val⟩) Store.empty
    let dead := es.foldl (fun m (b, k, ver, val) => if val == 0 then m.put b k ⟨ver, val⟩ else m) Store.empty
    xmodelReader live dead

def getStr : GetRes → String
  | .val v => s!"v{v}"
  | .notFound => "nf"
  | .hasDel => "del"

def itemsStr (l : List (Key × Nat)) : String :=
  "[" ++ " ".intercalate (l.map (fun (k, v) => s!"{k}:{v}")) ++ "]"

def rsetSize (s : State) : Nat := (buckets.map (fun b => (s.inputs b).length)).foldl (· + ·) 0

def rwsetStr (s : State) : String :=
  let rs := buckets.flatMap (fun b => (s.inputs b).map (fun (k, d) => s!"{b}:{k}:{d.ver}:{d.val}"))
  let ws := buckets.flatMap (fun b => (s.outputs b).map (fun (k, d) => s!"{b}:{k}:{d.val}"))
  " ".intercalate (["R"] ++ rs ++ ["W"] ++ ws)

def bound (t : String) : Option (Option Nat) :=
  if t == "-" then some none else (t.toNat?).map some

def doOp (d : DState) (op : Op) : DState × Res :=
  let (s', x) := stepOp fixed d.r d.s op
  ({ d with s := s', hist := op :: d.hist, res := x :: d.res }, x)

def sameItems : Res → Res → Bool
  | a, b => a == b

def step (d : DState) (line : String) : DState × String :=
  match words line with
  | "reset" :: kind :: es =>
    match es.mapM parseEntry with
    | some es => if kind == "m" || kind == "x" then (⟨mkReader kind es, State.init, [], []⟩, "ok") else (d, "bad-op")
    | none => (d, "bad-op")
  | ["get", b, k] =>
    match b.toNat?, k.toNat? with
    | some b, some k =>
      match doOp d (.get b k) with
      | (d', .got g) => (d', getStr g)
      | (d', _) => (d', "bad-op")
    | _, _ => (d, "bad-op")
  | ["put", b, k, v] =>
    match b.toNat?, k.toNat?, v.toNat? with
    | some b, some k, some v => ((doOp d (.put b k v)).1, "ok")
    | _, _, _ => (d, "bad-op")
  | ["del", b, k] =>
    match b.toNat?, k.toNat? with
    | some b, some k => ((doOp d (.del b k)).1, "ok")
    | _, _ => (d, "bad-op")
  | ["sel", b, lo, hi, n] =>
    match b.toNat?, bound lo, bound hi, n.toNat? with
    | some b, some lo, some hi, some n =>
      match doOp d (.sel b (lo.getD 0) hi n) with
      | (d', .items (some l)) => (d', itemsStr l ++ s!" r={rsetSize d'.s}")
      | (d', _) => (d', "err")
    | _, _, _, _ => (d, "bad-op")
  | ["rwset"] => (d, rwsetStr d.s)
  | ["rerun"] =>
    let ops := d.hist.reverse
    let (s2, res2) := run fixed (readerFromRWSet d.s) State.init ops
    let same := res2 == d.res.reverse && buckets.all (fun b => s2.outputs b == d.s.outputs b)
    (d, if same then "same" else "diff")
  | _ => (d, "bad-op")

def run : IO Unit := loop step DState.init

end XV.Drv.Sandbox
