import XV.Model.Sandbox
import XV.Drv.Util
/-! line-protocol driver of the sandbox model; op lines are documented in go/cmd/sandbox/main.go -/
namespace XV.Drv.Sandbox
open XV.Sandbox XV.Drv

structure DState where
  r : Reader
  x : XState (List TxIn)   -- the sandbox over the first-run utxo reader `listReader`
  hist : List XOp   -- most recent first
  res : List XRes   -- most recent first
  flushed : Bool    -- `Flush` has been called: the execution is over

def DState.s (d : DState) : State := d.x.kv

def DState.init : DState := ⟨memReader Store.empty, XState.init [], [], [], false⟩

/-- buckets the harness uses: 0 = transient, 1..3 -/
def buckets : List Nat := [0, 1, 2, 3]

def parseEntry (t : String) : Option (Nat × Nat × Nat × Nat) :=
  match (t.splitOn ":").mapM (·.toNat?) with
  | some [b, k, ver, val] => some (b, k, ver, val)
  | _ => none

def mkReader (kind : String) (es : List (Nat × Nat × Nat × Nat)) : Reader :=
  if kind == "m" then
    memReader (es.foldl (fun m (b, k, ver, val) => m.put b k ⟨ver, val⟩) Store.empty)
  else
    let live := es.foldl (fun m (b, k, ver, val) => if val == 0 then m else m.put b k ⟨ver, val⟩) Store.empty
    let dead := es.foldl (fun m (b, k, ver, val) => if val == 0 then m.put b k ⟨ver, val⟩ else m) Store.empty
    xmodelReader live dead

def getStr : GetRes → String
  | .val v => s!"v{v}"
  | .notFound => "nf"
  | .hasDel => "del"

def itemsStr (l : List (Key × Nat)) : String :=
  "[" ++ " ".intercalate (l.map (fun (k, v) => s!"{k}:{v}")) ++ "]"

def rsetSize (s : State) : Nat := (buckets.map (fun b => (s.inputs b).length)).foldl (· + ·) 0

def inStr (u : TxIn) : String := s!"{u.ref}/{u.owner}/{u.amt}"
def outStr (u : TxOut) : String := s!"{u.to}/{u.amt}"
def evStr (e : Event) : String := s!"{e.name}/{e.body}"

/-- a reserved entry of the transient bucket as it is printed in the write set -/
def tentryStr : TEntry → String
  | .inputs l => "0:I:" ++ ",".intercalate (l.map inStr)
  | .outputs l => "0:O:" ++ ",".intercalate (l.map outStr)
  | .events l => "0:E:" ++ ",".intercalate (l.map evStr)

/-- read set (key order) and write set (the order of `RWSet().WSet`); `reserved`: the entries of
`Flush`, which stand first -/
def rwsetStr (s : State) (reserved : List TEntry) : String :=
  let rs := buckets.flatMap (fun b => (s.inputs b).map (fun (k, d) => s!"{b}:{k}:{d.ver}:{d.val}"))
  let ent (b : Nat) : Elem → String := fun (k, d) => s!"{b}:{k}:{d.val}"
  -- the write set is in byte order of bucket and key: in the transient bucket 0 the empty key (key 0) stands before the
  -- reserved entries, every other key behind them
  let w0e := ((s.outputs 0).filter (fun p => p.1 == 0)).map (ent 0)
  let w0r := ((s.outputs 0).filter (fun p => p.1 != 0)).map (ent 0)
  let ws := (buckets.filter (· != 0)).flatMap (fun b => (s.outputs b).map (ent b))
  " ".intercalate (["R"] ++ rs ++ ["W"] ++ w0e ++ reserved.map tentryStr ++ w0r ++ ws)

def utxorwStr (u : UState (List TxIn)) : String :=
  " ".intercalate (["I"] ++ u.uin.map inStr ++ ["O"] ++ u.uout.map outStr)

/-- `<addr>:<amt>,<amt>,...` -/
def parseUtxoTok (t : String) : Option (Nat × List Nat) :=
  match t.splitOn ":" with
  | [a, amts] =>
    match a.toNat?, (amts.splitOn ",").mapM (·.toNat?) with
    | some a, some l => some (a, l)
    | _, _ => none
  | _ => none

/-- the unspent outputs in selection order; references are numbered along the line -/
def mkUtxos (ts : List (Nat × List Nat)) : List TxIn :=
  let flat := ts.flatMap (fun (a, l) => l.map (fun amt => (a, amt)))
  (flat.zipIdx).map (fun ((a, amt), i) => ⟨i, a, amt⟩)

def bound (t : String) : Option (Option Nat) :=
  if t == "-" then some none else (t.toNat?).map some

def doX (d : DState) (op : XOp) : DState × XRes :=
  let (x', y) := xstep fixed d.r listReader d.x op
  ({ d with x := x', hist := op :: d.hist, res := y :: d.res }, y)

def doOp (d : DState) (op : Op) : DState × Res :=
  match doX d (.kv op) with
  | (d', .kv y) => (d', y)
  | (d', _) => (d', .done)

def sameItems : Res → Res → Bool
  | a, b => a == b

/-- is the line a call of the contract (refused once `Flush` has ended the execution) -/
def isCall (w : List String) : Bool :=
  match w with
  | op :: _ => ["get", "put", "del", "sel", "xf", "ev", "utxo", "flush"].contains op
  | [] => false

def step (d : DState) (line : String) : DState × String :=
  if d.flushed && isCall (words line) then (d, "bad-op") else
  match words line with
  | "reset" :: kind :: es =>
    match es.mapM parseEntry with
    -- kinds "M" / "X": the same readers, the harness spells the empty key (key 0) as a nil slice
    -- kind "r": the real XModel on a store, the reader `xmodelReader` models
    | some es => if kind == "m" || kind == "x" || kind == "M" || kind == "X"
        then (⟨mkReader kind.toLower es, XState.init [], [], [], false⟩, "ok")
        else if kind == "r" then
          (if es.all (fun (b, _, ver, _) => b != 0 && ver != 0) then (⟨mkReader "x" es, XState.init [], [], [], false⟩, "ok") else (d, "bad-op"))
        else (d, "bad-op")
    | none => (d, "bad-op")
  | "utxo" :: ts =>
    match ts.mapM parseUtxoTok with
    | some l => if d.hist.isEmpty then ({ d with x := XState.init (mkUtxos l) }, "ok") else (d, "bad-op")
    | none => (d, "bad-op")
  | ["xf", a, to, amt] =>
    -- `UTXOSandbox.Transfer` refuses every amount ≤ 0 by one test: amount 0 stands for all of them
    match a.toNat?, to.toNat?, amt.toInt? with
    | some a, some to, some amt =>
      match doX d (.xfer a to amt.toNat) with
      | (d', .xfer true) => (d', "ok")
      | (d', _) => (d', "err")
    | _, _, _ => (d, "bad-op")
  | ["ev", n, b] =>
    match n.toNat?, b.toNat? with
    | some n, some b => ((doX d (.event n b)).1, "ok")
    | _, _ => (d, "bad-op")
  -- a read fault on one row of the store: the model answers for the healthy store - a call that reports no error
  -- has to agree with it, a call that reports the error is not compared (harness answer "-")
  | ["fault", b, k] =>
    match b.toNat?, k.toNat? with
    | some _, some _ => (d, if d.flushed then "bad-op" else "ok")
    | _, _ => (d, "bad-op")
  | ["flush"] => ({ d with flushed := true }, "ok")
  | ["utxorw"] => (d, utxorwStr d.x.tok)
  | ["get", b, k] =>
    match b.toNat?, k.toNat? with
    | some b, some k =>
      match doOp d (.get b k) with
      | (d', .got g) => (d', getStr g)
      | (d', _) => (d', "bad-op")
    | _, _ => (d, "bad-op")
  | ["put", b, k, v] =>
    match b.toNat?, k.toNat?, v.toNat? with
    | some b, some k, some v => ((doOp d (.put b k v)).1, "ok")
    | _, _, _ => (d, "bad-op")
  | ["del", b, k] =>
    match b.toNat?, k.toNat? with
    | some b, some k => ((doOp d (.del b k)).1, "ok")
    | _, _ => (d, "bad-op")
  | ["sel", b, lo, hi, n] =>
    match b.toNat?, bound lo, bound hi, n.toNat? with
    | some b, some lo, some hi, some n =>
      match doOp d (.sel b (lo.getD 0) hi n) with
      | (d', .items (some l)) => (d', itemsStr l ++ s!" r={rsetSize d'.s}")
      | (d', _) => (d', "err")
    | _, _, _, _ => (d, "bad-op")
  | ["rwset"] => (d, rwsetStr d.s (if d.flushed then d.x.flush.reserved else []))
  | ["rerun"] =>
    -- `State.verifyTxRWSets`: the same calls over `XMReaderFromRWSet` and `NewUTXOReaderFromInput`
    let ops := d.hist.reverse
    let (x2, res2) := xrun fixed (readerFromRWSet d.s) replayReader (XState.init d.x.tok.uin) ops
    let same := res2 == d.res.reverse && buckets.all (fun b => x2.kv.outputs b == d.s.outputs b)
      && x2.tok.uin == d.x.tok.uin && x2.tok.uout == d.x.tok.uout && x2.flush.reserved == d.x.flush.reserved
    (d, if same then "same" else "diff")
  | _ => (d, "bad-op")

def run : IO Unit := loop step DState.init

end XV.Drv.Sandbox
