import XV.Model.Merkle
import XV.Drv.Util
/-! line-protocol driver of engine `enc` (C08 ops; the C07 ops are in `XV.Drv.EncTx`).
The model is run with a *symbolic* crypto: `H x = 'H' :: x` (injective), key pair `k` has
public key `['P', k]`, address `['A', k]`, and signs `m` as `'S' :: k :: m`. -/
namespace XV.Drv.Enc
open XV.Enc XV.Merkle XV.Drv

/-! ### parsing helpers -/

def hexVal (c : Char) : Option Nat :=
  if '0' ≤ c ∧ c ≤ '9' then some (c.toNat - '0'.toNat)
  else if 'a' ≤ c ∧ c ≤ 'f' then some (c.toNat - 'a'.toNat + 10)
  else none

def unhexAux : List Char → Option Bytes
  | [] => some []
  | a :: b :: rest => do
    let x ← hexVal a
    let y ← hexVal b
    let r ← unhexAux rest
    pure (UInt8.ofNat (x * 16 + y) :: r)
  | _ => none

def unhex (s : String) : Option Bytes := if s == "-" || s == "" then some [] else unhexAux s.toList

def hexDigit (n : Nat) : Char := if n < 10 then Char.ofNat (n + 48) else Char.ofNat (n + 87)

def hexStr (b : Bytes) : String :=
  if b.isEmpty then "-" else String.ofList (b.flatMap fun x => [hexDigit (x.toNat / 16), hexDigit (x.toNat % 16)])

def kv (ws : List String) (k : String) : Option String :=
  ws.findSome? fun w => match w.splitOn "=" with
    | [a, b] => if a == k then some b else none
    | _ => none

def kvInt (ws : List String) (k : String) : Option Int := (kv ws k).bind String.toInt?
def kvHex (ws : List String) (k : String) : Option Bytes := (kv ws k).bind unhex

/-! ### symbolic crypto -/

def symH (x : Bytes) : Bytes := 0x48 :: x

def sym : Crypto where
  H := symH
  keyOf := fun b => match b with
    | [0x50, k] => some k.toNat
    | _ => none
  addrOk := fun a k => a == [0x41, UInt8.ofNat k]
  verify := fun k s m => s == 0x53 :: UInt8.ofNat k :: m
  pubJson := fun k => [0x50, UInt8.ofNat k]
  signWith := fun k m => 0x53 :: UInt8.ofNat k :: m

def leafId (tag : UInt8) (i : Nat) : Bytes :=
  [tag, UInt8.ofNat (i / 256), UInt8.ofNat (i % 256)] ++ List.replicate 29 0

/-! ### shape -/

/-- name every node of the array by how it is obtained from earlier nodes (first match wins),
exactly as the harness names the nodes of the real array -/
def shapeToks (n : Nat) (tree : List (Option Bytes)) : List String :=
  let rec go (k : Nat) (rest : List (Option Bytes)) (prev : Option Bytes) (cands : Array (Bytes × String))
      (acc : Array String) : Array String :=
    match rest with
    | [] => acc
    | none :: rest' => go (k + 1) rest' none cands (acc.push "-")
    | some v :: rest' =>
      let tok :=
        if k < n && v == leafId 0x73 k then s!"L{k}"
        else match cands.find? (fun c => c.1 == v) with
          | some c => c.2
          | none => "?"
      let self := symH (v ++ v)
      let cands := if cands.any (fun c => c.1 == self) then cands else cands.push (self, s!"{k},{k}")
      let cands := match prev with
        | some p =>
          let pr := symH (p ++ v)
          if cands.any (fun c => c.1 == pr) then cands else cands.push (pr, s!"{k-1},{k}")
        | none => cands
      go (k + 1) rest' (some v) cands (acc.push tok)
  (go 0 tree none #[] #[]).toList

def shape (n : Nat) : String :=
  let leaves := (List.range n).map (leafId 0x73)
  let tree := merkleTree symH leaves
  let toks := shapeToks n tree
  -- the root as `merkleRoot` computes it must be the last node of the array
  let rootTok := match merkleRoot symH leaves, tree.getLast? with
    | none, none => "-"
    | some r, some (some t) => if r == t then toks.getLast?.getD "?" else "root-differs"
    | _, _ => "root-differs"
  String.intercalate " " (toString tree.length :: toks) ++ " root=" ++ rootTok

/-! ### pre -/

def parseSign (s : String) : Option SignInfo :=
  match s.splitOn "/" with
  | [a, p, g] => do pure ⟨← unhex a, ← unhex p, ← unhex g⟩
  | _ => none

def parseJustify (s : String) : Option (Option Justify) :=
  if s == "none" then some none else
  match s.splitOn ":" with
  | [pid, msg, ty, view, signs] => do
    let ss ← if signs == "-" then some [] else (signs.splitOn ";").mapM parseSign
    pure (some ⟨← unhex pid, ← unhex msg, ← ty.toInt?, ← view.toInt?, ss⟩)
  | _ => none

def parseFailed (s : String) : Option (List (Bytes × Bytes)) :=
  if s == "-" then some [] else
  (s.splitOn ",").mapM fun e => match e.splitOn ":" with
    | [k, m] => do pure (← unhex k, ← unhex m)
    | _ => none

def parseBlock (ws : List String) : Option Block := do
  pure { version := ← kvInt ws "v", nonce := ← kvInt ws "no", txCount := ← kvInt ws "tc", proposer := ← kvHex ws "pr",
         timestamp := ← kvInt ws "ts", pubkey := ← kvHex ws "pk", preHash := ← kvHex ws "ph", merkleRoot := ← kvHex ws "mr",
         failedTxs := ← (kv ws "ft").bind parseFailed, curTerm := ← kvInt ws "ct", curBlockNum := ← kvInt ws "cb",
         targetBits := ← kvInt ws "tb", justify := ← (kv ws "j").bind parseJustify,
         blockid := [], sign := [], height := 0, txids := [], carried := [] }

/-! ### vb -/

structure Base where
  n : Nat
  qc : Int
  ft : Nat
  tb : Int
  ph : Nat
  k : Nat
  d : Nat

def stdSign (i : Nat) : SignInfo := ⟨[0x61, UInt8.ofNat i], [0x6b, UInt8.ofNat i], [0x73, UInt8.ofNat i]⟩

def stdJustify (signs : Nat) : Justify :=
  ⟨leafId 0x71 0, [109, 115, 103], 1, 9, (List.range signs).map stdSign⟩

def baseTxids (p : Base) : List Bytes :=
  let txs := (List.range p.n).map (leafId 0x62)
  if p.d == 1 && p.n ≥ 2 then txs.set (p.n - 1) (leafId 0x62 (p.n - 2)) else txs

def formatBase (p : Base) : Block :=
  formatBlock sym (baseTxids p) [0x41, UInt8.ofNat p.k] p.k 1700000000 3 7
    (if p.ph == 1 then leafId 0x70 0 else []) p.tb
    (if p.qc < 0 then none else some (stdJustify p.qc.toNat))
    ((List.range p.ft).map fun i => ([0x66, UInt8.ofNat (48 + i)], [0x65, 0x72, 0x72, UInt8.ofNat (48 + i)])) 5

def flipLast (b : Bytes) : Bytes :=
  match b.reverse with
  | [] => []
  | x :: r => ((x ^^^ 1) :: r).reverse

def reid (b : Block) : Block := { b with blockid := sym.H (preimage b) }

def modJustify (b : Block) (f : Justify → Option Justify) : Option Block :=
  match b.justify with
  | none => none
  | some j => (f j).map fun j' => { b with justify := some j' }

def modBytes (flip : Bool) (x : Bytes) : Option Bytes :=
  if x.isEmpty then none else some (if flip then flipLast x else [])

def modSign0 (j : Justify) (f : SignInfo → Option SignInfo) : Option Justify :=
  match j.signs with
  | [] => none
  | s :: rest => (f s).map fun s' => { j with signs := s' :: rest }

def setAt (xs : List Bytes) (i : Nat) (v : Bytes) : List Bytes := xs.set i v

/-- one mutation step; `none` = not applicable -/
def mutate1 (p : Base) (b : Block) (a : List String) : Option Block :=
  let idx (s : String) : Option Nat := s.toNat?
  match a with
  | ["none"] => some b
  | [op, f] =>
    if op == "inc" || op == "dec" then
      let d : Int := if op == "inc" then 1 else -1
      match f with
      | "version" => some { b with version := b.version + d }
      | "nonce" => some { b with nonce := b.nonce + d }
      | "txcount" => some { b with txCount := b.txCount + d }
      | "timestamp" => some { b with timestamp := b.timestamp + d }
      | "curterm" => some { b with curTerm := b.curTerm + d }
      | "curblocknum" => some { b with curBlockNum := b.curBlockNum + d }
      | "height" => some { b with height := b.height + d }
      | "targetbits" => some { b with targetBits := b.targetBits + d }
      | "jtype" => modJustify b fun j => some { j with type := j.type + d }
      | "jview" => modJustify b fun j => some { j with viewNumber := j.viewNumber + d }
      | _ => none
    else if op == "flip" || op == "clear" then
      let fl := op == "flip"
      match f with
      | "proposer" => (modBytes fl b.proposer).map fun v => { b with proposer := v }
      | "pubkey" => (modBytes fl b.pubkey).map fun v => { b with pubkey := v }
      | "prehash" => (modBytes fl b.preHash).map fun v => { b with preHash := v }
      | "merkleroot" => (modBytes fl b.merkleRoot).map fun v => { b with merkleRoot := v }
      | "sign" => (modBytes fl b.sign).map fun v => { b with sign := v }
      | "blockid" => (modBytes fl b.blockid).map fun v => { b with blockid := v }
      | "jpid" => modJustify b fun j => (modBytes fl j.proposalId).map fun v => { j with proposalId := v }
      | "jmsg" => modJustify b fun j => (modBytes fl j.proposalMsg).map fun v => { j with proposalMsg := v }
      | "jsaddr0" => modJustify b fun j => modSign0 j fun s => (modBytes fl s.address).map fun v => { s with address := v }
      | "jspk0" => modJustify b fun j => modSign0 j fun s => (modBytes fl s.publicKey).map fun v => { s with publicKey := v }
      | "jssig0" => modJustify b fun j => modSign0 j fun s => (modBytes fl s.sign).map fun v => { s with sign := v }
      | "fmsg0" =>
        if p.ft < 1 then none else
        match b.failedTxs with
        | (k, m) :: rest => some { b with failedTxs := (k, if fl then flipLast m else []) :: rest }
        | [] => none
      | "fkey0" =>
        if p.ft < 1 || !fl then none else
        match b.failedTxs with
        | (_, m) :: rest => some { b with failedTxs := ([0x65, 0x30], m) :: rest }
        | [] => none
      | _ => none
    else
      match op, idx f with
      | "txdrop", some i => if i < b.txids.length then some { b with txids := b.txids.eraseIdx i } else none
      | "txins", some i =>
        if i ≤ b.txids.length then some { b with txids := b.txids.take i ++ [leafId 0xFF 0] ++ b.txids.drop i } else none
      | "txdup", some i => (b.txids[i]?).map fun t => { b with txids := b.txids ++ [t] }
      | "txflip", some i => (b.txids[i]?).map fun t => { b with txids := setAt b.txids i (flipLast t) }
      | "txnil", some i => (b.txids[i]?).map fun _ => { b with txids := setAt b.txids i [] }
      | "txtrunc", some i => (b.txids[i]?).map fun t => { b with txids := setAt b.txids i t.dropLast }
      | "txcontent", some i => (b.txids[i]?).map fun _ => b
      | "leafflip", some i =>
        if i < b.txids.length && b.txids.length ≤ b.carried.length then
          (b.carried[i]?).map fun v => { b with carried := b.carried.set i (v.map flipLast) }
        else none
      | "fixlevels", some k =>
        -- the k lowest levels of the carried tree recomputed from the (tampered) body, everything above kept
        let nt := merkleTree sym.H b.txids
        if b.carried.isEmpty || nt.length != b.carried.length then none else
        let cnt := (List.range k).foldl (fun a j => a + leafSize b.txids.length / 2 ^ j) 0
        if cnt ≥ nt.length then none else some { b with carried := nt.take cnt ++ b.carried.drop cnt }
      | "txshift", some i =>
        match b.txids[i]?, b.txids[i+1]? with
        | some x, some y => some { b with txids := setAt (setAt b.txids i (x ++ y.take 16)) (i + 1) (y.drop 16) }
        | _, _ => none
      | _, _ => none
  | ["txswap", si, sj] =>
    match idx si, idx sj with
    | some i, some j =>
      match b.txids[i]?, b.txids[j]? with
      | some x, some y => if i == j then none else some { b with txids := setAt (setAt b.txids i y) j x }
      | _, _ => none
    | _, _ => none
  | ["leafswap", si, sj] =>
    match idx si, idx sj with
    | some i, some j =>
      if i < b.txids.length && j < b.txids.length && i != j && b.txids.length ≤ b.carried.length then
        match b.carried[i]?, b.carried[j]? with
        | some x, some y => some { b with carried := (b.carried.set i y).set j x }
        | _, _ => none
      else none
    | _, _ => none
  | ["leafdup", si, sj] =>
    match idx si, idx sj with
    | some i, some j =>
      if i < b.txids.length && j < b.txids.length && i != j && b.txids.length ≤ b.carried.length then
        (b.carried[j]?).map fun y => { b with carried := b.carried.set i y }
      else none
    | _, _ => none
  | ["jdrop"] => b.justify.map fun _ => { b with justify := none }
  | ["jadd"] => match b.justify with
    | none => some { b with justify := some (stdJustify 1) }
    | some _ => none
  | ["jsdrop"] => modJustify b fun j => if j.signs.isEmpty then none else some { j with signs := j.signs.dropLast }
  | ["jsadd"] => modJustify b fun j => some { j with signs := j.signs ++ [stdSign 99] }
  | ["jshift"] => modJustify b fun j =>
    match j.proposalId.getLast? with
    | none => none
    | some x => some { j with proposalId := j.proposalId.dropLast, proposalMsg := x :: j.proposalMsg }
  | ["fadd"] => some { b with failedTxs := b.failedTxs ++ [([0x7a, 0x7a], [0x65, 0x72, 0x72, 0x7a])] }
  | ["fdrop"] => if p.ft < 1 then none else some { b with failedTxs := b.failedTxs.dropLast }
  | ["fshift"] =>
    if p.ft < 2 then none else
    match b.failedTxs with
    | (k0, m0) :: (k1, m1) :: rest =>
      match m0.getLast? with
      | some x => some { b with failedTxs := (k0, m0.dropLast) :: (k1, x :: m1) :: rest }
      | none => none
    | _ => none
  | ["mtree"] =>
    match b.carried.getLast? with
    | none => none
    | some v => some { b with carried := b.carried.dropLast ++ [v.map flipLast] }
  | ["droptree"] => if b.carried.isEmpty then none else some { b with carried := [] }
  | ["fixleaves"] =>
    -- the leaves of the carried tree rewritten to the (tampered) body, inner nodes and root kept
    if b.carried.isEmpty then none else
    some { b with carried := (b.txids.take b.carried.length).map some ++ b.carried.drop b.txids.length }
  | ["fixtree"] =>
    -- the whole carried tree recomputed from the (tampered) body, the signed root put back on top
    if b.carried.isEmpty || b.txids.isEmpty then none else
    some { b with carried := (merkleTree sym.H b.txids).dropLast ++ [some b.merkleRoot] }
  | ["txaddnil"] => some { b with txids := b.txids ++ [[]] }
  | ["pkother"] => some { b with pubkey := sym.pubJson (p.k + 1) }
  | ["signother"] => some { b with sign := sym.signWith (p.k + 1) b.blockid }
  | ["proposerother"] => some { b with proposer := [0x41, UInt8.ofNat (p.k + 1)] }
  | ["takeover"] =>
    let b := reid { b with proposer := [0x41, UInt8.ofNat (p.k + 1)], pubkey := sym.pubJson (p.k + 1) }
    some { b with sign := sym.signWith (p.k + 1) b.blockid }
  | ["reid"] => some (reid b)
  | ["fixbody"] =>
    some (reid { b with txCount := b.txids.length, merkleRoot := (merkleRoot sym.H b.txids).getD [] })
  | _ => none

def mutate (p : Base) (b : Block) (m : String) : Option Block :=
  (m.splitOn "+").foldlM (fun b st => mutate1 p b (st.splitOn ":")) b

def vb (ws : List String) : String :=
  match kv ws "n" |>.bind String.toNat?, kvInt ws "qc", kv ws "ft" |>.bind String.toNat?, kvInt ws "tb",
        kv ws "ph" |>.bind String.toNat?, kv ws "k" |>.bind String.toNat?, kv ws "m" with
  | some n, some qc, some ft, some tb, some ph, some k, some m =>
    let p : Base := ⟨n, qc, ft, tb, ph, k, ((kv ws "d").bind String.toNat?).getD 0⟩
    match mutate p (formatBase p) m with
    | none => "n/a"
    | some b => if verifyBlock sym b then "accept" else "reject"
  | _, _, _, _, _, _, _ => "bad-op"

/-- `fb`: Format(Miner)Block with the f-th crypto request failing, the block handed out judged by `verifyBlock` -/
def fb (ws : List String) : String :=
  match kv ws "n" |>.bind String.toNat?, kvInt ws "qc", kv ws "ft" |>.bind String.toNat?, kvInt ws "tb",
        kv ws "ph" |>.bind String.toNat?, kv ws "k" |>.bind String.toNat?, kv ws "via", kv ws "f" |>.bind String.toNat? with
  | some n, some qc, some ft, some tb, some ph, some k, some via, some f =>
    if via != "miner" && via != "block" then "bad-op" else
    let p : Base := ⟨n, qc, ft, tb, ph, k, ((kv ws "d").bind String.toNat?).getD 0⟩
    -- FormatBlock: no target bits, certificate, failed transactions, height
    let blk := via == "block"
    match formatBlockF sym (baseTxids p) [0x41, UInt8.ofNat p.k] p.k 1700000000 3 7
        (if p.ph == 1 then leafId 0x70 0 else []) (if blk then 0 else p.tb)
        (if blk || p.qc < 0 then none else some (stdJustify p.qc.toNat))
        (if blk then [] else (List.range p.ft).map fun i => ([0x66, UInt8.ofNat (48 + i)], [0x65, 0x72, 0x72, UInt8.ofNat (48 + i)]))
        (if blk then 0 else 5) f with
    | none => "refused"
    | some b => if verifyBlock sym b then "verifies" else "unverifiable"
  | _, _, _, _, _, _, _, _ => "bad-op"

/-- `vf`: VerifyBlock with the f-th crypto request failing -/
def vf (ws : List String) : String :=
  match kv ws "n" |>.bind String.toNat?, kvInt ws "qc", kv ws "ft" |>.bind String.toNat?, kvInt ws "tb",
        kv ws "ph" |>.bind String.toNat?, kv ws "k" |>.bind String.toNat?, kv ws "m", kv ws "f" |>.bind String.toNat? with
  | some n, some qc, some ft, some tb, some ph, some k, some m, some f =>
    let p : Base := ⟨n, qc, ft, tb, ph, k, ((kv ws "d").bind String.toNat?).getD 0⟩
    match mutate p (formatBase p) m with
    | none => "n/a"
    | some b => if verifyBlockF sym b f then "accept" else "reject"
  | _, _, _, _, _, _, _, _ => "bad-op"

def stepC08 (line : String) : String :=
  match words line with
  | ["leaf", n] => match n.toNat? with
    | some n => toString (leafSize n)
    | none => "bad-op"
  | ["shape", n] => match n.toNat? with
    | some n => shape n
    | none => "bad-op"
  | "pre" :: ws => match parseBlock ws with
    | some b => hexStr (preimage b)
    | none => "bad-op"
  | "vb" :: ws => vb ws
  | "fb" :: ws => fb ws
  | "vf" :: ws => vf ws
  | _ => "bad-op"

end XV.Drv.Enc
