import XV.Model.Crc32
import XV.Model.Msg
import XV.Model.Dispatch
import XV.Drv.Util
/-!
Driver of engine `p2p` (C20).  Op lines (see go/cmd/p2p/main.go for the harness side):

  crc <hex|->                                   -> %08x of CRC-32/IEEE
  resp <t>                                      -> GetRespMessageType(t)
  vmt <req> <resp> <samelog> <samefrom>         -> VerifyMessageType: true|false
  msg <typ> <opts|-> <m> <z>                    -> sum=… comp=… bc=… ver=… err=… log=… inproc=… wire=…
  cor <typ> <m> <z> <startbit> <pattern01>      -> verify=<0|1> unmarshal=<checksum|other>
  reset | sub <id> <typ> <bc|-> <from|-> [chan] | reg <id> | unreg <id>
  disp <typ> <bc|-> <from|-> <logid|-> <sum> [nostream]   -> ok:<ids> | streamnil | notreg
  dispbad <nomsg|nohdr|nodata>                  -> empty
  tick <ms>                                     -> ok
  stress …                                      -> ok   (implementation only; not compared)
  dmut …                                        -> ok   (implementation only; not compared)

`m` is the marshalled payload (`nil` = nil message, `-` = zero bytes), `z` what snappy made of it
(`-` if none): the model's codec is the table {m ↦ z}.
-/
namespace XV.Drv.P2p
open XV.Crc32 XV.Drv

def hexVal (c : Char) : Option Nat :=
  if '0' ≤ c ∧ c ≤ '9' then some (c.toNat - '0'.toNat)
  else if 'a' ≤ c ∧ c ≤ 'f' then some (c.toNat - 'a'.toNat + 10)
  else if 'A' ≤ c ∧ c ≤ 'F' then some (c.toNat - 'A'.toNat + 10)
  else none

def hexToBytesAux : List Char → List Byte → Option (List Byte)
  | [], acc => some acc.reverse
  | [_], _ => none
  | a :: b :: rest, acc =>
    match hexVal a, hexVal b with
    | some x, some y => hexToBytesAux rest (BitVec.ofNat 8 (x * 16 + y) :: acc)
    | _, _ => none

/-- `-` is the empty byte string -/
def parseHex (s : String) : Option (List Byte) :=
  if s == "-" then some [] else hexToBytesAux s.toList []

def hexDigit (n : Nat) : Char :=
  if n < 10 then Char.ofNat ('0'.toNat + n) else Char.ofNat ('a'.toNat + n - 10)

def hex32 (v : BitVec 32) : String :=
  let n := v.toNat
  String.ofList ((List.range 8).map (fun i => hexDigit ((n >>> (4 * (7 - i))) % 16)))

def strOf (s : String) : List Char := if s == "-" then [] else s.toList
def showStr (s : List Char) : String := if s.isEmpty then "-" else String.ofList s

/-- bits → bytes (LSB first), inverse of `bytesBits` on multiples of 8 -/
def bitsToBytes : List Bool → List Byte
  | b0 :: b1 :: b2 :: b3 :: b4 :: b5 :: b6 :: b7 :: rest =>
    let v := [b0, b1, b2, b3, b4, b5, b6, b7].zipIdx.foldl (fun acc (b, i) => if b then acc + 2 ^ i else acc) 0
    BitVec.ofNat 8 v :: bitsToBytes rest
  | _ => []

/-- apply a bit pattern at bit offset `start` to a byte string -/
def corrupt (bs : List Byte) (start : Nat) (pat : List Bool) : List Byte :=
  let bits := bytesBits bs
  let e := List.replicate start false ++ pat ++ List.replicate (bits.length - start - pat.length) false
  bitsToBytes (xorBits bits e)

open XV.Msg in
def tableCodec (m z : Bytes) : Codec Bytes :=
  { marshal := id, unmarshal := some,
    compress := fun b => if b == m then z else b,
    decompress := fun b => if b == z then some m else none }

open XV.Msg in
def parseOpts (s : String) : Option (List Opt) :=
  if s == "-" then some []
  else (s.splitOn ",").mapM (fun tok =>
    match tok.toList with
    | 'b' :: '=' :: r => some (Opt.bcName r)
    | 'l' :: '=' :: r => some (Opt.logId r)
    | 'v' :: '=' :: r => some (Opt.version r)
    | 'e' :: '=' :: r => (String.ofList r).toNat?.map Opt.errorType
    | _ => none)

open XV.Msg in
def resStr (r : Except Err Bytes) (orig : Bytes) : String :=
  match r with
  | .ok a => if a == orig then "ok" else "differs"
  | .error .checksum => "checksum"
  | .error .decompress => "decompress"
  | .error .unmarshal => "unmarshal"

open XV.Msg in
/-- build the message the way the harness does; the log id is irrelevant unless set by an option -/
def buildMsg (typ : Nat) (opts : List Opt) (m : Option Bytes) (z : Bytes) : Codec Bytes × Msg :=
  let C := tableCodec (m.getD []) z
  (C, newMessage C typ "*".toList m opts)

open XV.Msg in
def msgOp (typ : Nat) (opts : List Opt) (m : Option Bytes) (z : Bytes) : String :=
  let (C, msg) := buildMsg typ opts m z
  let orig := m.getD []
  let h := msg.header
  s!"sum={hex32 h.checksum} comp={if h.enableCompress then 1 else 0} bc={showStr h.bcname} ver={showStr h.version} err={h.errorType} log={showStr h.logid} inproc={resStr (unmarshal C msg) orig} wire={resStr (unmarshal C (wire msg)) orig}"

open XV.Msg in
def corOp (typ : Nat) (m : Option Bytes) (z : Bytes) (start : Nat) (pat : List Bool) : String :=
  let (C, msg) := buildMsg typ [] m z
  let info := msg.bytes
  if start + pat.length > 8 * info.length then "bad-op" else
  let bad : Msg := { msg with info := some (corrupt info start pat) }
  let v := verifyChecksum bad
  let u := match unmarshal C bad with
    | .error .checksum => "checksum"
    | _ => "other"
  s!"verify={if v then 1 else 0} unmarshal={u}"

def parsePayload (s : String) : Option (Option (List Byte)) :=
  if s == "nil" then some none else (parseHex s).map some

def parsePat (s : String) : Option (List Bool) :=
  s.toList.mapM (fun c => if c == '0' then some false else if c == '1' then some true else none)

structure St where
  pool : List XV.Dispatch.Sub
  st : XV.Dispatch.State

def St.init : St := { pool := [], st := XV.Dispatch.init }

def insertSorted (x : Nat) : List Nat → List Nat
  | [] => [x]
  | y :: ys => if x ≤ y then x :: y :: ys else y :: insertSorted x ys

def sortNat (l : List Nat) : List Nat := l.foldl (fun acc x => insertSorted x acc) []

def idsStr (l : List Nat) : String := ",".intercalate ((sortNat l).map toString)

open XV.Dispatch in
def regStr : RegResult → String
  | .ok => "ok" | .subscriberErr => "suberr" | .registered => "registered" | .notRegister => "notreg"

open XV.Dispatch in
def step (s : St) (line : String) : St × String :=
  match words line with
  | ["crc", h] =>
    match parseHex h with
    | some bs => (s, hex32 (crc32Fast bs))
    | none => (s, "bad-op")
  | ["resp", t] =>
    match t.toNat? with
    | some t => (s, toString (XV.Msg.getRespMessageType t))
    | none => (s, "bad-op")
  | ["vmt", rq, rs, sameLog, sameFrom] =>
    match rq.toNat?, rs.toNat? with
    | some rq, some rs =>
      let mk (t : Nat) (l f : String) : XV.Msg.Header :=
        { version := [], logid := l.toList, sender := f.toList, bcname := [], typ := t, checksum := 0#32, errorType := 0, enableCompress := false }
      let req := mk rq "L1" ""
      let resp := mk rs (if sameLog == "1" then "L1" else "L2") (if sameFrom == "1" then "peerA" else "peerB")
      (s, boolStr (XV.Msg.verifyMessageType req resp "peerA".toList))
    | _, _ => (s, "bad-op")
  | ["msg", typ, opts, m, z] =>
    match typ.toNat?, parseOpts opts, parsePayload m, parseHex z with
    | some typ, some opts, some m, some z => (s, msgOp typ opts m z)
    | _, _, _, _ => (s, "bad-op")
  | ["cor", typ, m, z, start, pat] =>
    match typ.toNat?, parsePayload m, parseHex z, start.toNat?, parsePat pat with
    | some typ, some m, some z, some start, some pat => (s, corOp typ m z start pat)
    | _, _, _, _, _ => (s, "bad-op")
  | ["corv", typ, m, z, start, pat, opts] =>
    -- built with header options: what the header says has no part in the checksum verification
    match typ.toNat?, parsePayload m, parseHex z, start.toNat?, parsePat pat, parseOpts opts with
    | some typ, some m, some z, some start, some pat, some _ => (s, corOp typ m z start pat)
    | _, _, _, _, _, _ => (s, "bad-op")
  | ["reset"] => (St.init, "ok")
  | "sub" :: id :: typ :: bc :: frm :: rest =>
    match id.toNat?, typ.toNat? with
    | some id, some typ =>
      if s.pool.any (·.id == id) ∨ (rest != [] ∧ rest != ["chan"]) then (s, "bad-op")
      else ({ s with pool := ⟨id, typ, strOf bc, strOf frm⟩ :: s.pool }, "ok")
    | _, _ => (s, "bad-op")
  | ["reg", id] =>
    match id.toNat?.bind (fun id => s.pool.find? (·.id == id)) with
    | some sub => let (st, r) := register s.st sub; ({ s with st := st }, regStr r)
    | none => (s, "bad-op")
  | ["unreg", id] =>
    match id.toNat?.bind (fun id => s.pool.find? (·.id == id)) with
    | some sub => let (st, r) := unregister s.st sub; ({ s with st := st }, regStr r)
    | none => (s, "bad-op")
  | "disp" :: typ :: bc :: frm :: logid :: sum :: rest =>
    match typ.toNat?, sum.toNat? with
    | some typ, some sum =>
      let hasStream := rest != ["nostream"]
      if rest != [] ∧ rest != ["nostream"] then (s, "bad-op") else
      let (st, r, del) := dispatch s.st ⟨typ, strOf bc, strOf frm, strOf logid, sum⟩ hasStream
      let out := match r with
        | .ok => "ok:" ++ idsStr (del.map (·.id))
        | .streamNil => "streamnil"
        | .notRegister => "notreg"
      ({ s with st := st }, out)
    | _, _ => (s, "bad-op")
  | ["dispbad", k] => if k == "nomsg" ∨ k == "nohdr" ∨ k == "nodata" then (s, "empty") else (s, "bad-op")
  | ["tick", ms] =>
    match ms.toNat? with
    | some ms => ({ s with st := tick s.st ms }, "ok")
    | none => (s, "bad-op")
  | "stress" :: _ => (s, "ok")
  | "dmut" :: _ => (s, "ok")
  | _ => (s, "bad-op")

def run : IO Unit := loop step St.init

end XV.Drv.P2p
