import XV.Model.QcTree
import XV.Drv.Util
namespace XV.Drv.QcTree
open XV.QcTree XV.Drv

/-- driver state: the world built from the `ins`/`prop` lines so far + the model state -/
structure DS where
  table : List (Nat × Info)
  st    : St
  /-- `InitQCTree` returned nil: every op of the case answers `no-tree` -/
  dead  : Bool := false
  /-- the op lines of the case executed so far, latest first, from its `reset` line on (`dump`, `conc` and refused
  lines are not part of it): what the threads of a `conc` op replay -/
  hist  : List String := ["reset"]

def world (table : List (Nat × Info)) : World :=
  fun x => match table.lookup x with
    | some i => i
    | none => { view := 0, parent := none }

def initDS : DS := { table := [(0, { view := 0, parent := none })], st := init 0 }

def joinWith (sep : String) (l : List String) : String := sep.intercalate l

def natList (l : List Nat) : String := joinWith "," (l.map toString)

def sortNat (l : List Nat) : List Nat := l.mergeSort (fun a b => decide (a ≤ b))

def optNat : Option Nat → String
  | none => "-"
  | some n => toString n

def entries (s : St) (nodes : List Nat) : String :=
  let es := (nodes.filter (fun n => !(s.sons n).isEmpty)).map (fun n => (n, natList (sortNat (s.sons n))))
  let es := es.mergeSort (fun a b => decide (a.1 < b.1) || (a.1 == b.1 && decide (a.2 ≤ b.2)))
  joinWith ";" (es.map (fun e => toString e.1 ++ ":" ++ e.2))

def dump (s : St) : String :=
  "R=" ++ toString s.root ++ " H=" ++ toString s.high ++ " G=" ++ optNat s.generic ++ " L=" ++ optNat s.locked ++
  " C=" ++ optNat s.commit ++ " P=" ++ toString s.pm ++ " T=" ++ entries s (mainNodes s) ++
  " O=" ++ natList (sortNat s.orphans) ++ " F=" ++ entries s (orphanNodes s) ++ " M=" ++ natList (sortNat s.omap)

def status (ok : Bool) : String := if ok then "ok" else "err"

/-- register the content of proposal `id`; `none` if the id was already used with other content -/
def register (d : DS) (id : Nat) (i : Info) : Option DS :=
  match d.table.lookup id with
  | some j => if i == j then some d else none
  | none => some { d with table := (id, i) :: d.table }

/-- views are Go `int64`s: a line with a view outside the range is not an op (the harness cannot even build the message) -/
def view? (s : String) : Option Int :=
  match s.toInt? with
  | some v => if -9223372036854775808 ≤ v ∧ v ≤ 9223372036854775807 then some v else none
  | none => none

def parseParent (p : String) : Option (Option Nat) :=
  if p == "-" then some none else p.toNat?.map some

def runOp (d : DS) (o : Op) : DS × String :=
  let (s, ok) := stepOp (world d.table) d.st o
  ({ d with st := s }, status ok ++ " " ++ dump s)

def stepLive (d : DS) (ws : List String) : DS × String :=
  match ws with
  | ["dump"] => (d, "ok " ++ dump d.st)
  | ["ins", id, view, par, _pview] =>
    match id.toNat?, view? view, parseParent par with
    | some id, some view, some par =>
      match register d id { view := view, parent := par } with
      | some d => runOp d (.ins id)
      | none => (d, "bad-op")
    | _, _, _ => (d, "bad-op")
  | ["prop", id, view, par, pview, c] =>
    match id.toNat?, view? view, par.toNat?, view? pview with
    | some id, some view, some par, some pview =>
      match register d id { view := view, parent := some par } with
      | some d => runOp d (.prop id pview (c == "1"))
      | none => (d, "bad-op")
    | _, _, _, _ => (d, "bad-op")
  | ["high", id] => match id.toNat? with | some id => runOp d (.high id) | none => (d, "bad-op")
  | ["vote", id] => match id.toNat? with | some id => runOp d (.vote id) | none => (d, "bad-op")
  | ["enforce", id] => match id.toNat? with | some id => runOp d (.enforce id) | none => (d, "bad-op")
  | ["commit", id] => match id.toNat? with | some id => runOp d (.commit id) | none => (d, "bad-op")
  | ["pm", v] =>
    match view? v with
    | some v => let (s, _) := stepOp (world d.table) d.st (.pm v); ({ d with st := s }, "view " ++ toString s.pm)
    | none => (d, "bad-op")
  | _ => (d, "bad-op")

/-- the content of the ledger's blocks `0..tip`: block `h` is proposal `h`, view `h`, parent `h - 1` -/
def ledgerTable (tip : Nat) : List (Nat × Info) :=
  (List.range (tip + 1)).map (fun h => (h, { view := h, parent := if h = 0 then none else some (h - 1) }))

def treeOps : List String := ["dump", "ins", "prop", "high", "vote", "enforce", "commit", "pm"]

def stepBase (d : DS) (line : String) : DS × String :=
  match words line with
  | ["reset"] => (initDS, "ok " ++ dump initDS.st)
  | ["reset", start, tip] =>
    match start.toNat?, tip.toNat? with
    | some start, some tip =>
      match initQCTree (fun h => h) start tip with
      | some s => ({ table := ledgerTable tip, st := s, hist := [line] }, "ok " ++ dump s)
      | none => ({ initDS with dead := true, hist := [line] }, "nil")
    | _, _ => (d, "bad-op")
  | op :: rest =>
    if d.dead then (d, if treeOps.contains op then "no-tree" else "bad-op") else
    let (d', a) := stepLive d (op :: rest)
    if a == "bad-op" || op == "dump" then (d', a) else ({ d' with hist := line :: d'.hist }, a)
  | [] => (d, "bad-op")

/-- the tree a thread of a `conc` op ends with: the sequential run of its op lines on a tree of its own -/
def replay (lines : List String) : String :=
  let d := lines.foldl (fun d l => (stepBase d l).1) initDS
  if d.dead then "no-tree" else dump d.st

/-- `conc k seed [free]`: `k` independent trees, tree `i` executes the first `max 1 (n - i)` of the `n` op lines of the
case.  Independent trees do not influence each other whatever the schedule (`XV.C15.interleaved_eq_sequential`), so the
answer does not depend on `seed`: the final dump of every thread's sequential run. -/
def step (d : DS) (line : String) : DS × String :=
  match words line with
  | "conc" :: k :: seed :: rest =>
    if rest != [] && rest != ["free"] then (d, "bad-op") else
    match k.toNat?, seed.toNat? with
    | some k, some _ =>
      if k < 2 || k > 6 then (d, "bad-op")
      else if d.dead then (d, "no-tree")
      else
        let h := d.hist.reverse
        let finals := (List.range k).map (fun i => replay (h.take (max 1 (h.length - i))))
        (d, "ok " ++ joinWith " | " finals)
    | _, _ => (d, "bad-op")
  | _ => stepBase d line

def run : IO Unit := loop step initDS

end XV.Drv.QcTree
