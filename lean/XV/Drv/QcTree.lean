import XV.Model.QcTree
import XV.Drv.Util
namespace XV.Drv.QcTree
open XV.QcTree XV.Drv

/-- driver state: the world built from the `ins`/`prop` lines so far + the model state -/
structure DS where
  table : List (Nat × Info)
  st    : St
  /-- `InitQCTree` returned nil: every op of the case answers `no-tree` -/
  dead  : Bool := false

def world (table : List (Nat × Info)) : World :=
  fun x => match table.lookup x with
    | some i => i
    | none => { view := 0, parent := none }

def initDS : DS := { table := [(0, { view := 0, parent := none })], st := init 0 }

def joinWith (sep : String) (l : List String) : String := sep.intercalate l

def natList (l : List Nat) : String := joinWith "," (l.map toString)

def sortNat (l : List Nat) : List Nat := l.mergeSort (fun a b => decide (a ≤ b))

def optNat : Option Nat → String
  | none => "-"
  | some n => toString n

def entries (s : St) (nodes : List Nat) : String :=
  let es := (nodes.filter (fun n => !(s.sons n).isEmpty)).map (fun n => (n, natList (sortNat (s.sons n))))
  let es := es.mergeSort (fun a b => decide (a.1 < b.1) || (a.1 == b.1 && decide (a.2 ≤ b.2)))
  joinWith ";" (es.map (fun e => toString e.1 ++ ":" ++ e.2))

def dump (s : St) : String :=
  "R=" ++ toString s.root ++ " H=" ++ toString s.high ++ " G=" ++ optNat s.generic ++ " L=" ++ optNat s.locked ++
  " C=" ++ optNat s.commit ++ " P=" ++ toString s.pm ++ " T=" ++ entries s (mainNodes s) ++
  " O=" ++ natList (sortNat s.orphans) ++ " F=" ++ entries s (orphanNodes s) ++ " M=" ++ natList (sortNat s.omap)

def status (ok : Bool) : String := if ok then "ok" else "err"

/-- register the content of proposal `id`; `none` if the id was already used with other content -/
def register (d : DS) (id : Nat) (i : Info) : Option DS :=
  match d.table.lookup id with
  | some j => if i == j then some d else none
  | none => some { d with table := (id, i) :: d.table }

def parseParent (p : String) : Option (Option Nat) :=
  if p == "-" then some none else p.toNat?.map some

def runOp (d : DS) (o : Op) : DS × String :=
  let (s, ok) := stepOp (world d.table) d.st o
  ({ d with st := s }, status ok ++ " " ++ dump s)

def stepLive (d : DS) (ws : List String) : DS × String :=
  match ws with
  | ["dump"] => (d, "ok " ++ dump d.st)
  | ["ins", id, view, par, _pview] =>
    match id.toNat?, view.toInt?, parseParent par with
    | some id, some view, some par =>
      match register d id { view := view, parent := par } with
      | some d => runOp d (.ins id)
      | none => (d, "bad-op")
    | _, _, _ => (d, "bad-op")
  | ["prop", id, view, par, pview, c] =>
    match id.toNat?, view.toInt?, par.toNat?, pview.toInt? with
    | some id, some view, some par, some pview =>
      match register d id { view := view, parent := some par } with
      | some d => runOp d (.prop id pview (c == "1"))
      | none => (d, "bad-op")
    | _, _, _, _ => (d, "bad-op")
  | ["high", id] => match id.toNat? with | some id => runOp d (.high id) | none => (d, "bad-op")
  | ["vote", id] => match id.toNat? with | some id => runOp d (.vote id) | none => (d, "bad-op")
  | ["enforce", id] => match id.toNat? with | some id => runOp d (.enforce id) | none => (d, "bad-op")
  | ["commit", id] => match id.toNat? with | some id => runOp d (.commit id) | none => (d, "bad-op")
  | ["pm", v] =>
    match v.toInt? with
    | some v => let (s, _) := stepOp (world d.table) d.st (.pm v); ({ d with st := s }, "view " ++ toString s.pm)
    | none => (d, "bad-op")
  | _ => (d, "bad-op")

/-- the content of the ledger's blocks `0..tip`: block `h` is proposal `h`, view `h`, parent `h - 1` -/
def ledgerTable (tip : Nat) : List (Nat × Info) :=
  (List.range (tip + 1)).map (fun h => (h, { view := h, parent := if h = 0 then none else some (h - 1) }))

def treeOps : List String := ["dump", "ins", "prop", "high", "vote", "enforce", "commit", "pm"]

def step (d : DS) (line : String) : DS × String :=
  match words line with
  | ["reset"] => (initDS, "ok " ++ dump initDS.st)
  | ["reset", start, tip] =>
    match start.toNat?, tip.toNat? with
    | some start, some tip =>
      match initQCTree (fun h => h) start tip with
      | some s => ({ table := ledgerTable tip, st := s }, "ok " ++ dump s)
      | none => ({ initDS with dead := true }, "nil")
    | _, _ => (d, "bad-op")
  | op :: rest =>
    if d.dead then (d, if treeOps.contains op then "no-tree" else "bad-op") else stepLive d (op :: rest)
  | [] => (d, "bad-op")

def run : IO Unit := loop step initDS

end XV.Drv.QcTree
