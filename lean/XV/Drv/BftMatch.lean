import XV.Model.BftMatch
import XV.Drv.Util
namespace XV.Drv.BftMatch
open XV.Safety XV.BftMatch XV.Drv

/-- entry token `<addr><kind>`; only kinds `v` / `r` verify over the certified id -/
def parseEntry (t : String) : Option Entry :=
  let digits := t.takeWhile Char.isDigit
  let kind := (t.drop digits.positions.count).toString
  match digits.toString.toNat? with
  | some a =>
    if a ≤ 200 ∧ kind.length == 1 ∧ (kind == "v" || kind == "r" || kind == "w" || kind == "c" || kind == "m") then
      some ⟨a, kind == "v" || kind == "r"⟩
    else none
  | none => none

def parseSet (s : String) : Option (List Nat) :=
  match (s.splitOn ",").mapM (fun t => t.toNat?) with
  | some l => if l.isEmpty ∨ l.any (· > 200) ∨ l.eraseDups.length ≠ l.length then none else some l
  | none => none

def parseEdit (s : String) : Option Edit :=
  match s.splitOn ":" with
  | [h, set] =>
    match h.toNat?, parseSet set with
    | some h, some set => some ⟨h, set⟩
    | _, _ => none
  | _ => none

def parseHist (s : String) : Option (List Edit) :=
  if s == "-" then some [] else (s.splitOn "/").mapM parseEdit

def parseTerms (s : String) : Option (List Nat) := (s.splitOn ",").mapM (fun t => t.toNat?)

def small (n : Nat) : Bool := n < 1073741824

/-- `<view>` or `<view>@<cert>` followed by the entries; the default certified block is the predecessor `h - 1` -/
def parseJustify (h : Nat) (ws : List String) : Option (Option Justify) :=
  match ws with
  | ["noqc"] => some none
  | v :: es =>
    let (view?, cert?) : Option Nat × Option Nat :=
      match v.splitOn "@" with
      | [a] => (a.toNat?, some (h - 1))
      | [a, b] => (a.toNat?, b.toNat?)
      | _ => (none, none)
    match view?, cert?, es.mapM parseEntry with
    | some view, some cert, some es => some (some ⟨cert, view, es⟩)
    | _, _, _ => none
  | [] => none

def badJustify (h : Nat) (j : Option Justify) : Bool :=
  match j with
  | some j => !small j.view || !small j.cert || j.cert > h - 1 || j.cert + 3 < h
  | none => false

def verdict (b : Bool) : String := if b then "accept" else "reject"

/-- stored terms are 0 below start, ≥ 1 and non-decreasing from start on, no term holds more than 8·K blocks -/
def tdWellFormed (start K : Nat) (terms : List Nat) : Bool :=
  (List.range terms.length).all fun h =>
    let t := terms.getD h 0
    if h < start then t == 0
    else decide (1 ≤ t) && (h == start || decide (terms.getD (h - 1) 0 ≤ t)) &&
      decide (((terms.drop start).filter (· == t)).length ≤ K * 8)

/-- `g<k>` / `s<k>`, k ≥ 1: the k-th snapshot `Get` / `CreateSnapshot` of the check fails -/
def parseFault (f : String) : Bool :=
  match ((f.drop 1).toString).toNat? with
  | some k => (f.startsWith "g" || f.startsWith "s") && decide (1 ≤ k) && decide (k ≤ 1000)
  | none => false

def base (ws : List String) : Unit × String :=
  match ws with
  | "xp" :: start :: init :: hist :: tip :: h :: ownBits :: preBits :: pos :: rest =>
    match start.toNat?, parseSet init, parseHist hist, tip.toNat?, h.toNat?, ownBits.toNat?, preBits.toNat?, pos.toNat?,
        parseJustify (h.toNat?.getD 0) rest with
    | some start, some init, some hist, some tip, some h, some ownBits, some preBits, some pos, some j =>
      if !(small start && small tip && small h && small pos) || start < 1 || h < 1 || h > tip + 1 || h + 2 < tip || tip + 1 < start
          || ownBits ≥ 1048576 || preBits ≥ 1048576 || badJustify h j then ((), "bad-op")
      else
        let preBits := if h - 1 ≥ start then preBits else 0
        ((), verdict (xpoaCheckMinerMatch ⟨start, tip, init, hist⟩ preBits ⟨h, ownBits, pos, j⟩))
    | _, _, _, _, _, _, _, _, _ => ((), "bad-op")
  | "td" :: start :: init :: hist :: terms :: h :: ownBits :: preBits :: term :: pos :: rest =>
    match start.toNat?, parseSet init, parseHist hist, parseTerms terms, h.toNat?, ownBits.toNat?, preBits.toNat?,
        term.toNat?, pos.toNat?, parseJustify (h.toNat?.getD 0) rest with
    | some start, some init, some hist, some terms, some h, some ownBits, some preBits, some term, some pos, some j =>
      let tip := terms.length - 1
      if terms.isEmpty || !(small start && small h && small pos && small term) || start < 1 || h < 1 || h > tip + 1 || h + 2 < tip
          || tip + 1 < start || ownBits ≥ 1048576 || preBits ≥ 1048576 || badJustify h j
          || hist.any (fun e => e.set.length ≠ init.length) || !tdWellFormed start init.length terms
          || pos ≥ init.length || term < 1 || terms.any (fun t => !small t) then ((), "bad-op")
      else
        let preBits := if h - 1 ≥ start then preBits else 0
        let c : TdChain := ⟨start, init, hist, terms⟩
        ((), verdict (tdCheckMinerMatch c (terms.getD (h - 1) 0) preBits term ⟨h, ownBits, pos, j⟩))
    | _, _, _, _, _, _, _, _, _, _ => ((), "bad-op")
  | _ => ((), "bad-op")

def step (_ : Unit) (line : String) : Unit × String :=
  match words line with
  -- a check during which a read of the validator record fails has NO validator set to check against (`faultedLookup`):
  -- nothing is accepted.  (The harness answers `-` when the check made fewer reads than the fault's ordinal.)
  | "xpf" :: f :: rest =>
    if !parseFault f then ((), "bad-op") else
    if (base ("xp" :: rest)).2 == "bad-op" then ((), "bad-op") else ((), verdict (matchQC (faultedLookup true none) []))
  | "tdf" :: f :: rest =>
    if !parseFault f then ((), "bad-op") else
    if (base ("td" :: rest)).2 == "bad-op" then ((), "bad-op") else ((), verdict (matchQC (faultedLookup true none) []))
  -- the same `td` line over an election record with tied ballots, evaluated `reps` times: the recorded set (already
  -- in the order of the address tie-break) is the elected list at every evaluation
  | "tdt" :: reps :: extras :: rest =>
    match reps.toNat?, parseSet extras, parseHist (rest.getD 2 "") with
    | some reps, some extras, some hist =>
      if reps < 1 || reps > 10000 || hist.any (fun e => e.set.any (fun a => extras.contains a)) then ((), "bad-op")
      else base ("td" :: rest)
    | _, _, _ => ((), "bad-op")
  | ws => base ws

def run : IO Unit := loop step ()

end XV.Drv.BftMatch
