import XV.Model.SlotSched
import XV.Model.Pow
import XV.Model.Plug
import XV.Model.TdElect
import XV.Drv.Util
/-! driver of engine `sched` (C16); op formats are documented in go/cmd/sched/main.go -/
namespace XV.Drv.Sched
open XV.Drv XV.Sched

def ints (ws : List String) : Option (List Int) := ws.mapM String.toInt?

def fmt3 (r : Int × Int × Int) : String := s!"{r.1} {r.2.1} {r.2.2}"

/-- run-length list of `f T` for `T0 ≤ T < T0+n` -/
def rle (f : Int → Int × Int × Int) (T0 : Int) (n : Nat) : String := Id.run do
  let mut acc : String := ""
  let mut cur : Int × Int × Int := (0, 0, 0)
  let mut cnt : Nat := 0
  for i in [0:n] do
    let v := f (T0 + i)
    if cnt > 0 && v == cur then
      cnt := cnt + 1
    else
      if cnt > 0 then
        acc := (if acc.isEmpty then acc else acc ++ " ") ++ s!"{cur.1},{cur.2.1},{cur.2.2}*{cnt}"
      cur := v
      cnt := 1
  if cnt > 0 then
    acc := (if acc.isEmpty then acc else acc ++ " ") ++ s!"{cur.1},{cur.2.1},{cur.2.2}*{cnt}"
  return acc

def verdictStr : Verdict → String
  | .accept => "accept" | .reject => "reject" | .panic => "panic"

def powVerdictStr : XV.Pow.Verdict → String
  | .accept => "accept" | .reject => "reject" | .panic => "panic"

/-- proposer token → abstract id relative to the list in force `[0..n)`: `k` ↦ k, `50+k` ↦ 1000+k
(member of the other list), `99` ↦ 999 (outsider), `-1` ↦ none (empty) -/
def propId (t : Int) : Option Nat :=
  if t = -1 then none else if t = 99 then some 999 else if t ≥ 50 then some (1000 + (t - 50).toNat) else some t.toNat

def parseBits (s : String) : Option (Option Nat) :=
  if s == "x" then some none else s.toNat?.map some

def parseChain : Nat → List String → Option (List XV.Pow.Blk × List String)
  | 0, rest => some ([], rest)
  | n + 1, b :: t :: rest =>
    match parseBits b, t.toInt?, parseChain n rest with
    | some bits, some ts, some (bs, r) => some (⟨bits, ts⟩ :: bs, r)
    | _, _, _ => none
  | _, _ => none

def flag (s a b : String) : Option Bool := if s == a then some true else if s == b then some false else none

def powStep (ws : List String) : String :=
  match ws with
  | d :: g :: e :: m :: n :: rest =>
    match d.toNat?, g.toInt?, e.toInt?, m.toNat?, n.toNat? with
    | some d, some g, some e, some m, some n =>
      if n < 1 then "bad-op" else
      match parseChain n rest with
      | some (chain, [h, par, cb, cts, hash, idok, key, sig]) =>
        match h.toInt?, par.toInt?, parseBits cb, cts.toInt?, hash.toNat? with
        | some h, some par, some cb, some cts, some hash =>
          if hash ≥ 2 ^ 256 then "bad-op" else
          let cfg : XV.Pow.Cfg := ⟨d, g, e, m⟩
          let legacyBad := !cfg.bitcoin && (match cb with | some b => decide (b > 256) | none => false)
          if legacyBad then "bad-op" else
          let idOk := flag idok "1" "0"
          let keyOk : Option Bool := if key == "p" then some true else if key == "x" || key == "b" then some false else none
          let sigOk : Option Bool := if sig == "v" then some true else if sig == "w" || sig == "f" then some false else none
          match idOk, keyOk, sigOk with
          | some idOk, some keyOk, some sigOk =>
            let parent : Option Nat := if par ≥ 0 ∧ par < n then some par.toNat else none
            powVerdictStr (XV.Pow.checkMinerMatch cfg chain.toArray ⟨h, parent, cb, cts, hash, idOk, keyOk, sigOk⟩)
          | _, _, _ => "bad-op"
        | _, _, _, _, _ => "bad-op"
      | _ => "bad-op"
    | _, _, _, _, _ => "bad-op"
  | _ => "bad-op"

/-- `<bits|x> <ts> <par>` triples of a ledger with branches; `par` = -1 or an index below the block's own -/
def parseTree : Nat → Nat → List String → Option (List XV.Pow.TBlk × List String)
  | 0, _, rest => some ([], rest)
  | n + 1, i, b :: t :: p :: rest =>
    match parseBits b, t.toInt?, p.toInt?, parseTree n (i + 1) rest with
    | some bits, some ts, some par, some (bs, r) =>
      if par < -1 ∨ par ≥ (i : Int) then none
      else some (⟨bits, ts, if par < 0 then none else some par.toNat⟩ :: bs, r)
    | _, _, _, _ => none
  | _, _, _ => none

/-- `powf`: as `pow`, the ledger being a block tree and `main` naming the tip of its main chain (which the
plugin - and so the model - never looks at) -/
def powfStep (ws : List String) : String :=
  match ws with
  | d :: g :: e :: m :: n :: rest =>
    match d.toNat?, g.toInt?, e.toInt?, m.toNat?, n.toNat? with
    | some d, some g, some e, some m, some n =>
      if n < 1 then "bad-op" else
      match parseTree n 0 rest with
      | some (tree, [mainTip, h, par, cb, cts, hash, idok, key, sig]) =>
        match mainTip.toNat?, h.toInt?, par.toInt?, parseBits cb, cts.toInt?, hash.toNat? with
        | some mainTip, some h, some par, some cb, some cts, some hash =>
          if hash ≥ 2 ^ 256 ∨ mainTip ≥ n then "bad-op" else
          let cfg : XV.Pow.Cfg := ⟨d, g, e, m⟩
          let legacyBad := !cfg.bitcoin && (match cb with | some b => decide (b > 256) | none => false)
          if legacyBad then "bad-op" else
          let idOk := flag idok "1" "0"
          let keyOk : Option Bool := if key == "p" then some true else if key == "x" || key == "b" then some false else none
          let sigOk : Option Bool := if sig == "v" then some true else if sig == "w" || sig == "f" then some false else none
          match idOk, keyOk, sigOk with
          | some idOk, some keyOk, some sigOk =>
            let parent : Option Nat := if par ≥ 0 ∧ par < n then some par.toNat else none
            powVerdictStr (XV.Pow.checkMinerMatchT cfg tree.toArray ⟨h, parent, cb, cts, hash, idOk, keyOk, sigOk⟩)
          | _, _, _ => "bad-op"
        | _, _, _, _, _, _ => "bad-op"
      | _ => "bad-op"
    | _, _, _, _, _ => "bad-op"
  | _ => "bad-op"

/-- consensus kind tokens of the `plug` op -/
def plugKind (s : String) : Option XV.Plug.Kind :=
  if s == "s0" then some ⟨0, 0⟩ else if s == "s1" then some ⟨0, 1⟩ else if s == "p" then some ⟨1, 0⟩
  else if s == "t" then some ⟨2, 0⟩ else if s == "x" then some ⟨3, 0⟩ else none

def plugName (k : XV.Plug.Kind) : String :=
  match k.name with | 0 => "single" | 1 => "pow" | 2 => "tdpos" | _ => "poa"

/-- candidate tokens: which instances' `CheckMinerMatch` the block passes (decided per plugin elsewhere) -/
def plugSat (cand : String) : Option (XV.Plug.Kind → Bool) :=
  if cand == "s0" then some (fun k => k == ⟨0, 0⟩)
  else if cand == "s1" then some (fun k => k == ⟨0, 1⟩)
  else if cand == "sp0" then some (fun k => k == ⟨0, 0⟩)
  else if cand == "p" then some (fun k => k.name == 1)
  else if cand == "ps0" then some (fun k => k.name == 1 || k == ⟨0, 0⟩)
  else if cand == "t" then some (fun k => k.name == 2)
  else if cand == "x" then some (fun k => k.name == 3)
  else if cand == "n" then some (fun _ => false)
  else none

/-- run the events; `none` = malformed (number of `U` ≠ number of upgrades), `some none` = an upgrade whose
fate depends on the map order -/
def plugRun : XV.Plug.Node → List Char → List XV.Plug.Kind → Option (Option XV.Plug.Node)
  | n, [], [] => some (some n)
  | _, [], _ :: _ => none
  | n, 'R' :: evs, ups => plugRun (XV.Plug.restart n) evs ups
  | n, 'U' :: evs, k :: ups =>
    let c : XV.Plug.Stored := if n.stored.isEmpty then [(0, n.genesis)] else n.stored
    if XV.Plug.ambiguous c k then some none else plugRun (XV.Plug.upgrade n k) evs ups
  | _, _, _ => none

def plugStep (ws : List String) : String :=
  match ws with
  | [g, ups, evs, cand] =>
    let upToks := if ups == "-" then [] else ups.splitOn ","
    let evChars := if evs == "-" then [] else evs.toList
    match plugKind g, upToks.mapM plugKind, plugSat cand with
    | some g, some ups, some sat =>
      if evChars.length > 12 then "bad-op" else
      match plugRun (XV.Plug.boot g []) evChars ups with
      | none => "bad-op"
      | some none => "ambiguous"
      | some (some n) =>
        match XV.Plug.inForce n with
        | none => "reject none"
        | some k => (if XV.Plug.check n sat then "accept " else "reject ") ++ plugName k
    | _, _, _ => "bad-op"
  | _ => "bad-op"

/-! `tdel`: tdpos vote-based election (formats in go/cmd/sched/elect.go) -/

def natList (s : String) : Option (List Nat) := (s.splitOn ",").mapM String.toNat?

def parseVRec (s : String) : Option XV.TdElect.VRec :=
  if s == "-" then some .absent else if s == "!" then some .corrupt
  else ((s.splitOn "+").mapM String.toInt?).map .ballots

def parseCand (s : String) : Option (Nat × XV.TdElect.VRec) :=
  match s.splitOn "=" with
  | [c, v] => match c.toNat?, parseVRec v with
    | some c, some v => some (c, v)
    | _, _ => none
  | _ => none

def parseNRec (s : String) : Option XV.TdElect.NRec :=
  if s == "!" then some .corrupt else if s == "~" then some (.cands [])
  else ((s.splitOn ";").mapM parseCand).bind (fun l =>
    if (l.map (·.1)).eraseDups.length = l.length then some (.cands l) else none)

def parseSnaps (s : String) : Option (List (Nat × XV.TdElect.NRec)) :=
  if s == "-" then some [] else
  (s.splitOn "/").mapM (fun e =>
    match e.splitOn "@" with
    | [h, r] => match h.toNat?, parseNRec r with
      | some h, some r => some (h, r)
      | _, _ => none
    | _ => none)

def parseFault (s : String) : Option XV.TdElect.Fault :=
  if s == "-" then some .none else if s == "n" then some .nominate else if s == "s" then some .snapshot
  else if s.startsWith "v" then ((s.drop 1).toString.toNat?).map .vote else none

def tdelVerdictStr : XV.TdElect.Verdict → String
  | .accept => "accept" | .reject => "reject" | .panic => "panic"

/-- stored terms are 0 below `start`, at least 1 and non-decreasing from `start` on, and no term holds more
blocks than it has slots -/
def termsOk (start slots : Nat) (terms : List Nat) : Bool :=
  (List.range terms.length).all (fun h =>
    let t := terms[h]?.getD 0
    if h < start then t == 0
    else decide (t ≥ 1) && (h == start || decide (terms[h - 1]?.getD 0 ≤ t))
      && decide ((terms.filter (· == t)).length ≤ slots))

def tdelStep (ws : List String) : String :=
  match ws with
  | [pn, bn, start, init, terms, snaps, fault, h, term, pos, bp, prop] =>
    match pn.toNat?, bn.toNat?, start.toNat?, natList init, natList terms, parseSnaps snaps, parseFault fault with
    | some pn, some bn, some start, some init, some terms, some snaps, some fault =>
      match h.toNat?, term.toNat?, pos.toNat?, bp.toNat?, prop.toNat? with
      | some h, some term, some pos, some bp, some prop =>
        if pn < 1 ∨ pn > 8 ∨ bn < 1 ∨ bn > 8 ∨ start < 1 ∨ terms.length < start + 1 ∨ terms.length > 200 ∨ h < 1 ∨ term < 1 ∨ pos ≥ pn ∨ bp ≥ bn
            ∨ !termsOk start (pn * bn) terms then "bad-op" else
        tdelVerdictStr (XV.TdElect.check ⟨start, init, pn, bn, terms, snaps⟩ fault h term pos bp prop)
      | _, _, _, _, _ => "bad-op"
    | _, _, _, _, _, _, _ => "bad-op"
  | _ => "bad-op"

def step (_ : Unit) (line : String) : Unit × String :=
  let ws := words line
  ((), match ws with
  | "td" :: rest =>
    match ints rest with
    | some [alt, bn, init, period, pn, term, ts] => fmt3 (tdSched ⟨alt, bn, init, period, pn, term⟩ ts)
    | _ => "bad-op"
  | "tdr" :: rest =>
    match ints rest with
    | some [alt, bn, init, period, pn, term, t0, n] =>
      rle (fun T => tdSched ⟨alt, bn, init, period, pn, term⟩ (T * 1000000)) t0 n.toNat
    | _ => "bad-op"
  | "xp" :: rest =>
    match ints rest with
    | some [period, bn, n, ts] => fmt3 (xpSched period bn ts n)
    | _ => "bad-op"
  | "xpr" :: rest =>
    match ints rest with
    | some [period, bn, n, t0, cnt] => rle (fun T => xpSched period bn (T * 1000000) n) t0 cnt.toNat
    | _ => "bad-op"
  | ["gc", n] =>
    match n.toNat? with
    | some n => let r := XV.Pow.getCompact n; s!"{r.1} {boolStr r.2}"
    | none => "bad-op"
  | ["sc", c] =>
    match c.toNat? with
    | some c =>
      if c ≥ 2 ^ 32 then "bad-op" else
      let r := XV.Pow.setCompact c; s!"{r.1} {boolStr r.2.1} {boolStr r.2.2}"
    | none => "bad-op"
  | "tdacc" :: rest =>
    match ints rest with
    | some [alt, bn, init, period, pn, term, nvals, _hmode, ts, prop] =>
      match propId prop with
      | some p => verdictStr (tdposAccept ⟨alt, bn, init, period, pn, term⟩ (List.range nvals.toNat) ts p)
      | none => "bad-op"
    | _ => "bad-op"
  | "xpacc" :: rest =>
    match ints rest with
    | some [period, bn, nvals, mode, ts, prop] =>
      -- mode 3: the set in force (contract snapshot) has one member more than the set held in memory
      -- modes 4, 5, 6: the validator record cannot be read / decoded while the block is checked: no validator set
      if mode < 0 ∨ mode > 6 then "bad-op" else
      let vals := if mode = 0 ∨ mode ≥ 4 then [] else if mode = 3 then List.range (nvals.toNat + 1) else List.range nvals.toNat
      verdictStr (xpoaAccept period bn vals ts (propId prop))
    | _ => "bad-op"
  | ["single", idok, prop, key, sig] =>
    let isMiner := if prop == "m" then some true else if prop == "o" || prop == "e" then some false else none
    -- key `p` = the proposer's own key: it matches the proposer address unless the proposer is empty
    let keyOk := if key == "p" then some (prop != "e") else if key == "x" || key == "b" then some false else none
    let sigOk := if sig == "v" then some true else if sig == "w" || sig == "c" || sig == "f" then some false else none
    match flag idok "1" "0", isMiner, keyOk, sigOk with
    | some a, some b, some c, some d => verdictStr (singleAccept a b c d)
    | _, _, _, _ => "bad-op"
  | "pow" :: rest => powStep rest
  | "powf" :: rest => powfStep rest
  | "plug" :: rest => plugStep rest
  | "tdel" :: rest => tdelStep rest
  | _ => "bad-op")

def run : IO Unit := loop step ()

end XV.Drv.Sched
