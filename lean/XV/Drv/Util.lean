/-! line-protocol helpers shared by all engine drivers (core Lean only) -/
namespace XV.Drv

def words (line : String) : List String :=
  (line.splitOn " ").filter (· ≠ "")

def trimNl (s : String) : String :=
  let s := if s.endsWith "\n" then (s.dropEnd 1).toString else s
  if s.endsWith "\r" then (s.dropEnd 1).toString else s

/-- run a pure step function over stdin lines, printing one output line per input line -/
partial def loop {σ : Type} (step : σ → String → σ × String) (init : σ) : IO Unit := do
  let stdin ← IO.getStdin
  let stdout ← IO.getStdout
  let rec go (s : σ) (n : Nat) : IO Unit := do
    let line ← stdin.getLine
    if line.isEmpty then
      stdout.flush
      return ()
    let (s', out) := step s (trimNl line)
    stdout.putStrLn out
    if n % 1024 == 0 then stdout.flush
    go s' (n + 1)
  go init 0

def boolStr (b : Bool) : String := if b then "true" else "false"

end XV.Drv
