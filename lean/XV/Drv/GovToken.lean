import XV.Model.GovToken
import XV.Drv.Util
/-! line-protocol driver of the `gov` engine (C19); op lines and answers as in `go/cmd/gov/main.go` -/
namespace XV.Drv.GovToken
open XV.GovToken XV.Drv

def parseVia : String → Option Caller
  | "P" => some .proposal
  | "T" => some .tdpos
  | "X" => some .xpos
  | "O" => some .other
  | "D" => some .other
  | _ => none

/-- outer `none` = malformed, inner `none` = invalid lock type -/
def parseType : String → Option (Option LockType)
  | "o" => some (some .ordinary)
  | "t" => some (some .tdpos)
  | "z" => some none
  | _ => none

def parsePre : List String → Option (List (Acct × Int))
  | [] => some []
  | t :: r =>
    match t.splitOn ":" with
    | [a, q] =>
      match a.toNat?, q.toInt?, parsePre r with
      | some a, some q, some rest => some ((a, q) :: rest)
      | _, _, _ => none
    | _ => none

def parseFlag : String → Option Bool
  | "0" => some false
  | "1" => some true
  | _ => none

def statusStr : Status → String
  | .voting => "V"
  | .cancelled => "C"
  | .rejected => "R"
  | .passed => "P"
  | .failed => "F"
  | .succeeded => "S"

def sortBy {α : Type} (lt : α → α → Bool) (l : List α) : List α :=
  l.mergeSort (fun a b => !lt b a)

def dump (w : World) : String :=
  let s := match w.gov.supply with
    | none => "S=-"
    | some n => s!"S={n}"
  let d := if w.gov.distributed then " D=1 |" else " D=0 |"
  let bals := (sortBy (fun (a b : Acct × Bal) => a.1 < b.1) w.gov.bal).map
    fun (a, b) => s!" {a}={b.total}/{b.ord}/{b.tdp}"
  let props := (sortBy (fun (a b : Nat × Proposal) => a.1 < b.1) w.props).map
    fun (p, x) => s!" P{p}={statusStr x.status}/{x.votes}/{x.proposer}"
  let locks := (sortBy (fun (a b : (Nat × Acct) × Int) => a.1.1 < b.1.1 || (a.1.1 == b.1.1 && a.1.2 < b.1.2)) w.locks).map
    fun ((p, a), n) => s!" L{p}.{a}={n}"
  let noms := (sortBy (fun (a b : Acct × (Acct × Int)) => a.1 < b.1) w.td.nom).map
    fun (c, (i, n)) => s!" N{c}={i}/{n}"
  let flat : List ((Acct × Acct) × Int) := w.td.votes.flatMap fun (c, vm) => vm.map fun (v, n) => ((c, v), n)
  let votes := (sortBy (fun (a b : (Acct × Acct) × Int) => a.1.1 < b.1.1 || (a.1.1 == b.1.1 && a.1.2 < b.1.2)) flat).map
    fun ((c, v), n) => s!" V{c}.{v}={n}"
  s ++ d ++ String.join bals ++ " |" ++ String.join props ++ " |" ++ String.join locks ++ s!" | T={w.tasks.length} |"
    ++ String.join noms ++ " |" ++ String.join votes ++ s!" | H={w.tip}"

def parseCall : List String → Option Call
  | ["init", a] => a.toNat?.map fun _ => .init
  | ["xfer", s, t, n] =>
    match s.toNat?, t.toNat?, n.toInt? with
    | some s, some t, some n => some (.transfer s t n)
    | _, _, _ => none
  | ["lock", v, a, n, ty] =>
    match parseVia v, a.toNat?, n.toInt?, parseType ty with
    | some c, some a, some n, some τ => some (.lock c a n τ)
    | _, _, _, _ => none
  | ["unlock", v, a, n, ty] =>
    match parseVia v, a.toNat?, n.toInt?, parseType ty with
    | some c, some a, some n, some τ => some (.unlock c a n τ)
    | _, _, _, _ => none
  | ["propose", a, pct, stop, trig, ok] =>
    match a.toNat?, pct.toInt?, stop.toInt?, trig.toInt? with
    | some a, some pct, some stop, some trig => some (.propose a pct stop trig (ok == "1"))
    | _, _, _, _ => none
  | ["vote", a, pid, n] =>
    match a.toNat?, pid.toNat?, n.toInt? with
    | some a, some pid, some n => some (.vote a pid n)
    | _, _, _ => none
  | ["thaw", a, pid] =>
    match a.toNat?, pid.toNat? with
    | some a, some pid => some (.thaw a pid)
    | _, _ => none
  | ["timer", h] => h.toInt?.map fun h => .timer h
  | ["cvr", v, pid] =>
    match parseVia v, pid.toNat? with
    | some c, some pid => some (.checkVote c pid)
    | _, _ => none
  | ["trig", v, pid] =>
    match parseVia v, pid.toNat? with
    | some c, some pid => some (.trigger c pid)
    | _, _ => none
  | ["seal"] => some .newBlock
  | ["nominate", i, c, n, auth, h] =>
    match i.toNat?, c.toNat?, n.toInt?, parseFlag auth, h.toInt? with
    | some i, some c, some n, some auth, some h => some (.nominate i c n auth h)
    | _, _, _, _, _ => none
  | ["revnom", i, c, h] =>
    match i.toNat?, c.toNat?, h.toInt? with
    | some i, some c, some h => some (.revokeNominate i c h)
    | _, _, _ => none
  | ["tvote", i, c, n, h] =>
    match i.toNat?, c.toNat?, n.toInt?, h.toInt? with
    | some i, some c, some n, some h => some (.tdVote i c n h)
    | _, _, _, _ => none
  | ["trevoke", i, c, n, h] =>
    match i.toNat?, c.toNat?, n.toInt?, h.toInt? with
    | some i, some c, some n, some h => some (.tdRevokeVote i c n h)
    | _, _, _, _ => none
  | _ => none

/-- a `$tdpos` op line whose height field is `+`: a new block is sealed first and the call names the new tip -/
def plusHeight (ws : List String) : Bool :=
  match ws with
  | "nominate" :: _ | "revnom" :: _ | "tvote" :: _ | "trevoke" :: _ => ws.getLast? == some "+"
  | _ => false

def step (st : Option World) (line : String) : Option World × String :=
  match words line with
  | "reset" :: pre =>
    match parsePre pre with
    | some pre => (some { pre := pre }, "ok")
    | none => (st, "bad-op")
  | ws =>
    -- `+` is sugar for the two calls `seal`, then the call at the new tip; a malformed line seals nothing
    let (st, ws) :=
      match st with
      | some w =>
        if plusHeight ws then
          let ws' := ws.dropLast ++ [toString (sealBlock w).tip]
          if (parseCall ws').isSome then (some (sealBlock w), ws') else (st, ws)
        else (st, ws)
      | none => (st, ws)
    match st, parseCall ws with
    | some w, some c =>
      match step? w c with
      | none => (some w, "reject | " ++ dump w)
      | some w' =>
        let head := match c with
          | .propose .. => s!"ok {w'.lastPid}"
          | _ => "ok"
        (some w', head ++ " | " ++ dump w')
    | _, _ => (st, "bad-op")

def run : IO Unit := loop step none

end XV.Drv.GovToken
