import XV.Model.GovToken
import XV.Drv.Util
/-! line-protocol driver of the `gov` engine (C19); op lines and answers as in `go/cmd/gov/main.go` -/
namespace XV.Drv.GovToken
open XV.GovToken XV.Drv

def parseVia : String → Option Caller
  | "P" => some .proposal
  | "T" => some .tdpos
  | "X" => some .xpos
  | "O" => some .other
  | "D" => some .other
  | _ => none

/-- outer `none` = malformed, inner `none` = invalid lock type -/
def parseType : String → Option (Option LockType)
  | "o" => some (some .ordinary)
  | "t" => some (some .tdpos)
  | "z" => some none
  | _ => none

def parsePre : List String → Option (List (Acct × Int))
  | [] => some []
  | t :: r =>
    match t.splitOn ":" with
    | [a, q] =>
      match a.toNat?, q.toInt?, parsePre r with
      | some a, some q, some rest => some ((a, q) :: rest)
      | _, _, _ => none
    | _ => none

def parseFlag : String → Option Bool
  | "0" => some false
  | "1" => some true
  | _ => none

def statusStr : Status → String
  | .voting => "V"
  | .cancelled => "C"
  | .rejected => "R"
  | .passed => "P"
  | .failed => "F"
  | .succeeded => "S"

def sortBy {α : Type} (lt : α → α → Bool) (l : List α) : List α :=
  l.mergeSort (fun a b => !lt b a)

def dump (w : World) : String :=
  let s := match w.gov.supply with
    | none => "S=-"
    | some n => s!"S={n}"
  let d := if w.gov.distributed then " D=1 |" else " D=0 |"
  let bals := (sortBy (fun (a b : Acct × Bal) => a.1 < b.1) w.gov.bal).map
    fun (a, b) => s!" {a}={b.total}/{b.ord}/{b.tdp}"
  let props := (sortBy (fun (a b : Nat × Proposal) => a.1 < b.1) w.props).map
    fun (p, x) => s!" P{p}={statusStr x.status}/{x.votes}/{x.proposer}"
  let locks := (sortBy (fun (a b : (Nat × Acct) × Int) => a.1.1 < b.1.1 || (a.1.1 == b.1.1 && a.1.2 < b.1.2)) w.locks).map
    fun ((p, a), n) => s!" L{p}.{a}={n}"
  let noms := (sortBy (fun (a b : Acct × (Acct × Int)) => a.1 < b.1) w.td.nom).map
    fun (c, (i, n)) => s!" N{c}={i}/{n}"
  let flat : List ((Acct × Acct) × Int) := w.td.votes.flatMap fun (c, vm) => vm.map fun (v, n) => ((c, v), n)
  let votes := (sortBy (fun (a b : (Acct × Acct) × Int) => a.1.1 < b.1.1 || (a.1.1 == b.1.1 && a.1.2 < b.1.2)) flat).map
    fun ((c, v), n) => s!" V{c}.{v}={n}"
  s ++ d ++ String.join bals ++ " |" ++ String.join props ++ " |" ++ String.join locks ++ s!" | T={w.tasks.length} |"
    ++ String.join noms ++ " |" ++ String.join votes ++ s!" | H={w.tip}"

def parseCall : List String → Option Call
  | ["init", a] => a.toNat?.map fun _ => .init
  | ["xfer", s, t, n] =>
    match s.toNat?, t.toNat?, n.toInt? with
    | some s, some t, some n => some (.transfer s t n)
    | _, _, _ => none
  | ["lock", v, a, n, ty] =>
    match parseVia v, a.toNat?, n.toInt?, parseType ty with
    | some c, some a, some n, some τ => some (.lock c a n τ)
    | _, _, _, _ => none
  | ["unlock", v, a, n, ty] =>
    match parseVia v, a.toNat?, n.toInt?, parseType ty with
    | some c, some a, some n, some τ => some (.unlock c a n τ)
    | _, _, _, _ => none
  | ["propose", a, pct, stop, trig, ok] =>
    match a.toNat?, pct.toInt?, stop.toInt?, trig.toInt? with
    | some a, some pct, some stop, some trig => some (.propose a pct stop trig (ok == "1"))
    | _, _, _, _ => none
  | ["vote", a, pid, n] =>
    match a.toNat?, pid.toNat?, n.toInt? with
    | some a, some pid, some n => some (.vote a pid n)
    | _, _, _ => none
  | ["thaw", a, pid] =>
    match a.toNat?, pid.toNat? with
    | some a, some pid => some (.thaw a pid)
    | _, _ => none
  | ["timer", h] => h.toInt?.map fun h => .timer h
  | ["cvr", v, pid] =>
    match parseVia v, pid.toNat? with
    | some c, some pid => some (.checkVote c pid)
    | _, _ => none
  | ["trig", v, pid] =>
    match parseVia v, pid.toNat? with
    | some c, some pid => some (.trigger c pid)
    | _, _ => none
  | ["seal"] => some .newBlock
  | ["nominate", i, c, n, auth, h] =>
    match i.toNat?, c.toNat?, n.toInt?, parseFlag auth, h.toInt? with
    | some i, some c, some n, some auth, some h => some (.nominate i c n auth h)
    | _, _, _, _, _ => none
  | ["revnom", i, c, h] =>
    match i.toNat?, c.toNat?, h.toInt? with
    | some i, some c, some h => some (.revokeNominate i c h)
    | _, _, _ => none
  | ["tvote", i, c, n, h] =>
    match i.toNat?, c.toNat?, n.toInt?, h.toInt? with
    | some i, some c, some n, some h => some (.tdVote i c n h)
    | _, _, _, _ => none
  | ["trevoke", i, c, n, h] =>
    match i.toNat?, c.toNat?, n.toInt?, h.toInt? with
    | some i, some c, some n, some h => some (.tdRevokeVote i c n h)
    | _, _, _, _ => none
  | _ => none

/-- a `$tdpos` op line whose height field is `+`: a new block is sealed first and the call names the new tip -/
def plusHeight (ws : List String) : Bool :=
  match ws with
  | "nominate" :: _ | "revnom" :: _ | "tvote" :: _ | "trevoke" :: _ => ws.getLast? == some "+"
  | _ => false

/-- driver state: a one-call-at-a-time world (cases `reset …`) or a node (cases `reset node …`) -/
inductive St
  | none
  | world (w : World)
  | node (n : Node)

/-- `conc <g> <reps> <call> ; <call> ; …`: the calls, if the line is well formed -/
def parseConc (ws : List String) : Option (List Call) :=
  match ws with
  | g :: reps :: rest =>
    match g.toNat?, reps.toNat? with
    | some g, some reps =>
      if g < 1 || g > 64 || reps < 1 || reps > 100000 then Option.none
      else
        let groups := (" ".intercalate rest).splitOn ";"
        let calls := groups.map fun grp =>
          match words grp with
          | k :: r =>
            if ["xfer", "lock", "unlock", "propose", "vote", "thaw"].contains k then parseCall (k :: r) else Option.none
          | [] => Option.none
        if calls.all (·.isSome) && !calls.isEmpty then some (calls.filterMap id) else Option.none
    | _, _ => Option.none
  | _ => Option.none

def nodeCall (ws : List String) : Option Call :=
  match ws with
  | "init" :: _ | "xfer" :: _ | "propose" :: _ | "vote" :: _ => parseCall ws
  | _ => Option.none

def okHead (c : Call) (w' : World) : String :=
  match c with
  | .propose .. => s!"ok {w'.lastPid}"
  | _ => "ok"

def stepNode (n : Node) (ws : List String) : Node × String :=
  match ws with
  | "pre" :: tag :: cw =>
    match nodeCall cw with
    | some .init | Option.none => (n, "bad-op")
    | some c =>
      let r := step? n.live c
      let h : Held := { call := c, seen := n.log.length, ok := r.isSome }
      ({ n with held := aput n.held tag h },
        match r with
        | some w' => okHead c w'
        | Option.none => "reject")
  | ["ver", tag] =>
    match aget n.held tag with
    | some h =>
      if !h.ok then (n, "none")
      else
        let good := !conflicts (footprint h.call) (n.log.drop h.seen)
        ({ n with held := aput n.held tag { h with verified := good } }, if good then "ok" else "reject")
    | Option.none => (n, "none")
  | [op, tag] =>
    if op == "sub" || op == "dotx" then
      match aget n.held tag with
      | some h =>
        if !h.ok || (op == "dotx" && !h.verified) then (n, "none | " ++ dump n.live)
        else
          let n := { n with held := aerase n.held tag }
          match n.accept h with
          | some n' => (n', "ok | " ++ dump n'.live)
          | Option.none => (n, "reject | " ++ dump n.live)
      | Option.none => (n, "none | " ++ dump n.live)
    else if op == "qbal" then
      match tag.toNat? with
      | some a =>
        (n, match n.queryBalance a with
          | some t => toString t
          | Option.none => "none")
      | Option.none => (n, "bad-op")
    else
      match nodeCall ws with
      | some c =>
        match n.accept { call := c, seen := n.log.length, ok := true } with
        | some n' => (n', okHead c n'.live ++ " | " ++ dump n'.live)
        | Option.none => (n, "reject | " ++ dump n.live)
      | Option.none => (n, "bad-op")
  | ["pack"] =>
    let n' := n.pack
    (n', "ok | " ++ dump n'.live)
  | _ =>
    match nodeCall ws with
    | some c =>
      match n.accept { call := c, seen := n.log.length, ok := true } with
      | some n' => (n', okHead c n'.live ++ " | " ++ dump n'.live)
      | Option.none => (n, "reject | " ++ dump n.live)
    | Option.none => (n, "bad-op")

def stepWorld (w : World) (ws : List String) : World × String :=
  match ws with
  | "conc" :: rest =>
    match parseConc rest with
    | some calls =>
      let vs := calls.map fun c => if (step? w c).isSome then "ok" else "reject"
      (w, " ".intercalate vs ++ " | " ++ dump w)
    | Option.none => (w, "bad-op")
  | _ =>
    -- `+` is sugar for the two calls `seal`, then the call at the new tip; a malformed line seals nothing
    let (w, ws) :=
      if plusHeight ws then
        let ws' := ws.dropLast ++ [toString (sealBlock w).tip]
        if (parseCall ws').isSome then (sealBlock w, ws') else (w, ws)
      else (w, ws)
    match parseCall ws with
    | some c =>
      match step? w c with
      | Option.none => (w, "reject | " ++ dump w)
      | some w' => (w', okHead c w' ++ " | " ++ dump w')
    | Option.none => (w, "bad-op")

/-- quotas of a node's genesis: positive, every account once -/
def nodePreOk (pre : List (Acct × Int)) : Bool :=
  pre.all (fun p => p.2 > 0) && (pre.map (·.1)).eraseDups.length == pre.length

def step (st : St) (line : String) : St × String :=
  match words line with
  | "reset" :: "node" :: pre =>
    match parsePre pre with
    | some pre =>
      if nodePreOk pre then (.node { live := { pre := pre }, conf := { pre := pre } }, "ok") else (st, "bad-op")
    | Option.none => (st, "bad-op")
  | "reset" :: pre =>
    match parsePre pre with
    | some pre => (.world { pre := pre }, "ok")
    | Option.none => (st, "bad-op")
  | ws =>
    match st with
    | .none => (st, "bad-op")
    | .world w => let (w', a) := stepWorld w ws; (.world w', a)
    | .node n => let (n', a) := stepNode n ws; (.node n', a)

def run : IO Unit := loop step St.none

end XV.Drv.GovToken
