import XV.Model.Contract
import XV.Drv.Util
/-! line-protocol driver of the contract pipeline model; op lines are documented in go/cmd/contract/main.go -/
namespace XV.Drv.Contract
open XV.Sandbox XV.Contract XV.Drv

/-- the statements of the test contracts `$xvc` / `$xvd` (go/cmd/contract/xvc.go), already flattened:
a nested call is `subuse (what the callee burns)` followed by the callee's statements on its bucket -/
inductive Stmt where
  | get (b k : Nat)
  | put (b k v : Nat)
  | del (b k : Nat)
  | scan (b lo hi n : Nat)
  | copy (b s d : Nat)
  | cnt (b lo hi n d : Nat)
  | xfer (to amt : Nat)
  | ev (e : Nat)
  | burn (n : Nat)
  | subuse (n : Nat)
  | fail
  | err
deriving Repr, DecidableEq

/-- the program of a statement list as a function of the results so far -/
def nextAct : List Stmt → List Res → Option Act
  | [], _ => none
  | st :: rest, res =>
    match st with
    | .get b k => match res with | [] => some (.op (.get b k)) | _ :: r => nextAct rest r
    | .put b k v => match res with | [] => some (.op (.put b k v)) | _ :: r => nextAct rest r
    | .del b k => match res with | [] => some (.op (.del b k)) | _ :: r => nextAct rest r
    | .scan b lo hi n =>
      match res with
      | [] => some (.op (.sel b lo (some hi) n))
      | .items none :: _ => some .err
      | _ :: r => nextAct rest r
    | .copy b s d =>
      match res with
      | [] => some (.op (.get b s))
      | [.got (.val v)] => some (.op (.put b d v))
      | [.got .hasDel] => some (.op (.put b d 1))
      | [_] => some (.op (.del b d))
      | _ :: _ :: r => nextAct rest r
    | .cnt b lo hi n d =>
      match res with
      | [] => some (.op (.sel b lo (some hi) n))
      | .items none :: _ => some .err
      | [.items (some l)] => some (.op (.put b d (2 + l.length)))
      | [_] => some .err
      | _ :: _ :: r => nextAct rest r
    | .xfer to amt => match res with | [] => some (.transfer to amt) | _ :: r => nextAct rest r
    | .ev e => match res with | [] => some (.event e) | _ :: r => nextAct rest r
    | .burn n => match res with | [] => some (.burn n) | _ :: r => nextAct rest r
    | .subuse n => match res with | [] => some (.subuse n) | _ :: r => nextAct rest r
    | .fail => some .fail
    | .err => some .err

def itemsStr (l : List (Key × Nat)) : String :=
  "[" ++ ",".intercalate (l.map (fun (k, v) => s!"{k}={v}")) ++ "]"

def gotStr : GetRes → String
  | .val v => s!"{v}"
  | .notFound => "-"
  | .hasDel => "x"

/-- what the observing statements print into the response body -/
def bodyOf : List Stmt → List Res → List String
  | [], _ => []
  | st :: rest, res =>
    match st, res with
    | .get _ _, .got g :: r => gotStr g :: bodyOf rest r
    | .get _ _, _ :: r => "-" :: bodyOf rest r
    | .copy _ _ _, .got g :: _ :: r => gotStr g :: bodyOf rest r
    | .copy _ _ _, .got g :: [] => [gotStr g]
    | .copy _ _ _, _ :: _ :: r => "-" :: bodyOf rest r
    | .copy _ _ _, [_] => ["-"]
    | .scan _ _ _ _, .items (some l) :: r => itemsStr l :: bodyOf rest r
    | .cnt _ _ _ _ _, .items (some l) :: _ :: r => itemsStr l :: bodyOf rest r
    | .cnt _ _ _ _ _, .items (some l) :: [] => [itemsStr l]
    | .fail, _ => []
    | .err, _ => []
    | _, [] => []
    | _, _ :: r => bodyOf rest r

def keyOf (s : String) : Option Nat :=
  match s.toList with
  | ['k', c] => if c.isDigit then some (c.toNat - '0'.toNat) else if c == ':' then some 10 else none
  | _ => none

def parseStep (b : Nat) (w : List String) : Option (List Stmt) :=
  match w with
  | ["get", k] => (keyOf k).map (fun k => [.get b k])
  | ["put", k, v] => do let k ← keyOf k; let v ← v.toNat?; pure [.put b k v]
  | ["del", k] => (keyOf k).map (fun k => [.del b k])
  | ["scan", lo, hi, n] => do let lo ← keyOf lo; let hi ← keyOf hi; let n ← n.toNat?; pure [.scan b lo hi n]
  | ["copy", s, d] => do let s ← keyOf s; let d ← keyOf d; pure [.copy b s d]
  | ["cnt", lo, hi, n, d] => do let lo ← keyOf lo; let hi ← keyOf hi; let n ← n.toNat?; let d ← keyOf d; pure [.cnt b lo hi n d]
  | ["xfer", t, a] => do let t ← t.toNat?; let a ← a.toNat?; pure [.xfer t a]
  | ["ev", e] => e.toNat?.map (fun e => [.ev (100 * b + e)])   -- an event names the contract that emitted it
  | ["burn", n] => n.toNat?.map (fun n => [.burn n])
  | ["fail"] => some [.fail]
  | ["err"] => some [.err]
  | _ => none

/-- statements of a callee: its own `burn`s are not the caller's use (they are summed into `subuse`);
a further `call` is refused by the bridge (recursive call) -/
def parseSub (text : String) : Option (List Stmt × Nat) := do
  let steps := (text.splitOn ",").map words |>.filter (· ≠ [])
  let mut out : List Stmt := []
  let mut burnt := 0
  let mut stopped := false
  for w in steps do
    if !stopped then
      match w with
      | ["burn", n] =>
        let n ← n.toNat?
        burnt := burnt + n
      | "call" :: _ => out := out ++ [.err]; stopped := true
      | _ =>
        let s ← parseStep 2 w
        out := out ++ s
        if s == [.fail] || s == [.err] then stopped := true
  pure (out, burnt)

/-- `top` = the contract the request names: 1 = `$xvc` (may call `$xvd`), 2 = `$xvd` (its call is recursive: error) -/
def parseProg (top : Nat) (text : String) : Option (List Stmt) := do
  let steps := (text.splitOn ";").map (fun s => s.trimAscii.toString) |>.filter (· ≠ "")
  let mut out : List Stmt := []
  for s in steps do
    let w := words s
    match w with
    | "call" :: _ =>
      if top == 2 then out := out ++ [.err]
      else
        let (sub, burnt) ← parseSub ((s.drop 4).toString)
        out := out ++ [.subuse burnt] ++ sub
    | _ =>
      let st ← parseStep top w
      out := out ++ st
  pure out

def bks : List Nat := [1, 2]
def fuel : Nat := 200

structure Pending where
  text : String
  stmts : List Stmt
  pre : Option Pre
  tx : Option Tx

structure DState where
  price : Nat := 0
  db : DB := DB.empty
  slots : List (String × Pending) := []

def verStr (v : Nat) : String :=
  if v == 0 then "-" else s!"{(v - 1) / 1024}.{(v - 1) % 1024}"

def preLine (stmts : List Stmt) (p : Pre) : String :=
  let oc := match p.outcome with | .ok => "ok" | .failed => "failed" | .error => "error"
  let body := "|".intercalate (bodyOf stmts p.res)
  let r := p.kin.map (fun (b, k, v) => s!" {b}:{k}@{verStr v}")
  let w := p.kout.map (fun (b, k, v) => s!" {b}:{k}={v}")
  let x := p.cx.map (fun (t, a) => s!" {t}:{a}")
  let e := p.ev.map (fun e => s!" {e % 100}")
  s!"{oc} B {body} R{String.join r} W{String.join w} X{String.join x} E{String.join e} U {p.used}"

def getSlot (d : DState) (s : String) : Option Pending := (d.slots.find? (·.1 == s)).map (·.2)
def setSlot (d : DState) (s : String) (p : Pending) : DState :=
  { d with slots := (s, p) :: d.slots.filter (·.1 != s) }

def parseBK (s : String) : Option (Nat × Nat) :=
  match (s.splitOn ":").mapM (·.toNat?) with
  | some [b, k] => if (b == 1 || b == 2) && k < 10 then some (b, k) else none
  | _ => none

def hasKey (l : List (Nat × Nat × Nat)) (b k : Nat) : Bool := l.any (fun e => e.1 == b && e.2.1 == k)

def swapEnds : List WEntry → List WEntry
  | a :: rest =>
    match rest.reverse with
    | z :: mid => z :: mid.reverse ++ [a]
    | [] => [a]
  | [] => []

/-- one mutation of the abstract transaction; `none` = does not apply -/
def mutate (d : DState) (p : Pending) (pre : Pre) (t : Tx) (cls : String) (args : List String) (rest : String) : Option Tx :=
  match cls, args with
  | "rver", [bk, how] => do
    let (b, k) ← parseBK bk
    let e ← t.kin.find? (fun e => e.1 == b && e.2.1 == k)
    let v := e.2.2
    let nv ← (match how with
      | "nil" => if v == 0 then none else some 0
      | "bump" => if v == 0 then none else some (v + 1)
      | "root" => if v != 0 then none else some (mkVer 9999 0)
      | _ => none)
    pure { t with kin := t.kin.map (fun e => if e.1 == b && e.2.1 == k then (b, k, nv) else e) }
  | "rdrop", [bk] => do
    let (b, k) ← parseBK bk
    if !hasKey t.kin b k then none
    pure { t with kin := t.kin.filter (fun e => !(e.1 == b && e.2.1 == k)) }
  | "radd", [bk] => do
    let (b, k) ← parseBK bk
    if hasKey t.kin b k then none
    pure { t with kin := t.kin ++ [(b, k, (d.db.cur b k).ver)] }
  | "wval", [bk, v] => do
    let (b, k) ← parseBK bk
    let v ← v.toNat?
    let e ← t.kout.find? (fun e => e.1 == b && e.2.1 == k)
    if e.2.2 == v then none
    pure { t with kout := t.kout.map (fun e => if e.1 == b && e.2.1 == k then (b, k, v) else e) }
  | "wdrop", [bk] => do
    let (b, k) ← parseBK bk
    if !hasKey t.kout b k then none
    pure { t with kout := t.kout.filter (fun e => !(e.1 == b && e.2.1 == k)) }
  | "wadd", [bk, v] => do
    let (b, k) ← parseBK bk
    let v ← v.toNat?
    if hasKey t.kout b k then none
    pure { t with kout := t.kout ++ [(b, k, v)] }
  | "wperm", [] => if t.kout.length < 2 then none else some { t with kout := swapEnds t.kout }
  | "args", _ => do
    if rest == p.text then none
    let st ← parseProg 1 rest
    pure { t with prog := nextAct st }
  | "method", [] => some { t with prog := fun _ => some .err }
  | "contract", [] => do
    let st ← parseProg 2 p.text
    pure { t with prog := nextAct st }
  | "limit", [] => if pre.used == 0 then none else some { t with limit := pre.used - 1 }
  | "fee", [] => if d.price * pre.used == 0 then none else some { t with fee := t.fee - 1 }
  | "nofee", [] => if d.price * pre.used == 0 then none else some { t with fee := 0 }
  | "xroute", [] =>
    match t.outs with
    | (_, a) :: r => some { t with outs := (0, a) :: r }
    | [] => none
  | "xamt", [] =>
    if t.outs.any (fun o => o.2 > 1) then
      let rec go : List (Nat × Nat) → List (Nat × Nat)
        | [] => []
        | (to, a) :: r => if a > 1 then (to, a - 1) :: r else (to, a) :: go r
      some { t with outs := go t.outs ++ [(0, 1)] }
    else none
  | "xdecl", [] => if t.cx == [] then none else some { t with cx := [] }
  | "evt", [] => if t.ev == [] then none else some { t with ev := [999] }
  | "evdrop", [] => if t.ev == [] then none else some { t with ev := [] }
  -- no requests, no reads, only the transient entries of the write set: re-executing nothing produces nothing
  | "noreq", [] => if t.cx == [] && t.ev == [] then none
                   else some { t with prog := fun _ => none, limit := 0, kin := [], kout := [] }
  | "same", [] => some t
  | _, _ => none

def afterWords (line : String) (n : Nat) : String :=
  -- the rest of the line after the first n words (single spaces between them)
  " ".intercalate ((line.splitOn " ").filter (· ≠ "") |>.drop n)

def step (d : DState) (line : String) : DState × String :=
  match words line with
  | ["reset", f] =>
    if f == "fee=1" then ({ price := 1 }, "ok")
    else if f == "fee=0" then ({ price := 0 }, "ok")
    else (d, "bad-op")
  | "pre" :: slot :: _ :: _ =>
    let text := afterWords line 2
    match parseProg 1 text with
    | none => (d, "bad-op")
    | some st =>
      let p := nextAct st
      match preexec bks fuel d.db p with
      | none => (setSlot d slot ⟨text, st, none, none⟩, "error")
      | some pre => (setSlot d slot ⟨text, st, some pre, some (assemble d.price 0 p pre)⟩, preLine st pre)
  | ["commit", slot, id] =>
    match getSlot d slot, id.toNat? with
    | some p, some id =>
      match p.tx with
      | none => (d, "n/a")
      | some t =>
        let (db', ok) := submit bks d.price fuel d.db { t with id := id }
        ({ d with db := db' }, if ok then "accept" else "reject")
    | _, _ => (d, "bad-op")
  | "mut" :: slot :: cls :: args =>
    match getSlot d slot with
    | none => (d, "bad-op")
    | some p =>
      match p.pre, p.tx with
      | some pre, some t =>
        match mutate d p pre t cls args (afterWords line 3) with
        | none => (d, "n/a")
        | some t' =>
          -- which stage refuses: `State.VerifyTx` (reads current, gas, declared transfers real, re-execution) or only
          -- the xmodel admission of `State.DoTx` (written keys are declared reads)
          let v1 := readsCurrent d.db t'.kin && decide (d.price * t'.limit ≤ t'.fee) && subMulti t'.cx t'.outs &&
            reexecOK bks fuel d.db t'
          (d, if !v1 then "reject-v" else if !writesRead t' then "reject-d" else "accept")
      | _, _ => (d, "n/a")
  | ["mine"] => (d, "ok")
  | ["replica"] => (d, "same")
  | _ => (d, "bad-op")

def run : IO Unit := loop step {}

end XV.Drv.Contract
