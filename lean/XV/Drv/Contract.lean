import XV.Model.Contract
import XV.Drv.Util
/-! line-protocol driver of the contract pipeline model; op lines are documented in go/cmd/contract/main.go -/
namespace XV.Drv.Contract
open XV.Sandbox XV.Contract XV.Drv

/-- the statements of the test contracts `$xvc` / `$xvd` (go/cmd/contract/xvc.go), already flattened:
a nested call is `subuse (what the callee burns)` followed by the callee's statements on its bucket -/
inductive Stmt where
  | get (b k : Nat)
  | put (b k v : Nat)
  | del (b k : Nat)
  | scan (b lo hi n : Nat)
  | copy (b s d : Nat)
  | cnt (b lo hi n d : Nat)
  | xfer (to amt : Nat)
  | ev (e : Nat)
  | burn (n : Nat)
  | subuse (n : Nat)
  | fail
  | err
deriving Repr, DecidableEq

/-- the account the test contracts pay from (user 3 of the harness, "the bank") -/
def payer : Nat := 3

/-- the program of a statement list as a function of the results so far -/
def nextAct : List Stmt → List Res → Option Act
  | [], _ => none
  | st :: rest, res =>
    match st with
    | .get b k => match res with | [] => some (.op (.get b k)) | _ :: r => nextAct rest r
    | .put b k v => match res with | [] => some (.op (.put b k v)) | _ :: r => nextAct rest r
    | .del b k => match res with | [] => some (.op (.del b k)) | _ :: r => nextAct rest r
    | .scan b lo hi n =>
      match res with
      | [] => some (.op (.sel b lo (some hi) n))
      | .items none :: _ => some .err
      | _ :: r => nextAct rest r
    | .copy b s d =>
      match res with
      | [] => some (.op (.get b s))
      | [.got (.val v)] => some (.op (.put b d v))
      | [.got .hasDel] => some (.op (.put b d 1))
      | [_] => some (.op (.del b d))
      | _ :: _ :: r => nextAct rest r
    | .cnt b lo hi n d =>
      match res with
      | [] => some (.op (.sel b lo (some hi) n))
      | .items none :: _ => some .err
      | [.items (some l)] => some (.op (.put b d (2 + l.length)))
      | [_] => some .err
      | _ :: _ :: r => nextAct rest r
    | .xfer to amt => match res with | [] => some (.transfer payer to amt) | _ :: r => nextAct rest r
    | .ev e => match res with | [] => some (.event e) | _ :: r => nextAct rest r
    | .burn n => match res with | [] => some (.burn n) | _ :: r => nextAct rest r
    | .subuse n => match res with | [] => some (.subuse n) | _ :: r => nextAct rest r
    | .fail => some .fail
    | .err => some .err

def itemsStr (l : List (Key × Nat)) : String :=
  "[" ++ ",".intercalate (l.map (fun (k, v) => s!"{k}={v}")) ++ "]"

def gotStr : GetRes → String
  | .val v => s!"{v}"
  | .notFound => "-"
  | .hasDel => "x"

/-- what the observing statements print into the response body -/
def bodyOf : List Stmt → List Res → List String
  | [], _ => []
  | st :: rest, res =>
    match st, res with
    | .get _ _, .got g :: r => gotStr g :: bodyOf rest r
    | .get _ _, _ :: r => "-" :: bodyOf rest r
    | .copy _ _ _, .got g :: _ :: r => gotStr g :: bodyOf rest r
    | .copy _ _ _, .got g :: [] => [gotStr g]
    | .copy _ _ _, _ :: _ :: r => "-" :: bodyOf rest r
    | .copy _ _ _, [_] => ["-"]
    | .scan _ _ _ _, .items (some l) :: r => itemsStr l :: bodyOf rest r
    | .cnt _ _ _ _ _, .items (some l) :: _ :: r => itemsStr l :: bodyOf rest r
    | .cnt _ _ _ _ _, .items (some l) :: [] => [itemsStr l]
    | .fail, _ => []
    | .err, _ => []
    | _, [] => []
    | _, _ :: r => bodyOf rest r

def keyOf (s : String) : Option Nat :=
  match s.toList with
  | ['k', c] => if c.isDigit then some (c.toNat - '0'.toNat) else if c == ':' then some 10 else none
  | _ => none

def parseStep (b : Nat) (w : List String) : Option (List Stmt) :=
  match w with
  | ["get", k] => (keyOf k).map (fun k => [.get b k])
  | ["put", k, v] => do let k ← keyOf k; let v ← v.toNat?; pure [.put b k v]
  | ["del", k] => (keyOf k).map (fun k => [.del b k])
  | ["scan", lo, hi, n] => do let lo ← keyOf lo; let hi ← keyOf hi; let n ← n.toNat?; pure [.scan b lo hi n]
  | ["copy", s, d] => do let s ← keyOf s; let d ← keyOf d; pure [.copy b s d]
  | ["cnt", lo, hi, n, d] => do let lo ← keyOf lo; let hi ← keyOf hi; let n ← n.toNat?; let d ← keyOf d; pure [.cnt b lo hi n d]
  | ["xfer", t, a] => do let t ← t.toNat?; let a ← a.toNat?; pure [.xfer t a]
  | ["ev", e] => e.toNat?.map (fun e => [.ev (100 * b + e)])   -- an event names the contract that emitted it
  | ["burn", n] => n.toNat?.map (fun n => [.burn n])
  | ["fail"] => some [.fail]
  | ["err"] => some [.err]
  | _ => none

/-- statements of a callee: its own `burn`s are not the caller's use (they are summed into `subuse`);
a further `call` is refused by the bridge (recursive call) -/
def parseSub (text : String) : Option (List Stmt × Nat) := do
  let steps := (text.splitOn ",").map words |>.filter (· ≠ [])
  let mut out : List Stmt := []
  let mut burnt := 0
  let mut stopped := false
  for w in steps do
    if !stopped then
      match w with
      | ["burn", n] =>
        let n ← n.toNat?
        burnt := burnt + n
      | "call" :: _ => out := out ++ [.err]; stopped := true
      | _ =>
        let s ← parseStep 2 w
        out := out ++ s
        if s == [.fail] || s == [.err] then stopped := true
  pure (out, burnt)

/-- `top` = the contract the request names: 1 = `$xvc` (may call `$xvd`), 2 = `$xvd` (its call is recursive: error) -/
def parseProg (top : Nat) (text : String) : Option (List Stmt) := do
  let steps := (text.splitOn ";").map (fun s => s.trimAscii.toString) |>.filter (· ≠ "")
  let mut out : List Stmt := []
  for s in steps do
    let w := words s
    match w with
    | "call" :: _ =>
      if top == 2 then out := out ++ [.err]
      else
        let (sub, burnt) ← parseSub ((s.drop 4).toString)
        out := out ++ [.subuse burnt] ++ sub
    | _ =>
      let st ← parseStep top w
      out := out ++ st
  pure out

def bks : List Nat := [1, 2]
def fuel : Nat := 200

structure Pending where
  text : String
  stmts : List Stmt
  pre : Option Pre
  tx : Option Tx

structure DState where
  price : Nat := 0
  db : DB := DB.empty
  slots : List (String × Pending) := []
  bank : List TxIn := []      -- the unspent, unlocked outputs of the paying account (state of the first-run reader)
  victim : List TxIn := []    -- unspent, unlocked outputs of a bystander (user 4), each worth what one of the bank's is

def verStr (v : Nat) : String :=
  if v == 0 then "-" else s!"{(v - 1) / 1024}.{(v - 1) % 1024}"

def preLine (stmts : List Stmt) (p : Pre) : String :=
  let oc := match p.outcome with | .ok => "ok" | .failed => "failed" | .error => "error"
  let body := "|".intercalate (bodyOf stmts p.res)
  let r := p.kin.map (fun (b, k, v) => s!" {b}:{k}@{verStr v}")
  let w := p.kout.map (fun (b, k, v) => s!" {b}:{k}={v}")
  let i := p.cin.map (fun u => s!" {u.amt}")
  let x := p.cx.map (fun o => s!" {o.to}:{o.amt}")
  let e := p.ev.map (fun e => s!" {e % 100}")
  s!"{oc} B {body} R{String.join r} W{String.join w} I{String.join i} X{String.join x} E{String.join e} U {p.used}"

def getSlot (d : DState) (s : String) : Option Pending := (d.slots.find? (·.1 == s)).map (·.2)
def setSlot (d : DState) (s : String) (p : Pending) : DState :=
  { d with slots := (s, p) :: d.slots.filter (·.1 != s) }

def parseBK (s : String) : Option (Nat × Nat) :=
  match (s.splitOn ":").mapM (·.toNat?) with
  | some [b, k] => if (b == 1 || b == 2) && k < 10 then some (b, k) else none
  | _ => none

def hasKey (l : List (Nat × Nat × Nat)) (b k : Nat) : Bool := l.any (fun e => e.1 == b && e.2.1 == k)

def swapEnds : List WEntry → List WEntry
  | a :: rest =>
    match rest.reverse with
    | z :: mid => z :: mid.reverse ++ [a]
    | [] => [a]
  | [] => []

/-- optional index argument of a token mutation (`none` = malformed) -/
def idxArg (args : List String) (dflt : Nat) : Option Nat :=
  match args with
  | [] => some dflt
  | [j] => j.toNat?
  | _ => none

/-- the receiver a re-routed output goes to: the initiator (user 0), or user 1 if it is the initiator's already -/
def otherTo (to : Nat) : Nat := if to == 0 then 1 else 0

/-! ### multiset mutations of a list that keep its length (or add one copy): positions are 0-based -/

/-- entry `i` replaced by a copy of entry `j` -/
def dupAt (l : List α) (i j : Nat) : Option (List α) :=
  match l[j]? with
  | some x => if i < l.length && i != j then some (l.set i x) else none
  | none => none

/-- entries `i` and `j` change places -/
def swapAt (l : List α) (i j : Nat) : Option (List α) :=
  match l[i]?, l[j]? with
  | some x, some y => if i != j then some ((l.set i y).set j x) else none
  | _, _ => none

/-- entry `i` dropped, a copy of entry `j` appended -/
def dropDupAt (l : List α) (i j : Nat) : Option (List α) :=
  match l[j]? with
  | some x => if i < l.length && i != j then some (l.eraseIdx i ++ [x]) else none
  | none => none

/-- a copy of entry `j` appended -/
def copyAt (l : List α) (j : Nat) : Option (List α) := (l[j]?).map (fun x => l ++ [x])

/-- the four edits by name (`dup i j`, `swap i j`, `dd i j`, `copy j`) -/
def listEdit (l : List α) (how : String) (args : List String) : Option (List α) :=
  match how, args.mapM (·.toNat?) with
  | "dup", some [i, j] => dupAt l i j
  | "swap", some [i, j] => swapAt l i j
  | "dd", some [i, j] => dropDupAt l i j
  | "copy", some [j] => copyAt l j
  | _, _ => none

/-- one mutation of the abstract transaction; `none` = does not apply.  `iadd` takes an output out of the
paying account's unspent ones, so the driver state is returned too. -/
def mutate (d : DState) (p : Pending) (pre : Pre) (t : Tx) (cls : String) (args : List String) (rest : String) :
    Option (Tx × DState) :=
  let pure' (t : Tx) : Option (Tx × DState) := some (t, d)
  match cls, args with
  | "rver", [bk, how] => do
    let (b, k) ← parseBK bk
    let e ← t.kin.find? (fun e => e.1 == b && e.2.1 == k)
    let v := e.2.2
    let nv ← (match how with
      | "nil" => if v == 0 then none else some 0
      | "bump" => if v == 0 then none else some (v + 1)
      | "root" => if v != 0 then none else some (mkVer 9999 0)
      | _ => none)
    pure' { t with kin := t.kin.map (fun e => if e.1 == b && e.2.1 == k then (b, k, nv) else e) }
  | "rdrop", [bk] => do
    let (b, k) ← parseBK bk
    if !hasKey t.kin b k then none
    pure' { t with kin := t.kin.filter (fun e => !(e.1 == b && e.2.1 == k)) }
  | "radd", [bk] => do
    let (b, k) ← parseBK bk
    if hasKey t.kin b k then none
    pure' { t with kin := t.kin ++ [(b, k, (d.db.cur b k).ver)] }
  | "wval", [bk, v] => do
    let (b, k) ← parseBK bk
    let v ← v.toNat?
    let e ← t.kout.find? (fun e => e.1 == b && e.2.1 == k)
    if e.2.2 == v then none
    pure' { t with kout := t.kout.map (fun e => if e.1 == b && e.2.1 == k then (b, k, v) else e) }
  | "wdrop", [bk] => do
    let (b, k) ← parseBK bk
    if !hasKey t.kout b k then none
    pure' { t with kout := t.kout.filter (fun e => !(e.1 == b && e.2.1 == k)) }
  | "wadd", [bk, v] => do
    let (b, k) ← parseBK bk
    let v ← v.toNat?
    if hasKey t.kout b k then none
    pure' { t with kout := t.kout ++ [(b, k, v)] }
  | "wperm", [] => if t.kout.length < 2 then none else pure' { t with kout := swapEnds t.kout }
  | "args", _ => do
    if rest == p.text then none
    let st ← parseProg 1 rest
    pure' { t with prog := nextAct st }
  | "method", [] => pure' { t with prog := fun _ => some .err }
  | "contract", [] => do
    let st ← parseProg 2 p.text
    pure' { t with prog := nextAct st }
  | "limit", [] => if pre.used == 0 then none else pure' { t with limit := pre.used - 1 }
  | "fee", [] => if d.price * pre.used == 0 then none else pure' { t with fee := t.fee - 1 }
  | "nofee", [] => if d.price * pre.used == 0 then none else pure' { t with fee := 0 }
  -- the real output number j of the contract goes to another address, same amount
  | "xroute", _ => do
    let j ← idxArg args 0
    if j ≥ pre.cx.length then none
    let o ← t.outs[j]?
    pure' { t with outs := t.outs.set j ⟨otherTo o.to, o.amt⟩ }
  -- the real output number j of the contract (default: the first one worth more than 1) is lowered by 1,
  -- the difference goes to the initiator
  | "xamt", _ => do
    let j ← idxArg args ((pre.cx.findIdx? (fun o => o.amt > 1)).getD pre.cx.length)
    if j ≥ pre.cx.length then none
    let o ← t.outs[j]?
    if o.amt ≤ 1 then none
    pure' { t with outs := t.outs.set j ⟨o.to, o.amt - 1⟩ ++ [⟨0, 1⟩] }
  | "xdecl", [] => if t.cx == [] then none else pure' { t with cx := [] }
  -- output number j goes to another address in the declaration and in the real outputs alike
  | "xboth", _ => do
    let j ← idxArg args 0
    if j ≥ pre.cx.length then none
    let o ← t.cx[j]?
    pure' { t with cx := t.cx.set j ⟨otherTo o.to, o.amt⟩, outs := t.outs.set j ⟨otherTo o.to, o.amt⟩ }
  -- the first two declared contract outputs change places (declaration only)
  | "xswap", [] =>
    match t.cx with
    | a :: b :: r => if a == b then none else pure' { t with cx := b :: a :: r }
    | _ => none
  -- declared contract input number j is dropped from the declaration
  | "idrop", _ => do
    let j ← idxArg args 0
    if j ≥ t.cin.length then none
    pure' { t with cin := t.cin.eraseIdx j }
  -- the first two declared contract inputs change places
  | "iswap", [] =>
    match t.cin with
    | a :: b :: r => pure' { t with cin := b :: a :: r }
    | _ => none
  -- a further output of the paying account is declared as a contract input, spent as a real input and paid
  -- out to the initiator
  | "iadd", [] =>
    match d.bank with
    | u :: r => some ({ t with cin := t.cin ++ [u], ins := t.ins ++ [u.ref], outs := t.outs ++ [⟨0, u.amt⟩] },
                      { d with bank := r })
    | [] => none
  -- declared contract input number j and the real input spending it are replaced by an output of the same worth
  -- that belongs to a bystander
  | "isub", _ => do
    let j ← idxArg args 0
    let c ← t.cin[j]?
    match d.victim with
    | v :: r =>
      if v.amt != c.amt then none
      else some ({ t with cin := t.cin.set j v, ins := t.ins.set j v.ref }, { d with victim := r })
    | [] => none
  -- the real input that spends declared contract input number j is replaced by an output of the initiator
  | "inreal", _ => do
    let j ← idxArg args 0
    if j ≥ t.cin.length then none
    pure' { t with ins := t.ins.set j 1000000 }
  -- declared contract input number j is dropped and the real input spending it is replaced by an output of the
  -- initiator: the transaction balances, but the declared contract inputs no longer cover the transfers
  | "ishort", _ => do
    let j ← idxArg args 0
    if j ≥ t.cin.length then none
    pure' { t with cin := t.cin.eraseIdx j, ins := t.ins.eraseIdx j ++ [1000000] }
  | "evt", [] => if t.ev == [] then none else pure' { t with ev := [999] }
  | "evdrop", [] => if t.ev == [] then none else pure' { t with ev := [] }
  -- no requests, no reads, only the transient entries of the write set: re-executing nothing produces nothing
  | "noreq", [] => if t.cin == [] && t.cx == [] && t.ev == [] then none
                   else pure' { t with prog := fun _ => none, limit := 0, kin := [], kout := [] }
  -- multiset mutations of the declared read set (positions in `TxInputsExt`)
  | "rdup", _ => (listEdit t.kin "dup" args).bind (fun l => pure' { t with kin := l })
  | "rswap", _ => (listEdit t.kin "swap" args).bind (fun l => pure' { t with kin := l })
  | "rdd", _ => (listEdit t.kin "dd" args).bind (fun l => pure' { t with kin := l })
  | "rcopy", _ => (listEdit t.kin "copy" args).bind (fun l => pure' { t with kin := l })
  -- declared contract output i replaced by a copy of declared contract output j (declaration only / declaration and
  -- real outputs alike)
  | "xdup", [i, j] => do
    let i ← i.toNat?; let j ← j.toNat?
    let a ← t.cx[i]?; let b ← t.cx[j]?
    if a == b || i ≥ pre.cx.length || j ≥ pre.cx.length then none
    pure' { t with cx := t.cx.set i b }
  | "xdupb", [i, j] => do
    let i ← i.toNat?; let j ← j.toNat?
    let a ← t.cx[i]?; let b ← t.cx[j]?
    if a == b || i ≥ pre.cx.length || j ≥ pre.cx.length then none
    pure' { t with cx := t.cx.set i b, outs := t.outs.set i b }
  -- declared contract input i replaced by a copy of declared contract input j; the real input that spent it is
  -- replaced by an output of the initiator
  | "idup", [i, j] => do
    let i ← i.toNat?; let j ← j.toNat?
    let l ← dupAt t.cin i j
    pure' { t with cin := l, ins := t.ins.set i 1000000 }
  -- declared events: one replaced by a copy of another, two swapped
  | "evdup", [i, j] => do
    let i ← i.toNat?; let j ← j.toNat?
    let a ← t.ev[i]?; let b ← t.ev[j]?
    if a == b then none
    pure' { t with ev := t.ev.set i b }
  | "evswap", [i, j] => do
    let i ← i.toNat?; let j ← j.toNat?
    let a ← t.ev[i]?; let b ← t.ev[j]?
    if a == b then none
    pure' { t with ev := (t.ev.set i b).set j a }
  | "same", [] => pure' t
  | _, _ => none

/-- the mutation classes that edit the list `TxOutputsExt` itself (positions count transient entries too):
`wdup i j`, `wswap i j`, `wdd i j`, `wcopy j`; every other class edits the decoded transaction and is encoded -/
def mutateRaw (d : DState) (p : Pending) (pre : Pre) (t : Tx) (cls : String) (args : List String) (rest : String) :
    Option (RawTx × DState) :=
  let raw := t.raw
  match cls with
  | "wdup" => (listEdit raw.wext "dup" args).map (fun w => ({ raw with wext := w }, d))
  | "wswap" => (listEdit raw.wext "swap" args).map (fun w => ({ raw with wext := w }, d))
  | "wdd" => (listEdit raw.wext "dd" args).map (fun w => ({ raw with wext := w }, d))
  | "wcopy" => (listEdit raw.wext "copy" args).map (fun w => ({ raw with wext := w }, d))
  | _ => (mutate d p pre t cls args rest).map (fun (t', d') => (t'.raw, d'))

def afterWords (line : String) (n : Nat) : String :=
  -- the rest of the line after the first n words (single spaces between them)
  " ".intercalate ((line.splitOn " ").filter (· ≠ "") |>.drop n)

/-- `bank=<amount>x<count>`: the paying account owns <count> outputs worth <amount> each -/
def parseBank (s : String) : Option (List TxIn) :=
  if !s.startsWith "bank=" then none
  else
    match ((s.drop 5).toString.splitOn "x").mapM (·.toNat?) with
    | some [u, n] => if u == 0 || n > 1000 then none else some ((List.range n).map (fun i => ⟨i, payer, u⟩))
    | _ => none

def defaultBank : List TxIn := (List.range 40).map (fun i => ⟨i, payer, 1000000⟩)

/-- the bystander (user 4) owns 6 outputs, each worth what one of the paying account's is -/
def victimOf (bank : List TxIn) : List TxIn :=
  match bank with
  | u :: _ => (List.range 6).map (fun i => ⟨2000 + i, 4, u.amt⟩)
  | [] => []

def resetTo (f : String) (bank : List TxIn) : Option DState :=
  if f == "fee=1" then some { price := 1, bank := bank, victim := victimOf bank }
  else if f == "fee=0" then some { price := 0, bank := bank, victim := victimOf bank }
  else none

def step (d : DState) (line : String) : DState × String :=
  match words line with
  | ["reset", f] =>
    match resetTo f defaultBank with
    | some d' => (d', "ok")
    | none => (d, "bad-op")
  | ["reset", f, b] =>
    match parseBank b with
    | none => (d, "bad-op")
    | some bank =>
      match resetTo f bank with
      | some d' => (d', "ok")
      | none => (d, "bad-op")
  | "pre" :: slot :: _ :: _ =>
    let text := afterWords line 2
    match parseProg 1 text with
    | none => (d, "bad-op")
    | some st =>
      let p := nextAct st
      -- what the pre-execution selected stays locked, whatever became of the call
      let d' := { d with bank := preexecRd bks fuel d.db listReader d.bank p }
      match preexec bks fuel d.db listReader d.bank p with
      | none => (setSlot d' slot ⟨text, st, none, none⟩, "error")
      | some pre => (setSlot d' slot ⟨text, st, some pre, some (assemble d.price 0 p pre)⟩, preLine st pre)
  | ["commit", slot, id] =>
    match getSlot d slot, id.toNat? with
    | some p, some id =>
      match p.tx with
      | none => (d, "n/a")
      | some t =>
        let (db', ok) := submitRaw bks d.price fuel d.db ({ t with id := id } : Tx).raw
        ({ d with db := db' }, if ok then "accept" else "reject")
    | _, _ => (d, "bad-op")
  | "mut" :: slot :: cls :: args =>
    match getSlot d slot with
    | none => (d, "bad-op")
    | some p =>
      match p.pre, p.tx with
      | some pre, some t =>
        match mutateRaw d p pre t cls args (afterWords line 3) with
        | none => (d, "n/a")
        | some (t', d') =>
          -- which stage refuses: `State.VerifyTx` (reads current, gas, declared contract inputs / outputs real,
          -- re-execution, comparison of the write set lists) or only the xmodel admission of `State.DoTx`
          -- (written keys are declared reads); the conjuncts of `verifyRaw`
          let v1 := readsCurrent d.db t'.kin && decide (d.price * t'.limit ≤ t'.fee) && effective t'.view &&
            reexecRaw bks fuel d.db t'
          (d', if !v1 then "reject-v" else if !writesRead t'.view then "reject-d" else "accept")
      | _, _ => (d, "n/a")
  | ["mine"] => (d, "ok")
  | ["replica"] => (d, "same")
  | _ => (d, "bad-op")

def run : IO Unit := loop step {}

end XV.Drv.Contract
