import XV.Model.Acl
import XV.Model.AclTx
import XV.Model.AclTree
import XV.Drv.Util
/-! line-protocol driver of the `acl` engine (op format: see go/cmd/acl/main.go) -/
namespace XV.Drv.Acl
open XV.Acl XV.Drv

def parseName (t : String) : Option Name :=
  match t.toList with
  | 'k' :: ds => if ds.isEmpty then none else (String.ofList ds).toNat?.map Name.key
  | 'a' :: ds => if ds.isEmpty then none else (String.ofList ds).toNat?.map Name.acct
  | _ => none

def parseMember (s : String) : Option (Name × Int) :=
  match s.splitOn "=" with
  | [n, w] => do
    let n ← parseName n
    let w ← w.toInt?
    pure (n, w)
  | _ => none

def parseSet (s : String) : Option (List Name) :=
  if s == "0" then some [] else (s.splitOn "+").mapM parseName

/-- what a lookup yields: an error (`E<k>`, k = the error text class, immaterial here), or the stored rule -/
inductive PR where
  | err
  | rule (r : Option Rule)

/-- `|theta| + Σ |w| < 2^53`: every float64 sum the code can form over the rule is exact -/
def inExactRange (th : Int) (ms : List (Name × Int)) : Bool :=
  th.natAbs + (ms.map (fun m => m.2.natAbs)).foldl (· + ·) 0 < 2 ^ 53

def parseThr (th ms : String) : Option (Option Rule) := do
  let th ← th.toInt?
  let ms ← if ms == "" then some [] else (ms.splitOn ",").mapM parseMember
  if inExactRange th ms then pure (some (Rule.thr ms th)) else none

/-- `none` = malformed; `some none` = `N` (no ACL stored).  `T:` = weights in quarters; `Q<e>:` = in units of `2^-e` (-900 ≤ e ≤ 900).  The unit does not matter to the
exact comparison `theta ≤ Σ w`, so both give the same `Rule.thr` over integers. -/
def parseRule0 (s : String) : Option (Option Rule) :=
  if s == "N" then some none
  else if s.startsWith "T:" then
    match ((s.drop 2).toString).splitOn ":" with
    | [th, ms] => parseThr th ms
    | _ => none
  else if s.startsWith "Q" then
    match ((s.drop 1).toString).splitOn ":" with
    | [e, th, ms] =>
      match e.toInt? with
      | some ei => if toString ei == e && decide (-900 ≤ ei) && decide (ei ≤ 900) then parseThr th ms else none
      | none => none
    | _ => none
  else if s.startsWith "S:" then
    let body := (s.drop 2).toString
    if body == "" then some (some (Rule.sets []))
    else do
      let ss ← (body.splitOn ";").mapM parseSet
      pure (some (Rule.sets ss))
  else none

def parseRule (s : String) : Option PR :=
  if s == "E0" || s == "E1" || s == "E2" || s == "E3" then some .err
  else (parseRule0 s).map PR.rule

def parseEnvEntry (s : String) : Option (Name × PR) :=
  match s.splitOn "=" with
  | n :: rest@(_ :: _) => do
    let n ← parseName n
    let r ← parseRule ("=".intercalate rest)
    match n, r with
    | .acct _, _ => pure (n, r)
    | .key _, .err => pure (n, r)
    | .key _, _ => none
  | _ => none

def envOf (es : List (Name × PR)) : Env := fun n =>
  match es.find? (fun e => decide (e.1 = n)) with
  | some (_, .rule r) => r
  | _ => none

def badOf (es : List (Name × PR)) : Name → Bool := fun n =>
  match es.find? (fun e => decide (e.1 = n)) with
  | some (_, .err) => true
  | _ => false

def nodupNames : List Name → Bool
  | [] => true
  | x :: xs => !xs.contains x && nodupNames xs

/-- the rules and the names whose lookup answers an error; repeated entries are malformed -/
def parseEnv (s : String) : Option (Env × (Name → Bool)) := do
  let es ← (words s).mapM parseEnvEntry
  if nodupNames (es.map (·.1)) then pure (envOf es, badOf es) else none

def parseURI (s : String) : Option URI := (s.splitOn "/").mapM parseName

def parseURIs (s : String) : Option (List URI) := (words s).mapM parseURI

def ar (b : Bool) : String := if b then "accept" else "reject"

/-- every case is evaluated with the trie model (the one the theorems are about) and with the literal tree
model (array of nodes, FindChild, one lookup per new node, BFS list, backwards traversal); they must agree.
Without unreadable names the two functions are `identifyAccount` / `identifyAccountT` (`identifyAccountF` with
`bad = fun _ => false` is `identifyAccount` by definition). -/
def accBoth (envb : Env × (Name → Bool)) (root : Name) (us : List URI) : Option Bool :=
  let (env, bad) := envb
  let a := identifyAccountF bad env root us
  if a == Tree.identifyAccountTF bad env root us then some a else none

def methBoth (envb : Env × (Name → Bool)) (rule : PR) (us : List URI) : Option Bool :=
  let (env, bad) := envb
  let (badRule, rule) := match rule with
    | .err => (true, none)
    | .rule r => (false, r)
  let a := checkMethodPermF bad badRule env rule us
  if a == Tree.checkMethodPermTF bad badRule env rule us then some a else none

def arO : Option Bool → String
  | some b => ar b
  | none => "model-split"

/-- all multisets of size ≤ k over the alphabet, in the canonical order of the harness
(a multiset first, then its extensions by elements of non-decreasing index) -/
partial def multisets {α : Type} (k : Nat) (alphabet : List α) (cur : List α) : List (List α) :=
  if cur.length ≥ k then [cur.reverse]
  else
    let rec ext (l : List α) : List (List α) :=
      match l with
      | [] => []
      | x :: xs => multisets k (x :: xs) (x :: cur) ++ ext xs
    cur.reverse :: ext alphabet

def bits (f : List URI → Option Bool) (k : Nat) (alphabet : List URI) : String :=
  String.ofList ((multisets k alphabet []).map (fun ms =>
    match f ms with
    | some true => '1'
    | some false => '0'
    | none => 'X'))

def parseOwner (s : String) : Option (Nat × Name) :=
  match s.splitOn "=" with
  | [c, n] => do
    let c ← match c.toList with
      | 'c' :: ds => (String.ofList ds).toNat?
      | _ => none
    let n ← parseName n
    pure (c, n)
  | _ => none

def parseWrite (s : String) : Option Write :=
  if s == "MB" then some .methodBadKey
  else if s == "CN" then some (.c2a none)
  else if s == "O" then some .other
  else match s.splitOn ":" with
    | ["A", n] => (parseName n).map Write.account
    | ["C", n] => (parseName n).map (fun a => Write.c2a (some a))
    | ["M", c] => match c.toList with
      | 'c' :: ds => (String.ofList ds).toNat?.map Write.method
      | _ => none
    | _ => none


/-! ### end to end: `vtx` lines (format: go/cmd/acl/e2e.go) -/

def nameInRange : Name → Bool
  | .key n => n < 5
  | .acct n => n < 4

def ruleNames : Option Rule → List Name
  | none => []
  | some (.thr ms _) => ms.map (·.1)
  | some (.sets ss) => ss.flatten

inductive EnvE where
  | rule (r : Rule)
  | broken

def parseEnvE (s : String) : Option (Name × EnvE) :=
  match s.splitOn "=" with
  | n :: rest@(_ :: _) =>
    let v := "=".intercalate rest
    match parseName n with
    | some (.acct a) =>
      if a ≥ 4 then none
      else if v == "X" then some (.acct a, .broken)
      else match parseRule0 v with
        | some (some r) => if (ruleNames (some r)).all nameInRange then some (.acct a, .rule r) else none
        | _ => none
    | _ => none
  | _ => none

def parseContract (c : String) : Option Nat :=
  match c.toList with
  | ['c', d] => if d.isDigit && d.toNat - '0'.toNat < 4 then some (d.toNat - '0'.toNat) else none
  | _ => none

def parseOwnerE (s : String) : Option (Nat × Name) :=
  match s.splitOn "=" with
  | [c, n] => do
    let c ← parseContract c
    match parseName n with
    | some (.acct a) => if a < 4 then some (c, .acct a) else none
    | _ => none
  | _ => none

inductive Pend where
  | acct (a : Name)
  | owner (c : Nat)
  | meth
deriving DecidableEq

def parsePend (s : String) : Option Pend :=
  match s.splitOn "=" with
  | n :: rest@(_ :: _) =>
    let v := "=".intercalate rest
    let okRule : Bool := match parseRule0 v with
      | some (some r) => (ruleNames (some r)).all nameInRange
      | _ => false
    if n == "m" then (if okRule then some .meth else none)
    else match parseContract n with
      | some c => (parseOwnerE s).map (fun _ => Pend.owner c)
      | none =>
        match parseName n with
        | some (.acct a) => if a < 4 && okRule then some (.acct (.acct a)) else none
        | _ => none
  | _ => none

/-- `~<entry>`: pending here and also carried by a side-branch block the ledger stores - pending like any other;
`^<entry>`: only in the side-branch block, never admitted by this node - counts for nothing (`some none`) -/
def parsePendS (s : String) : Option (Option (Pend × Bool)) :=
  if s.startsWith "~" then (parsePend (s.drop 1).toString).map (fun p => some (p, true))
  else if s.startsWith "^" then (parsePend (s.drop 1).toString).map (fun _ => none)
  else (parsePend s).map (fun p => some (p, false))

def parseKeySig (s : String) : Option (Option Name) :=
  if s == "x" then some none
  else match parseName s with
    | some (.key k) => if k < 5 then some (some (.key k)) else none
    | _ => none

def parseAct (s : String) : Option Act :=
  if s == "K" then some .call
  else match s.splitOn ":" with
    | ["A", n] => match parseName n with
      | some (.acct a) => if a < 4 then some (.setAcl (.acct a)) else none
      | _ => none
    | ["N", n] => match parseName n with
      | some (.acct a) => if a < 4 then some (.newAcc (.acct a)) else none
      | _ => none
    | ["M", c] => (parseContract c).map Act.setMethod
    | _ => none

/-- fault target: the rule of a name, or the stored rule of a method (0 = c0.run, 1 = $acl.SetAccountAcl,
2 = $acl.NewAccount, 3 = $acl.SetMethodAcl) -/
inductive Target where
  | name (n : Name)
  | meth (k : Nat)
deriving DecidableEq

inductive FaultE where
  | none
  | read (storage : Bool) (target : Target)  -- io (storage = true) / rd: the key is unreadable
  | evict (target : Target)

def parseTarget (s : String) : Option Target :=
  if s == "m" then some (.meth 0)
  else if s == "ma" then some (.meth 1)
  else if s == "mn" then some (.meth 2)
  else if s == "mm" then some (.meth 3)
  else match parseName s with
    | some n => if nameInRange n then some (.name n) else none
    | none => none

def methKind : Act → Nat
  | .call => 0
  | .setAcl _ => 1
  | .newAcc _ => 2
  | .setMethod _ => 3

/-- what a client can pre-execute: SetAccountAcl on a stored, parsable account; NewAccount on a name not yet taken
(a NewAccount earlier in the same transaction counts) -/
def preExecutable (stored broken : Name → Bool) : List Act → List Name → Bool
  | [], _ => true
  | .setAcl a :: rest, created =>
    (stored a || created.contains a) && !broken a && preExecutable stored broken rest created
  | .newAcc a :: rest, created =>
    !(stored a || created.contains a) && preExecutable stored broken rest (a :: created)
  | _ :: rest, created => preExecutable stored broken rest created

def parseFault (s : String) : Option FaultE :=
  if s == "-" then some .none
  else match s.splitOn ":" with
    | [k, t] =>
      if k == "io" then (parseTarget t).map (FaultE.read true)
      else if k == "rd0" || k == "rd1" || k == "rd2" || k == "rd3" then (parseTarget t).map (FaultE.read false)
      else if k == "ev" then (parseTarget t).map FaultE.evict
      else none
    | _ => none

def vtx (envS mruleS ownersS pendS faultS iniS isigS usS usigS inputsS actS : String) : Option String := do
  let es ← (words envS).mapM parseEnvE
  if !nodupNames (es.map (·.1)) then none
  let mrule ← parseRule0 mruleS
  if !(ruleNames mrule).all nameInRange then none
  let owners ← (words ownersS).mapM parseOwnerE
  if !(owners.map (·.1)).Nodup then none
  let pendAll := (← (words pendS).mapM parsePendS).filterMap id
  let pend := pendAll.map (·.1)
  -- Evicting the pool records (`ev`) makes a key unreadable only through a pending writer the ledger does not hold:
  -- the reader finds the copy of a side-carried one (`~`) in the ledger, in a block that is not on the main chain,
  -- and passes over it like over any unconfirmed version.
  let pendPlain := (pendAll.filter (fun p => !p.2)).map (·.1)
  let fault ← parseFault faultS
  let ini ← parseName iniS
  if !nameInRange ini then none
  let isig ← (words isigS).mapM parseKeySig
  let us ← parseURIs usS
  if !us.flatten.all nameInRange then none
  let usigW := words usigS
  if usigW.length ≠ us.length then none
  let usig ← (us.zip usigW).mapM (fun (u, s) =>
    if s == "=" then
      match u.getLast? with
      | some (.key k) => some (some (Name.key k))
      | _ => some (some (Name.key 0))
    else parseKeySig s)
  let inputs ← (words inputsS).mapM parseName
  if !inputs.all nameInRange || inputs.length > 4 then none
  let acts ← if actS == "T" then some [] else (actS.splitOn "+").mapM parseAct
  if acts.length > 3 then none
  let env : Env := fun n => match es.find? (fun e => decide (e.1 = n)) with
    | some (_, .rule r) => some r
    | _ => none
  let broken : Name → Bool := fun n => match es.find? (fun e => decide (e.1 = n)) with
    | some (_, .broken) => true
    | _ => false
  let stored : Name → Bool := fun n => (es.any (fun e => decide (e.1 = n))) || pend.contains (.acct n)
  if !preExecutable stored broken acts [] then none
  let faultName : Option Name := match fault with
    | .read _ (.name n) => some n
    | .evict (.name n) => if pendPlain.contains (.acct n) then some n else none
    | _ => none
  let badM : Act → Bool := fun a => match fault with
    | .read _ (.meth k) => k == methKind a
    | .evict (.meth k) => k == 0 && methKind a == 0 && pendPlain.contains .meth
    | _ => false
  let ch : TxChain := {
    env := env,
    owner := fun c => (owners.find? (fun o => o.1 == c)).map (·.2),
    pendOwner := fun c => pend.contains (.owner c),
    mrule := mrule,
    bad := fun n => broken n || faultName == some n,
    badM := badM }
  let tx : Tx := { init := ini, isig := isig, auth := us, usig := usig, inputs := inputs, acts := acts }
  -- Outside access control: a STORAGE read error on a key the transaction itself declares as read makes the last stage
  -- (verifyTxRWSets, the re-execution over the declared reads) fail. Among the keys a fault can name, the access-control
  -- stages meet every such key themselves (XCAccount/<a> of SetAccountAcl / NewAccount is looked up for the write)
  -- except the rule key of c0.run when the transaction overwrites it with SetMethodAcl.
  let declaredReadBroken : Bool := match fault with
    | .read true (.meth 0) => acts.contains (.setMethod 0)
    | _ => false
  pure (ar (verifyTx ch tx && !declaredReadBroken))

def step1 (_ : Unit) (line : String) : Unit × String :=
  match line.splitOn "|" with
  | ["ida", root, env, us] =>
    match parseName root, parseEnv env, parseURIs us with
    | some root, some env, some us => ((), arO (accBoth env root us))
    | _, _, _ => ((), "bad-op")
  | ["idx", root, env, us, k] =>
    match parseName root, parseEnv env, parseURIs us, k.toNat? with
    | some root, some env, some us, some k =>
      if k > 6 then ((), "bad-op") else ((), bits (accBoth env root) k us)
    | _, _, _, _ => ((), "bad-op")
  | ["cmp", rule, env, us] =>
    match parseRule rule, parseEnv env, parseURIs us with
    | some rule, some env, some us => ((), arO (methBoth env rule us))
    | _, _, _ => ((), "bad-op")
  | ["cmx", rule, env, us, k] =>
    match parseRule rule, parseEnv env, parseURIs us, k.toNat? with
    | some rule, some env, some us, some k =>
      if k > 6 then ((), "bad-op") else ((), bits (methBoth env rule) k us)
    | _, _, _, _ => ((), "bad-op")
  | ["rw", env, owners, us, ver, ws] =>
    match parseEnv env, (words owners).mapM parseOwner, parseURIs us, (words ver).mapM parseName,
          (words ws).mapM parseWrite with
    | some (env, bad), some owners, some us, some ver, some ws =>
      let owner : Nat → Option Name := fun c => (owners.find? (fun o => o.1 == c)).map (·.2)
      -- the function the theorems are about; with lookup faults its generalisation (equal when nothing is unreadable)
      let clean := verifyRWSetPermission ⟨env, owner⟩ true us ws ver
      let g := verifyWritesG (fun a => identifyAccountF bad env a us) owner ws ver
      let noFault := !(ws.any (fun w => match w with
        | .account a => (lookupsAcc a us).any bad
        | .c2a (some a) => (lookupsAcc a us).any bad
        | .method c => match owner c with
          | some o => (lookupsAcc o us).any bad
          | none => false
        | _ => false))
      if noFault && g != clean then ((), "model-split") else ((), ar g)
    | _, _, _, _, _ => ((), "bad-op")
  | ["vtx", env, mrule, owners, pend, fault, ini, isig, us, usig, inputs, act] =>
    ((), (vtx env mrule owners pend fault ini isig us usig inputs act).getD "bad-op")
  | _ => ((), "bad-op")

/-- `conc <g> <iters> :: <ida|cmp line> :: …`: many goroutines evaluate the listed cases at the same time.  An
evaluation has no effect, so every concurrent answer must be the sequential one: the answer line is the list of the
sequential answers (the harness compares every concurrent answer with it). -/
def step (_ : Unit) (line : String) : Unit × String :=
  if line.startsWith "conc " then
    match line.splitOn " :: " with
    | hdr :: subs =>
      match words hdr with
      | ["conc", g, it] =>
        if g.toNat?.isNone || it.toNat?.isNone || subs.isEmpty then ((), "bad-op")
        else if subs.any (fun l => !(l.startsWith "ida|" || l.startsWith "cmp|")) then ((), "bad-op")
        else ((), " ".intercalate (subs.map (fun l => (step1 () l).2)))
      | _ => ((), "bad-op")
    | [] => ((), "bad-op")
  else step1 () line

def run : IO Unit := loop step ()

end XV.Drv.Acl
