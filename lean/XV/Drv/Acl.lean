import XV.Model.Acl
import XV.Model.AclTree
import XV.Drv.Util
/-! line-protocol driver of the `acl` engine (op format: see go/cmd/acl/main.go) -/
namespace XV.Drv.Acl
open XV.Acl XV.Drv

def parseName (t : String) : Option Name :=
  match t.toList with
  | 'k' :: ds => if ds.isEmpty then none else (String.ofList ds).toNat?.map Name.key
  | 'a' :: ds => if ds.isEmpty then none else (String.ofList ds).toNat?.map Name.acct
  | _ => none

def parseMember (s : String) : Option (Name × Int) :=
  match s.splitOn "=" with
  | [n, w] => do
    let n ← parseName n
    let w ← w.toInt?
    pure (n, w)
  | _ => none

def parseSet (s : String) : Option (List Name) :=
  if s == "0" then some [] else (s.splitOn "+").mapM parseName

/-- `none` = malformed; `some none` = `N` (no ACL stored) -/
def parseRule (s : String) : Option (Option Rule) :=
  if s == "N" then some none
  else if s.startsWith "T:" then
    match ((s.drop 2).toString).splitOn ":" with
    | [th, ms] => do
      let th ← th.toInt?
      let ms ← if ms == "" then some [] else (ms.splitOn ",").mapM parseMember
      pure (some (Rule.thr ms th))
    | _ => none
  else if s.startsWith "S:" then
    let body := (s.drop 2).toString
    if body == "" then some (some (Rule.sets []))
    else do
      let ss ← (body.splitOn ";").mapM parseSet
      pure (some (Rule.sets ss))
  else none

def parseEnvEntry (s : String) : Option (Name × Option Rule) :=
  match s.splitOn "=" with
  | n :: rest@(_ :: _) => do
    let n ← parseName n
    let r ← parseRule ("=".intercalate rest)
    match n with
    | .acct _ => pure (n, r)
    | .key _ => none
  | _ => none

def envOf (es : List (Name × Option Rule)) : Env := fun n =>
  match es.find? (fun e => decide (e.1 = n)) with
  | some e => e.2
  | none => none

def parseEnv (s : String) : Option Env := do
  let es ← (words s).mapM parseEnvEntry
  pure (envOf es)

def parseURI (s : String) : Option URI := (s.splitOn "/").mapM parseName

def parseURIs (s : String) : Option (List URI) := (words s).mapM parseURI

def ar (b : Bool) : String := if b then "accept" else "reject"

/-- every case is evaluated with the trie model (the one the theorems are about) and with the literal tree
model (array of nodes, FindChild, BFS list, backwards traversal); they must agree -/
def accBoth (env : Env) (root : Name) (us : List URI) : Option Bool :=
  let a := identifyAccount env root us
  if a == Tree.identifyAccountT env root us then some a else none

def methBoth (env : Env) (rule : Option Rule) (us : List URI) : Option Bool :=
  let a := checkMethodPerm env rule us
  if a == Tree.checkMethodPermT env rule us then some a else none

def arO : Option Bool → String
  | some b => ar b
  | none => "model-split"

/-- all multisets of size ≤ k over the alphabet, in the canonical order of the harness
(a multiset first, then its extensions by elements of non-decreasing index) -/
partial def multisets {α : Type} (k : Nat) (alphabet : List α) (cur : List α) : List (List α) :=
  if cur.length ≥ k then [cur.reverse]
  else
    let rec ext (l : List α) : List (List α) :=
      match l with
      | [] => []
      | x :: xs => multisets k (x :: xs) (x :: cur) ++ ext xs
    cur.reverse :: ext alphabet

def bits (f : List URI → Option Bool) (k : Nat) (alphabet : List URI) : String :=
  String.ofList ((multisets k alphabet []).map (fun ms =>
    match f ms with
    | some true => '1'
    | some false => '0'
    | none => 'X'))

def parseOwner (s : String) : Option (Nat × Name) :=
  match s.splitOn "=" with
  | [c, n] => do
    let c ← match c.toList with
      | 'c' :: ds => (String.ofList ds).toNat?
      | _ => none
    let n ← parseName n
    pure (c, n)
  | _ => none

def parseWrite (s : String) : Option Write :=
  if s == "MB" then some .methodBadKey
  else if s == "CN" then some (.c2a none)
  else if s == "O" then some .other
  else match s.splitOn ":" with
    | ["A", n] => (parseName n).map Write.account
    | ["C", n] => (parseName n).map (fun a => Write.c2a (some a))
    | ["M", c] => match c.toList with
      | 'c' :: ds => (String.ofList ds).toNat?.map Write.method
      | _ => none
    | _ => none

def step (_ : Unit) (line : String) : Unit × String :=
  match line.splitOn "|" with
  | ["ida", root, env, us] =>
    match parseName root, parseEnv env, parseURIs us with
    | some root, some env, some us => ((), arO (accBoth env root us))
    | _, _, _ => ((), "bad-op")
  | ["idx", root, env, us, k] =>
    match parseName root, parseEnv env, parseURIs us, k.toNat? with
    | some root, some env, some us, some k =>
      if k > 6 then ((), "bad-op") else ((), bits (accBoth env root) k us)
    | _, _, _, _ => ((), "bad-op")
  | ["cmp", rule, env, us] =>
    match parseRule rule, parseEnv env, parseURIs us with
    | some rule, some env, some us => ((), arO (methBoth env rule us))
    | _, _, _ => ((), "bad-op")
  | ["cmx", rule, env, us, k] =>
    match parseRule rule, parseEnv env, parseURIs us, k.toNat? with
    | some rule, some env, some us, some k =>
      if k > 6 then ((), "bad-op") else ((), bits (methBoth env rule) k us)
    | _, _, _, _ => ((), "bad-op")
  | ["rw", env, owners, us, ver, ws] =>
    match parseEnv env, (words owners).mapM parseOwner, parseURIs us, (words ver).mapM parseName,
          (words ws).mapM parseWrite with
    | some env, some owners, some us, some ver, some ws =>
      let owner : Nat → Option Name := fun c => (owners.find? (fun o => o.1 == c)).map (·.2)
      ((), ar (verifyRWSetPermission ⟨env, owner⟩ true us ws ver))
    | _, _, _, _, _ => ((), "bad-op")
  | _ => ((), "bad-op")

def run : IO Unit := loop step ()

end XV.Drv.Acl
