import XV.Model.Chain
import XV.Model.Ledger
import XV.Model.Crash
import XV.Drv.Util
/-! line-protocol driver of the chain + ledger models (`xvdriver chain`); op language documented in go/cmd/chain -/
namespace XV.Drv.Chain
open XV.Chain XV.Drv

structure DS where
  env : Env := {}
  l : XV.Ledger.L := {}
  s : St := {}
  keys : List String := ["k0", "k1", "k2", "k3", "k4"]
  names : List String := ["m0", "m1", "u0", "u1", "u2"]
  /-- generated (autogen) transactions: applied by PlayForMiner like a coinbase, but they do not count as coinbase for the ledger -/
  autogen : List Nat := []
  /-- transactions whose signature does not verify (`sig=bad`): refused by the verification stage of Play / Walk -/
  badsig : List Nat := []
  /-- `walkrace`: the state after the two requests executed one at a time in the order A;B and in the order B;A, each with the
  results of (A, B); `raced` commits to one of them -/
  raceAB : St × String := ({}, "")
  raceBA : St × String := ({}, "")
  /-- `lrace`: the ledger after the two ledger requests executed one at a time in the order A;B and in the order B;A, each with
  the results of (A, B); `lraced` commits to one of them -/
  lraceAB : XV.Ledger.L × String := ({}, "")
  lraceBA : XV.Ledger.L × String := ({}, "")
deriving Inhabited

def kvOf (ws : List String) : List (String × String) :=
  ws.filterMap (fun w => match w.splitOn "=" with
    | k :: v :: rest => if k.contains ':' || k.contains '@' then none else some (k, String.intercalate "=" (v :: rest))
    | _ => none)

def posOf (ws : List String) : List String :=
  ws.filter (fun w => match w.splitOn "=" with
    | k :: _ :: _ => k.contains ':' || k.contains '@'
    | _ => true)

def getKV (kv : List (String × String)) (k : String) : String := (lookup kv k).getD ""

def splitList (s : String) : List String := if s.isEmpty then [] else s.splitOn ","

def parseVer (s : String) : Option Ver :=
  match s.splitOn "." with
  | [a, b] => match a.toNat?, b.toNat? with
    | some a, some b => some (a, b)
    | _, _ => none
  | _ => none

def hexVal (s : String) : Nat :=
  s.foldl (fun acc c =>
    let d := if c.isDigit then c.toNat - '0'.toNat
             else if 'a' ≤ c ∧ c ≤ 'f' then c.toNat - 'a'.toNat + 10
             else if 'A' ≤ c ∧ c ≤ 'F' then c.toNat - 'A'.toNat + 10 else 0
    acc * 16 + d) 0

def parseIn (e : String) : Option InRef :=
  match e.splitOn ":" with
  | [vo, addr, amt, fr] =>
    match parseVer vo, fr.toInt? with
    | some (t, o), some f =>
      if amt.startsWith "x" then some ⟨t, o, addr, hexVal (amt.drop 1).toString, f, true⟩
      else match amt.toNat? with
        | some a => some ⟨t, o, addr, a, f, false⟩
        | none => none
    | _, _ => none
  | _ => none

def parseOut (e : String) : Option Out :=
  match e.splitOn ":" with
  | [addr, amt, fr] =>
    -- `x<hex>`: the amount spelled byte by byte (leading zero bytes, zero as 0x00): the code reads amounts numerically
    if amt.startsWith "x" then (fr.toInt?).map (fun f => ⟨addr, hexVal (amt.drop 1).toString, f⟩)
    else match amt.toNat?, fr.toInt? with
    | some a, some f => some ⟨addr, a, f⟩
    | _, _ => none
  | _ => none

def parseKIn (e : String) : Option KIn :=
  match e.splitOn "@" with
  | [k, v] => if v == "-" then some ⟨k, none⟩ else (parseVer v).map (fun x => ⟨k, some x⟩)
  | _ => none

def parseKOut (e : String) : Option KOut :=
  match e.splitOn "=" with
  | k :: v :: rest =>
    let val := String.intercalate "=" (v :: rest)
    if val == "DEL" then some ⟨k, "", true⟩ else some ⟨k, val, false⟩
  | _ => none

def parseTx (id : Nat) (kv : List (String × String)) : Option Tx := do
  let ins ← (splitList (getKV kv "in")).mapM parseIn
  let outs ← (splitList (getKV kv "out")).mapM parseOut
  let kin ← (splitList (getKV kv "kin")).mapM parseKIn
  let kout ← (splitList (getKV kv "kout")).mapM parseKOut
  pure ⟨id, getKV kv "c" == "1", ins, outs, kin, kout⟩

def sortStr (l : List String) : List String := l.mergeSort (fun a b => a ≤ b)

def verStr (v : Ver) : String := s!"{v.1}.{v.2}"

/-- value of a key as the live reader shows it -/
def kvStr (d : DS) (s : St) (k : String) : String :=
  match curVer s k with
  | none => "-"
  | some v =>
    match (d.env.tx v.1).kout[v.2]? with
    | some ko => (if ko.del then "DEL" else ko.val) ++ "@" ++ verStr v
    | none => "?@" ++ verStr v

def balance (s : St) (a : String) : Nat :=
  (s.U.filter (fun p => p.2.addr == a)).foldl (fun acc p => acc + p.2.amt) 0

def observe (d : DS) : String :=
  let s := d.s
  let bal := String.intercalate "," (d.names.map (fun a => s!"{a}:{balance s a}"))
  let us := sortStr (s.U.map (fun p => s!"{p.1.1}.{p.1.2}:{p.2.addr}:{p.2.amt}:{p.2.frozen}"))
  let kv := String.intercalate "," (d.keys.map (fun k => k ++ ":" ++ kvStr d s k))
  let zu := sortStr (s.ZU.map (fun p => p.1 ++ "@" ++ verStr p.2))
  let sel := sortStr (s.ZU.map (·.1))
  let lh : Int := d.l.trunkHeight
  let fz := String.intercalate "," (d.names.map (fun a =>
    let f := (s.U.filter (fun p => p.2.addr == a && (p.2.frozen > lh || p.2.frozen == -1))).foldl (fun acc p => acc + p.2.amt) 0
    s!"{a}:{f}"))
  s!"tip={s.pointer} total={s.total} irrev={s.irrev} win={d.env.window} bal={bal} U={String.intercalate "," us} kv={kv} sel={String.intercalate "," sel} fz={fz} ZU={String.intercalate "," zu}"

def poolStr (s : St) : String :=
  String.intercalate "," ((s.pool.mergeSort (fun a b => a ≤ b)).map toString)

def optStr (o : Option Nat) : String := match o with | some n => toString n | none => "-1"

def ledgerObs (d : DS) : String :=
  let l := d.l
  let nb := d.env.blocks.length
  let bs := (List.range nb).map (fun i => match lookup l.B i with
    | none => s!"{i}:-"
    | some h => s!"{i}:h{h.height}:t{h.inTrunk}:p{optStr h.pre}:n{optStr h.next}")
  let zh := (List.range (l.trunkHeight + 3)).map (fun h => match lookup l.ZH h with
    | none => "-" | some b => toString b)
  let ntx := d.env.txs.length
  let cs := (List.range ntx).map (fun t => match lookup l.C t with
    | none => s!"{t}:-"
    | some b => s!"{t}:b{b}:{XV.Ledger.isTxInTrunk l t}")
  let zi := sortStr (l.ZI.map (fun p => s!"{p.1}:{p.2}"))
  s!"tip={l.tip} h={l.trunkHeight} root={l.root} B={String.intercalate "," bs} ZH={String.intercalate "," zh} C={String.intercalate "," cs} ZI={String.intercalate "," zi}"

def ledgerH (d : DS) : Int := d.l.trunkHeight

/-- lock keys of `SpinLock.ExtractLockKeys`: token inputs and own outputs exclusive, keys only read shared, written keys exclusive -/
def lockKeys (t : Tx) : List (String × Bool) :=
  let written := t.kout.map (·.key)
  (t.ins.map (fun r => (s!"u{r.tx}_{r.off}", true))) ++
  (t.outs.zipIdx.map (fun (_, i) => (s!"u{t.id}_{i}", true))) ++
  ((t.kin.filter (fun ki => !written.contains ki.key)).map (fun ki => ("k" ++ ki.key, false))) ++
  (written.map (fun k => ("k" ++ k, true)))

/-- two submissions conflict iff they share a lock key that at least one of them wants exclusively -/
def lockConflict (a b : Tx) : Bool :=
  (lockKeys a).any (fun ka => (lockKeys b).any (fun kb => ka.1 == kb.1 && (ka.2 || kb.2)))

/-- the environment as a *verifying* node sees it (Play, Walk): a fabricated generated transaction does not pass
`ImmediateVerifyAutoTx` (it is not what the timer task produces), so it is inadmissible there; only the producer's
`PlayForMiner` applies it unverified. The poison is an extra read of a key that never exists: admission fails, undo is unaffected. -/
def verifyEnv (d : DS) : Env :=
  { d.env with txs := d.env.txs.map (fun p =>
      if d.autogen.contains p.1 || d.badsig.contains p.1 then (p.1, { p.2 with kin := ⟨"!autogen", some (0, 999999)⟩ :: p.2.kin }) else p) }

/-- the environment of a walk to `dest`: `skipRepost` = the pending transactions that the ledger records as confirmed on
the chain the walk ends on (`isConfirmedOnCurrentChain`: the transaction's recorded block and the destination are both on
the main chain, the former not above the latter) -/
def walkEnv (d : DS) (dest : Nat) : Env :=
  let onChain (i : Nat) : Bool :=
    match lookup d.l.C i, lookup d.l.B dest with
    | some b, some hd =>
      (match lookup d.l.B b with
       | some hb => hb.inTrunk && hd.inTrunk && hb.height ≤ hd.height
       | none => false)
    | _, _ => false
  { verifyEnv d with skipRepost := d.s.pool.filter onChain }

-- ---------------------------------------------------------------- two requests in flight at once (`walkrace`)

/-- a request of a race -/
inductive RCall where
  | walk (b : Nat) | play (b : Nat) | playminer (b : Nat) | dotx (t : Nat)
deriving Repr, DecidableEq, Inhabited

def parseRCall (s : String) : Option RCall :=
  match s.splitOn ":" with
  | [k, n] =>
    match n.toNat? with
    | some n =>
      (match k with
       | "walk" => some (.walk n) | "play" => some (.play n) | "playminer" => some (.playminer n) | "dotx" => some (.dotx n)
       | _ => none)
    | none => none
  | _ => none

/-- `isConfirmedOnCurrentChain` while the state machine is at block `cur` -/
def confirmedOn (d : DS) (cur : Nat) (i : Nat) : Bool :=
  match lookup d.l.C i, lookup d.l.B cur with
  | some b, some hd =>
    (match lookup d.l.B b with
     | some hb => hb.inTrunk && hd.inTrunk && hb.height ≤ hd.height
     | none => false)
  | _, _ => false

/-- the part of a request that runs under the state-machine lock. A walk rolls the pool back and, if it succeeds, owes the
re-admission of what it rolled back (`recoverUnconfirmedTx` runs in a goroutine of its own after the call has returned): in
the model a walk whose skip list is the whole pool, which re-admits nothing. Answer, and the transactions still owed. -/
def raceLock (d : DS) (s : St) : RCall → St × String × List Nat
  | .walk b =>
    let (s', ok) := walk { verifyEnv d with skipRepost := s.pool } s (ledgerH d) b false
    (s', if ok then "ok" else "fail", if ok then s.pool else [])
  | .play b =>
    let (s', r) := play (verifyEnv d) s (ledgerH d) (d.env.block b)
    (s', if r == .ok then "ok" else "fail", [])
  | .playminer b =>
    let (s', r) := playForMiner d.env s (ledgerH d) (d.env.block b)
    (s', if r == .ok then "ok" else "fail", [])
  | .dotx t =>
    let (s', r) := doTx d.env s (ledgerH d) t
    (s', r.toString, [])

/-- the owed re-admissions of one walk, run where the state machine is by then: a transaction the ledger records as confirmed
on the chain the state machine is on is left out, the others are submitted again, oldest first -/
def raceRecover (d : DS) (s : St) (l : List Nat) : St :=
  (l.filter (fun i => !confirmedOn d s.pointer i)).foldl (fun st i => (doTx (verifyEnv d) st (ledgerH d) i).1) s

/-- two requests one at a time: the lock sections in the given order, then the re-admissions in the order they were started.
`swap`: the results are always reported as (A, B). -/
def raceSeq (d : DS) (x y : RCall) (swap : Bool) : St × String × String :=
  let (s1, r1, l1) := raceLock d d.s x
  let (s2, r2, l2) := raceLock d s1 y
  let s3 := raceRecover d (raceRecover d s2 l1) l2
  let res := if swap then r2 ++ "," ++ r1 else r1 ++ "," ++ r2
  (s3, res, s!"{res}/t{s3.pointer}/i{s3.irrev}/p{poolStr s3}")

/-- one ledger request of an `lrace` line (`confirm:<blk>` / `truncate:<blk>`) on ledger `l` -/
def lcallRun (d : DS) (l : XV.Ledger.L) (c : String) : Option (XV.Ledger.L × String) :=
  match c.splitOn ":" with
  | [kind, n] =>
    match n.toNat? with
    | none => none
    | some i =>
      if kind == "confirm" then
        let b := d.env.block i
        let txs := b.txs.map (fun t => (t, (d.env.tx t).coinbase && !d.autogen.contains t))
        let (l', st) := XV.Ledger.confirm l b.id (b.pre.getD 0) txs
        some (l', st.toString)
      else if kind == "truncate" then
        let (l', ok) := XV.Ledger.truncate l i
        some (l', if ok then "ok" else "fail")
      else none
  | _ => none

/-- two ledger requests one at a time: x, then y; the results are reported as (A, B) -/
def lraceSeq (d : DS) (x y : String) (swap : Bool) : Option (XV.Ledger.L × String) :=
  match lcallRun d d.l x with
  | none => none
  | some (l1, r1) =>
    match lcallRun d l1 y with
    | none => none
    | some (l2, r2) => some (l2, if swap then r2 ++ "," ++ r1 else r1 ++ "," ++ r2)

def step (d : DS) (line : String) : DS × String :=
  let ws := words line
  match ws with
  | [] => (d, "bad-op")
  | op :: rest =>
    let kv := kvOf rest
    let pos := posOf rest
    let arg (i : Nat) : Nat := ((pos[i]?).bind String.toNat?).getD 0
    -- injected write error (fault=1): the first storage write of the op fails; ops that would fail before writing answer normally
    if getKV kv "fault" == "1" then
      match op with
      | "dotx" =>
        let (_, r) := doTx d.env d.s (ledgerH d) (arg 0)
        (d, if r == .ok then "fault" else r.toString)
      | "play" =>
        let (_, r) := play (verifyEnv d) d.s (ledgerH d) (d.env.block (arg 0))
        (d, if r == .ok then "fault" else "fail")
      | "playminer" =>
        let (_, r) := playForMiner d.env d.s (ledgerH d) (d.env.block (arg 0))
        (d, if r == .ok then "fault" else "fail")
      | "walk" => (d, "fault")
      | "confirm" =>
        let b := d.env.block (arg 0)
        let txs := b.txs.map (fun t => (t, (d.env.tx t).coinbase && !d.autogen.contains t))
        let (_, st) := XV.Ledger.confirm d.l b.id (b.pre.getD 0) txs
        (d, if st == .fail then "fail" else "fault")
      | _ => (d, "bad-op")
    else
    match op with
    | "reset" =>
      let alloc := (splitList (getKV kv "alloc")).filterMap String.toNat?
      let outs : List Out := alloc.zipIdx.map (fun (a, i) => ⟨s!"u{i}", a, 0⟩)
      let rootTx : Tx := ⟨0, true, [], outs, [], []⟩
      let env : Env := { txs := [(0, rootTx)], blocks := [(0, ⟨0, none, 0, [0], "-"⟩)],
                         window := ((getKV kv "w").toInt?).getD 0 }
      let s0 : St := applyTx {} rootTx
      ({ d with env := env, l := XV.Ledger.genesis 0 [0], s := { s0 with pointer := 0 }, autogen := [], badsig := [] }, "ok")
    | "xtx" | "ktx" =>
      match parseTx (arg 0) kv with
      | some t => ({ d with env := { d.env with txs := d.env.txs ++ [(t.id, t)] },
                            badsig := if getKV kv "sig" == "bad" then t.id :: d.badsig else d.badsig }, "-")
      | none => (d, "bad-op")
    | "atx" =>
      -- no token part: in the model the flag `coinbase` only matters for token outputs, the balance exemption and for
      -- PlayForMiner applying the transaction itself — exactly what the code does for Autogen
      match parseTx (arg 0) kv with
      | some t => ({ d with env := { d.env with txs := d.env.txs ++ [(t.id, { t with coinbase := true })] },
                            autogen := t.id :: d.autogen }, "-")
      | none => (d, "bad-op")
    | "blk" =>
      let id := arg 0
      let pre := ((getKV kv "pre").toNat?).getD 0
      let aw := ((getKV kv "aw").toNat?).getD 0
      let prop := getKV kv "prop"
      let height := (d.env.block pre).height + 1
      -- the award amount is announced by the harness on the line (aa=<amount>)
      let aa := ((getKV kv "aa").toNat?).getD 0
      let awTx : Tx := ⟨aw, true, [], [⟨prop, aa, 0⟩], [], []⟩
      let txs := aw :: (splitList (getKV kv "txs")).filterMap String.toNat?
      let b : Block := ⟨id, some pre, height, txs, prop⟩
      ({ d with env := { d.env with txs := d.env.txs ++ [(aw, awTx)], blocks := d.env.blocks ++ [(id, b)] } }, "-")
    | "confirm" =>
      let b := d.env.block (arg 0)
      let txs := b.txs.map (fun t => (t, (d.env.tx t).coinbase && !d.autogen.contains t))
      let (l', st) := XV.Ledger.confirm d.l b.id (b.pre.getD 0) txs
      ({ d with l := l' }, st.toString)
    | "truncate" =>
      let (l', ok) := XV.Ledger.truncate d.l (arg 0)
      ({ d with l := l' }, if ok then "ok" else "fail")
    | "ftruncate" =>
      -- `Truncate` while every table scan of the ledger breaks off after it=<n> entries with an error
      let (_, ok) := XV.Ledger.truncateScan d.l (arg 0) ((getKV kv "it").toNat?)
      let (_, ok0) := XV.Ledger.truncate d.l (arg 0)
      (d, if ok then "ok" else if ok0 then "fault" else "fail")
    | "tips" =>
      -- `GetBranchInfo(block)`; with it=<n> the scan breaks off after n entries: an error, never a shorter list
      match lookup d.l.B (arg 0), (getKV kv "it").toNat? with
      | none, _ => (d, "bad-op")
      | some _, some _ => (d, "fault")
      | some h, none =>
        let ts := (XV.Ledger.scanTips d.l (arg 0) h.height).map (·.1)
        (d, "tips=" ++ String.intercalate "," ((ts.mergeSort (· ≤ ·)).map toString))
    | "mtruncate" =>
      -- `Miner.truncateForMiner`: non-pruning walk to the target, then the ledger cut
      let (s', ok) := walk (walkEnv d (arg 0)) d.s (ledgerH d) (arg 0) false
      if !ok then ({ d with s := s' }, "fail-walk")
      else
        let (l', ok2) := XV.Ledger.truncate d.l (arg 0)
        ({ d with s := s', l := l' }, if ok2 then "ok" else "fail")
    | "undotodo" =>
      let (u, t) := XV.Ledger.findUndoTodo d.l (arg 0) (arg 1)
      (d, s!"undo={String.intercalate "," (u.map toString)} todo={String.intercalate "," (t.map toString)}")
    | "dotx" =>
      let (s', r) := doTx d.env d.s (ledgerH d) (arg 0)
      ({ d with s := s' }, r.toString)
    | "race2" =>
      -- DoTx(b) runs while DoTx(a) is between applying and writing: serialisable outcome = a, then b refused by the lock
      -- protocol if they conflict, else b as if submitted afterwards
      let (s1, ra) := doTx d.env d.s (ledgerH d) (arg 0)
      if ra == .ok && lockConflict (d.env.tx (arg 0)) (d.env.tx (arg 1)) then
        ({ d with s := s1 }, ra.toString ++ ",lock")
      else
        let (s2, rb) := doTx d.env s1 (ledgerH d) (arg 1)
        ({ d with s := s2 }, ra.toString ++ "," ++ rb.toString)
    | "race3" =>
      -- DoTx(a) in flight (its locks held, nothing written) while the others are submitted one after the other: one that
      -- shares a lock key with a (one of the two wanting it exclusively) is refused by the lock protocol and changes
      -- nothing; every other one is decided as if submitted after a (the ones finished before it included)
      let a := arg 0
      let (s1, ra) := doTx d.env d.s (ledgerH d) a
      let (s', rs) := ((pos.drop 1).filterMap String.toNat?).foldl (fun (acc : St × List String) t =>
        if ra == .ok && lockConflict (d.env.tx a) (d.env.tx t) then (acc.1, acc.2 ++ ["lock"])
        else
          let (s2, r) := doTx d.env acc.1 (ledgerH d) t
          (s2, acc.2 ++ [r.toString])) (s1, [])
      ({ d with s := s' }, String.intercalate "," (ra.toString :: rs))
    | "flood" =>
      -- pairwise independent submissions in flight together: any one-at-a-time order gives the listed one's answers
      let (s', rs) := ((splitList (pos[0]?.getD "")).filterMap String.toNat?).foldl (fun (acc : St × List String) t =>
        let (s2, r) := doTx d.env acc.1 (ledgerH d) t
        (s2, acc.2 ++ [r.toString])) (d.s, [])
      ({ d with s := s' }, String.intercalate "," rs)
    | "balrace" =>
      -- pre=<t>: an admission before the racing pair
      match (getKV kv "pre").toNat? with
      | some p =>
        let (s0, r0) := doTx d.env d.s (ledgerH d) p
        let (s', r) := doTx d.env s0 (ledgerH d) (arg 1)
        ({ d with s := s' }, r0.toString ++ "," ++ r.toString)
      | none =>
        let (s', r) := doTx d.env d.s (ledgerH d) (arg 1)
        ({ d with s := s' }, r.toString)
    | "walkrace" =>
      -- both one-at-a-time orders of the two requests; the state moves with `raced`
      match (pos[0]?).bind parseRCall, (pos[1]?).bind parseRCall with
      | some a, some b =>
        let (sab, rab, dab) := raceSeq d a b false
        let (sba, rba, dba) := raceSeq d b a true
        ({ d with raceAB := (sab, rab), raceBA := (sba, rba) }, s!"ab={dab} ba={dba}")
      | _, _ => (d, "bad-op")
    | "raced" =>
      let (s', r) := if pos[0]? == some "ba" then d.raceBA else d.raceAB
      ({ d with s := s' }, r)
    | "lrace" =>
      -- both one-at-a-time orders of the two ledger requests; the ledger moves with `lraced`
      match pos[0]?, pos[1]? with
      | some a, some b =>
        match lraceSeq d a b false, lraceSeq d b a true with
        | some ab, some ba => ({ d with lraceAB := ab, lraceBA := ba }, s!"ab={ab.2} ba={ba.2}")
        | _, _ => (d, "bad-op")
      | _, _ => (d, "bad-op")
    | "lraced" =>
      let (l', r) := if pos[0]? == some "ba" then d.lraceBA else d.lraceAB
      ({ d with l := l' }, r)
    | "play" =>
      let (s', r) := play (verifyEnv d) d.s (ledgerH d) (d.env.block (arg 0))
      ({ d with s := s' }, if r == .ok then "ok" else "fail")
    | "playminer" =>
      let (s', r) := playForMiner d.env d.s (ledgerH d) (d.env.block (arg 0))
      ({ d with s := s' }, if r == .ok then "ok" else "fail")
    | "walk" =>
      let (s', ok) := walk (walkEnv d (arg 0)) d.s (ledgerH d) (arg 0) (getKV kv "prune" == "1")
      ({ d with s := s' }, if ok then "ok" else "fail")
    | "walktrace" =>
      -- the walk and the state after each of its atomic batches (`XV.Crash.walkTrace`)
      let tr := XV.Crash.walkTrace (walkEnv d (arg 0)) d.s (ledgerH d) (arg 0) false
      let (s', ok) := walk (walkEnv d (arg 0)) d.s (ledgerH d) (arg 0) false
      -- block-boundary part element by element; of the re-admission part (order among independent transactions is not
      -- fixed by the code) the number of batches and the last state
      let mid := tr.filter (fun st => st.pool.isEmpty)
      let rep := tr.filter (fun st => !st.pool.isEmpty)
      let show1 := fun (st : St) => observe { d with s := st } ++ " pool=" ++ poolStr st
      ({ d with s := s' }, (if ok then "ok" else "fail") ++ " T=" ++
        String.intercalate " || " (mid.map show1) ++ s!" R={rep.length}:" ++
        (match rep.getLast? with | some st => show1 st | none => "-"))
    | "reopen" => (d, "ok")
    | "obs" => (d, observe d ++ " pool=" ++ poolStr d.s)
    | "ledger" => (d, ledgerObs d)
    | "verify" | "lcheck" | "cmpcopy" | "replica" | "snap" | "crashcheck" | "selrace" | "kvengine" | "dumpf" => (d, "-")
    | _ => (d, "bad-op")

def run : IO Unit := loop step {}

end XV.Drv.Chain
