import XV.Model.Sched
import XV.Drv.Util
/-! line-protocol driver of engine `lock` (C12); op lines documented in go/cmd/lock/main.go -/
namespace XV.Drv.SpinLock
open XV.SpinLock XV.Drv

structure St where
  split : Bool := false
  started : Bool := false
  reqs : List (List Item) := []

def parseItem (tok : String) : Option Item :=
  let kind? : Option Kind := if tok.startsWith "S" then some .S else if tok.startsWith "X" then some .X else none
  match kind? with
  | none => none
  | some kind =>
    match ((tok.drop 1).toString.splitOn "@") with
    | [k] => match k.toNat? with
      | some k => some ⟨k, kind, 0⟩
      | none => none
    | [k, v] => match k.toNat?, v.toNat? with
      | some k, some v => some ⟨k, kind, v⟩
      | _, _ => none
    | _ => none

def insertItem (it : Item) : List Item → List Item
  | [] => [it]
  | a :: rest => if it.key < a.key then it :: a :: rest else a :: insertItem it rest

def sortItems (l : List Item) : List Item := l.foldl (fun acc it => insertItem it acc) []

def kindStr : Kind → String
  | .S => "S"
  | .X => "X"

def resStr : Res → String
  | .running => "r"
  | .lockFail => "f"
  | .stale => "s"
  | .admitted => "a"

def keyUniverse (reqs : List (List Item)) : List Nat :=
  let ks := (reqs.flatMap (fun r => r.map (·.key))).eraseDups
  (ks.foldl (fun acc k => insertItem ⟨k, .S, 0⟩ acc) []).map (·.key)

def logStr (log : List (Nat × Bool)) : String :=
  ",".intercalate (log.map (fun e => toString e.1 ++ (if e.2 then "+" else "-")))

def summary (reqs : List (List Item)) (res : List Res) (m : Nat → Option Kind) (store : Nat → Nat)
    (log : List (Nat × Bool)) : String :=
  let ks := keyUniverse reqs
  "r=" ++ ",".intercalate (res.map resStr) ++
  " | st=" ++ ",".intercalate (ks.map (fun k => toString k ++ ":" ++ toString (store k))) ++
  " | lk=" ++ ",".intercalate ((ks.filter (fun k => (m k).isSome)).map toString) ++
  " | log=" ++ logStr log

/-- label of a step of the repaired system, from the pc before and after -/
def label (pre post : Option Pc) : String :=
  match pre, post with
  | none, _ => "?"
  | some .done, _ => "-"
  | some .locking, some .unlocking => "f"
  | _, some .locking => "A"
  | _, some (.checked true) => "c+"
  | _, some (.checked false) => "c-"
  | _, some .applied => "a"
  | _, some .published => "p"
  | _, some .unlocking => "D"
  | _, some .done => "."
  | _, none => "?"

def runLabels (s : Sys) : List Nat → List String → Sys × List String
  | [], acc => (s, acc.reverse)
  | t :: ts, acc =>
    let s' := step s t
    runLabels s' ts (label (s.threads[t]?.map (·.pc)) (s'.threads[t]?.map (·.pc)) :: acc)

def splitLabel (pre post : Option Split.Pc) : String :=
  match pre, post with
  | none, _ => "?"
  | some .done, _ => "-"
  | _, some (.loaded _ _) => "L"
  | _, some (.added _) => "A"
  | _, some (.failed _) => "f"
  | _, some (.checked true) => "c+"
  | _, some (.checked false) => "c-"
  | _, some .applied => "a"
  | _, some .published => "p"
  | _, some (.released _ _) => "R"
  | _, some (.deleted _) => "D"
  | _, some .done => "."
  | _, _ => "?"

def runSplitLabels (s : Split.Sys) : List Nat → List String → Split.Sys × List String
  | [], acc => (s, acc.reverse)
  | t :: ts, acc =>
    let s' := Split.step s t
    runSplitLabels s' ts (splitLabel (s.threads[t]?.map (·.pc)) (s'.threads[t]?.map (·.pc)) :: acc)

def hasDupKey : List Item → Bool
  | [] => false
  | a :: rest => rest.any (fun b => b.key == a.key) || hasDupKey rest

def step (st : St) (line : String) : St × String :=
  match words line with
  | ["reset"] => ({ split := false, started := true, reqs := [] }, "ok")
  | ["reset", "split"] => ({ split := true, started := true, reqs := [] }, "ok")
  | "thread" :: toks =>
    if !st.started || st.reqs.length ≥ 8 then (st, "bad-op") else
    match toks.mapM parseItem with
    | none => (st, "bad-op")
    | some items =>
      if hasDupKey items || items.any (fun it => it.key > 999) then (st, "bad-op") else
      let items := sortItems items
      let ans := if items.isEmpty then "none" else
        " ".intercalate (items.map (fun it => toString it.key ++ ":" ++ kindStr it.kind))
      ({ st with reqs := st.reqs ++ [items] }, ans)
  | "sched" :: toks =>
    if !st.started then (st, "bad-op") else
    match toks.mapM (fun (w : String) => w.toNat?) with
    | none => (st, "bad-op")
    | some sched =>
      if sched.any (fun t => t ≥ st.reqs.length) then (st, "bad-op") else
      if st.split then
        let (s, labels) := runSplitLabels (Split.init (fun _ => 0) st.reqs) sched []
        (st, (" ".intercalate labels ++ " | " ++ summary st.reqs (s.threads.map (·.res)) s.m s.store s.log).trimAsciiStart.toString)
      else
        let (s, labels) := runLabels (init (fun _ => 0) st.reqs) sched []
        (st, (" ".intercalate labels ++ " | " ++ summary st.reqs (s.threads.map (·.res)) s.m s.store s.log).trimAsciiStart.toString)
  | _ => (st, "bad-op")

def run : IO Unit := loop step {}

end XV.Drv.SpinLock
