import XV.Drv.Enc
/-! entry of the `enc` driver: C08 ops (`XV.Drv.Enc`) and C07 ops (`XV.Drv.EncTx`) -/
namespace XV.Drv.EncMain
open XV.Drv

def step (_ : Unit) (line : String) : Unit × String := ((), XV.Drv.Enc.stepC08 line)

def run : IO Unit := loop step ()

end XV.Drv.EncMain
