import XV.Drv.Enc
import XV.Drv.EncTx
/-! entry of the `enc` driver: C08 ops (`XV.Drv.Enc`) and C07 ops (`XV.Drv.EncTx`) -/
namespace XV.Drv.EncMain
open XV.Drv

def step (_ : Unit) (line : String) : Unit × String :=
  match XV.Drv.EncTx.stepC07 line with
  | some r => ((), r)
  | none => ((), XV.Drv.Enc.stepC08 line)

def run : IO Unit := loop step ()

end XV.Drv.EncMain
