import XV.Model.Safety
import XV.Drv.Util
namespace XV.Drv.Safety
open XV.Safety XV.Drv

/-- entry token: `<addr><kind>`; kind `v` = signature verifies for the certified id under a key
hashing to the claimed address (`r` = the same, re-signed: other signature bytes); every other kind (`w` wrong id, `c` corrupted, `m` key/address
mismatch) does not verify. -/
def parseEntry (t : String) : Option Entry :=
  let digits := t.takeWhile Char.isDigit
  let kind := t.drop digits.positions.count
  match digits.toString.toNat? with
  | some a => if kind.toString.length == 1 then some ⟨a, kind.toString == "v" || kind.toString == "r" || kind.toString == "s"⟩ else none
  | none => none

def parseEntries (ts : List String) : Option (List Entry) := ts.mapM parseEntry

/-- verdict of one `CheckProposal` call given as `<n> <col> <entry>...` -/
def verdict (ws : List String) : Option String :=
  match ws with
  | n :: _col :: es =>
    match n.toNat?, _col.toNat?, parseEntries es with
    | some n, some _, some es => some (if checkProposal (List.range n) es == .accept then "accept" else "reject")
    | _, _, _ => none
  | _ => none

def step (_ : Unit) (line : String) : Unit × String :=
  match words line with
  | ["thr", k, n] =>
    match k.toInt?, n.toInt? with
    | some k, some n => ((), boolStr (XV.Gen.calVotesThreshold k n))
    | _, _ => ((), "bad-op")
  | ["pm", p, l] =>
    match p.toInt?, l.toInt? with
    | some p, some l => ((), boolStr (XV.Gen.checkPacemaker p l))
    | _, _ => ((), "bad-op")
  | "cpy" :: n :: _col :: es =>
    match n.toNat?, parseEntries es with
    | some n, some es =>
      ((), if checkProposal (List.range n) es == .accept then "accept" else "reject")
    | _, _ => ((), "bad-op")
  | "cp" :: n :: _col :: es =>
    match n.toNat?, parseEntries es with
    | some n, some es =>
      ((), if checkProposal (List.range n) es == .accept then "accept" else "reject")
    | _, _ => ((), "bad-op")
  | "cpi" :: p :: rest =>
    -- two calls on one instance, the second running while the first is held between two signature entries:
    -- each verdict is the verdict of that call alone (`checkProposal` is a function of its arguments)
    match p.toNat? with
    | some p =>
      if p == 0 || !rest.contains "/" then ((), "bad-op") else
      match verdict (rest.takeWhile (· != "/")), verdict ((rest.dropWhile (· != "/")).drop 1) with
      | some a, some b => ((), a ++ " " ++ b)
      | _, _ => ((), "bad-op")
    | none => ((), "bad-op")
  | ["conc", _, _, _, _] => ((), "-")
  | "cv" :: n :: es =>
    match n.toNat?, parseEntries es with
    | some n, some es => ((), if checkVote (List.range n) es then "accept" else "reject")
    | _, _ => ((), "bad-op")
  | _ => ((), "bad-op")

def run : IO Unit := loop step ()

end XV.Drv.Safety
