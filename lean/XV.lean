import XV.Model.Safety
import XV.Props.C14
import XV.Model.Chain
import XV.Model.Ledger
import XV.Props.C20
import XV.Props.C15
import XV.Model.Sandbox
import XV.Props.C10
