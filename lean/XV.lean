import XV.Model.Safety
import XV.Props.C14
