import XV.Drv.Safety
import XV.Drv.Chain
import XV.Drv.P2p
import XV.Drv.QcTree
import XV.Drv.Sandbox
import XV.Drv.SpinLock
import XV.Drv.GovToken
import XV.Drv.Acl
import XV.Drv.EncMain
import XV.Drv.Sched
import XV.Drv.Pool
import XV.Drv.Contract
import XV.Drv.BftMatch
import XV.Drv.Collect
/-! line-protocol model driver: `xvdriver <engine> < ops.txt > model.out` -/
def main (args : List String) : IO UInt32 := do
  match args with
  | ["safety"] => XV.Drv.Safety.run; return 0
  | ["chain"] => XV.Drv.Chain.run; return 0
  | ["p2p"] => XV.Drv.P2p.run; return 0
  | ["qctree"] => XV.Drv.QcTree.run; return 0
  | ["sandbox"] => XV.Drv.Sandbox.run; return 0
  | ["lock"] => XV.Drv.SpinLock.run; return 0
  | ["gov"] => XV.Drv.GovToken.run; return 0
  | ["acl"] => XV.Drv.Acl.run; return 0
  | ["enc"] => XV.Drv.EncMain.run; return 0
  | ["sched"] => XV.Drv.Sched.run; return 0
  | ["pool"] => XV.Drv.Pool.run; return 0
  | ["contract"] => XV.Drv.Contract.run; return 0
  | ["bftmatch"] => XV.Drv.BftMatch.run; return 0
  | ["collect"] => XV.Drv.Collect.run; return 0
  | _ => IO.eprintln "usage: xvdriver <engine>"; return 2
