// Package xvlib: helpers shared by every engine harness (PRNG, deterministic
// accounts, quiet logging, stats/violation reporting).
package xvlib

import (
	"bufio"
	"crypto/ecdsa"
	"crypto/sha256"
	"encoding/json"
	"flag"
	"fmt"
	"io/ioutil"
	"os"
	"path/filepath"
	"runtime"
	"sort"
	"strconv"
	"strings"
	"sync/atomic"
	"time"

	"github.com/xuperchain/xupercore/lib/crypto/client"
	cbase "github.com/xuperchain/xupercore/lib/crypto/client/base"
	"github.com/xuperchain/xupercore/lib/logs"
)

// ---------- PRNG (splitmix64): every random choice of a run derives from one state ----------

type Rng struct{ s uint64 }

// NewRng scrambles the seed before using it as the state: with the state a linear function of the seed, seed+1 would be
// the stream of seed one draw later and sweeps over VERIF_SEED = 1, 2, 3 would re-run almost the same cases.
func NewRng(seed uint64) *Rng {
	z := seed + 0x632BE59BD9B4E019
	z = (z ^ (z >> 30)) * 0xBF58476D1CE4E5B9
	z = (z ^ (z >> 27)) * 0x94D049BB133111EB
	return &Rng{s: z ^ (z >> 31)}
}
func (r *Rng) U64() uint64 {
	r.s += 0x9E3779B97F4A7C15
	z := r.s
	z = (z ^ (z >> 30)) * 0xBF58476D1CE4E5B9
	z = (z ^ (z >> 27)) * 0x94D049BB133111EB
	return z ^ (z >> 31)
}
func (r *Rng) Intn(n int) int {
	if n <= 0 {
		return 0
	}
	return int(r.U64() % uint64(n))
}
func (r *Rng) Bool() bool           { return r.U64()&1 == 1 }
func (r *Rng) Chance(p, q int) bool { return r.Intn(q) < p }

// ---------- quiet logging ----------

func InitQuietLog(scratch string) {
	dir := filepath.Join(scratch, "logconf")
	os.MkdirAll(dir, 0755)
	cfg := filepath.Join(dir, "log.yaml")
	lvl, con := "error", "false"
	if os.Getenv("XV_LOG") != "" {
		lvl, con = os.Getenv("XV_LOG"), "true"
	}
	ioutil.WriteFile(cfg, []byte("module: xv\nfilename: xv\nfmt: logfmt\nconsole: "+con+"\nlevel: "+lvl+"\n"), 0644)
	logs.InitLog(cfg, filepath.Join(scratch, "logs"))
}

func Logger(name string) logs.Logger {
	l, err := logs.NewLogger("", name)
	if err != nil {
		panic(err)
	}
	return l
}

// ---------- deterministic accounts ----------

type Account struct {
	Address string
	PubJSON string
	PriJSON string
	Pri     *ecdsa.PrivateKey
	Pub     *ecdsa.PublicKey
}

var cc cbase.CryptoClient

func Crypto() cbase.CryptoClient {
	if cc == nil {
		c, err := client.CreateCryptoClient("default")
		if err != nil {
			panic(err)
		}
		cc = c
	}
	return cc
}

// NewAccount derives account #i deterministically.
func NewAccount(i int) *Account {
	c := Crypto()
	seed := sha256.Sum256([]byte("xv-account-" + strconv.Itoa(i)))
	seed2 := sha256.Sum256(seed[:])
	k, err := c.GenerateKeyBySeed(append(seed[:], seed2[:]...))
	if err != nil {
		panic(err)
	}
	pub, _ := c.GetEcdsaPublicKeyJsonFormatStr(k)
	pri, _ := c.GetEcdsaPrivateKeyJsonFormatStr(k)
	addr, err := c.GetAddressFromPublicKey(&k.PublicKey)
	if err != nil {
		panic(err)
	}
	return &Account{Address: addr, PubJSON: pub, PriJSON: pri, Pri: k, Pub: &k.PublicKey}
}

// ---------- run output: ops / impl.out / stats.json ----------

type Violation struct {
	Key   string   `json:"key"`  // canonical signature of the minimised failing case (known-findings key)
	What  string   `json:"what"` // human readable
	Ops   []string `json:"ops"`  // the replayable case (op lines)
	Impl  []string `json:"impl"` // what the implementation answered
	Extra string   `json:"extra,omitempty"`
}

type Stats struct {
	Evaluations        int                    `json:"evaluations"`
	DistinctNontrivial int                    `json:"distinct_nontrivial"`
	Rule               string                 `json:"rule"`
	Samples            []interface{}          `json:"samples"`
	Distribution       map[string]int         `json:"distribution"`
	Exhaustive         bool                   `json:"exhaustive"`
	Violations         []Violation            `json:"violations"`
	Notes              []string               `json:"notes,omitempty"`
	Extra              map[string]interface{} `json:"extra,omitempty"`
}

type Out struct {
	Dir   string
	ops   *bufio.Writer
	impl  *bufio.Writer
	fo    *os.File
	fi    *os.File
	Stats Stats
	seen  map[[32]byte]bool
	Lines int
	// the op lines of the case being executed, flushed line by line: if the real code kills the process (fatal error,
	// stack overflow, deadlock) ./check reports this file as the replay
	cur       *os.File
	seenReset bool
	// watchdog: the last time the harness made progress (Begin / Emit / Case / Count); OnHang supplies the op lines
	// of the case being executed for harnesses that do not use Begin
	progress int64
	closed   int32
	onHang   func() []string
}

// OnHang registers the function that names the case being executed when the watchdog fires.
func (o *Out) OnHang(f func() []string) { o.onHang = f }

func (o *Out) tick() { atomic.StoreInt64(&o.progress, time.Now().UnixNano()) }

// Tick tells the watchdog that the harness is alive (for phases that legitimately emit nothing for a long time).
func (o *Out) Tick() { o.tick() }

// watchdog: code under test that blocks forever (a lock that is never released, a wait nobody answers) must end the
// run with a replay, not hang it. After XV_HANG_SECS (default 300) without progress the stacks of all goroutines and
// the current case go to hang.txt / current_case.ops and the process exits with status 7.
// DefaultHangSecs: an engine whose operations all finish within seconds lowers it before NewOut
var DefaultHangSecs = 300

func (o *Out) watchdog() {
	limit := time.Duration(EnvInt("XV_HANG_SECS", DefaultHangSecs)) * time.Second
	for {
		time.Sleep(time.Second)
		if atomic.LoadInt32(&o.closed) != 0 {
			return
		}
		idle := time.Since(time.Unix(0, atomic.LoadInt64(&o.progress)))
		if idle < limit {
			continue
		}
		buf := make([]byte, 4<<20)
		n := runtime.Stack(buf, true)
		var ops []string
		if o.onHang != nil {
			ops = o.onHang()
		}
		if len(ops) > 0 {
			ioutil.WriteFile(filepath.Join(o.Dir, "current_case.ops"), []byte(strings.Join(ops, "\n")+"\n"), 0644)
		}
		ioutil.WriteFile(filepath.Join(o.Dir, "hang.txt"), []byte(fmt.Sprintf("no progress for %v\n\n%s", idle.Round(time.Second), buf[:n])), 0644)
		fmt.Fprintf(os.Stderr, "xvlib watchdog: no progress for %v, see hang.txt\n", idle.Round(time.Second))
		os.Exit(7)
	}
}

func NewOut(dir string) *Out {
	os.MkdirAll(dir, 0755)
	fo, err := os.Create(filepath.Join(dir, "ops.txt"))
	if err != nil {
		panic(err)
	}
	fi, err := os.Create(filepath.Join(dir, "impl.out"))
	if err != nil {
		panic(err)
	}
	cur, _ := os.Create(filepath.Join(dir, "current_case.ops"))
	os.Remove(filepath.Join(dir, "hang.txt"))
	o := &Out{Dir: dir, fo: fo, fi: fi, ops: bufio.NewWriterSize(fo, 1<<20), impl: bufio.NewWriterSize(fi, 1<<20),
		seen: map[[32]byte]bool{}, Stats: Stats{Distribution: map[string]int{}}, cur: cur}
	o.tick()
	go o.watchdog()
	return o
}

// Begin notes that op is about to be executed (call before running it on the real code).
func (o *Out) Begin(op string) {
	o.tick()
	if o.cur == nil {
		return
	}
	isReset := len(op) >= 5 && op[:5] == "reset"
	if isReset {
		o.seenReset = true
	}
	if isReset || !o.seenReset {
		o.cur.Truncate(0)
		o.cur.Seek(0, 0)
	}
	o.cur.WriteString(op + "\n")
}

// Emit records one op line and what the implementation answered.
func (o *Out) Emit(op, impl string) {
	o.tick()
	o.ops.WriteString(op)
	o.ops.WriteByte('\n')
	o.impl.WriteString(impl)
	o.impl.WriteByte('\n')
	o.Lines++
}

// Case counts one evaluated case; nontrivial cases are de-duplicated by hash.
func (o *Out) Case(canon string, nontrivial bool) {
	o.tick()
	o.Stats.Evaluations++
	if nontrivial {
		h := sha256.Sum256([]byte(canon))
		if !o.seen[h] {
			o.seen[h] = true
			o.Stats.DistinctNontrivial++
		}
	}
}

func (o *Out) Count(kind string) { o.Stats.Distribution[kind]++ }

func (o *Out) Sample(v interface{}) {
	if len(o.Stats.Samples) < 6 {
		o.Stats.Samples = append(o.Stats.Samples, v)
	}
}

func (o *Out) Violate(v Violation) {
	// keep at most 3 witnesses per key
	n := 0
	for _, x := range o.Stats.Violations {
		if x.Key == v.Key {
			n++
		}
	}
	if n < 3 {
		o.Stats.Violations = append(o.Stats.Violations, v)
	}
	o.Count("violation:" + v.Key)
}

func (o *Out) Close() {
	atomic.StoreInt32(&o.closed, 1)
	if o.cur != nil {
		o.cur.Close()
		os.Remove(filepath.Join(o.Dir, "current_case.ops"))
	}
	o.ops.Flush()
	o.impl.Flush()
	o.fo.Close()
	o.fi.Close()
	if o.Stats.Samples == nil {
		o.Stats.Samples = []interface{}{}
	}
	if o.Stats.Violations == nil {
		o.Stats.Violations = []Violation{}
	}
	b, _ := json.MarshalIndent(o.Stats, "", " ")
	ioutil.WriteFile(filepath.Join(o.Dir, "stats.json"), b, 0644)
}

// ---------- misc ----------

func SortedKeys(m map[string]int) []string {
	var ks []string
	for k := range m {
		ks = append(ks, k)
	}
	sort.Strings(ks)
	return ks
}

func EnvInt(name string, def int) int {
	if v := os.Getenv(name); v != "" {
		if n, err := strconv.Atoi(v); err == nil {
			return n
		}
	}
	return def
}

func Die(format string, a ...interface{}) {
	fmt.Fprintf(os.Stderr, format+"\n", a...)
	os.Exit(3)
}

// ReadLines reads a replay/ops file (one op per line; '#' comments skipped).
func ReadLines(path string) []string {
	f, err := os.Open(path)
	if err != nil {
		Die("open %s: %v", path, err)
	}
	defer f.Close()
	var out []string
	sc := bufio.NewScanner(f)
	sc.Buffer(make([]byte, 1<<20), 1<<26)
	for sc.Scan() {
		l := sc.Text()
		if l == "" || l[0] == '#' {
			continue
		}
		out = append(out, l)
	}
	return out
}

// ---------- common command line ----------

type Args struct {
	Prop, Tier, Out, Replay, Scratch string
	Seed                             uint64
}

func ParseArgs() *Args {
	a := &Args{}
	flag.StringVar(&a.Prop, "prop", "", "property id")
	flag.StringVar(&a.Tier, "tier", "quick", "quick|thorough")
	flag.Uint64Var(&a.Seed, "seed", 1, "PRNG seed")
	flag.StringVar(&a.Out, "out", "", "output directory")
	flag.StringVar(&a.Replay, "replay", "", "replay file (op lines)")
	flag.StringVar(&a.Scratch, "scratch", os.TempDir()+"/xv-scratch", "scratch directory")
	flag.Parse()
	if a.Out == "" {
		Die("need -out")
	}
	InitQuietLog(a.Scratch)
	return a
}

// Sum8 is a short content fingerprint (first 8 bytes of SHA-256) for canonical dumps of large values.
func Sum8(b []byte) []byte {
	h := sha256.Sum256(b)
	return h[:8]
}
