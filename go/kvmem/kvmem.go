// Package kvmem is an instrumented in-memory kvdb engine ("verifmem") registered through the
// repository's public kvdb.Register. Stores are keyed by KVParameter.DBPath, so "reopen" = new Go
// objects over the same image and "second instance" = a copy of the image under another path.
// Every Put / Delete / Batch.Write is one atomic write group, logged with a global sequence number;
// write group #k can be made to fail (nothing applied), and the image after any prefix of the log
// can be materialised (crash points).
package kvmem

import (
	"bytes"
	"errors"
	"sort"
	"sync"

	"github.com/xuperchain/xupercore/lib/storage/kvdb"
)

const Engine = "verifmem"

type Op struct {
	Del bool
	Key string
	Val []byte
}

type Group struct {
	Seq   int
	Store string // DBPath
	Ops   []Op
}

type Store struct {
	Path string
	data map[string][]byte
}

var (
	mu     sync.Mutex
	stores = map[string]*Store{}
	// global write log across all stores (order of storage writes of the process)
	Log       []Group
	Logging   bool
	seq       int
	FailAt    = -1 // sequence number (counted from ResetCounter) of the write group that fails
	ErrInject = errors.New("verifmem: injected write error")
)

func init() {
	kvdb.Register(Engine, func(p *kvdb.KVParameter) (kvdb.Database, error) {
		return Open(p.DBPath), nil
	})
}

func getStore(path string) *Store {
	s, ok := stores[path]
	if !ok {
		s = &Store{Path: path, data: map[string][]byte{}}
		stores[path] = s
	}
	return s
}

func Open(path string) kvdb.Database {
	mu.Lock()
	defer mu.Unlock()
	return &db{s: getStore(path)}
}

// ResetCounter restarts write-group numbering and clears the log.
func ResetCounter() {
	mu.Lock()
	defer mu.Unlock()
	seq = 0
	Log = nil
	FailAt = -1
}

func Seq() int { mu.Lock(); defer mu.Unlock(); return seq }

// Drop forgets every store whose path has the prefix.
func Drop(prefix string) {
	mu.Lock()
	defer mu.Unlock()
	for p := range stores {
		if len(p) >= len(prefix) && p[:len(prefix)] == prefix {
			delete(stores, p)
		}
	}
}

// CopyPrefix copies every store under oldPrefix to the same relative path under newPrefix.
func CopyPrefix(oldPrefix, newPrefix string) {
	mu.Lock()
	defer mu.Unlock()
	for p, s := range stores {
		if len(p) >= len(oldPrefix) && p[:len(oldPrefix)] == oldPrefix {
			n := &Store{Path: newPrefix + p[len(oldPrefix):], data: make(map[string][]byte, len(s.data))}
			for k, v := range s.data {
				n.data[k] = v
			}
			stores[n.Path] = n
		}
	}
}

// Snapshot returns a deep-enough copy of all stores under prefix (values are immutable here).
func Snapshot(prefix string) map[string]map[string][]byte {
	mu.Lock()
	defer mu.Unlock()
	out := map[string]map[string][]byte{}
	for p, s := range stores {
		if len(p) >= len(prefix) && p[:len(prefix)] == prefix {
			m := make(map[string][]byte, len(s.data))
			for k, v := range s.data {
				m[k] = v
			}
			out[p[len(prefix):]] = m
		}
	}
	return out
}

// Restore installs a snapshot (as taken by Snapshot) under prefix, replacing what is there.
func Restore(prefix string, snap map[string]map[string][]byte) {
	mu.Lock()
	defer mu.Unlock()
	for p := range stores {
		if len(p) >= len(prefix) && p[:len(prefix)] == prefix {
			delete(stores, p)
		}
	}
	for rel, m := range snap {
		n := &Store{Path: prefix + rel, data: make(map[string][]byte, len(m))}
		for k, v := range m {
			n.data[k] = v
		}
		stores[n.Path] = n
	}
}

// ApplyGroups applies write groups (from Log) to the stores under prefix; the group's store path
// is re-rooted from fromPrefix to prefix.
func ApplyGroups(fromPrefix, prefix string, gs []Group) {
	mu.Lock()
	defer mu.Unlock()
	for _, g := range gs {
		if len(g.Store) < len(fromPrefix) || g.Store[:len(fromPrefix)] != fromPrefix {
			continue
		}
		s := getStore(prefix + g.Store[len(fromPrefix):])
		for _, o := range g.Ops {
			if o.Del {
				delete(s.data, o.Key)
			} else {
				s.data[o.Key] = o.Val
			}
		}
	}
}

// Dump returns the sorted key/value pairs of the store at path whose keys start with prefix.
func Dump(path, prefix string) [][2]string {
	mu.Lock()
	defer mu.Unlock()
	s, ok := stores[path]
	if !ok {
		return nil
	}
	var out [][2]string
	for k, v := range s.data {
		if len(k) >= len(prefix) && k[:len(prefix)] == prefix {
			out = append(out, [2]string{k, string(v)})
		}
	}
	sort.Slice(out, func(i, j int) bool { return out[i][0] < out[j][0] })
	return out
}

// one-shot hooks for deterministic interleavings: BeforeWrite runs (outside the engine's lock) right before the next
// write group is applied; OnIter runs right after the next iterator has taken its snapshot.
var (
	hookMu      sync.Mutex
	beforeWrite func(store string)
	onIter      func(store, prefix string)
)

// readFault (persistent until cleared): consulted by every Get; a non-nil result is returned as the error of that
// read (injected storage read fault, e.g. an I/O error on one key).
var readFault func(store, key string) error

func SetReadFault(f func(store, key string) error) { hookMu.Lock(); readFault = f; hookMu.Unlock() }

// writeFault (persistent until cleared): consulted by every write group before it is applied; true = this write group
// fails with ErrInject and nothing of it is applied (an injected storage write fault aimed at one store / one write
// of an operation, where FailAt counts write groups of the whole process).
var writeFault func(store string) bool

func SetWriteFault(f func(store string) bool) { hookMu.Lock(); writeFault = f; hookMu.Unlock() }

// afterRead (persistent until cleared): called after every Get / Has has computed its answer and before it is handed to
// the caller - a point at which a harness can hold the reading goroutine (check-then-act schedules).
var afterRead func(store, key string)

// iterFault (persistent until cleared): consulted when an iterator is created; err != nil makes that iterator break off
// after n entries - Next() returns false and Error() returns err, the way the leveldb iterators report an I/O error or a
// corrupted table block in the middle of a scan.
var iterFault func(store, prefix string) (n int, err error)

func SetAfterRead(f func(store, key string)) { hookMu.Lock(); afterRead = f; hookMu.Unlock() }
func SetIterFault(f func(store, prefix string) (int, error)) {
	hookMu.Lock()
	iterFault = f
	hookMu.Unlock()
}
func readDone(store, key string) {
	hookMu.Lock()
	h := afterRead
	hookMu.Unlock()
	if h != nil {
		h(store, key)
	}
}

func SetBeforeWrite(f func(store string))    { hookMu.Lock(); beforeWrite = f; hookMu.Unlock() }
func SetOnIter(f func(store, prefix string)) { hookMu.Lock(); onIter = f; hookMu.Unlock() }
func ClearHooks() {
	hookMu.Lock()
	beforeWrite, onIter, readFault, writeFault, afterRead, iterFault = nil, nil, nil, nil, nil, nil
	hookMu.Unlock()
}

func (s *Store) commit(ops []Op) error {
	hookMu.Lock()
	h := beforeWrite
	beforeWrite = nil
	wf := writeFault
	hookMu.Unlock()
	if h != nil {
		h(s.Path)
	}
	inject := wf != nil && wf(s.Path)
	mu.Lock()
	defer mu.Unlock()
	n := seq
	seq++
	if n == FailAt || inject {
		return ErrInject
	}
	for _, o := range ops {
		if o.Del {
			delete(s.data, o.Key)
		} else {
			s.data[o.Key] = o.Val
		}
	}
	if Logging {
		Log = append(Log, Group{Seq: n, Store: s.Path, Ops: ops})
	}
	return nil
}

type db struct{ s *Store }

func (d *db) Open(path string, options map[string]interface{}) error { return nil }
func (d *db) Close()                                                 {}
func (d *db) Put(key, value []byte) error {
	return d.s.commit([]Op{{Key: string(key), Val: append([]byte{}, value...)}})
}
func (d *db) Delete(key []byte) error { return d.s.commit([]Op{{Del: true, Key: string(key)}}) }
func (d *db) Get(key []byte) ([]byte, error) {
	hookMu.Lock()
	rf := readFault
	hookMu.Unlock()
	if rf != nil {
		if err := rf(d.s.Path, string(key)); err != nil {
			return nil, err
		}
	}
	mu.Lock()
	v, ok := d.s.data[string(key)]
	mu.Unlock()
	readDone(d.s.Path, string(key))
	if !ok {
		return nil, errors.New("leveldb: not found")
	}
	return append([]byte{}, v...), nil
}
func (d *db) Has(key []byte) (bool, error) {
	mu.Lock()
	_, ok := d.s.data[string(key)]
	mu.Unlock()
	readDone(d.s.Path, string(key))
	return ok, nil
}
func (d *db) NewBatch() kvdb.Batch { return &batch{s: d.s, keys: map[string]bool{}} }

func (d *db) iter(start, limit []byte, prefix []byte) kvdb.Iterator {
	it := d.iter0(start, limit, prefix)
	hookMu.Lock()
	h := onIter
	itf := iterFault
	hookMu.Unlock()
	if itf != nil {
		p := string(prefix)
		if prefix == nil {
			p = string(start)
		}
		if n, err := itf(d.s.Path, p); err != nil {
			mi := it.(*iter)
			if n < len(mi.keys) {
				mi.keys, mi.vals = mi.keys[:n], mi.vals[:n]
			}
			mi.err = err // reported even when the scan would have ended there anyway: the read after the last entry failed
		}
	}
	if h != nil {
		p := string(prefix)
		if prefix == nil {
			p = string(start)
		}
		h(d.s.Path, p)
	}
	return it
}

func (d *db) iter0(start, limit []byte, prefix []byte) kvdb.Iterator {
	mu.Lock()
	defer mu.Unlock()
	it := &iter{pos: -1, at: -2}
	for k, v := range d.s.data {
		kb := []byte(k)
		if prefix != nil {
			if !bytes.HasPrefix(kb, prefix) {
				continue
			}
		} else {
			if start != nil && bytes.Compare(kb, start) < 0 {
				continue
			}
			if limit != nil && bytes.Compare(kb, limit) >= 0 {
				continue
			}
		}
		it.keys = append(it.keys, k)
		it.vals = append(it.vals, v)
	}
	sort.Sort(it)
	return it
}
func (d *db) NewIteratorWithRange(start, limit []byte) kvdb.Iterator {
	return d.iter(start, limit, nil)
}
func (d *db) NewIteratorWithPrefix(prefix []byte) kvdb.Iterator {
	if prefix == nil {
		prefix = []byte{}
	}
	return d.iter(nil, nil, prefix)
}

// iter mimics what goleveldb's iterators do with the slices they hand out: Key() and Value() return the iterator's own
// buffers, whose contents change with the next positioning call and are invalid after Release ("the caller should not
// modify the contents of the returned slice, and its contents may change on the next call to Next"). A caller that keeps
// such a slice instead of a copy sees it change here exactly as it would over leveldb - deterministically: the buffer is
// reused in place when it is large enough, and scribbled over before it is replaced by a larger one.
type iter struct {
	keys []string
	vals [][]byte
	pos  int
	kbuf []byte
	vbuf []byte
	at   int   // position kbuf / vbuf hold, -2 = none
	err  error // injected read fault: the scan ends after len(keys) entries with this error
}

func (it *iter) Len() int           { return len(it.keys) }
func (it *iter) Less(i, j int) bool { return it.keys[i] < it.keys[j] }
func (it *iter) Swap(i, j int) {
	it.keys[i], it.keys[j] = it.keys[j], it.keys[i]
	it.vals[i], it.vals[j] = it.vals[j], it.vals[i]
}
func (it *iter) valid() bool { return it.pos >= 0 && it.pos < len(it.keys) }

func refill(buf []byte, src []byte) []byte {
	if cap(buf) < len(src) {
		for i := range buf[:cap(buf)] {
			buf[:cap(buf)][i] = 0xEE
		}
		return append(make([]byte, 0, len(src)+8), src...)
	}
	old := buf[:cap(buf)]
	for i := len(src); i < len(old); i++ {
		old[i] = 0xEE
	}
	return append(buf[:0], src...)
}

// load fills the buffers for the current position (every positioning call invalidates what was handed out before)
func (it *iter) load() {
	if it.at == it.pos+1 {
		return
	}
	if it.valid() {
		it.kbuf = refill(it.kbuf, []byte(it.keys[it.pos]))
		it.vbuf = refill(it.vbuf, it.vals[it.pos])
	} else {
		it.kbuf = refill(it.kbuf, nil)
		it.vbuf = refill(it.vbuf, nil)
	}
	it.at = it.pos + 1
}
func (it *iter) Key() []byte {
	if !it.valid() {
		return nil
	}
	it.load()
	return it.kbuf
}
func (it *iter) Value() []byte {
	if !it.valid() {
		return nil
	}
	it.load()
	return it.vbuf
}
func (it *iter) Next() bool {
	if it.pos < len(it.keys) {
		it.pos++
	}
	it.load()
	return it.valid()
}
func (it *iter) Prev() bool {
	if it.pos >= 0 {
		it.pos--
	}
	it.load()
	return it.valid()
}
func (it *iter) First() bool { it.pos = 0; it.load(); return it.valid() }
func (it *iter) Last() bool  { it.pos = len(it.keys) - 1; it.load(); return it.valid() }
func (it *iter) Error() error {
	if it.err != nil && it.pos >= len(it.keys) {
		return it.err
	}
	return nil
}
func (it *iter) Release() {
	it.pos = len(it.keys)
	it.load()
}

type batch struct {
	s    *Store
	ops  []Op
	size int
	keys map[string]bool
}

func (b *batch) Put(key, value []byte) error {
	b.ops = append(b.ops, Op{Key: string(key), Val: append([]byte{}, value...)})
	b.size += len(value)
	return nil
}
func (b *batch) Delete(key []byte) error {
	b.ops = append(b.ops, Op{Del: true, Key: string(key)})
	b.size += len(key)
	return nil
}
func (b *batch) PutIfAbsent(key, value []byte) error {
	if !b.keys[string(key)] {
		b.Put(key, value)
		b.keys[string(key)] = true
		return nil
	}
	return errors.New("duplicated key in batch")
}
func (b *batch) Exist(key []byte) bool { return b.keys[string(key)] }
func (b *batch) ValueSize() int        { return b.size }
func (b *batch) Reset() {
	b.ops = nil
	b.size = 0
	b.keys = map[string]bool{}
}
func (b *batch) Write() error {
	ops := append([]Op{}, b.ops...)
	return b.s.commit(ops)
}
