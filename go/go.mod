module xv

go 1.14

require github.com/xuperchain/xupercore v0.0.0

replace github.com/xuperchain/xupercore => /repo

replace github.com/hyperledger/burrow => github.com/xuperchain/burrow v0.30.6-0.20210317023017-369050d94f4a
