module xv

go 1.14

require (
	github.com/golang/protobuf v1.4.3
	github.com/golang/snappy v0.0.2-0.20200707131729-196ae77b8a26
	github.com/xuperchain/crypto v0.0.0-20201028025054-4d560674bcd6
	github.com/xuperchain/xupercore v0.0.0
)

replace github.com/xuperchain/xupercore => /repo

replace github.com/hyperledger/burrow => github.com/xuperchain/burrow v0.30.6-0.20210317023017-369050d94f4a
