package main

func init() {
	arithFns["Safety"] = []arithFn{
		{File: "kernel/consensus/base/driver/chained-bft/saftyrules.go", Recv: "DefaultSaftyRules", Name: "CalVotesThreshold", LeanName: "calVotesThreshold"},
		{File: "kernel/consensus/base/driver/chained-bft/saftyrules.go", Recv: "DefaultSaftyRules", Name: "CheckPacemaker", LeanName: "checkPacemaker"},
	}
}
