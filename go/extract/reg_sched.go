package main

func init() {
	arithFns["Sched"] = []arithFn{
		{File: "bcs/consensus/tdpos/schedule.go", Recv: "tdposSchedule", Name: "minerScheduling", LeanName: "tdposMinerScheduling"},
		{File: "bcs/consensus/xpoa/schedule.go", Recv: "xpoaSchedule", Name: "minerScheduling", LeanName: "xpoaMinerScheduling"},
	}
}
