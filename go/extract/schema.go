package main

// encoder-schema extraction (C07/C08); filled in later.
func genSchemas(repo, out string, report *[]string) error { return nil }
