package main

// Translator for a small, purely arithmetic subset of Go into Lean 4 `def`s
// over `Int`.  Supported: integer parameters, receiver fields (become extra
// parameters), named results (initialised to 0 / false), `x := e`, `x = e`,
// `if c { ...; return [e..] }` (the body must end in a return), `return`,
// binary + - * / % and comparisons, && || !, integer literals, conversions
// int64(x)/int(x), and the constant time.Millisecond.  Go's `/` and `%` on
// integers truncate toward zero: rendered as Int.tdiv / Int.tmod.  Anything
// else aborts with "construct not supported at file:line" (a broken tie).

import (
	"fmt"
	"go/ast"
	"go/parser"
	"go/token"
	"sort"
	"strings"
)

type arithFn struct {
	File     string // path relative to repo root
	Recv     string // receiver type name ("" for plain func)
	Name     string
	LeanName string
}

type unsupported struct{ msg string }

func failf(fset *token.FileSet, n ast.Node, format string, a ...interface{}) {
	pos := fset.Position(n.Pos())
	panic(unsupported{fmt.Sprintf("construct not supported at %s:%d: %s", pos.Filename, pos.Line, fmt.Sprintf(format, a...))})
}

func findFunc(f *ast.File, recv, name string) *ast.FuncDecl {
	for _, d := range f.Decls {
		fd, ok := d.(*ast.FuncDecl)
		if !ok || fd.Name.Name != name {
			continue
		}
		if recv == "" && fd.Recv == nil {
			return fd
		}
		if recv != "" && fd.Recv != nil && len(fd.Recv.List) == 1 {
			t := fd.Recv.List[0].Type
			if st, ok := t.(*ast.StarExpr); ok {
				t = st.X
			}
			if id, ok := t.(*ast.Ident); ok && id.Name == recv {
				return fd
			}
		}
	}
	return nil
}

type arithCtx struct {
	fset     *token.FileSet
	recvName string
	fields   map[string]bool // receiver fields used
	results  []string
	resTypes []string // "Int" or "Bool"
}

func (c *arithCtx) expr(e ast.Expr) string {
	switch x := e.(type) {
	case *ast.ParenExpr:
		return "(" + c.expr(x.X) + ")"
	case *ast.BasicLit:
		if x.Kind == token.INT {
			return "(" + x.Value + " : Int)"
		}
	case *ast.Ident:
		if x.Name == "true" || x.Name == "false" {
			return x.Name
		}
		return "v_" + x.Name
	case *ast.SelectorExpr:
		if id, ok := x.X.(*ast.Ident); ok {
			if id.Name == c.recvName && c.recvName != "" {
				c.fields[x.Sel.Name] = true
				return "f_" + x.Sel.Name
			}
			if id.Name == "time" && x.Sel.Name == "Millisecond" {
				return "(1000000 : Int)"
			}
		}
	case *ast.CallExpr:
		if id, ok := x.Fun.(*ast.Ident); ok && len(x.Args) == 1 {
			switch id.Name {
			case "int64", "int", "int32", "uint64":
				return c.expr(x.Args[0])
			}
		}
	case *ast.UnaryExpr:
		switch x.Op {
		case token.SUB:
			return "(-" + c.expr(x.X) + ")"
		case token.NOT:
			return "(!" + c.expr(x.X) + ")"
		}
	case *ast.BinaryExpr:
		l, r := c.expr(x.X), c.expr(x.Y)
		switch x.Op {
		case token.ADD:
			return "(" + l + " + " + r + ")"
		case token.SUB:
			return "(" + l + " - " + r + ")"
		case token.MUL:
			return "(" + l + " * " + r + ")"
		case token.QUO:
			return "(Int.tdiv " + l + " " + r + ")"
		case token.REM:
			return "(Int.tmod " + l + " " + r + ")"
		case token.LSS:
			return "(decide (" + l + " < " + r + "))"
		case token.LEQ:
			return "(decide (" + l + " ≤ " + r + "))"
		case token.GTR:
			return "(decide (" + l + " > " + r + "))"
		case token.GEQ:
			return "(decide (" + l + " ≥ " + r + "))"
		case token.EQL:
			return "(decide (" + l + " = " + r + "))"
		case token.NEQ:
			return "(decide (" + l + " ≠ " + r + "))"
		case token.LAND:
			return "(" + l + " && " + r + ")"
		case token.LOR:
			return "(" + l + " || " + r + ")"
		}
	}
	failf(c.fset, e, "expression %T", e)
	return ""
}

func (c *arithCtx) ret(r *ast.ReturnStmt) string {
	var parts []string
	if len(r.Results) == 0 {
		for _, n := range c.results {
			parts = append(parts, "v_"+n)
		}
	} else {
		for _, e := range r.Results {
			parts = append(parts, c.expr(e))
		}
	}
	if len(parts) == 1 {
		return parts[0]
	}
	return "(" + strings.Join(parts, ", ") + ")"
}

// stmts renders a statement list that must end in a return on every path.
func (c *arithCtx) stmts(list []ast.Stmt, indent string) string {
	if len(list) == 0 {
		panic(unsupported{"construct not supported: block falls off its end"})
	}
	s := list[0]
	rest := list[1:]
	switch x := s.(type) {
	case *ast.ReturnStmt:
		return indent + c.ret(x)
	case *ast.AssignStmt:
		if len(x.Lhs) == 1 && len(x.Rhs) == 1 && (x.Tok == token.DEFINE || x.Tok == token.ASSIGN) {
			id, ok := x.Lhs[0].(*ast.Ident)
			if ok {
				return indent + "let v_" + id.Name + " := " + c.expr(x.Rhs[0]) + "\n" + c.stmts(rest, indent)
			}
		}
	case *ast.IfStmt:
		if x.Init == nil && x.Else == nil {
			return indent + "if " + c.expr(x.Cond) + " then\n" + c.stmts(x.Body.List, indent+"  ") + "\n" +
				indent + "else\n" + c.stmts(rest, indent)
		}
	}
	failf(c.fset, s, "statement %T", s)
	return ""
}

func translateArith(repo string, fn arithFn) (lean string, err error) {
	defer func() {
		if r := recover(); r != nil {
			if u, ok := r.(unsupported); ok {
				err = fmt.Errorf("%s", u.msg)
				return
			}
			panic(r)
		}
	}()
	fset := token.NewFileSet()
	f, perr := parser.ParseFile(fset, repo+"/"+fn.File, nil, 0)
	if perr != nil {
		return "", perr
	}
	fd := findFunc(f, fn.Recv, fn.Name)
	if fd == nil || fd.Body == nil {
		return "", fmt.Errorf("function %s.%s not found in %s", fn.Recv, fn.Name, fn.File)
	}
	c := &arithCtx{fset: fset, fields: map[string]bool{}}
	if fd.Recv != nil && len(fd.Recv.List[0].Names) == 1 {
		c.recvName = fd.Recv.List[0].Names[0].Name
	}
	var params []string
	for _, p := range fd.Type.Params.List {
		for _, n := range p.Names {
			params = append(params, "v_"+n.Name)
		}
	}
	leanType := func(t ast.Expr) string {
		if id, ok := t.(*ast.Ident); ok {
			switch id.Name {
			case "bool":
				return "Bool"
			case "int", "int64", "int32", "uint64":
				return "Int"
			}
		}
		failf(fset, t, "result type")
		return ""
	}
	var named bool
	if fd.Type.Results != nil {
		for _, r := range fd.Type.Results.List {
			if len(r.Names) == 0 {
				c.resTypes = append(c.resTypes, leanType(r.Type))
				continue
			}
			named = true
			for _, n := range r.Names {
				c.results = append(c.results, n.Name)
				c.resTypes = append(c.resTypes, leanType(r.Type))
			}
		}
	}
	body := fd.Body.List
	// a function with named results may fall off... Go requires a final return; keep as is.
	text := c.stmts(body, "  ")
	var fields []string
	for k := range c.fields {
		fields = append(fields, k)
	}
	sort.Strings(fields)
	var sb strings.Builder
	fmt.Fprintf(&sb, "/-- generated from %s: func %s%s -/\n", fn.File, func() string {
		if fn.Recv != "" {
			return "(" + fn.Recv + ") "
		}
		return ""
	}(), fn.Name)
	fmt.Fprintf(&sb, "def %s", fn.LeanName)
	for _, k := range fields {
		fmt.Fprintf(&sb, " (f_%s : Int)", k)
	}
	for _, p := range params {
		fmt.Fprintf(&sb, " (%s : Int)", p)
	}
	fmt.Fprintf(&sb, " : %s :=\n", strings.Join(c.resTypes, " × "))
	if named {
		for i, n := range c.results {
			init := "(0 : Int)"
			if c.resTypes[i] == "Bool" {
				init = "false"
			}
			fmt.Fprintf(&sb, "  let v_%s := %s\n", n, init)
		}
	}
	sb.WriteString(text)
	sb.WriteString("\n")
	return sb.String(), nil
}
