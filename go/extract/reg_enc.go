package main

// Encoder-schema extractor of engine `enc` (C08, C07).
//
// Walks the bodies of ledger.MakeBlockID (with encodeFailedTxs / encodeJustify),
// txhash.txDigestHashV2 and txhash.encodeTxData and emits the *sequence of
// write calls* they perform as a flat list of schema items
// (XV.Enc.Item: path, kind, guards, enclosing loops), plus the field list of the
// Transaction / InternalBlock protobuf messages read from the .pb.go struct tags.
// Output: lean/XV/Gen/BlockId.lean, lean/XV/Gen/TxDigest.lean and the same data
// as JSON (Gen/enc_schemas.json) for the Go-side schema interpreter of the
// harness, which must reproduce the real hashes (that validates this extractor).
//
// Any statement outside the recognised subset aborts with
// "construct not supported at file:line" (a broken tie).

import (
	"encoding/json"
	"fmt"
	"go/ast"
	"go/parser"
	"go/token"
	"go/types"
	"path/filepath"
	"sort"
	"strings"
)

type encItem struct {
	Path  string   `json:"path"`
	Kind  string   `json:"kind"`
	Conds []string `json:"conds"`
	Loops []string `json:"loops"`
}

type pbField struct {
	Name string
	Type string
}

type pbInfo struct {
	structs map[string][]pbField // struct name -> proto fields in declaration order
	named   map[string]string    // named non-struct type -> underlying
}

func loadPb(repo string, dirs ...string) (*pbInfo, error) {
	info := &pbInfo{structs: map[string][]pbField{}, named: map[string]string{}}
	for _, d := range dirs {
		files, _ := filepath.Glob(filepath.Join(repo, d, "*.pb.go"))
		for _, fn := range files {
			fset := token.NewFileSet()
			f, err := parser.ParseFile(fset, fn, nil, 0)
			if err != nil {
				return nil, err
			}
			for _, decl := range f.Decls {
				gd, ok := decl.(*ast.GenDecl)
				if !ok || gd.Tok != token.TYPE {
					continue
				}
				for _, sp := range gd.Specs {
					ts := sp.(*ast.TypeSpec)
					st, ok := ts.Type.(*ast.StructType)
					if !ok {
						info.named[ts.Name.Name] = types.ExprString(ts.Type)
						continue
					}
					var fs []pbField
					for _, fl := range st.Fields.List {
						if fl.Tag == nil || !strings.Contains(fl.Tag.Value, "protobuf:") {
							continue
						}
						for _, n := range fl.Names {
							fs = append(fs, pbField{n.Name, types.ExprString(fl.Type)})
						}
					}
					if _, dup := info.structs[ts.Name.Name]; !dup {
						info.structs[ts.Name.Name] = fs
					}
				}
			}
		}
	}
	return info, nil
}

func baseType(t string) string {
	t = strings.TrimPrefix(t, "*")
	if i := strings.LastIndex(t, "."); i >= 0 {
		t = t[i+1:]
	}
	return t
}

func (p *pbInfo) underlying(t string) string {
	for i := 0; i < 4; i++ {
		if u, ok := p.named[baseType(t)]; ok {
			t = u
			continue
		}
		break
	}
	return t
}

func (p *pbInfo) field(structType, name string) (string, bool) {
	for _, f := range p.structs[baseType(structType)] {
		if f.Name == name {
			return f.Type, true
		}
	}
	return "", false
}

// leafPaths expands a message into the paths of its scalar leaves.
func (p *pbInfo) leafPaths(structType, prefix string, depth int) []string {
	var out []string
	for _, f := range p.structs[baseType(structType)] {
		path := f.Name
		if prefix != "" {
			path = prefix + "." + f.Name
		}
		t := f.Type
		elem := t
		if strings.HasPrefix(t, "[]") && t != "[]byte" {
			elem = t[2:]
			path += "[]"
		}
		if _, isStruct := p.structs[baseType(elem)]; isStruct && depth < 4 {
			out = append(out, p.leafPaths(elem, path, depth+1)...)
		} else {
			out = append(out, path)
		}
	}
	return out
}

type binding struct {
	path   string
	typ    string
	mapKey bool // a key of map `path`
	sorted bool
	mapVal bool // the value of map `path` at an iterated key
}

type keyList struct {
	mapPath string
	sorted  bool
}

type encWalker struct {
	fset    *token.FileSet
	file    *ast.File
	pb      *pbInfo
	style   string // "binary" | "framed" | "json"
	env     map[string]binding
	keys    map[string]*keyList
	funcs   map[string]*ast.FuncLit
	conds   []string
	loops   []string
	items   []encItem
	flags   map[string]bool // boolean parameters (includeSigns)
	hashFun string
}

func join(p, f string) string {
	if p == "" {
		return f
	}
	return p + "." + f
}

func (w *encWalker) resolve(e ast.Expr) (binding, bool) {
	switch x := e.(type) {
	case *ast.ParenExpr:
		return w.resolve(x.X)
	case *ast.Ident:
		b, ok := w.env[x.Name]
		return b, ok
	case *ast.SelectorExpr:
		b, ok := w.resolve(x.X)
		if !ok {
			return b, false
		}
		t, ok := w.pb.field(b.typ, x.Sel.Name)
		if !ok {
			return b, false
		}
		return binding{path: join(b.path, x.Sel.Name), typ: t}, true
	case *ast.CallExpr:
		// nil-safe getter: X.GetF()
		if se, ok := x.Fun.(*ast.SelectorExpr); ok && len(x.Args) == 0 && strings.HasPrefix(se.Sel.Name, "Get") {
			b, ok := w.resolve(se.X)
			if !ok {
				return b, false
			}
			name := strings.TrimPrefix(se.Sel.Name, "Get")
			t, ok := w.pb.field(b.typ, name)
			if !ok {
				return b, false
			}
			return binding{path: join(b.path, name), typ: t}, true
		}
	case *ast.IndexExpr:
		m, ok := w.resolve(x.X)
		if !ok || !strings.HasPrefix(m.typ, "map[string]") {
			return m, false
		}
		k, ok := w.resolve(x.Index)
		if !ok || !k.mapKey || k.path != m.path {
			return m, false
		}
		return binding{path: m.path, typ: strings.TrimPrefix(m.typ, "map[string]"), mapVal: true, sorted: k.sorted}, true
	}
	return binding{}, false
}

func (w *encWalker) emit(path, kind string) {
	w.items = append(w.items, encItem{Path: path, Kind: kind,
		Conds: append([]string{}, w.conds...), Loops: append([]string{}, w.loops...)})
}

// value written by one encode call
func (w *encWalker) write(arg ast.Expr) {
	conv := ""
	if ce, ok := arg.(*ast.CallExpr); ok && len(ce.Args) == 1 {
		switch f := ce.Fun.(type) {
		case *ast.Ident:
			if f.Name == "len" && w.style == "framed" {
				b, ok := w.resolve(ce.Args[0])
				if !ok {
					failf(w.fset, arg, "cannot resolve %s", types.ExprString(arg))
				}
				w.emit(b.path, "count")
				return
			}
			if f.Name == "int32" || f.Name == "int64" || f.Name == "int" || f.Name == "string" {
				conv = f.Name
				arg = ce.Args[0]
			}
		case *ast.ArrayType:
			if types.ExprString(f) == "[]byte" {
				conv = "[]byte"
				arg = ce.Args[0]
			}
		}
	}
	b, ok := w.resolve(arg)
	if !ok {
		failf(w.fset, arg, "cannot resolve %s", types.ExprString(arg))
	}
	t := w.pb.underlying(b.typ)
	if conv != "" {
		t = conv
	}
	if b.mapVal || b.mapKey {
		if w.style != "binary" || (t != "[]byte" && t != "string") {
			failf(w.fset, arg, "map element written in unsupported way")
		}
		kind := "mapValsUnsorted"
		if b.mapKey {
			kind = "mapKeysSorted"
			if !b.sorted {
				failf(w.fset, arg, "unsorted map keys written")
			}
		} else if b.sorted {
			kind = "mapValsSorted"
		}
		// the loop over the key list is implied by the kind
		save := w.loops
		w.loops = w.loops[:len(w.loops)-1]
		w.emit(b.path, kind)
		w.loops = save
		return
	}
	switch w.style {
	case "binary":
		switch t {
		case "int32":
			w.emit(b.path, "le32")
		case "int64":
			w.emit(b.path, "le64")
		case "[]byte", "string":
			if t == "string" && conv == "" {
				failf(w.fset, arg, "binary.Write of a string")
			}
			w.emit(b.path, "raw")
		default:
			failf(w.fset, arg, "binary.Write of type %s", t)
		}
	case "framed":
		switch t {
		case "bool", "int", "int32", "int64":
			w.emit(b.path, "i64")
		case "[]byte", "string":
			w.emit(b.path, "lenBytes")
		case "map[string][]byte":
			w.emit(b.path, "lenMap")
		default:
			failf(w.fset, arg, "Encode of type %s", t)
		}
	case "json":
		w.emit(b.path, "json")
	}
}

func (w *encWalker) cond(e ast.Expr) string {
	switch x := e.(type) {
	case *ast.ParenExpr:
		return w.cond(x.X)
	case *ast.BinaryExpr:
		return w.cond(x.X) + x.Op.String() + w.cond(x.Y)
	case *ast.BasicLit:
		return x.Value
	case *ast.Ident:
		if x.Name == "nil" || x.Name == "true" || x.Name == "false" {
			return x.Name
		}
		if w.flags[x.Name] {
			return x.Name
		}
	case *ast.CallExpr:
		if id, ok := x.Fun.(*ast.Ident); ok && id.Name == "len" && len(x.Args) == 1 {
			return "len(" + w.cond(x.Args[0]) + ")"
		}
	}
	if b, ok := w.resolve(e); ok && !b.mapKey && !b.mapVal {
		return b.path
	}
	failf(w.fset, e, "condition %s", types.ExprString(e))
	return ""
}

func isErrCheck(e ast.Expr) bool {
	be, ok := e.(*ast.BinaryExpr)
	if !ok {
		return false
	}
	id, ok := be.X.(*ast.Ident)
	return ok && strings.HasSuffix(strings.ToLower(id.Name), "err") && types.ExprString(be.Y) == "nil"
}

var ignoredCalls = map[string]bool{"new": true, "sha256.New": true, "newEncoder": true, "json.NewEncoder": true,
	"sha256.Sum256": true, "make": true}

func (w *encWalker) call(ce *ast.CallExpr, lhs []ast.Expr, n ast.Node) {
	fun := types.ExprString(ce.Fun)
	switch {
	case fun == "binary.Write" && len(ce.Args) == 3:
		if w.style != "binary" || types.ExprString(ce.Args[1]) != "binary.LittleEndian" {
			failf(w.fset, n, "unexpected binary.Write")
		}
		w.write(ce.Args[2])
	case (fun == "enc.Encode" || fun == "encoder.Encode") && len(ce.Args) == 1:
		if w.style == "binary" {
			failf(w.fset, n, "unexpected Encode")
		}
		w.write(ce.Args[0])
	case fun == "sort.Strings" && len(ce.Args) == 1:
		id, ok := ce.Args[0].(*ast.Ident)
		if !ok || w.keys[id.Name] == nil {
			failf(w.fset, n, "sort of unknown list")
		}
		w.keys[id.Name].sorted = true
	case fun == "append":
		// ids = append(ids, k)
		if len(lhs) == 1 && len(ce.Args) == 2 {
			id, ok := lhs[0].(*ast.Ident)
			k, ok2 := w.resolve(ce.Args[1])
			if ok && ok2 && k.mapKey && w.keys[id.Name] != nil {
				w.keys[id.Name].mapPath = k.path
				return
			}
		}
		failf(w.fset, n, "append")
	case ignoredCalls[fun]:
	default:
		if id, ok := ce.Fun.(*ast.Ident); ok {
			// closure defined in the body
			if fl, ok := w.funcs[id.Name]; ok {
				w.inline(fl.Type, fl.Body, ce.Args, n)
				return
			}
			// helper function of the same file taking (buf, block)
			if fd := findFunc(w.file, "", id.Name); fd != nil {
				w.inline(fd.Type, fd.Body, ce.Args, n)
				return
			}
		}
		// getter chain bound to a variable: x := tx.GetXuperSign()
		if len(lhs) == 1 {
			if b, ok := w.resolve(ce); ok {
				w.env[lhs[0].(*ast.Ident).Name] = b
				return
			}
		}
		failf(w.fset, n, "call %s", fun)
	}
}

func (w *encWalker) inline(ft *ast.FuncType, body *ast.BlockStmt, args []ast.Expr, n ast.Node) {
	var params []string
	for _, f := range ft.Params.List {
		for _, nm := range f.Names {
			params = append(params, nm.Name)
		}
	}
	if len(params) != len(args) {
		failf(w.fset, n, "arity")
	}
	saved := map[string]binding{}
	for k, v := range w.env {
		saved[k] = v
	}
	for i, a := range args {
		if b, ok := w.resolve(a); ok {
			w.env[params[i]] = b
		}
	}
	conds := w.conds
	w.stmts(body.List)
	w.conds = conds // a persistent guard (`if x == nil { return }`) ends with the callee
	w.env = saved
}

func (w *encWalker) stmts(list []ast.Stmt) {
	for _, s := range list {
		w.stmt(s)
	}
}

func (w *encWalker) stmt(s ast.Stmt) {
	switch x := s.(type) {
	case *ast.DeclStmt, *ast.ReturnStmt:
		if r, ok := s.(*ast.ReturnStmt); ok && len(r.Results) > 0 {
			if ce, ok := r.Results[0].(*ast.CallExpr); ok {
				w.hashFun = types.ExprString(ce.Fun)
			}
		}
		return
	case *ast.ExprStmt:
		if ce, ok := x.X.(*ast.CallExpr); ok {
			w.call(ce, nil, s)
			return
		}
	case *ast.AssignStmt:
		if len(x.Rhs) == 1 {
			switch r := x.Rhs[0].(type) {
			case *ast.CallExpr:
				w.call(r, x.Lhs, s)
				return
			case *ast.FuncLit:
				w.funcs[x.Lhs[0].(*ast.Ident).Name] = r
				return
			case *ast.CompositeLit:
				if types.ExprString(r.Type) == "[]string" && len(r.Elts) == 0 {
					w.keys[x.Lhs[0].(*ast.Ident).Name] = &keyList{}
					return
				}
			case *ast.IndexExpr:
				if b, ok := w.resolve(r); ok {
					w.env[x.Lhs[0].(*ast.Ident).Name] = b
					return
				}
			}
		}
	case *ast.IfStmt:
		if x.Init != nil {
			w.stmt(x.Init)
		}
		if isErrCheck(x.Cond) {
			return
		}
		if x.Else != nil {
			failf(w.fset, s, "else branch")
		}
		// `if X == nil { return nil }` guards the rest of the function
		if be, ok := x.Cond.(*ast.BinaryExpr); ok && be.Op == token.EQL && types.ExprString(be.Y) == "nil" && len(x.Body.List) == 1 {
			if _, isRet := x.Body.List[0].(*ast.ReturnStmt); isRet {
				b, ok := w.resolve(be.X)
				if !ok {
					failf(w.fset, s, "guard")
				}
				w.conds = append(append([]string{}, w.conds...), b.path+"!=nil")
				return
			}
		}
		c := w.cond(x.Cond)
		saved := w.conds
		w.conds = append(append([]string{}, w.conds...), c)
		w.stmts(x.Body.List)
		w.conds = saved
		return
	case *ast.RangeStmt:
		saved := map[string]binding{}
		for k, v := range w.env {
			saved[k] = v
		}
		savedLoops := w.loops
		if id, ok := x.X.(*ast.Ident); ok && w.keys[id.Name] != nil {
			// for _, k := range ids
			kl := w.keys[id.Name]
			if x.Value == nil || kl.mapPath == "" {
				failf(w.fset, s, "range over key list")
			}
			w.env[x.Value.(*ast.Ident).Name] = binding{path: kl.mapPath, typ: "string", mapKey: true, sorted: kl.sorted}
			w.loops = append(append([]string{}, w.loops...), kl.mapPath+"{}")
		} else {
			b, ok := w.resolve(x.X)
			if !ok {
				failf(w.fset, s, "range over %s", types.ExprString(x.X))
			}
			switch {
			case strings.HasPrefix(b.typ, "map[string]"):
				if x.Value != nil || x.Key == nil {
					failf(w.fset, s, "range over map with value")
				}
				w.env[x.Key.(*ast.Ident).Name] = binding{path: b.path, typ: "string", mapKey: true}
			case strings.HasPrefix(b.typ, "[]") && b.typ != "[]byte":
				if x.Value == nil {
					failf(w.fset, s, "range without value")
				}
				w.env[x.Value.(*ast.Ident).Name] = binding{path: b.path + "[]", typ: b.typ[2:]}
				w.loops = append(append([]string{}, w.loops...), b.path)
			default:
				failf(w.fset, s, "range over type %s", b.typ)
			}
		}
		w.stmts(x.Body.List)
		w.loops = savedLoops
		w.env = saved
		return
	}
	failf(w.fset, s, "statement %T", s)
}

type encTarget struct {
	File, Func, Style, RootParam, RootType, LeanName string
}

func extractSchema(repo string, pb *pbInfo, t encTarget) (items []encItem, hashFun string, err error) {
	defer func() {
		if r := recover(); r != nil {
			if u, ok := r.(unsupported); ok {
				err = fmt.Errorf("%s", u.msg)
				return
			}
			panic(r)
		}
	}()
	fset := token.NewFileSet()
	f, perr := parser.ParseFile(fset, filepath.Join(repo, t.File), nil, 0)
	if perr != nil {
		return nil, "", perr
	}
	fd := findFunc(f, "", t.Func)
	if fd == nil {
		return nil, "", fmt.Errorf("func %s not found in %s", t.Func, t.File)
	}
	w := &encWalker{fset: fset, file: f, pb: pb, style: t.Style, env: map[string]binding{}, keys: map[string]*keyList{},
		funcs: map[string]*ast.FuncLit{}, flags: map[string]bool{}}
	for _, p := range fd.Type.Params.List {
		for _, n := range p.Names {
			if types.ExprString(p.Type) == "bool" {
				w.flags[n.Name] = true
			}
		}
	}
	w.env[t.RootParam] = binding{path: "", typ: t.RootType}
	w.stmts(fd.Body.List)
	return w.items, w.hashFun, nil
}

func leanStrList(xs []string) string {
	q := make([]string, len(xs))
	for i, x := range xs {
		q[i] = fmt.Sprintf("%q", x)
	}
	return "[" + strings.Join(q, ", ") + "]"
}

func leanSchema(name, doc string, items []encItem) string {
	var sb strings.Builder
	fmt.Fprintf(&sb, "/-- %s -/\ndef %s : List XV.Enc.Item := [\n", doc, name)
	for i, it := range items {
		sep := ","
		if i == len(items)-1 {
			sep = ""
		}
		fmt.Fprintf(&sb, "  ⟨%q, .%s, %s, %s⟩%s\n", it.Path, it.Kind, leanStrList(it.Conds), leanStrList(it.Loops), sep)
	}
	sb.WriteString("]\n\n")
	return sb.String()
}

func init() {
	generators = append(generators, func(repo, out string, report *[]string) error {
		pb, err := loadPb(repo, "bcs/ledger/xledger/xldgpb", "protos")
		if err != nil {
			return err
		}
		targets := []encTarget{
			{"bcs/ledger/xledger/ledger/ledger_hash.go", "MakeBlockID", "binary", "block", "InternalBlock", "blockIdSchema"},
			{"bcs/ledger/xledger/state/utxo/txhash/encode.go", "txDigestHashV2", "framed", "tx", "Transaction", "txDigestV3"},
			{"bcs/ledger/xledger/state/utxo/txhash/txhash.go", "encodeTxData", "json", "tx", "Transaction", "txDigestV1"},
		}
		all := map[string]interface{}{}
		lean := map[string]*strings.Builder{"BlockId": {}, "TxDigest": {}}
		for _, sb := range lean {
			sb.WriteString("-- GENERATED by /verif/go/extract (reg_enc.go) from /repo; do not edit.\nimport XV.Model.EncTypes\nnamespace XV.Gen\n\n")
		}
		for _, t := range targets {
			mod := "TxDigest"
			if t.Style == "binary" {
				mod = "BlockId"
			}
			items, hf, err := extractSchema(repo, pb, t)
			if err != nil {
				*report = append(*report, fmt.Sprintf("BROKEN %s: %v", t.LeanName, err))
				fmt.Fprintf(lean[mod], "-- extraction failed: %v\ndef brokenTie_%s : String := %q\n\n", err, t.LeanName, err.Error())
				continue
			}
			*report = append(*report, fmt.Sprintf("OK %s (%d items)", t.LeanName, len(items)))
			lean[mod].WriteString(leanSchema(t.LeanName, fmt.Sprintf("sequence of write calls of %s (%s)", t.Func, t.File), items))
			all[t.LeanName] = items
			if t.Style == "binary" {
				fmt.Fprintf(lean[mod], "def blockIdHash : String := %q\n\n", hf)
				all["blockIdHash"] = hf
			}
		}
		blockFields := pb.leafPaths("InternalBlock", "", 0) // Transactions not expanded
		var bf []string
		for _, f := range blockFields {
			if !strings.HasPrefix(f, "Transactions[]") {
				bf = append(bf, f)
			}
		}
		bf = append(bf, "Transactions[]")
		fmt.Fprintf(lean["BlockId"], "/-- scalar leaves of the InternalBlock protobuf message (from the .pb.go struct tags) -/\ndef blockFields : List String := %s\n\n", leanStrList(bf))
		txFields := pb.leafPaths("Transaction", "", 0)
		fmt.Fprintf(lean["TxDigest"], "/-- scalar leaves of the Transaction protobuf message and its sub-messages (from the .pb.go struct tags) -/\ndef txFields : List String := %s\n\n", leanStrList(txFields))
		all["blockFields"] = bf
		all["txFields"] = txFields
		*report = append(*report, fmt.Sprintf("OK pb field lists (block %d, tx %d)", len(bf), len(txFields)))
		for mod, sb := range lean {
			sb.WriteString("end XV.Gen\n")
			writeIfChanged(out+"/"+mod+".lean", sb.String())
		}
		keys := make([]string, 0, len(all))
		for k := range all {
			keys = append(keys, k)
		}
		sort.Strings(keys)
		js, _ := json.MarshalIndent(all, "", " ")
		writeIfChanged(out+"/enc_schemas.json", string(js)+"\n")
		return nil
	})
}
