package chainlib

import (
	"bytes"
	"fmt"
	"math/big"
	"sort"
	"strings"
	"time"

	"github.com/xuperchain/xupercore/bcs/ledger/xledger/state/utxo/txhash"
	"github.com/xuperchain/xupercore/bcs/ledger/xledger/state/xmodel"
	txn "github.com/xuperchain/xupercore/bcs/ledger/xledger/tx"
	pb "github.com/xuperchain/xupercore/bcs/ledger/xledger/xldgpb"
	"github.com/xuperchain/xupercore/kernel/contract"
	"github.com/xuperchain/xupercore/protos"

	"xv/xvlib"
)

// ---------------------------------------------------------------- $xvkv test kernel contract

const (
	KVContract = "$xvkv"
	KVBucket   = "xvkv"
)

// XvKV is the test kernel contract: it executes the little program in args["prog"]:
//
//	get k | put k v | del k | scan a b [n] | transfer to amount | fail | ret
//
// (';'-separated). The response body lists what each step observed.
type XvKV struct{}

func registerXvKV(cm contract.Manager) *XvKV {
	k := &XvKV{}
	defer func() { recover() }() // a second registration on the same registry panics nowhere; be safe
	cm.GetKernRegistry().RegisterKernMethod(KVContract, "run", k.run)
	return k
}

func (k *XvKV) run(ctx contract.KContext) (*contract.Response, error) {
	prog := string(ctx.Args()["prog"])
	var out []string
	for _, st := range strings.Split(prog, ";") {
		w := strings.Fields(st)
		if len(w) == 0 {
			continue
		}
		switch w[0] {
		case "get":
			v, err := ctx.Get(KVBucket, []byte(w[1]))
			if err != nil {
				out = append(out, "get:"+w[1]+"=<none>")
			} else {
				out = append(out, "get:"+w[1]+"="+string(v))
			}
		case "put":
			if err := ctx.Put(KVBucket, []byte(w[1]), []byte(w[2])); err != nil {
				return nil, err
			}
			out = append(out, "put:"+w[1])
		case "del":
			if err := ctx.Del(KVBucket, []byte(w[1])); err != nil {
				return nil, err
			}
			out = append(out, "del:"+w[1])
		case "scan":
			it, err := ctx.Select(KVBucket, []byte(w[1]), []byte(w[2]))
			if err != nil {
				return nil, err
			}
			max := -1
			if len(w) > 3 {
				fmt.Sscan(w[3], &max)
			}
			var ks []string
			for (max < 0 || len(ks) < max) && it.Next() {
				ks = append(ks, string(it.Key())+"="+string(it.Value()))
			}
			it.Close()
			out = append(out, "scan:["+strings.Join(ks, ",")+"]")
		case "transfer":
			amt, _ := new(big.Int).SetString(w[2], 10)
			if err := ctx.Transfer(ctx.Initiator(), w[1], amt); err != nil {
				return nil, err
			}
			out = append(out, "transfer:"+w[1]+":"+w[2])
		case "burn":
			n := int64(0)
			fmt.Sscan(w[1], &n)
			ctx.AddResourceUsed(contract.Limits{Cpu: n})
			out = append(out, "burn:"+w[1])
		case "fail":
			return &contract.Response{Status: 500, Message: "xvkv fail"}, nil
		case "err":
			return nil, fmt.Errorf("xvkv error")
		}
	}
	return &contract.Response{Status: 200, Body: []byte(strings.Join(out, "|"))}, nil
}

// ---------------------------------------------------------------- transactions

var nonceCtr int64

func nextNonce() string {
	nonceCtr++
	return fmt.Sprintf("xv%d", nonceCtr)
}

// Utxo names one unspent output.
type Utxo struct {
	Addr   string
	RefTx  []byte
	Offset int32
	Amount *big.Int
	Frozen int64
}

// Out is one output to create.
type Out struct {
	To     string
	Amount *big.Int
	Frozen int64
	Raw    []byte // if non-nil, the amount bytes used verbatim (leading zeros etc.)
}

// TransferTx builds a signed v3 transfer spending exactly the given outputs.
func TransferTx(from *xvlib.Account, ins []Utxo, outs []Out, desc string) (*pb.Transaction, error) {
	tx := &pb.Transaction{Version: 3, Nonce: nextNonce(), Timestamp: time.Now().UnixNano(), Desc: []byte(desc),
		Initiator: from.Address, AuthRequire: []string{from.Address}}
	for _, u := range ins {
		tx.TxInputs = append(tx.TxInputs, &protos.TxInput{RefTxid: u.RefTx, RefOffset: u.Offset, FromAddr: []byte(u.Addr),
			Amount: u.Amount.Bytes(), FrozenHeight: u.Frozen})
	}
	for _, o := range outs {
		amt := o.Raw
		if amt == nil {
			amt = o.Amount.Bytes()
		}
		tx.TxOutputs = append(tx.TxOutputs, &protos.TxOutput{ToAddr: []byte(o.To), Amount: amt, FrozenHeight: o.Frozen})
	}
	return Sign(tx, from)
}

// Sign (re)signs the transaction as initiator == single auth-require and recomputes its id.
func Sign(tx *pb.Transaction, from *xvlib.Account) (*pb.Transaction, error) {
	tx.InitiatorSigns, tx.AuthRequireSigns = nil, nil
	sig, err := txhash.ProcessSignTx(xvlib.Crypto(), tx, []byte(from.PriJSON))
	if err != nil {
		return nil, err
	}
	si := &protos.SignatureInfo{PublicKey: from.PubJSON, Sign: sig}
	tx.InitiatorSigns = []*protos.SignatureInfo{si}
	tx.AuthRequireSigns = []*protos.SignatureInfo{si}
	tx.Txid, err = txhash.MakeTransactionID(tx)
	return tx, err
}

// PreExecResult is what a pre-execution of $xvkv returned.
type PreExecResult struct {
	Body     string
	Status   int
	Inputs   []*protos.TxInputExt
	Outputs  []*protos.TxOutputExt
	Requests []*protos.InvokeRequest
	UtxoIn   []*protos.TxInput
	UtxoOut  []*protos.TxOutput
	Err      error
}

// PreExecKV pre-executes a $xvkv program in a sandbox over the node's live state (the same steps as
// Chain.PreExec for one request: sandbox, context with max limits, invoke, resource use, flush, rw set).
func (n *Node) PreExecKV(initiator string, prog string) *PreExecResult {
	r := &PreExecResult{}
	sb, err := n.CM.NewStateSandbox(&contract.SandboxConfig{XMReader: n.S.CreateXMReader(), UTXOReader: n.S.CreateUtxoReader()})
	if err != nil {
		r.Err = err
		return r
	}
	req := &protos.InvokeRequest{ModuleName: "xkernel", ContractName: KVContract, MethodName: "run",
		Args: map[string][]byte{"prog": []byte(prog)}}
	ctx, err := n.CM.NewContext(&contract.ContextConfig{State: sb, Initiator: initiator, AuthRequire: []string{initiator},
		ResourceLimits: contract.MaxLimits, Module: req.ModuleName, ContractName: req.ContractName})
	if err != nil {
		r.Err = err
		return r
	}
	resp, err := ctx.Invoke(req.MethodName, req.Args)
	if err != nil {
		ctx.Release()
		r.Err = err
		return r
	}
	used := ctx.ResourceUsed()
	ctx.Release()
	r.Status = resp.Status
	r.Body = string(resp.Body)
	if err := sb.Flush(); err != nil {
		r.Err = err
		return r
	}
	rw := sb.RWSet()
	urw := sb.UTXORWSet()
	rq := *req
	rq.ResourceLimits = contract.ToPbLimits(used)
	r.Requests = []*protos.InvokeRequest{&rq}
	r.Inputs = xmodel.GetTxInputs(rw.RSet)
	r.Outputs = xmodel.GetTxOutputs(rw.WSet)
	r.UtxoIn = urw.Rset
	r.UtxoOut = urw.WSet
	return r
}

// PreExecReq pre-executes one request of any kernel contract in a sandbox over the node's live state (the steps of
// Chain.PreExec for one request). The result can be held and assembled into a transaction later (ContractTx): two
// results computed on the same state stand for two clients that pre-executed before either submitted.
func (n *Node) PreExecReq(initiator string, authRequire []string, req *protos.InvokeRequest) *PreExecResult {
	r := &PreExecResult{}
	sb, err := n.CM.NewStateSandbox(&contract.SandboxConfig{XMReader: n.S.CreateXMReader(), UTXOReader: n.S.CreateUtxoReader()})
	if err != nil {
		r.Err = err
		return r
	}
	ctx, err := n.CM.NewContext(&contract.ContextConfig{State: sb, Initiator: initiator, AuthRequire: authRequire,
		ResourceLimits: contract.MaxLimits, Module: req.ModuleName, ContractName: req.ContractName})
	if err != nil {
		r.Err = err
		return r
	}
	resp, err := ctx.Invoke(req.MethodName, req.Args)
	if err != nil {
		ctx.Release()
		r.Err = err
		return r
	}
	used := ctx.ResourceUsed()
	ctx.Release()
	r.Status = resp.Status
	r.Body = string(resp.Body)
	if err := sb.Flush(); err != nil {
		r.Err = err
		return r
	}
	rw := sb.RWSet()
	urw := sb.UTXORWSet()
	rq := *req
	rq.ResourceLimits = contract.ToPbLimits(used)
	r.Requests = []*protos.InvokeRequest{&rq}
	r.Inputs = xmodel.GetTxInputs(rw.RSet)
	r.Outputs = xmodel.GetTxOutputs(rw.WSet)
	r.UtxoIn = urw.Rset
	r.UtxoOut = urw.WSet
	return r
}

// ContractTx assembles and signs the transaction for a pre-execution result (no-fee chains: no token inputs
// unless the contract transferred).
func ContractTx(from *xvlib.Account, r *PreExecResult, desc string) (*pb.Transaction, error) {
	tx := &pb.Transaction{Version: 3, Nonce: nextNonce(), Timestamp: time.Now().UnixNano(), Desc: []byte(desc),
		Initiator: from.Address, AuthRequire: []string{from.Address},
		ContractRequests: r.Requests, TxInputsExt: r.Inputs, TxOutputsExt: r.Outputs,
		TxInputs: r.UtxoIn, TxOutputs: r.UtxoOut}
	return Sign(tx, from)
}

// ---------------------------------------------------------------- blocks

// AwardTx builds the coinbase of a block at the given height for the proposer.
func (n *Node) AwardTx(proposer string, height int64) (*pb.Transaction, error) {
	amt := n.L.GenesisBlock.CalcAward(height)
	return txn.GenerateAwardTx(proposer, amt.String(), []byte(fmt.Sprintf("award-%d-%s", height, nextNonce())))
}

// MakeBlock formats a signed block (award first, then txs) on top of pre.
func (n *Node) MakeBlock(proposer *xvlib.Account, pre []byte, height int64, txs []*pb.Transaction, ts int64) (*pb.InternalBlock, error) {
	award, err := n.AwardTx(proposer.Address, height)
	if err != nil {
		return nil, err
	}
	list := append([]*pb.Transaction{award}, txs...)
	return n.L.FormatMinerBlock(list, []byte(proposer.Address), proposer.Pri, ts, 0, 0, pre, 0, n.S.GetTotal(), nil, nil, height)
}

// CloneBlock deep-copies a block (ConfirmBlock mutates its argument).
func CloneBlock(b *pb.InternalBlock) *pb.InternalBlock {
	c := *b
	c.Transactions = make([]*pb.Transaction, len(b.Transactions))
	for i, t := range b.Transactions {
		tc := *t
		c.Transactions[i] = &tc
	}
	c.MerkleTree = append([][]byte{}, b.MerkleTree...)
	if b.FailedTxs != nil {
		c.FailedTxs = map[string]string{}
		for k, v := range b.FailedTxs {
			c.FailedTxs[k] = v
		}
	}
	return &c
}

// ---------------------------------------------------------------- observers

// ScanTable returns the raw sorted rows of a state-db table (by prefix).
func (n *Node) ScanTable(prefix string) [][2]string {
	it := n.S.GetLDB().NewIteratorWithPrefix([]byte(prefix))
	defer it.Release()
	var rows [][2]string
	for it.Next() {
		rows = append(rows, [2]string{string(it.Key()), string(it.Value())})
	}
	sort.Slice(rows, func(i, j int) bool { return rows[i][0] < rows[j][0] })
	return rows
}

// LedgerScan returns the raw sorted rows of a ledger-db table.
func (n *Node) LedgerScan(prefix string) [][2]string {
	it := n.L.GetLDB().NewIteratorWithPrefix([]byte(prefix))
	defer it.Release()
	var rows [][2]string
	for it.Next() {
		rows = append(rows, [2]string{string(it.Key()), string(it.Value())})
	}
	sort.Slice(rows, func(i, j int) bool { return rows[i][0] < rows[j][0] })
	return rows
}

// KVGet reads a $xvkv key through the live reader: value ("" + deleted flag), version txid, offset.
func (n *Node) KVGet(key string) (val string, refTx []byte, off int32, err error) {
	vd, err := n.S.CreateXMReader().Get(KVBucket, []byte(key))
	if err != nil {
		return "", nil, 0, err
	}
	if vd == nil || vd.PureData == nil {
		return "", nil, 0, nil
	}
	return string(vd.PureData.Value), vd.RefTxid, vd.RefOffset, nil
}

func BytesEq(a, b []byte) bool { return bytes.Equal(a, b) }
