package chainlib

import (
	"sync/atomic"

	"github.com/xuperchain/xupercore/lib/logs"
)

// HookLog wraps the state's logger: every log call of the code under test is a point at which the harness can hold the
// calling goroutine (a yield point that needs no change to the code: log calls sit inside and between the critical
// sections of output selection and admission).
type HookLog struct{ logs.Logger }

var logHook atomic.Value // func(msg string)

type hookFn struct{ f func(msg string) }

// SetLogHook installs (or with nil removes) the function called before every log call of a node's state.
func SetLogHook(f func(msg string)) { logHook.Store(hookFn{f}) }

func fire(msg string) {
	if h, ok := logHook.Load().(hookFn); ok && h.f != nil {
		h.f(msg)
	}
}

func (l *HookLog) Error(msg string, ctx ...interface{}) { fire(msg); l.Logger.Error(msg, ctx...) }
func (l *HookLog) Warn(msg string, ctx ...interface{})  { fire(msg); l.Logger.Warn(msg, ctx...) }
func (l *HookLog) Info(msg string, ctx ...interface{})  { fire(msg); l.Logger.Info(msg, ctx...) }
func (l *HookLog) Trace(msg string, ctx ...interface{}) { fire(msg); l.Logger.Trace(msg, ctx...) }
func (l *HookLog) Debug(msg string, ctx ...interface{}) { fire(msg); l.Logger.Debug(msg, ctx...) }
