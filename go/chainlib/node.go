// Package chainlib bootstraps real xupercore nodes (ledger + state machine + contract manager +
// ACL / govern-token / proposal / timer kernel contracts) in-process on the instrumented in-memory
// kvdb engine, and offers builders for signed transactions and blocks. Everything goes through the
// repository's public APIs (plus the `verif`-tagged export shims listed in MANIFEST.hooks).
package chainlib

import (
	"encoding/json"
	"fmt"
	"io/ioutil"
	"os"
	"path/filepath"

	"github.com/xuperchain/xupercore/bcs/ledger/xledger/ledger"
	"github.com/xuperchain/xupercore/bcs/ledger/xledger/state"
	sctx "github.com/xuperchain/xupercore/bcs/ledger/xledger/state/context"
	txn "github.com/xuperchain/xupercore/bcs/ledger/xledger/tx"
	pb "github.com/xuperchain/xupercore/bcs/ledger/xledger/xldgpb"
	"github.com/xuperchain/xupercore/kernel/common/xaddress"
	xconf "github.com/xuperchain/xupercore/kernel/common/xconfig"
	"github.com/xuperchain/xupercore/kernel/contract"
	_ "github.com/xuperchain/xupercore/kernel/contract/kernel"
	_ "github.com/xuperchain/xupercore/kernel/contract/manager"
	governToken "github.com/xuperchain/xupercore/kernel/contract/proposal/govern_token"
	"github.com/xuperchain/xupercore/kernel/contract/proposal/propose"
	timerTask "github.com/xuperchain/xupercore/kernel/contract/proposal/timer"
	"github.com/xuperchain/xupercore/kernel/engines/xuperos/agent"
	"github.com/xuperchain/xupercore/kernel/engines/xuperos/common"
	engconf "github.com/xuperchain/xupercore/kernel/engines/xuperos/config"
	"github.com/xuperchain/xupercore/kernel/permission/acl"
	actx "github.com/xuperchain/xupercore/kernel/permission/acl/context"
	"github.com/xuperchain/xupercore/lib/timer"

	"xv/kvmem"
	"xv/xvlib"
)

const BCName = "xuper"

// Genesis describes the genesis configuration used by a scenario.
type Genesis struct {
	Alloc       map[string]string // address -> quota
	AllocOrder  []string
	Award       string
	NoFee       bool
	SlideWindow int64
	MaxBlockMB  int
}

func (g *Genesis) JSON() []byte {
	type pd struct {
		Address string `json:"address"`
		Quota   string `json:"quota"`
	}
	var pds []pd
	for _, a := range g.AllocOrder {
		pds = append(pds, pd{a, g.Alloc[a]})
	}
	mb := g.MaxBlockMB
	if mb == 0 {
		mb = 16
	}
	m := map[string]interface{}{
		"version": "1", "predistribution": pds, "maxblocksize": fmt.Sprint(mb), "award": g.Award,
		"decimals": "8", "nofee": g.NoFee, "period": "3000",
		"irreversibleslidewindow":     fmt.Sprint(g.SlideWindow),
		"new_account_resource_amount": 0,
		"gas_price":                   map[string]int{"cpu_rate": 0, "mem_rate": 0, "disk_rate": 0, "xfee_rate": 0},
		"genesis_consensus":           map[string]interface{}{"name": "single", "config": map[string]interface{}{"miner": "x", "period": 3000}},
	}
	b, _ := json.Marshal(m)
	return b
}

// Node is one in-process replica.
type Node struct {
	Name    string
	Root    string // env root path (also the prefix of its kvmem stores)
	Env     *xconf.EnvConf
	L       *ledger.Ledger
	S       *state.State
	CM      contract.Manager
	Ctx     *common.ChainCtx
	Genesis []byte
	Miner   *xvlib.Account
	KV      *XvKV
}

func envFor(scratch, name string) *xconf.EnvConf {
	root := filepath.Join(scratch, "nodes", name)
	conf := filepath.Join(root, "conf")
	os.MkdirAll(conf, 0755)
	ioutil.WriteFile(filepath.Join(conf, "ledger.yaml"),
		[]byte("kvEngineType: "+kvmem.Engine+"\nstorageType: single\nutxo:\n  cachesize: 1000\n  tmplockSeconds: 60\n"), 0644)
	e := xconf.GetDefEnvConf()
	e.RootPath = root
	e.ChainDir = "chain"
	return e
}

// RootFor is the env root (and kvmem store prefix) of the node with the given name.
func RootFor(scratch, name string) string { return filepath.Join(scratch, "nodes", name) }

// StorePrefix is the path prefix under which the node's kvmem stores live.
func (n *Node) StorePrefix() string { return n.Root }
func (n *Node) LedgerPath() string {
	return filepath.Join(n.Env.GenDataAbsPath(n.Env.ChainDir), BCName, "ledger")
}
func (n *Node) StatePath() string {
	return filepath.Join(n.Env.GenDataAbsPath(n.Env.ChainDir), BCName, "utxoVM")
}

// NewNode creates a fresh node: ledger with confirmed + played root block.
func NewNode(scratch, name string, genesis []byte, miner *xvlib.Account) (*Node, error) {
	env := envFor(scratch, name)
	kvmem.Drop(env.RootPath)
	n := &Node{Name: name, Root: env.RootPath, Env: env, Genesis: genesis, Miner: miner}
	lctx, err := ledger.NewLedgerCtx(env, BCName)
	if err != nil {
		return nil, err
	}
	lctx.LedgerCfg.KVEngineType = kvmem.Engine
	n.L, err = ledger.CreateLedger(lctx, genesis)
	if err != nil {
		return nil, err
	}
	rootTx, err := txn.GenerateRootTx(genesis)
	if err != nil {
		return nil, err
	}
	rb, err := n.L.FormatRootBlock([]*pb.Transaction{rootTx})
	if err != nil {
		return nil, err
	}
	if st := n.L.ConfirmBlock(rb, true); !st.Succ {
		return nil, fmt.Errorf("confirm root failed: %v", st.Error)
	}
	if err := n.openState(); err != nil {
		return nil, err
	}
	if err := n.S.Play(rb.Blockid); err != nil {
		return nil, fmt.Errorf("play root: %v", err)
	}
	return n, nil
}

// Reopen builds new Go objects (ledger, state, managers) over the node's current storage image.
func (n *Node) Reopen() error {
	lctx, err := ledger.NewLedgerCtx(n.Env, BCName)
	if err != nil {
		return err
	}
	lctx.LedgerCfg.KVEngineType = kvmem.Engine
	n.L, err = ledger.OpenLedger(lctx)
	if err != nil {
		return fmt.Errorf("open ledger: %v", err)
	}
	return n.openState()
}

// OpenCopy opens a second node on a copy of this node's storage image.
func (n *Node) OpenCopy(scratch, name string) (*Node, error) {
	env := envFor(scratch, name)
	kvmem.Drop(env.RootPath)
	kvmem.CopyPrefix(n.Root, env.RootPath)
	c := &Node{Name: name, Root: env.RootPath, Env: env, Genesis: n.Genesis, Miner: n.Miner}
	if err := c.Reopen(); err != nil {
		return nil, err
	}
	return c, nil
}

// OpenOn opens a node on whatever image is stored under the given name's prefix.
func OpenOn(scratch, name string, genesis []byte, miner *xvlib.Account) (*Node, error) {
	env := envFor(scratch, name)
	c := &Node{Name: name, Root: env.RootPath, Env: env, Genesis: genesis, Miner: miner}
	if err := c.Reopen(); err != nil {
		return nil, err
	}
	return c, nil
}

func (n *Node) openState() error {
	crypt := xvlib.Crypto()
	sc, err := sctx.NewStateCtx(n.Env, BCName, n.L, crypt)
	if err != nil {
		return err
	}
	sc.LedgerCfg.KVEngineType = kvmem.Engine
	sc.XLog = &HookLog{sc.XLog}
	n.S, err = state.NewState(sc)
	if err != nil {
		return fmt.Errorf("new state: %v", err)
	}
	cctx := &common.ChainCtx{BCName: BCName, Ledger: n.L, State: n.S, Crypto: crypt,
		EngCtx: &common.EngineCtx{EnvCfg: n.Env, EngCfg: engconf.GetDefEngineConf()}}
	cctx.XLog = xvlib.Logger("chain")
	cctx.Timer = timer.NewXTimer()
	cctx.EngCtx.XLog = cctx.XLog
	if n.Miner != nil {
		cctx.Address = &xaddress.Address{Address: n.Miner.Address, PrivateKeyStr: n.Miner.PriJSON, PublicKeyStr: n.Miner.PubJSON,
			PrivateKey: n.Miner.Pri, PublicKey: n.Miner.Pub}
	}
	cfg := contract.DefaultContractConfig()
	cfg.Wasm.Enable = false
	cfg.Native.Enable = false
	cfg.EVM.Enable = false
	cfg.EnableDebugLog = false
	basedir := filepath.Join(n.Env.GenDataAbsPath(n.Env.ChainDir), BCName)
	n.CM, err = contract.CreateManager("default", &contract.ManagerConfig{BCName: BCName, Basedir: basedir,
		Core: agent.NewChainCoreAgent(cctx), XMReader: n.S.CreateXMReader(), Config: cfg})
	if err != nil {
		return fmt.Errorf("contract manager: %v", err)
	}
	cctx.Contract = n.CM
	n.S.SetContractMG(n.CM)
	la := agent.NewLedgerAgent(cctx)
	aclCtx, err := actx.NewAclCtx(BCName, la, n.CM)
	if err != nil {
		return err
	}
	aclMgr, err := acl.NewACLManager(aclCtx)
	if err != nil {
		return fmt.Errorf("acl: %v", err)
	}
	cctx.Acl = aclMgr
	n.S.SetAclMG(aclMgr)
	gctx, err := governToken.NewGovCtx(BCName, la, n.CM)
	if err != nil {
		return err
	}
	gm, err := governToken.NewGovManager(gctx)
	if err != nil {
		return fmt.Errorf("gov: %v", err)
	}
	cctx.GovernToken = gm
	n.S.SetGovernTokenMG(gm)
	pctx, err := propose.NewProposeCtx(BCName, la, n.CM)
	if err != nil {
		return err
	}
	pm, err := propose.NewProposeManager(pctx)
	if err != nil {
		return fmt.Errorf("propose: %v", err)
	}
	cctx.Proposal = pm
	n.S.SetProposalMG(pm)
	tctx, err := timerTask.NewTimerTaskCtx(BCName, la, n.CM)
	if err != nil {
		return err
	}
	tm, err := timerTask.NewTimerTaskManager(tctx)
	if err != nil {
		return fmt.Errorf("timer: %v", err)
	}
	cctx.TimerTask = tm
	n.S.SetTimerTaskMG(tm)
	n.Ctx = cctx
	n.KV = registerXvKV(n.CM)
	return nil
}
