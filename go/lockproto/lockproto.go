// Package lockproto extracts, with go/ast, the lock-protocol skeleton of State.doTxSync
// (bcs/ledger/xledger/state/state.go): which keys are locked, what the (deferred) Unlock releases, and
// whether a failed TryLock returns before the critical section.  Used by the translator (go/extract ->
// lean/XV/Gen/LockProto.lean, where a `decide`d theorem compares it with the protocol the Lean model
// assumes) and by the `lock` harness, whose thread body follows exactly the extracted protocol.
package lockproto

import (
	"fmt"
	"go/ast"
	"go/parser"
	"go/token"
	"path/filepath"
)

const File = "bcs/ledger/xledger/state/state.go"

type Facts struct {
	TryLocksExtracted   bool   // TryLock is called on the result of ExtractLockKeys(tx)
	UnlockWhat          string // "succ" (first result of TryLock) | "requested" (all extracted keys) | "none" | "other"
	UnlockDeferred      bool   // the Unlock is a defer (runs on every return path after it)
	UnlockOnFailPath    bool   // the deferred Unlock is registered before the `if !lockOK { return }` guard
	GuardBeforeCritical bool   // `if !lockOK { ...; return }` precedes the first access to shared state (pool lookup / doTxInternal)
	UnderReadLock       bool   // t.utxo.Mutex.RLock() + defer RUnlock() (so several doTxSync run concurrently, none with Play/Walk)
}

// Expected is the protocol the Lean model (XV.SpinLock.step) and the theorems assume.
var Expected = Facts{TryLocksExtracted: true, UnlockWhat: "succ", UnlockDeferred: true, UnlockOnFailPath: true,
	GuardBeforeCritical: true, UnderReadLock: true}

func selName(e ast.Expr) string {
	if c, ok := e.(*ast.CallExpr); ok {
		if s, ok := c.Fun.(*ast.SelectorExpr); ok {
			return s.Sel.Name
		}
	}
	return ""
}

func ident(e ast.Expr) string {
	if id, ok := e.(*ast.Ident); ok {
		return id.Name
	}
	return ""
}

func containsCall(n ast.Node, names ...string) bool {
	found := false
	ast.Inspect(n, func(x ast.Node) bool {
		if c, ok := x.(*ast.CallExpr); ok {
			if s, ok := c.Fun.(*ast.SelectorExpr); ok {
				for _, nm := range names {
					if s.Sel.Name == nm {
						found = true
					}
				}
			}
		}
		return !found
	})
	return found
}

// Extract reads <repo>/bcs/ledger/xledger/state/state.go.
func Extract(repo string) (Facts, error) {
	var f Facts
	fset := token.NewFileSet()
	file, err := parser.ParseFile(fset, filepath.Join(repo, File), nil, 0)
	if err != nil {
		return f, err
	}
	var fd *ast.FuncDecl
	for _, d := range file.Decls {
		if x, ok := d.(*ast.FuncDecl); ok && x.Name.Name == "doTxSync" && x.Recv != nil {
			fd = x
		}
	}
	if fd == nil {
		return f, fmt.Errorf("func (*State) doTxSync not found in %s", File)
	}
	extractVar, succVar, okVar, tryArg := "", "", "", ""
	f.UnlockWhat = "none"
	guardAt, unlockAt, criticalAt := -1, -1, -1
	rlock, runlock := false, false
	for i, st := range fd.Body.List {
		switch s := st.(type) {
		case *ast.AssignStmt:
			if len(s.Rhs) == 1 {
				switch selName(s.Rhs[0]) {
				case "ExtractLockKeys":
					extractVar = ident(s.Lhs[0])
				case "TryLock":
					c := s.Rhs[0].(*ast.CallExpr)
					if len(c.Args) == 1 {
						tryArg = ident(c.Args[0])
					}
					if len(s.Lhs) == 2 {
						succVar, okVar = ident(s.Lhs[0]), ident(s.Lhs[1])
					}
				}
			}
		case *ast.ExprStmt:
			switch selName(s.X) {
			case "RLock":
				rlock = true
			case "Unlock":
				c := s.X.(*ast.CallExpr)
				if unlockAt < 0 && len(c.Args) == 1 {
					unlockAt = i
					f.UnlockDeferred = false
					f.UnlockWhat = ident(c.Args[0])
				}
			}
		case *ast.DeferStmt:
			switch selName(s.Call) {
			case "RUnlock":
				runlock = true
			case "Unlock":
				if len(s.Call.Args) == 1 {
					unlockAt = i
					f.UnlockDeferred = true
					f.UnlockWhat = ident(s.Call.Args[0])
				}
			}
		case *ast.IfStmt:
			if u, ok := s.Cond.(*ast.UnaryExpr); ok && u.Op == token.NOT && okVar != "" && ident(u.X) == okVar && guardAt < 0 && s.Init == nil {
				if n := len(s.Body.List); n > 0 {
					if _, ok := s.Body.List[n-1].(*ast.ReturnStmt); ok {
						guardAt = i
					}
				}
			}
		}
		if criticalAt < 0 && guardAt != i && containsCall(st, "doTxInternal", "Load", "Store", "Write", "NewBatch") {
			criticalAt = i
		}
	}
	f.TryLocksExtracted = extractVar != "" && tryArg == extractVar
	switch {
	case f.UnlockWhat == "none":
	case f.UnlockWhat == succVar && succVar != "":
		f.UnlockWhat = "succ"
	case f.UnlockWhat == extractVar && extractVar != "":
		f.UnlockWhat = "requested"
	default:
		f.UnlockWhat = "other"
	}
	f.UnlockOnFailPath = f.UnlockDeferred && unlockAt >= 0 && guardAt >= 0 && unlockAt < guardAt
	f.GuardBeforeCritical = guardAt >= 0 && (criticalAt < 0 || guardAt < criticalAt)
	f.UnderReadLock = rlock && runlock
	return f, nil
}
