package main

// Submissions in flight at once, beyond the pair of `race2`:
//
//   race3 <a> <b> <c> ... [y=<n>]   DoTx(a) is held inside its critical section - y absent: right before its batch write
//                                   (locks taken, inputs checked, nothing written); y=<n>: at the n-th key its TryLock has
//                                   taken - and DoTx(b), DoTx(c), ... run to completion one after the other in that window;
//                                   then a goes on. Three parties are what the lock protocol's RELEASE side needs: a refused
//                                   request must give back what it took and nothing else, which only a third request
//                                   (while the first is still in flight) or a later one (on the refused one's other keys) sees.
//   race2 <a> <b> y=<n>             the pair form of the same (exec.go) with the hold point inside TryLock
//   flood <t1>,<t2>,...             free-running: one goroutine per transaction, released together; the members are
//                                   pairwise independent (no common lock key), so the sequential answer is "all admitted"
//
// Oracles (impl side): the pool / conservation / double-spend checks of checkPool + checkState after the race, and the
// observation point they lacked: the pending-table RECORD of every admitted transaction, read back from storage
// (`pendingRecords`: raw table scan + State.QueryTx), must be that transaction; `reopen` and `cmpcopy` compare the pool a
// reopened instance rebuilds from those records. A sequential `dotx` refused for a lock although nothing is in flight is
// judged by `lockRefusal` (exec.go, op dotx).

import (
	"bytes"
	"fmt"
	"math/big"
	"sort"
	"strings"
	"sync"

	"github.com/golang/protobuf/proto"
	"github.com/xuperchain/xupercore/bcs/ledger/xledger/state/utxo"
	pb "github.com/xuperchain/xupercore/bcs/ledger/xledger/xldgpb"

	"xv/kvmem"
)

// lockKeysOf: the lock keys of SpinLock.ExtractLockKeys in abstract form (key -> exclusive?)
func lockKeysOf(t *TxInfo) map[string]bool {
	m := map[string]bool{}
	for _, r := range t.Ins {
		m[fmt.Sprintf("u%d_%d", r.Tx, r.Off)] = true
	}
	for i := range t.Outs {
		m[fmt.Sprintf("u%d_%d", t.Idx, i)] = true
	}
	written := map[string]bool{}
	for _, ko := range t.KOut {
		written[ko.Key] = true
		m["k"+ko.Key] = true
	}
	for _, ki := range t.KIn {
		if !written[ki.Key] {
			if _, ok := m["k"+ki.Key]; !ok {
				m["k"+ki.Key] = false
			}
		}
	}
	return m
}

// lockConflict: a common key that at least one of the two wants exclusively
func lockConflict(a, b *TxInfo) bool {
	ka, kb := lockKeysOf(a), lockKeysOf(b)
	for k, xa := range ka {
		if xb, ok := kb[k]; ok && (xa || xb) {
			return true
		}
	}
	return false
}

// nestedRace: DoTx(ta) with the DoTx of every member of rest executed inside it, at the hold point.
func (e *Exec) nestedRace(ta *TxInfo, rest []*TxInfo, y int) (error, []error) {
	w := e.w
	errs := make([]error, len(rest))
	fired := false
	runRest := func() {
		fired = true
		for i, t := range rest {
			c := *t.Tx
			errs[i] = w.Main.S.DoTx(&c)
		}
	}
	if y > 0 {
		n := 0
		utxo.VerifYieldHook = func(label string) {
			if fired || label != "trylock.added" {
				return
			}
			n++
			if n == y {
				runRest()
			}
		}
	} else {
		kvmem.SetBeforeWrite(func(store string) {
			if !strings.HasSuffix(store, "/utxoVM") {
				return
			}
			runRest()
		})
	}
	ca := *ta.Tx
	errA := w.Main.S.DoTx(&ca)
	utxo.VerifYieldHook = nil
	kvmem.ClearHooks()
	if !fired {
		runRest()
	}
	return errA, errs
}

func (e *Exec) opRace3(pos []string, kv map[string]string, line string) string {
	w := e.w
	if len(pos) < 2 {
		return "bad-op"
	}
	var txs []*TxInfo
	for _, p := range pos {
		i := atoi(p)
		if i <= 0 || i >= len(w.Txs) || w.Txs[i].Tx == nil {
			return "bad-op"
		}
		txs = append(txs, w.Txs[i])
	}
	errA, errs := e.nestedRace(txs[0], txs[1:], atoi(kv["y"]))
	ans := []string{errEnum(errA)}
	if errA == nil {
		e.pool = append(e.pool, txs[0].Idx)
	}
	for i, err := range errs {
		ans = append(ans, errEnum(err))
		if err == nil {
			e.pool = append(e.pool, txs[i+1].Idx)
		}
	}
	e.checkPool(line)
	e.checkState(line)
	return strings.Join(ans, ",")
}

func (e *Exec) opFlood(pos []string, kv map[string]string, line string) string {
	w := e.w
	if len(pos) < 1 {
		return "bad-op"
	}
	var txs []*TxInfo
	for _, p := range splitList(pos[0]) {
		i := atoi(p)
		if i <= 0 || i >= len(w.Txs) || w.Txs[i].Tx == nil {
			return "bad-op"
		}
		txs = append(txs, w.Txs[i])
	}
	errs := make([]error, len(txs))
	start := make(chan struct{})
	var wg sync.WaitGroup
	for i := range txs {
		wg.Add(1)
		go func(i int) {
			defer wg.Done()
			c := *txs[i].Tx
			<-start
			errs[i] = w.Main.S.DoTx(&c)
		}(i)
	}
	close(start)
	wg.Wait()
	var ans []string
	for i, err := range errs {
		ans = append(ans, errEnum(err))
		if err == nil {
			e.pool = append(e.pool, txs[i].Idx)
		}
	}
	e.checkPool(line)
	e.checkState(line)
	return strings.Join(ans, ",")
}

// pendingRecords: what the node has STORED for its pending transactions (the table a restart and QueryTx read) is the
// admitted set, record by record.
func (e *Exec) pendingRecords(tag string) {
	n := e.w.Main
	want := map[string]int{}
	for _, ti := range e.pool {
		want[string(e.w.Txs[ti].Tx.Txid)] = ti
	}
	seen := map[string]bool{}
	for _, r := range n.ScanTable(pb.UnconfirmedTablePrefix) {
		id := r[0][len(pb.UnconfirmedTablePrefix):]
		ti, ok := want[id]
		if !ok {
			e.violate("pending-record-differs:unexpected", fmt.Sprintf("after %s: the pending table holds a record under id %x, which is not a pending transaction", tag, id), "")
			continue
		}
		seen[id] = true
		rec := &pb.Transaction{}
		if err := proto.Unmarshal([]byte(r[1]), rec); err != nil {
			e.violate("pending-record-differs:unreadable", fmt.Sprintf("after %s: the stored record of pending transaction %d cannot be decoded: %v", tag, ti, err), "")
			continue
		}
		rec.ReceivedTimestamp = 0
		rid, _ := makeTxid(rec)
		if !bytes.Equal(rec.Txid, []byte(id)) || !bytes.Equal(rid, []byte(id)) {
			other := "an unknown transaction"
			if oi, ok := e.w.TxByID[string(rec.Txid)]; ok {
				other = fmt.Sprintf("transaction %d", oi)
			}
			e.violate("pending-record-differs:other-transaction", fmt.Sprintf("after %s: the stored record of pending transaction %d holds %s", tag, ti, other), "")
		}
	}
	var missing []int
	for id, ti := range want {
		if !seen[id] {
			missing = append(missing, ti)
		}
	}
	sort.Ints(missing)
	if len(missing) > 0 {
		e.violate("pending-record-differs:missing", fmt.Sprintf("after %s: pending transactions %v have no stored record", tag, missing), "")
	}
	// the same through the query a client uses
	for _, ti := range e.pool {
		id := e.w.Txs[ti].Tx.Txid
		tx, confirmed, err := n.S.QueryTx(id)
		switch {
		case err != nil:
			e.violate("pending-record-differs:query", fmt.Sprintf("after %s: QueryTx of pending transaction %d fails: %v", tag, ti, err), "")
		case confirmed:
			e.violate("pending-record-differs:query", fmt.Sprintf("after %s: QueryTx reports pending transaction %d as confirmed", tag, ti), "")
		case !bytes.Equal(tx.Txid, id):
			e.violate("pending-record-differs:query", fmt.Sprintf("after %s: QueryTx of pending transaction %d returns another transaction (%x)", tag, ti, tx.Txid), "")
		}
	}
}

// lockRefusal: a submission that arrives while nothing else is in flight was refused "could not lock" although every
// input is current. The running node holds something a reopened one does not: the same submission on instances opened
// on a copy of the data decides.
func (e *Exec) lockRefusal(t *TxInfo, res string) {
	w := e.w
	w.nodeSeq++
	c, err := w.Main.OpenCopy(e.scratch, fmt.Sprintf("adm%d", w.nodeSeq))
	if err != nil {
		return
	}
	defer kvmem.Drop(c.Root)
	tc := *t.Tx
	if err := c.S.DoTx(&tc); err == nil {
		e.violate("running-differs-from-reopened:admission", fmt.Sprintf("tx %d, whose inputs are all current, is refused (%s) by the running node with nothing else in flight, and admitted by instances reopened on a copy of the same data: an earlier refused or finished request left something behind in memory", t.Idx, res), "")
	}
}

// ---- generator

// sameInputs: another spender of exactly the inputs of t (+ optionally further outputs of the same owner)
func (g *Gen) conflicting(t *TxInfo, extra []InRef) *TxInfo {
	w := g.e.w
	t2 := &TxInfo{Idx: len(w.Txs), From: t.From}
	sum := big.NewInt(0)
	for _, r := range append(append([]InRef{}, extra...), t.Ins...) {
		t2.Ins = append(t2.Ins, r)
		sum.Add(sum, r.Amt)
	}
	sort.Slice(t2.Ins, func(i, j int) bool { return ukey(t2.Ins[i].Tx, t2.Ins[i].Off) < ukey(t2.Ins[j].Tx, t2.Ins[j].Off) })
	t2.Outs = []OutInfo{{Addr: g.users()[g.r.Intn(3)], Amt: sum}}
	return t2
}

// race3: the holder a, a conflicting b (half of them owning further keys: another input), a third request c (conflicting
// with a, or b again in other words), then submissions on what b and c touched besides the conflict.
func (g *Gen) race3() {
	e := g.e
	w := e.w
	cur := e.specNow()
	h := g.ledgerHeight()
	if g.r.Chance(1, 3) {
		// key transactions: a writes k; b and c pre-executed on the same state
		l1 := g.genKtx("live")
		if l1 == "" {
			return
		}
		g.emit(l1)
		a := len(w.Txs) - 1
		ids := []string{fmt.Sprint(a)}
		for i := 0; i < 2; i++ {
			if l := g.genKtx("live"); l != "" {
				g.emit(l)
				ids = append(ids, fmt.Sprint(len(w.Txs)-1))
			}
		}
		if len(ids) >= 3 {
			g.emit("race3 " + strings.Join(ids, " "))
			if l := g.genKtx("live"); l != "" {
				g.emit(l)
				g.emit(fmt.Sprintf("dotx %d", len(w.Txs)-1))
			}
		}
		return
	}
	l1, ok := g.genXfer(cur, h, "")
	if !ok {
		return
	}
	g.emit(l1)
	ta := w.Txs[len(w.Txs)-1]
	// other spendable outputs of the same owner that a does not spend
	var others []InRef
	for _, k := range spendable(cur, ta.From, h, false) {
		tx, off := refOf(k)
		used := false
		for _, r := range ta.Ins {
			if r.Tx == tx && r.Off == off {
				used = true
			}
		}
		if !used {
			u := cur.U[k]
			others = append(others, InRef{Tx: tx, Off: off, Addr: ta.From, Amt: big.NewInt(0).Set(u.Amt), Frozen: u.Frozen})
		}
	}
	ids := []string{fmt.Sprint(ta.Idx)}
	var extraUsed []InRef
	nb := 2 + g.r.Intn(2)
	for i := 1; i < nb; i++ {
		var extra []InRef
		if len(others) > 0 && g.r.Chance(2, 3) {
			extra = []InRef{others[g.r.Intn(len(others))]}
		}
		var t *TxInfo
		if i > 1 && g.r.Chance(1, 4) {
			// an independent member
			s2 := cur.clone()
			s2.apply(ta)
			if l, ok := g.genXfer(s2, h, ""); ok {
				g.emit(l)
				ids = append(ids, fmt.Sprint(len(w.Txs)-1))
			}
			continue
		}
		t = g.conflicting(ta, extra)
		extraUsed = append(extraUsed, extra...)
		g.emit(t.line("xtx", ""))
		ids = append(ids, fmt.Sprint(t.Idx))
	}
	if len(ids) < 3 {
		return
	}
	nv := len(g.out.Stats.Violations)
	g.emit("race3 " + strings.Join(ids, " "))
	if len(g.out.Stats.Violations) > nv {
		g.stop = true
		return
	}
	// what the refused ones touched besides the conflict is as free as before
	for _, x := range extraUsed {
		spent := false
		for _, ti := range e.pool {
			for _, r := range w.Txs[ti].Ins {
				if r.Tx == x.Tx && r.Off == x.Off {
					spent = true
				}
			}
		}
		if spent {
			continue
		}
		t := &TxInfo{Idx: len(w.Txs), From: x.Addr, Ins: []InRef{x}, Outs: []OutInfo{{Addr: g.users()[g.r.Intn(3)], Amt: big.NewInt(0).Set(x.Amt)}}}
		g.emit(t.line("xtx", ""))
		g.emit(fmt.Sprintf("dotx %d", t.Idx))
	}
	if g.r.Chance(1, 2) {
		if l, ok := g.genXfer(e.specNow(), h, ""); ok {
			g.emit(l)
			g.emit(fmt.Sprintf("dotx %d", len(w.Txs)-1))
		}
	}
}

// flood: as many pairwise independent valid submissions as the state allows, in flight together (or, y=: as a pair with the
// second inside the first one's TryLock), then the stored records are read back (checkPool), the node is reopened and
// compared
func (g *Gen) flood() {
	e := g.e
	w := e.w
	h := g.ledgerHeight()
	s := e.specNow()
	var members []*TxInfo
	for try := 0; try < 10 && len(members) < 8; try++ {
		var line string
		if g.r.Chance(1, 3) {
			line = g.genKtx("live")
		} else {
			line, _ = g.genXfer(s, h, "")
		}
		if line == "" {
			continue
		}
		// judge independence on the parsed line before emitting it
		op, pos, kv := fields(line)
		t := &TxInfo{Idx: atoi(pos[0]), From: kv["from"], Ins: parseIns(kv["in"]), Outs: parseOuts(kv["out"]), KIn: parseKIn(kv["kin"]), KOut: parseKOut(kv["kout"])}
		_ = op
		indep := true
		for _, m := range members {
			if lockConflict(m, t) {
				indep = false
			}
		}
		if !indep {
			continue
		}
		g.emit(line)
		members = append(members, w.Txs[len(w.Txs)-1])
	}
	if len(members) < 2 {
		return
	}
	var ids []string
	for _, m := range members {
		ids = append(ids, fmt.Sprint(m.Idx))
	}
	nv := len(g.out.Stats.Violations)
	if len(members) <= 3 && g.r.Chance(1, 2) || g.r.Chance(1, 4) {
		g.emit(fmt.Sprintf("race3 %s y=%d", strings.Join(ids, " "), 1+g.r.Intn(2)))
	} else {
		g.emit("flood " + strings.Join(ids, ","))
	}
	if len(g.out.Stats.Violations) > nv {
		g.stop = true
		return
	}
	if g.r.Chance(1, 2) {
		if g.emit("reopen") == "fail" {
			g.stop = true // the node is gone
		}
	} else {
		g.emit("cmpcopy")
	}
}
