package main

// walkrace: two state-changing requests in flight at once (Walk vs Walk, Walk vs Play / PlayForMiner, Walk / Play vs DoTx).
//
//	walkrace <A> <B> k=<n>      A, B = walk:<blk> | play:<blk> | playminer:<blk> | dotx:<tx>
//	raced ab|ba                 which one-at-a-time order the node's state equals (emitted by the generator after the race)
//
// Schedule (deterministic, no change to the code under test): request A runs in its own goroutine and is held at its
// n-th yield point - a yield point is a log call of the state machine (chainlib.HookLog) or the moment before one of its
// storage write groups (kvmem.SetBeforeWrite) made by A's goroutine; all of them but the first log call of Walk lie inside
// utxo.Mutex. Then request B is started and runs until it returns or is seen waiting for a mutex (its goroutine's wait
// reason, read from the runtime's goroutine dump: B is queued on the state-machine lock that A holds); then A goes on.
// The goroutine in which a successful Walk re-admits the pending transactions it rolled back (recoverUnconfirmedTx:
// asynchronous by design, the Walk call returns before it has run) is held at its first statement until both requests
// have returned; the re-admissions then run one after the other in the order they were started.
//
// Oracles (on the real code only):
//   - serialisable (C12): results of both requests + every observable + pool equal those of A;B or of B;A executed one
//     at a time by the real code on two copies of the node's storage image (same treatment of the re-admissions);
//   - C17: the irreversible height is max(height - w) over the blocks ever applied, never decreases, and no block that
//     was on the state machine's chain at or below the irreversible height is missing from the chain it is on afterwards
//     (irrevSet: kept over the whole history, fed by every observed (tip, irreversible height) and by every request that
//     reported success: after a successful walk to / play of D all of D's chain has been applied);
//   - C01 / C02 / C03: the usual state checks after the race.

import (
	"fmt"
	"path/filepath"
	"runtime"
	"sort"
	"strconv"
	"strings"
	"sync"
	"sync/atomic"
	"time"

	"github.com/xuperchain/xupercore/bcs/ledger/xledger/state"

	"xv/chainlib"
	"xv/kvmem"
)

type raceCall struct {
	kind string
	arg  int
}

func parseRaceCall(s string) (raceCall, bool) {
	p := strings.SplitN(s, ":", 2)
	if len(p) != 2 {
		return raceCall{}, false
	}
	switch p[0] {
	case "walk", "play", "playminer", "dotx":
		n, err := strconv.Atoi(p[1])
		return raceCall{p[0], n}, err == nil
	}
	return raceCall{}, false
}

func (c raceCall) String() string { return fmt.Sprintf("%s:%d", c.kind, c.arg) }

// destBlock: the block the state machine points at when the request succeeds (-1: it does not move the pointer)
func (c raceCall) destBlock() int {
	if c.kind == "dotx" {
		return -1
	}
	return c.arg
}

func curGID() int64 {
	var buf [64]byte
	n := runtime.Stack(buf[:], false)
	s := strings.TrimPrefix(string(buf[:n]), "goroutine ")
	if i := strings.IndexByte(s, ' '); i > 0 {
		id, _ := strconv.ParseInt(s[:i], 10, 64)
		return id
	}
	return -1
}

// goroutineWaitsForMutex: the runtime's wait reason of goroutine gid is a sync.Mutex / sync.RWMutex acquisition.
func goroutineWaitsForMutex(gid int64) bool {
	buf := make([]byte, 1<<18)
	n := runtime.Stack(buf, true)
	head := fmt.Sprintf("goroutine %d [", gid)
	for _, blk := range strings.Split(string(buf[:n]), "\n\n") {
		if !strings.HasPrefix(blk, head) {
			continue
		}
		st := blk[len(head):]
		if i := strings.IndexByte(st, ']'); i >= 0 {
			st = st[:i]
		}
		if strings.Contains(st, "Mutex") {
			return true
		}
		// older runtimes report "semacquire" for every sync primitive: look at the frames
		return strings.HasPrefix(st, "semacquire") && (strings.Contains(blk, "sync.(*RWMutex).") || strings.Contains(blk, "sync.(*Mutex).Lock"))
	}
	return false
}

// runRaceCall runs one request on node n and renders its result.
func (e *Exec) runRaceCall(n *chainlib.Node, c raceCall) (res string) {
	defer func() {
		if r := recover(); r != nil {
			res = fmt.Sprintf("panic:%v", r)
		}
	}()
	w := e.w
	okFail := func(err error) string {
		if err != nil {
			return "fail"
		}
		return "ok"
	}
	switch c.kind {
	case "walk":
		return okFail(n.S.Walk(w.Blocks[c.arg].Blk.Blockid, false))
	case "play":
		return okFail(n.S.Play(w.Blocks[c.arg].Blk.Blockid))
	case "playminer":
		return okFail(n.S.PlayForMiner(w.Blocks[c.arg].Blk.Blockid))
	case "dotx":
		tc := *w.Txs[c.arg].Tx // DoTx stamps ReceivedTimestamp on its argument
		return errEnum(n.S.DoTx(&tc))
	}
	return "bad-call"
}

type raceResult struct {
	ra, rb string
	// how the schedule went: "seq" = one at a time (k < 0, or A returned before its k-th yield point), "inside" = B ran
	// to its end while A was held, "queued" = B was waiting for a mutex when A went on, "timeout"
	mode   string
	desc   string // the yield point A was held at
	midTip int    // one at a time only: the state's block after the first request (-1 unknown)
}

type recGate struct {
	release, done chan struct{}
}

// raceRun executes requests a and b on node n: k < 0 one at a time (a, then b); otherwise a is held at its k-th yield
// point while b is started (see the head of this file). Re-admission goroutines are held until both have returned.
func (e *Exec) raceRun(n *chainlib.Node, a, b raceCall, k int) raceResult {
	var gidA, gidB int64 = -1, -1
	var nA int32
	var mu sync.Mutex
	recs := map[int64]*recGate{}
	var order []*recGate
	paused, resume := make(chan struct{}), make(chan struct{})
	res := raceResult{mode: "seq", midTip: -1}
	yield := func(kind, msg string) {
		gid := curGID()
		if gid == atomic.LoadInt64(&gidA) {
			if k >= 0 && atomic.AddInt32(&nA, 1) == int32(k+1) {
				res.desc = kind + " " + msg
				close(paused)
				<-resume
			}
			return
		}
		if gid == atomic.LoadInt64(&gidB) || kind != "log" {
			return
		}
		switch msg {
		case "start recover unconfirm tx": // first statement of recoverUnconfirmedTx (the same text is logged per transaction later)
			mu.Lock()
			g, seen := recs[gid]
			if !seen {
				g = &recGate{make(chan struct{}), make(chan struct{})}
				recs[gid] = g
				order = append(order, g)
			}
			mu.Unlock()
			if !seen {
				<-g.release
			}
		case "recover unconfirm tx done":
			mu.Lock()
			g := recs[gid]
			mu.Unlock()
			if g != nil {
				close(g.done)
			}
		}
	}
	chainlib.SetLogHook(func(msg string) { yield("log", msg) })
	var wh func(store string)
	wh = func(store string) {
		kvmem.SetBeforeWrite(wh) // the hook is one-shot: arm it again first
		if strings.HasPrefix(store, n.Root) {
			yield("write", filepath.Base(store))
		}
	}
	kvmem.SetBeforeWrite(wh)
	defer func() {
		chainlib.SetLogHook(nil)
		kvmem.ClearHooks()
	}()
	start := func(c raceCall, gid *int64, out *string) chan struct{} {
		done := make(chan struct{})
		go func() {
			atomic.StoreInt64(gid, curGID())
			*out = e.runRaceCall(n, c)
			close(done)
		}()
		return done
	}
	tipOf := func() int {
		if t, ok := e.w.BlkByID[string(n.S.GetLatestBlockid())]; ok {
			return t
		}
		return -1
	}
	doneA := start(a, &gidA, &res.ra)
	held := false
	select {
	case <-doneA:
		res.midTip = tipOf()
	case <-paused:
		held = true
	}
	doneB := start(b, &gidB, &res.rb)
	if held {
		res.mode = "timeout"
		deadline := time.Now().Add(3 * time.Second)
		seen := 0
	wait:
		for time.Now().Before(deadline) {
			select {
			case <-doneB:
				res.mode = "inside"
				break wait
			case <-time.After(150 * time.Microsecond):
			}
			if gb := atomic.LoadInt64(&gidB); gb >= 0 && goroutineWaitsForMutex(gb) {
				if seen++; seen >= 2 {
					res.mode = "queued"
					break wait
				}
			} else {
				seen = 0
			}
		}
		close(resume)
		<-doneA
	}
	<-doneB
	// both requests have returned: the re-admissions, one after the other in the order they were started (every walk that
	// succeeded has started exactly one; its goroutine may not have reached its first statement yet)
	expected := 0
	for _, x := range []struct {
		c   raceCall
		res string
	}{{a, res.ra}, {b, res.rb}} {
		if x.c.kind == "walk" && x.res == "ok" {
			expected++
		}
	}
	for i := 0; i < expected; i++ {
		var g *recGate
		for t0 := time.Now(); g == nil && time.Since(t0) < 20*time.Second; {
			mu.Lock()
			if i < len(order) {
				g = order[i]
			}
			mu.Unlock()
			if g == nil {
				time.Sleep(50 * time.Microsecond)
			}
		}
		if g == nil {
			break
		}
		close(g.release)
		select {
		case <-g.done:
		case <-time.After(20 * time.Second):
		}
	}
	state.VerifWaitRecover()
	return res
}

func (e *Exec) poolStrOf(n *chainlib.Node) string {
	txs, err := n.S.GetUnconfirmedTx(false)
	if err != nil {
		return "err"
	}
	var idx []int
	for _, t := range txs {
		if i, ok := e.w.TxByID[string(t.Txid)]; ok {
			idx = append(idx, i)
		} else {
			idx = append(idx, -2)
		}
	}
	sort.Ints(idx)
	s := make([]string, len(idx))
	for i, x := range idx {
		s[i] = fmt.Sprint(x)
	}
	return strings.Join(s, ",")
}

// raceDigest: the short form of a one-at-a-time outcome that is compared with the model.
func (e *Exec) raceDigest(n *chainlib.Node, r raceResult) string {
	tip := -1
	if t, ok := e.w.BlkByID[string(n.S.GetLatestBlockid())]; ok {
		tip = t
	}
	return fmt.Sprintf("%s,%s/t%d/i%d/p%s", r.ra, r.rb, tip, n.S.GetMeta().IrreversibleBlockHeight, e.poolStrOf(n))
}

type lastRace struct {
	ra, rb, order string
}

// opWalkRace: see the head of this file.
func (e *Exec) opWalkRace(pos []string, kv map[string]string, line string) string {
	w := e.w
	if len(pos) < 2 {
		return "bad-op"
	}
	a, okA := parseRaceCall(pos[0])
	b, okB := parseRaceCall(pos[1])
	if !okA || !okB {
		return "bad-op"
	}
	for _, c := range []raceCall{a, b} {
		if (c.kind == "dotx" && (c.arg < 0 || c.arg >= len(w.Txs) || w.Txs[c.arg].Tx == nil)) || (c.kind != "dotx" && (c.arg < 0 || c.arg >= len(w.Blocks))) {
			return "bad-op"
		}
	}
	k := atoi(kv["k"])
	from := e.stateTip()
	irrevBefore := w.Main.S.GetMeta().IrreversibleBlockHeight
	// the two one-at-a-time orders, by the real code, on copies of the storage image
	type ref struct {
		out, digest string
		mid, tip    int
		r           raceResult
	}
	runRef := func(x, y raceCall, swap bool) (ref, error) {
		w.nodeSeq++
		c, err := w.Main.OpenCopy(e.scratch, fmt.Sprintf("race%d", w.nodeSeq))
		if err != nil {
			return ref{}, err
		}
		defer kvmem.Drop(c.Root)
		r := e.raceRun(c, x, y, -1)
		if swap {
			r.ra, r.rb = r.rb, r.ra // results are always reported as (A, B)
		}
		tip := -1
		if t, ok := w.BlkByID[string(c.S.GetLatestBlockid())]; ok {
			tip = t
		}
		return ref{out: r.ra + "," + r.rb + " | " + e.observe(c) + " pool=" + e.poolStrOf(c), digest: e.raceDigest(c, r), mid: r.midTip, tip: tip, r: r}, nil
	}
	ab, err := runRef(a, b, false)
	if err != nil {
		e.violate("copy-open-failed", "opening instances on a copy of the data failed: "+err.Error(), "")
		return "fail"
	}
	ba, err := runRef(b, a, true)
	if err != nil {
		e.violate("copy-open-failed", "opening instances on a copy of the data failed: "+err.Error(), "")
		return "fail"
	}
	// the race itself, on the node
	r := e.raceRun(w.Main, a, b, k)
	got := r.ra + "," + r.rb + " | " + e.observe(w.Main) + " pool=" + e.poolStrOf(w.Main)
	if e.out != nil {
		e.out.Count("walkrace-schedule:" + r.mode)
		e.out.Count("walkrace-pair:" + a.kind + "-" + b.kind)
	}
	order := ""
	switch {
	case got == ab.out:
		order = "ab"
	case got == ba.out:
		order = "ba"
	}
	to := e.stateTip()
	for _, res := range []string{r.ra, r.rb} {
		if strings.HasPrefix(res, "panic:") {
			e.violate("panic", fmt.Sprintf("op %q: a request panicked: %s", line, res), "")
		}
	}
	// harness bookkeeping: what was applied, what is pending
	calls := []struct {
		c   raceCall
		res string
	}{{a, r.ra}, {b, r.rb}}
	for _, x := range calls {
		switch {
		case x.c.kind == "dotx":
			if x.res == "ok" {
				e.pool = append(e.pool, x.c.arg)
			}
		case x.res == "ok":
			e.markApplied(from, x.c.arg)
			e.noteIrreversible(x.c.arg, irrevBefore)
		default:
			e.failedOps++
			e.failedDest[x.c.arg] = true
		}
	}
	if to >= 0 {
		e.markApplied(from, to)
	}
	if order == "" {
		e.violate("walkrace-not-serialisable:"+a.kind+"-"+b.kind, fmt.Sprintf("%s: request B (%s) was started while request A (%s) was held at its yield point #%d (%s; B %s); the outcome {%s} equals neither A;B {%s} nor B;A {%s} executed one at a time on copies of the node",
			line, b, a, k, r.desc, map[string]string{"seq": "started after A had returned", "inside": "ran to its end meanwhile", "queued": "was waiting for a mutex when A went on", "timeout": "neither returned nor waited for a mutex"}[r.mode], got, ab.out, ba.out), "")
		// a failed walk applies an unknown part of its blocks: the height oracle cannot be evaluated any more
		if r.ra == "fail" || r.rb == "fail" {
			e.irrevUnknownW = e.w
		}
	} else {
		// the blocks the first request of that order applied before the second ran (a failed walk stops half way)
		m := ab.mid
		if order == "ba" {
			m = ba.mid
		}
		if m >= 0 {
			e.markApplied(from, m)
		}
	}
	e.lastRaced = &lastRace{ra: r.ra, rb: r.rb, order: order}
	e.reconcilePool()
	// C17: nothing that was irreversible before, or became irreversible through a request that succeeded, has left the chain
	if to >= 0 && !e.prunedEver {
		e.checkIrrevChain(from, to, irrevBefore, line)
	}
	e.checkState(line)
	e.checkPool(line)
	return "ab=" + ab.digest + " ba=" + ba.digest
}

// opRaced: the order the generator read off the last race; answers the results of the two requests in the race.
func (e *Exec) opRaced(pos []string) string {
	lr := e.lastRaced
	if lr == nil || len(pos) < 1 {
		return "bad-op"
	}
	if lr.order != "" && lr.order != pos[0] {
		return lr.ra + "," + lr.rb + " order=" + lr.order // this run took the other order than the recorded one
	}
	return lr.ra + "," + lr.rb
}

// ---------- C17 over the whole history: irreversible blocks stay on the state machine's chain

// noteIrreversible: a request that reported success left the state machine at block d, so every block of d's chain has been
// applied: the irreversible height was then at least max(known, height - w over that chain), and the blocks of the chain at
// or below it were on the state machine's chain at or below the irreversible height.
func (e *Exec) noteIrreversible(d int, irrevKnown int64) {
	if e.prunedEver || d < 0 {
		return
	}
	e.irrevSetFor()
	irrev := irrevKnown
	if e.w.Window > 0 {
		if h := e.w.Blocks[d].Height - e.w.Window; h > irrev {
			irrev = h
		}
	}
	for _, b := range e.w.chain(d) {
		if h := e.w.Blocks[b].Height; h > 0 && h <= irrev {
			e.irrevSet[b] = true
		}
	}
}

func (e *Exec) irrevSetFor() {
	if e.irrevSetW != e.w {
		e.irrevSetW = e.w
		e.irrevSet = map[int]bool{}
	}
}

// checkIrrevSet (called at every quiescent point): the blocks that were on the state machine's chain at or below the
// irreversible height at some earlier moment are on the chain it is on now; then the present moment is recorded.
func (e *Exec) checkIrrevSet(tag string, tip int, irrev int64) {
	e.irrevSetFor()
	if e.prunedEver {
		e.irrevSet = map[int]bool{}
		return
	}
	var bs []int
	for b := range e.irrevSet {
		bs = append(bs, b)
	}
	sort.Ints(bs)
	for _, b := range bs {
		if !e.w.isAncestorOrSelf(b, tip) {
			e.violate("irreversible-block-undone", fmt.Sprintf("after %s: block %d (height %d) was on the state machine's chain at or below the irreversible height; the state machine is now at block %d (height %d, irreversible height %d), whose chain does not contain it",
				tag, b, e.w.Blocks[b].Height, tip, e.w.Blocks[tip].Height, irrev), "")
			delete(e.irrevSet, b) // reported once
			break
		}
	}
	for _, b := range e.w.chain(tip) {
		if h := e.w.Blocks[b].Height; h > 0 && h <= irrev {
			e.irrevSet[b] = true
		}
	}
}

// ---------- generator

func (g *Gen) raceK() int {
	// most yield points of a request lie inside the state-machine lock; #0 of a walk lies before it
	if g.r.Chance(1, 6) {
		return 0
	}
	if g.r.Chance(1, 8) {
		return 6 + g.r.Intn(20)
	}
	return 1 + g.r.Intn(5)
}

// growBranch confirms (ledger only, the state machine does not move) n peer blocks on top of base, each carrying 0-1 fresh
// transfers valid on its own branch; returns the last block, or -1.
func (g *Gen) growBranch(base, n int) int {
	e := g.e
	w := e.w
	for i := 0; i < n; i++ {
		s := w.SpecAt(base).clone()
		var ids []string
		if g.r.Chance(1, 2) {
			if line, ok := g.genXfer(s, w.Blocks[base].Height, ""); ok {
				g.emit(line)
				ids = append(ids, fmt.Sprint(len(w.Txs)-1))
			}
		}
		bi := len(w.Blocks)
		g.emit(fmt.Sprintf("blk %d pre=%d prop=m1 aa=%d aw=%d txs=%s", bi, base, w.Award, len(w.Txs), strings.Join(ids, ",")))
		if g.emit(fmt.Sprintf("confirm %d", bi)) == "fail" {
			return -1
		}
		g.confirmed[bi] = true
		base = bi
	}
	return base
}

func (g *Gen) emitRace(a, b string) {
	if g.r.Bool() {
		a, b = b, a
	}
	g.emit(fmt.Sprintf("walkrace %s %s k=%d", a, b, g.raceK()))
	ord := "ab"
	if lr := g.e.lastRaced; lr != nil && lr.order == "ba" {
		ord = "ba"
	}
	g.emit("raced " + ord)
}

// walkRace: one pair of requests in flight at once.
func (g *Gen) walkRace() {
	e := g.e
	w := e.w
	st := e.stateTip()
	if st < 0 {
		return
	}
	cl := g.confirmedList()
	anyConfirmed := func() int { return cl[g.r.Intn(len(cl))] }
	switch g.r.Intn(6) {
	case 0, 1:
		// two branches ahead of the state machine: one long enough to make its first blocks irreversible, a competing one
		// that leaves the chain at or below the height that becomes irreversible
		if st != e.ledgerTip() {
			g.syncState()
			if st = e.stateTip(); st < 0 {
				return
			}
		}
		win := int(w.Window)
		base := st
		if g.r.Chance(1, 3) && w.Blocks[st].Pre >= 0 && w.Blocks[st].Height-1 > w.Main.S.GetMeta().IrreversibleBlockHeight {
			base = w.Blocks[st].Pre // the competing branch leaves the chain one block below the state machine
		}
		long := g.growBranch(st, win+1+g.r.Intn(2))
		if long < 0 {
			return
		}
		side := g.growBranch(base, 1+g.r.Intn(win+1))
		if side < 0 {
			return
		}
		g.emitRace(fmt.Sprintf("walk:%d", long), fmt.Sprintf("walk:%d", side))
	case 2:
		// two walks to blocks the ledger holds
		if len(cl) < 2 {
			return
		}
		g.emitRace(fmt.Sprintf("walk:%d", anyConfirmed()), fmt.Sprintf("walk:%d", anyConfirmed()))
	case 3:
		// a peer block on the tip is played while a walk is requested (to that block, to its sibling, or anywhere)
		if st != e.ledgerTip() {
			g.syncState()
			if st = e.stateTip(); st < 0 {
				return
			}
		}
		nb := g.growBranch(st, 1)
		if nb < 0 {
			return
		}
		tgt := anyConfirmed()
		switch g.r.Intn(3) {
		case 0:
			tgt = nb
		case 1:
			if sib := g.growBranch(st, 1+g.r.Intn(2)); sib >= 0 {
				tgt = sib
			}
		}
		g.emitRace(fmt.Sprintf("play:%d", nb), fmt.Sprintf("walk:%d", tgt))
	case 4:
		// the node's own block (award only: PlayForMiner relies on the block's other transactions being pending) while a walk
		// or a peer's block is requested
		if st != e.ledgerTip() {
			g.syncState()
			if st = e.stateTip(); st < 0 {
				return
			}
		}
		bi := len(w.Blocks)
		g.emit(fmt.Sprintf("blk %d pre=%d prop=m0 aa=%d aw=%d txs=", bi, st, w.Award, len(w.Txs)))
		if g.emit(fmt.Sprintf("confirm %d", bi)) == "fail" {
			return
		}
		g.confirmed[bi] = true
		other := fmt.Sprintf("walk:%d", anyConfirmed())
		switch g.r.Intn(3) {
		case 0:
			if sib := g.growBranch(st, 1+g.r.Intn(2)); sib >= 0 {
				other = fmt.Sprintf("walk:%d", sib)
			}
		case 1:
			if sib := g.growBranch(st, 1); sib >= 0 {
				other = fmt.Sprintf("play:%d", sib)
			}
		}
		g.emitRace(fmt.Sprintf("playminer:%d", bi), other)
	case 5:
		// a submission while a walk / a block is requested
		line, ok := g.genXfer(e.specNow(), g.ledgerHeight(), "")
		if !ok {
			return
		}
		g.emit(line)
		ti := len(w.Txs) - 1
		other := fmt.Sprintf("walk:%d", anyConfirmed())
		if g.r.Chance(1, 3) && st == e.ledgerTip() {
			if nb := g.growBranch(st, 1); nb >= 0 {
				other = fmt.Sprintf("play:%d", nb)
			}
		}
		g.emitRace(fmt.Sprintf("dotx:%d", ti), other)
	}
}
