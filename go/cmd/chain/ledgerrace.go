package main

// lrace: two ledger-changing requests in flight at once (the same block pushed by two peers, two competing blocks, a
// block arriving during a truncation).
//
//	lrace <A> <B> k=<n>        A, B = confirm:<blk> | truncate:<blk>
//	lraced ab|ba               which one-at-a-time order the ledger equals (emitted by the generator after the race)
//
// Schedule (deterministic, no change to the code under test): request A runs in its own goroutine and is held at its
// n-th yield point - a yield point of a ledger request is the moment one of its storage reads (Get / Has of the
// in-memory engine, kvmem.SetAfterRead) has computed its answer, or the moment before one of its storage write groups
// (kvmem.SetBeforeWrite). Then request B is started and runs until it returns or is seen waiting for a mutex (the
// ledger lock A holds); then A goes on. A check made before the lock is taken and acted upon under it is exactly a
// yield point at which B runs to its end.
//
// Oracles (on the real code only): the results of both requests and every C04 observable equal those of A;B or of B;A
// executed one at a time by the real code on copies of the storage image (a ledger serialises its writers: "after any
// SEQUENCE of block submissions"); the generator has the C04 invariants checked after every race (lcheck).

import (
	"fmt"
	"path/filepath"
	"strconv"
	"strings"
	"sync/atomic"
	"time"

	"xv/chainlib"
	"xv/kvmem"
)

type lcall struct {
	kind string
	arg  int
}

func parseLCall(s string) (lcall, bool) {
	p := strings.SplitN(s, ":", 2)
	if len(p) != 2 || (p[0] != "confirm" && p[0] != "truncate") {
		return lcall{}, false
	}
	n, err := strconv.Atoi(p[1])
	return lcall{p[0], n}, err == nil
}

func (c lcall) String() string { return fmt.Sprintf("%s:%d", c.kind, c.arg) }

func (e *Exec) runLCall(n *chainlib.Node, c lcall) (res string) {
	defer func() {
		if r := recover(); r != nil {
			res = fmt.Sprintf("panic:%v", r)
		}
	}()
	b := e.w.Blocks[c.arg]
	if c.kind == "truncate" {
		if err := n.L.Truncate(b.Blk.Blockid); err != nil {
			return "fail"
		}
		return "ok"
	}
	st := n.L.ConfirmBlock(chainlib.CloneBlock(b.Blk), false)
	switch {
	case !st.Succ:
		return "fail"
	case st.TrunkSwitch:
		return "ok-switch"
	case st.Orphan:
		return "ok-side"
	}
	return "ok"
}

type lraceResult struct {
	ra, rb, mode, desc string
}

// lraceRun: k < 0 one at a time (a, then b); otherwise a is held at its k-th yield point while b is started.
func (e *Exec) lraceRun(n *chainlib.Node, a, b lcall, k int) lraceResult {
	var gidA int64 = -1
	var gidB int64 = -1
	var nA int32
	paused, resume := make(chan struct{}), make(chan struct{})
	res := lraceResult{mode: "seq"}
	yield := func(kind, what string) {
		if k < 0 || curGID() != atomic.LoadInt64(&gidA) {
			return
		}
		if atomic.AddInt32(&nA, 1) == int32(k+1) {
			res.desc = kind + " " + what
			close(paused)
			<-resume
		}
	}
	if k >= 0 {
		kvmem.SetAfterRead(func(store, key string) {
			if strings.HasPrefix(store, n.Root) {
				pre := key
				if len(pre) > 2 {
					pre = pre[:2]
				}
				yield("read", filepath.Base(store)+"/"+fmt.Sprintf("%q", pre))
			}
		})
		var wh func(store string)
		wh = func(store string) {
			kvmem.SetBeforeWrite(wh) // one-shot hook: arm it again first
			if strings.HasPrefix(store, n.Root) {
				yield("write", filepath.Base(store))
			}
		}
		kvmem.SetBeforeWrite(wh)
		defer kvmem.ClearHooks()
	}
	start := func(c lcall, gid *int64, out *string) chan struct{} {
		done := make(chan struct{})
		go func() {
			atomic.StoreInt64(gid, curGID())
			*out = e.runLCall(n, c)
			close(done)
		}()
		return done
	}
	doneA := start(a, &gidA, &res.ra)
	held := false
	select {
	case <-doneA:
	case <-paused:
		held = true
	}
	doneB := start(b, &gidB, &res.rb)
	if held {
		res.mode = "timeout"
		deadline := time.Now().Add(3 * time.Second)
		seen := 0
	wait:
		for time.Now().Before(deadline) {
			select {
			case <-doneB:
				res.mode = "inside"
				break wait
			case <-time.After(150 * time.Microsecond):
			}
			if gb := atomic.LoadInt64(&gidB); gb >= 0 && goroutineWaitsForMutex(gb) {
				if seen++; seen >= 2 {
					res.mode = "queued"
					break wait
				}
			} else {
				seen = 0
			}
		}
		close(resume)
		<-doneA
	}
	<-doneB
	return res
}

type lastLRace struct {
	a, b          lcall
	ra, rb, order string
}

var lastLRaced *lastLRace

// execLedgerExt: the ledger ops added in wave 6 (races, read faults).
func (e *Exec) execLedgerExt(op string, pos []string, kv map[string]string, line string) string {
	switch op {
	case "lrace":
		return e.opLRace(pos, kv, line)
	case "lraced":
		return e.opLRaced(pos)
	case "ftruncate":
		return e.opFTruncate(pos, kv)
	case "tips":
		return e.opTips(pos, kv, line)
	case "dumpf":
		return e.opDumpF(kv, line)
	}
	return "bad-op"
}

func (e *Exec) opLRace(pos []string, kv map[string]string, line string) string {
	w := e.w
	if len(pos) < 2 {
		return "bad-op"
	}
	a, okA := parseLCall(pos[0])
	b, okB := parseLCall(pos[1])
	if !okA || !okB || a.arg < 0 || b.arg < 0 || a.arg >= len(w.Blocks) || b.arg >= len(w.Blocks) {
		return "bad-op"
	}
	k := atoi(kv["k"])
	type ref struct{ res, out string }
	runRef := func(x, y lcall, swap bool) (ref, error) {
		w.nodeSeq++
		c, err := w.Main.OpenCopy(e.scratch, fmt.Sprintf("lrace%d", w.nodeSeq))
		if err != nil {
			return ref{}, err
		}
		defer kvmem.Drop(c.Root)
		r := e.lraceRun(c, x, y, -1)
		if swap {
			r.ra, r.rb = r.rb, r.ra // results are always reported as (A, B)
		}
		return ref{res: r.ra + "," + r.rb, out: r.ra + "," + r.rb + " | " + e.ledgerObsOf(c)}, nil
	}
	ab, err := runRef(a, b, false)
	if err != nil {
		e.violate("copy-open-failed", "opening instances on a copy of the data failed: "+err.Error(), "")
		return "fail"
	}
	ba, err := runRef(b, a, true)
	if err != nil {
		e.violate("copy-open-failed", "opening instances on a copy of the data failed: "+err.Error(), "")
		return "fail"
	}
	r := e.lraceRun(w.Main, a, b, k)
	got := r.ra + "," + r.rb + " | " + e.ledgerObs()
	if e.out != nil {
		e.out.Count("lrace-schedule:" + r.mode)
		e.out.Count("lrace-pair:" + a.kind + "-" + b.kind)
	}
	for _, res := range []string{r.ra, r.rb} {
		if strings.HasPrefix(res, "panic:") {
			e.violate("panic", fmt.Sprintf("op %q: a request panicked: %s", line, res), "")
		}
	}
	order := ""
	switch {
	case got == ab.out:
		order = "ab"
	case got == ba.out:
		order = "ba"
	}
	if order == "" {
		e.violate("ledger-race-not-serialisable:"+a.kind+"-"+b.kind, fmt.Sprintf("%s: request B (%s) was started while request A (%s) was held at its yield point #%d (%s; B %s); the outcome {%s} equals neither A;B {%s} nor B;A {%s} executed one at a time on copies of the ledger",
			line, b, a, k, r.desc, map[string]string{"seq": "started after A had returned", "inside": "ran to its end meanwhile", "queued": "was waiting for a mutex when A went on", "timeout": "neither returned nor waited for a mutex"}[r.mode], got, ab.out, ba.out), "")
	}
	// harness bookkeeping (the stored set), in the order the ledger took - or A;B when it took neither
	calls := []struct {
		c   lcall
		res string
	}{{a, r.ra}, {b, r.rb}}
	if order == "ba" {
		calls[0], calls[1] = calls[1], calls[0]
	}
	for _, x := range calls {
		switch {
		case !strings.HasPrefix(x.res, "ok"):
			e.failedOps++
		case x.c.kind == "confirm":
			e.noteConfirmed(x.c.arg)
		default:
			e.opTruncateDone(x.c.arg, "", nil)
		}
	}
	lastLRaced = &lastLRace{a: a, b: b, ra: r.ra, rb: r.rb, order: order}
	return "ab=" + ab.res + " ba=" + ba.res
}

func (e *Exec) opLRaced(pos []string) string {
	lr := lastLRaced
	if lr == nil || len(pos) < 1 {
		return "bad-op"
	}
	if lr.order != "" && lr.order != pos[0] {
		return lr.ra + "," + lr.rb + " order=" + lr.order
	}
	return lr.ra + "," + lr.rb
}

// lraceCase (generator): one race on the current ledger followed by the invariants.
func (g *Gen) lraceCase(stored []int) {
	e := g.e
	w := e.w
	newBlock := func(base int) int {
		bi := len(w.Blocks)
		g.emit(fmt.Sprintf("blk %d pre=%d prop=m1 aa=%d aw=%d txs=", bi, base, w.Award, len(w.Txs)))
		return bi
	}
	high := func() int {
		base := stored[g.r.Intn(len(stored))]
		for _, b := range stored {
			if w.Blocks[b].Height >= w.Blocks[base].Height && g.r.Chance(1, 2) {
				base = b
			}
		}
		return base
	}
	k := 0
	if g.r.Chance(1, 2) {
		k = 1 + g.r.Intn(5)
	}
	var a, b string
	switch x := g.r.Intn(10); {
	case x < 4: // the same new block pushed by two peers at once
		bi := newBlock(high())
		a, b = fmt.Sprintf("confirm:%d", bi), fmt.Sprintf("confirm:%d", bi)
	case x < 6: // two competing new blocks (siblings on the tip, or on different branches)
		b1 := newBlock(high())
		base2 := w.Blocks[b1].Pre
		if g.r.Chance(1, 2) {
			base2 = high()
		}
		b2 := newBlock(base2)
		a, b = fmt.Sprintf("confirm:%d", b1), fmt.Sprintf("confirm:%d", b2)
	case x < 7: // a block and its child arriving at once
		b1 := newBlock(high())
		b2 := newBlock(b1)
		a, b = fmt.Sprintf("confirm:%d", b1), fmt.Sprintf("confirm:%d", b2)
		if g.r.Chance(1, 2) {
			a, b = b, a
		}
	case x < 8: // a stored block again, against a new block
		d := stored[g.r.Intn(len(stored))]
		if d == 0 {
			return
		}
		a, b = fmt.Sprintf("confirm:%d", d), fmt.Sprintf("confirm:%d", newBlock(high()))
		if g.r.Chance(1, 2) {
			a, b = b, a
		}
	default: // a truncation of the main chain against a new block / a second truncation
		tip := e.ledgerTip()
		if tip <= 0 {
			return
		}
		c := w.chain(tip)
		a = fmt.Sprintf("truncate:%d", c[g.r.Intn(len(c))])
		if g.r.Chance(1, 3) {
			b = fmt.Sprintf("truncate:%d", c[g.r.Intn(len(c))])
		} else {
			// the new block extends the tip or a lower block: the truncation target stays on the main chain in both orders
			base := tip
			if lower := stored[g.r.Intn(len(stored))]; w.Blocks[lower].Height < w.Blocks[tip].Height && g.r.Chance(1, 2) {
				base = lower
			}
			b = fmt.Sprintf("confirm:%d", newBlock(base))
		}
		if g.r.Chance(1, 2) {
			a, b = b, a
		}
	}
	g.emit(fmt.Sprintf("lrace %s %s k=%d", a, b, k))
	order := "ab"
	if lastLRaced != nil && lastLRaced.order == "ba" {
		order = "ba"
	}
	g.emit("lraced " + order)
	g.emit("lcheck")
}
