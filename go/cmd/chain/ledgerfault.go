package main

// Storage READ faults on the ledger's table scans: an iterator of the storage engine that breaks off after n entries -
// Next() answers false and Error() is set, the way leveldb reports an I/O error or a corrupted table block in the middle
// of a scan (kvmem.SetIterFault).
//
//	ftruncate <blk> it=<n>     Ledger.Truncate while every scan of the ledger database breaks off after n entries
//	tips <blk> [it=<n>]        Ledger.GetBranchInfo(blk) (the branch tips above blk), optionally under the same fault
//	dumpf it=<n>               Ledger.Dump under the fault
//
// Oracles: an operation that reports failure leaves no trace (C05 / C04 as for every failed truncation); an operation that
// reports success is judged like every successful one (the generator has the C04 invariants checked next: nothing stored
// above the recorded tip, height index, branch tips, flags); a QUERY answers with an error or with the complete answer -
// never with the part of the table it happened to read.

import (
	"errors"
	"fmt"
	"sort"
	"strings"

	pb "github.com/xuperchain/xupercore/bcs/ledger/xledger/xldgpb"

	"xv/kvmem"
)

var errIterInject = errors.New("verifmem: injected read fault (table scan broke off)")

// withIterFault runs f while every iterator over the main node's stores breaks off after n entries; it reports how many
// scans were affected.
func (e *Exec) withIterFault(n int, f func()) (used int) {
	root := e.w.Main.Root
	kvmem.SetIterFault(func(store, prefix string) (int, error) {
		if !strings.HasPrefix(store, root) {
			return 0, nil
		}
		used++
		return n, errIterInject
	})
	defer kvmem.SetIterFault(nil)
	f()
	return used
}

func (e *Exec) opFTruncate(pos []string, kv map[string]string) string {
	if len(pos) < 1 || atoi(pos[0]) < 0 || atoi(pos[0]) >= len(e.w.Blocks) {
		return "bad-op"
	}
	b := atoi(pos[0])
	before := e.ledgerObs()
	var err error
	used := e.withIterFault(atoi(kv["it"]), func() { err = e.w.Main.L.Truncate(e.w.Blocks[b].Blk.Blockid) })
	ans := e.opTruncateDone(b, before, err)
	if ans == "fail" && used > 0 {
		return "fault"
	}
	return ans
}

// leavesAbove: the branch tips above block b according to the tree the harness keeps.
func (e *Exec) leavesAbove(b int) []int {
	w := e.w
	t := e.lt()
	leaves := map[int]bool{}
	for x := range t.stored {
		leaves[x] = true
	}
	for x := range t.stored {
		if p := w.Blocks[x].Pre; p >= 0 {
			delete(leaves, p)
		}
	}
	var out []int
	for x := range leaves {
		if x != b && w.Blocks[x].Height > w.Blocks[b].Height {
			out = append(out, x)
		}
	}
	sort.Ints(out)
	return out
}

func (e *Exec) opTips(pos []string, kv map[string]string, line string) string {
	if len(pos) < 1 || atoi(pos[0]) < 0 || atoi(pos[0]) >= len(e.w.Blocks) || !e.lt().stored[atoi(pos[0])] {
		return "bad-op"
	}
	b := atoi(pos[0])
	blk := e.w.Blocks[b]
	var ids []string
	var err error
	call := func() { ids, err = e.w.Main.L.GetBranchInfo(blk.Blk.Blockid, blk.Height) }
	if _, faulty := kv["it"]; faulty {
		e.withIterFault(atoi(kv["it"]), call)
	} else {
		call()
	}
	if err != nil {
		if _, faulty := kv["it"]; faulty {
			return "fault"
		}
		return "fail"
	}
	var got []int
	for _, id := range ids {
		got = append(got, e.bidx([]byte(id)))
	}
	sort.Ints(got)
	if want := e.leavesAbove(b); fmt.Sprint(got) != fmt.Sprint(want) {
		e.violate("branch-tips-incomplete", fmt.Sprintf("%s: GetBranchInfo(block %d) answered %v without an error, the branch tips above that block are %v", line, b, got, want), "")
	}
	s := make([]string, len(got))
	for i, x := range got {
		s[i] = fmt.Sprint(x)
	}
	return "tips=" + strings.Join(s, ",")
}

func (e *Exec) opDumpF(kv map[string]string, line string) string {
	var d [][]string
	var err error
	e.withIterFault(atoi(kv["it"]), func() { d, err = e.w.Main.L.Dump() })
	if err != nil {
		return "-"
	}
	n := 0
	for _, row := range d {
		n += len(row)
	}
	if want := len(e.lt().stored); n != want {
		e.violate("dump-incomplete", fmt.Sprintf("%s: Dump lists %d blocks without an error, %d blocks are stored", line, n, want), "")
	}
	return "-"
}

// ifaultCase (generator): a truncation / a branch-tip query / a dump under a scan that breaks off, then the invariants.
func (g *Gen) ifaultCase(stored []int) {
	e := g.e
	w := e.w
	tip := e.ledgerTip()
	if tip < 0 {
		return
	}
	c := w.chain(tip)
	target := c[g.r.Intn(len(c))]
	if g.r.Chance(1, 2) && len(c) > 1 {
		target = c[g.r.Intn(len(c)-1)] // below the tip: there is something to cut
	}
	nz := len(w.Main.LedgerScan(pb.BranchInfoPrefix))
	n := g.r.Intn(nz + 1) // nz: the fault hits the read after the last entry
	switch x := g.r.Intn(6); {
	case x < 3:
		g.emit(fmt.Sprintf("ftruncate %d it=%d", target, n))
		g.emit("lcheck")
		g.emit("ledger")
		if g.r.Chance(1, 3) {
			g.emit("reopen")
			g.emit("lcheck")
		}
	case x < 5:
		b := stored[g.r.Intn(len(stored))]
		g.emit(fmt.Sprintf("tips %d", b))
		g.emit(fmt.Sprintf("tips %d it=%d", b, n))
	default:
		g.emit(fmt.Sprintf("dumpf it=%d", g.r.Intn(len(stored)+1)))
	}
}
