package main

// The in-memory engine go/kvmem stands in for the repository's leveldb engine in every chain-family check; the crash
// enumeration (C06) relies on its contract: nothing of a batch is visible before Write, everything after, in op order.
// This differential run ties that contract to the real engine (lib/storage/kvdb/leveldb): the same random operation
// sequences - direct puts / deletes, batches with Put / Delete / PutIfAbsent / Exist / ValueSize / Reset, batches that are
// never written, batches of several MiB - go to both engines and the visible contents are compared after every step.

import (
	"bytes"
	"fmt"
	"os"
	"path/filepath"
	"strings"

	"github.com/xuperchain/xupercore/lib/storage/kvdb"
	"github.com/xuperchain/xupercore/lib/storage/kvdb/leveldb"

	"xv/kvmem"
	"xv/xvlib"
)

func dumpDB(db kvdb.Database) string {
	it := db.NewIteratorWithPrefix([]byte(""))
	defer it.Release()
	var b strings.Builder
	for it.Next() {
		v := it.Value()
		fmt.Fprintf(&b, "%s=%d:%x;", it.Key(), len(v), xvlib.Sum8(v))
	}
	return b.String()
}

// kvEngineCase runs case c of a seed: a deterministic function of (seed, c), so that `kvengine <seed> <c>` replays it.
func kvEngineCase(out *xvlib.Out, scratch string, seed uint64, c int) {
	r := xvlib.NewRng(seed*7919 + 6 + uint64(c)*104729)
	line := fmt.Sprintf("kvengine %d %d", seed, c)
	{
		dir := filepath.Join(scratch, fmt.Sprintf("kvengine%d", c))
		os.RemoveAll(dir)
		real, err := leveldb.NewKVDBInstance(&kvdb.KVParameter{DBPath: dir, KVEngineType: "leveldb", StorageType: "single", MemCacheSize: 8, FileHandlersCacheSize: 16})
		if err != nil {
			xvlib.Die("open leveldb: %v", err)
		}
		mem := kvmem.Open(dir + "-mem")
		var ops []string
		big := c%4 == 3 // a batch of several MiB
		viol := func(key, what string) {
			out.Violate(xvlib.Violation{Key: key, What: what + "; engine operations of the case: " + strings.Join(ops, ", "), Ops: []string{line}, Impl: []string{}})
		}
		compare := func(when string) bool {
			a, b := dumpDB(real), dumpDB(mem)
			if a != b {
				viol("kvengine-differs", "the leveldb engine and the in-memory engine of the harness show different contents "+when)
				return false
			}
			return true
		}
		key := func() []byte { return []byte(fmt.Sprintf("k%02d", r.Intn(12))) }
		val := func() []byte {
			n := 1 + r.Intn(40)
			if big && r.Chance(5, 6) {
				n = 900000 + r.Intn(400000)
			}
			return bytes.Repeat([]byte{byte('a' + r.Intn(26))}, n)
		}
		ok := true
		steps := 6 + r.Intn(10)
		for s := 0; s < steps && ok; s++ {
			switch r.Intn(4) {
			case 0:
				k, v := key(), val()
				ops = append(ops, fmt.Sprintf("put %s %d", k, len(v)))
				real.Put(k, v)
				mem.Put(k, v)
			case 1:
				k := key()
				ops = append(ops, fmt.Sprintf("del %s", k))
				real.Delete(k)
				mem.Delete(k)
			default:
				rb, mb := real.NewBatch(), mem.NewBatch()
				before := dumpDB(real)
				n := 1 + r.Intn(8)
				if big {
					n = 8 + r.Intn(6)
				}
				for i := 0; i < n && ok; i++ {
					k := key()
					choice := r.Intn(6)
					if big && i < 6 {
						choice = 5 // the first entries of a large batch are puts: it grows past 5 MiB before anything else happens
					}
					switch choice {
					case 0:
						ops = append(ops, fmt.Sprintf("batch.del %s", k))
						rb.Delete(k)
						mb.Delete(k)
					case 1:
						v := val()
						ops = append(ops, fmt.Sprintf("batch.putifabsent %s %d", k, len(v)))
						e1, e2 := rb.PutIfAbsent(k, v), mb.PutIfAbsent(k, v)
						if (e1 == nil) != (e2 == nil) {
							viol("kvengine-differs", fmt.Sprintf("PutIfAbsent answers differ: leveldb %v, in-memory %v", e1, e2))
							ok = false
						}
					case 2:
						ops = append(ops, fmt.Sprintf("batch.exist %s", k))
						if rb.Exist(k) != mb.Exist(k) {
							viol("kvengine-differs", "Batch.Exist answers differ")
							ok = false
						}
					case 3:
						if r.Chance(1, 4) {
							ops = append(ops, "batch.reset")
							rb.Reset()
							mb.Reset()
						}
					default:
						v := val()
						ops = append(ops, fmt.Sprintf("batch.put %s %d", k, len(v)))
						rb.Put(k, v)
						mb.Put(k, v)
					}
					// nothing of an unwritten batch is visible, however large it has grown
					if now := dumpDB(real); now != before {
						viol("kvengine-batch-visible-before-write", "the leveldb engine shows effects of a batch whose Write has not been called")
						ok = false
					}
				}
				if !ok {
					break
				}
				if rb.ValueSize() != mb.ValueSize() {
					out.Count("kvengine:valuesize-differs") // informational: nothing in the node depends on the exact figure
				}
				if r.Chance(1, 5) {
					ops = append(ops, "batch.dropped") // never written: must leave nothing behind
				} else {
					ops = append(ops, "batch.write")
					e1, e2 := rb.Write(), mb.Write()
					if (e1 == nil) != (e2 == nil) {
						viol("kvengine-differs", fmt.Sprintf("Batch.Write answers differ: leveldb %v, in-memory %v", e1, e2))
						ok = false
					}
				}
			}
			ok = ok && compare("after "+ops[len(ops)-1])
		}
		if ok {
			// and after closing and reopening the real engine
			real.Close()
			real, err = leveldb.NewKVDBInstance(&kvdb.KVParameter{DBPath: dir, KVEngineType: "leveldb", StorageType: "single", MemCacheSize: 8, FileHandlersCacheSize: 16})
			if err != nil {
				viol("kvengine-differs", "the leveldb engine cannot be reopened: "+err.Error())
			} else {
				compare("after reopening the leveldb engine")
			}
		}
		if real != nil {
			real.Close()
		}
		os.RemoveAll(dir)
		kvmem.Drop(dir + "-mem")
		out.Case(line, true)
		if big {
			out.Count("kvengine:large-batch-cases")
		} else {
			out.Count("kvengine:cases")
		}
	}
}
