package main

// Generator case "badswitch": a block that is refused by the ledger at a LATE stage - after ConfirmBlock has prepared the
// trunk switch it would cause (flag flips of both branches, height index, its own header, the re-homing of transactions
// it packs again) - followed at once by an ordinary accepted block, then by the snapshot / ledger checks. Whatever the
// refused block had prepared must be gone when the next block is written.
//
//	main chain  ... F - A1 .. Ad (= ledger tip, state on it)
//	side branch     F - S1 .. Sd           valid blocks, stored as a side branch of the same height
//	refused         Sd - B                 packs again transactions confirmed in A1..Ad (legal on a fork) and then either
//	                                       repeats a transaction confirmed at / below F (duplicated transaction) or
//	                                       carries a second coinbase
//	accepted        Ad - N                 the next block of the main chain
import (
	"fmt"
	"math/big"
	"strings"
)

func (g *Gen) refusedSwitch() {
	e := g.e
	w := e.w
	lt := e.ledgerTip()
	if lt <= 0 || e.stateTip() != lt {
		g.syncState()
		lt = e.ledgerTip()
		if lt <= 0 || e.stateTip() != lt {
			return
		}
	}
	c := w.chain(lt)
	d := 1 + g.r.Intn(2)
	if len(c) < d+1 {
		d = len(c) - 1
	}
	if d < 1 {
		return
	}
	f := c[len(c)-1-d]
	// transactions confirmed above the fork point, in chain order
	var above []int
	for _, b := range c[len(c)-d:] {
		for _, ti := range w.Blocks[b].Txs[1:] {
			if !w.Txs[ti].Coinbase {
				above = append(above, ti)
			}
		}
	}
	var below []int
	for _, b := range c[:len(c)-d] {
		for _, ti := range w.Blocks[b].Txs[1:] {
			if !w.Txs[ti].Coinbase {
				below = append(below, ti)
			}
		}
	}
	s := w.SpecAt(f).clone()
	taken := map[int]bool{}
	pre := f
	for i := 0; i < d; i++ {
		var ids []string
		h := w.Blocks[pre].Height
		for _, ti := range above {
			if !taken[ti] && g.r.Chance(1, 4) && s.admissible(w.Txs[ti], h) == "" {
				s.apply(w.Txs[ti])
				taken[ti] = true
				ids = append(ids, fmt.Sprint(ti))
			}
		}
		bi := len(w.Blocks)
		g.emit(fmt.Sprintf("blk %d pre=%d prop=m1 aa=%d aw=%d txs=%s", bi, pre, w.Award, len(w.Txs), strings.Join(ids, ",")))
		if g.emit(fmt.Sprintf("confirm %d", bi)) == "fail" {
			return
		}
		g.confirmed[bi] = true
		pre = bi
	}
	// the refused block
	var ids []string
	h := w.Blocks[pre].Height
	for _, ti := range above {
		if !taken[ti] && s.admissible(w.Txs[ti], h) == "" {
			s.apply(w.Txs[ti])
			taken[ti] = true
			ids = append(ids, fmt.Sprint(ti))
		}
	}
	if len(below) > 0 && g.r.Chance(3, 4) {
		ids = append(ids, fmt.Sprint(below[g.r.Intn(len(below))]))
	} else {
		t := &TxInfo{Idx: len(w.Txs), From: "u0", Coinbase: true, Outs: []OutInfo{{Addr: "u0", Amt: big.NewInt(7)}}}
		g.emit(t.line("xtx", ""))
		ids = append(ids, fmt.Sprint(t.Idx))
	}
	bi := len(w.Blocks)
	g.emit(fmt.Sprintf("blk %d pre=%d prop=m1 aa=%d aw=%d txs=%s", bi, pre, w.Award, len(w.Txs), strings.Join(ids, ",")))
	if g.emit(fmt.Sprintf("confirm %d", bi)) != "fail" {
		g.confirmed[bi] = true
		g.syncState()
		return
	}
	if e.out != nil {
		e.out.Count("badswitch:refused")
	}
	// the next block of the main chain, played
	bn := len(w.Blocks)
	g.emit(fmt.Sprintf("blk %d pre=%d prop=m1 aa=%d aw=%d txs=", bn, lt, w.Award, len(w.Txs)))
	if g.emit(fmt.Sprintf("confirm %d", bn)) != "fail" {
		g.confirmed[bn] = true
		g.syncState()
	}
	g.emit("ledger")
	g.emit("lcheck")
	g.emit("snap")
}
