package main

// C06: crash consistency. The in-memory engine logs every storage write group (single put / delete /
// atomic batch) of both databases since the scenario started. For every prefix of that log the image is
// materialised under a fresh node name, ledger and state are opened on it, and the invariants are checked.

import (
	"fmt"
	"sort"
	"strings"

	"github.com/xuperchain/xupercore/bcs/ledger/xledger/state"
	"xv/chainlib"
	"xv/kvmem"
)

func (e *Exec) crashCheck(maxPoints int) string {
	w := e.w
	log := append([]kvmem.Group{}, kvmem.Log...)
	n := len(log)
	if n == 0 {
		return "no-log"
	}
	wasLogging := kvmem.Logging
	kvmem.Logging = false
	defer func() { kvmem.Logging = wasLogging }()
	// crash points: after write group k, k = 0..n (0 = nothing written yet is not openable: start at the first point where the root block is played)
	var points []int
	start := e.crashStart
	if maxPoints <= 0 || n-start <= maxPoints {
		for k := start; k <= n; k++ {
			points = append(points, k)
		}
	} else {
		step := float64(n-start) / float64(maxPoints)
		seen := map[int]bool{}
		for i := 0; i <= maxPoints; i++ {
			k := start + int(float64(i)*step)
			if k > n {
				k = n
			}
			if !seen[k] {
				seen[k] = true
				points = append(points, k)
			}
		}
	}
	checked := 0
	for _, k := range points {
		w.nodeSeq++
		name := fmt.Sprintf("crash%d", w.nodeSeq)
		root := chainlib.RootFor(e.scratch, name)
		kvmem.Drop(root)
		kvmem.ApplyGroups(w.Main.Root, root, log[:k])
		tag := fmt.Sprintf("crash after write #%d of %d (%s)", k, n, describeGroup(log, k))
		c, err := chainlib.OpenOn(e.scratch, name, w.Main.Genesis, w.Miners[0])
		if err != nil {
			e.violate("crash-open-failed", fmt.Sprintf("%s: ledger / state do not open: %v", tag, err), "")
			kvmem.Drop(root)
			continue
		}
		e.crashInvariants(c, tag)
		kvmem.Drop(root)
		checked++
	}
	return fmt.Sprintf("points:%d", checked)
}

func describeGroup(log []kvmem.Group, k int) string {
	if k == 0 || k > len(log) {
		return "start"
	}
	g := log[k-1]
	db := "state"
	if strings.HasSuffix(g.Store, "/ledger") {
		db = "ledger"
	}
	return fmt.Sprintf("%s db, %d writes", db, len(g.Ops))
}

// crashInvariants checks C04 self-consistency on the ledger, C01/C02 at the persisted pointer with the persisted pool,
// and that walking to the ledger tip succeeds and reaches the chain state of that tip.
func (e *Exec) crashInvariants(c *chainlib.Node, tag string) {
	w := e.w
	// ---- ledger self-consistency
	m := c.L.GetMeta()
	tip := e.bidx(m.TipBlockid)
	if tip < 0 {
		e.violate("crash-ledger-tip", fmt.Sprintf("%s: ledger tip is not a known block", tag), "")
		return
	}
	onPath := map[int]bool{}
	x := tip
	h := m.TrunkHeight
	for x >= 0 {
		hd, err := c.L.QueryBlockHeader(w.Blocks[x].Blk.Blockid)
		if err != nil || hd.Height != h || !hd.InTrunk {
			e.violate("crash-ledger-path", fmt.Sprintf("%s: main chain from tip %d is broken at block %d (err %v)", tag, tip, x, err), "")
			return
		}
		if _, err := c.L.QueryBlock(w.Blocks[x].Blk.Blockid); err != nil {
			e.violate("crash-ledger-body", fmt.Sprintf("%s: main-chain block %d has no complete body: %v", tag, x, err), "")
			return
		}
		hb, err := c.L.QueryBlockByHeight(h)
		if err != nil || e.bidx(hb.Blockid) != x {
			e.violate("crash-ledger-height-index", fmt.Sprintf("%s: height index at %d does not name main-chain block %d", tag, h, x), "")
		}
		onPath[x] = true
		h--
		x = e.bidx(hd.PreHash)
	}
	if h != -1 {
		e.violate("crash-ledger-path", fmt.Sprintf("%s: main chain does not reach genesis", tag), "")
		return
	}
	for i, b := range w.Blocks {
		if !c.L.ExistBlock(b.Blk.Blockid) {
			continue
		}
		hd, err := c.L.QueryBlockHeader(b.Blk.Blockid)
		if err != nil {
			continue
		}
		if hd.InTrunk != onPath[i] || hd.Height > m.TrunkHeight {
			e.violate("crash-ledger-flags", fmt.Sprintf("%s: block %d InTrunk=%v height=%d, main chain membership %v, trunk height %d", tag, i, hd.InTrunk, hd.Height, onPath[i], m.TrunkHeight), "")
		}
	}
	// transactions of main-chain blocks map to their main-chain block
	for b := range onPath {
		for _, ti := range w.Blocks[b].Txs {
			tx := w.Txs[ti].Tx
			ct, err := c.L.QueryTransaction(tx.Txid)
			if err != nil || e.bidx(ct.Blockid) != b || !c.L.IsTxInTrunk(tx.Txid) {
				got := -1
				if err == nil {
					got = e.bidx(ct.Blockid)
				}
				e.violate("crash-ledger-tx-mapping", fmt.Sprintf("%s: tx %d of main-chain block %d maps to block %d, IsTxInTrunk=%v", tag, ti, b, got, c.L.IsTxInTrunk(tx.Txid)), "")
			}
		}
	}
	// ---- state at its persisted pointer
	ptr := e.bidx(c.S.GetLatestBlockid())
	if ptr < 0 {
		e.violate("crash-state-pointer", fmt.Sprintf("%s: state pointer names an unknown block", tag), "")
		return
	}
	if !c.L.ExistBlock(w.Blocks[ptr].Blk.Blockid) {
		e.violate("crash-state-pointer", fmt.Sprintf("%s: state pointer names block %d which the ledger does not store", tag, ptr), "")
		return
	}
	e.checkNodeAgainstSpec(c, ptr, tag, "crash-state")
	// ---- synchronise to the ledger tip
	if ptr != tip {
		err := c.S.Walk(w.Blocks[tip].Blk.Blockid, false)
		state.VerifWaitRecover()
		if err != nil {
			// refused only by the irreversible height or an invalid block the scenario built on purpose
			if !e.walkMayFail(ptr, tip) {
				key := "crash-sync-failed"
				if b, ti := e.spendsFrozenAbove(ptr, tip); b >= 0 {
					// the node's own block carries a pending transaction that was (re-)admitted while the ledger was
					// higher (before a truncation): at the ledger height of the restart its input is still frozen
					key = "crash-sync-failed:block-spends-output-frozen-above-ledger-height"
					tag = fmt.Sprintf("%s [block %d, tx %d]", tag, b, ti)
				}
				e.violate(key, fmt.Sprintf("%s: walking the recovered state from block %d to the ledger tip %d fails: %v", tag, ptr, tip, err), "")
			}
			return
		}
		e.checkNodeAgainstSpec(c, tip, tag+" then walk to tip", "crash-sync-state")
	}
}

// spendsFrozenAbove: a block the walk from a to b has to apply contains a transaction one of whose inputs is an output
// frozen until a height above the height of b (the ledger height at which the restarted node verifies it)
func (e *Exec) spendsFrozenAbove(a, b int) (int, int) {
	w := e.w
	hb := w.Blocks[b].Height
	for _, x := range w.chain(b) {
		if w.isAncestorOrSelf(x, a) {
			continue
		}
		for _, ti := range w.Blocks[x].Txs {
			for _, in := range w.Txs[ti].Tx.TxInputs {
				if in.FrozenHeight > hb {
					return x, ti
				}
			}
		}
	}
	return -1, -1
}

// walkMayFail: a walk from a to b may legitimately fail when the scenario contains deliberately invalid blocks
// on the way (marked by the generator, or refused by the uninterrupted run itself: a peer block without the pending
// transaction its member depends on) or the irreversible window forbids the undo.
func (e *Exec) walkMayFail(a, b int) bool {
	if e.w.Window > 0 {
		return true
	}
	for _, x := range e.w.chain(b) {
		if e.badBlocks[x] || e.failedDest[x] {
			return true // the uninterrupted run could not apply this block either
		}
	}
	return false
}

// checkNodeAgainstSpec: observables of node c == spec(block) + its persisted pool (applied in the pool's own order);
// conservation.
func (e *Exec) checkNodeAgainstSpec(c *chainlib.Node, blk int, tag, key string) {
	w := e.w
	txs, err := c.S.GetUnconfirmedTx(false)
	if err != nil {
		e.violate(key+"-pool", fmt.Sprintf("%s: pool cannot be read: %v", tag, err), "")
		return
	}
	s := w.SpecAt(blk).clone()
	var pool []int
	for _, t := range txs {
		ti, ok := w.TxByID[string(t.Txid)]
		if !ok {
			e.violate(key+"-pool", fmt.Sprintf("%s: unknown tx in pool", tag), "")
			return
		}
		pool = append(pool, ti)
		if r := s.admissible(w.Txs[ti], 1<<40); r != "" && r != "frozen" {
			e.violate(key+"-pool-not-applicable", fmt.Sprintf("%s: pool tx %d is not applicable on the state at block %d (%s): its effects cannot be present", tag, ti, blk, r), "")
		}
		s.apply(w.Txs[ti])
	}
	sort.Ints(pool)
	m := c.S.GetMeta()
	save := e.w.Main
	obs := e.observe(c)
	_ = save
	lh := c.L.GetMeta().TrunkHeight
	e.obsLedgerH = &lh
	want := e.specObserve(s, blk, m.IrreversibleBlockHeight)
	e.obsLedgerH = nil
	if obs != want {
		e.violate(key+"-differs", fmt.Sprintf("%s: state at block %d with pool %v {%s} differs from genesis..%d + pool {%s}", tag, blk, pool, obs, blk, want), "")
	}
}
