package main

// C05 "a running state machine answers every query exactly as an instance freshly reopened on the same data directory":
// the pending pool is a query too. poolObs renders what GetUnconfirmedTx / HasTx / QueryTx answer about pending
// transactions on node n: WHICH transactions are handed out (as a multiset of the values, not of the keys), whether each
// handed-out message IS the transaction its id names (id recomputed from the content; content equal to the transaction the
// harness submitted under that id), and whether the order respects the dependencies among them (what a miner packing in
// that order needs). The order among independent transactions is not part of the answer (the code takes it from a map).

import (
	"fmt"
	"sort"
	"strings"

	"github.com/golang/protobuf/proto"
	pb "github.com/xuperchain/xupercore/bcs/ledger/xledger/xldgpb"

	"xv/chainlib"
)

func (e *Exec) poolObs(n *chainlib.Node) string {
	txs, err := n.S.GetUnconfirmedTx(false)
	if err != nil {
		return "err"
	}
	w := e.w
	var items []string
	posOf := map[int]int{}
	var seq []int
	for i, t := range txs {
		ti, ok := w.TxByID[string(t.Txid)]
		if !ok {
			items = append(items, "unknown")
			continue
		}
		s := fmt.Sprint(ti)
		if id, err := makeTxid(t); err != nil || string(id) != string(t.Txid) {
			s += "!id" // the message does not hash to the id it carries
		} else if mine := w.Txs[ti].Tx; mine != nil {
			a, b := proto.Clone(t).(*pb.Transaction), proto.Clone(mine).(*pb.Transaction)
			a.ReceivedTimestamp, b.ReceivedTimestamp = 0, 0
			if !proto.Equal(a, b) {
				s += "!content"
			}
		}
		if has, _ := n.S.HasTx(t.Txid); !has {
			s += "!hastx"
		}
		if q, confirmed, err := n.S.QueryTx(t.Txid); err != nil || q == nil || string(q.Txid) != string(t.Txid) || confirmed {
			s += "!querytx"
		}
		if _, dup := posOf[ti]; !dup {
			posOf[ti] = i
		}
		seq = append(seq, ti)
		items = append(items, s)
	}
	sort.Strings(items)
	// order: a pending transaction comes after the pending transactions whose outputs / key versions it cites
	order := "ok"
	for _, ti := range seq {
		t := w.Txs[ti]
		var deps []int
		for _, r := range t.Ins {
			deps = append(deps, r.Tx)
		}
		for _, ki := range t.KIn {
			deps = append(deps, ki.VTx)
		}
		for _, d := range deps {
			if p, pending := posOf[d]; pending && d != ti && p > posOf[ti] {
				order = fmt.Sprintf("tx%d-before-its-input-tx%d", ti, d)
			}
		}
	}
	return fmt.Sprintf("[%s] n=%d order=%s", strings.Join(items, ","), len(txs), order)
}
