package main

// Executor: runs op lines against the real ledger + state machine; returns the canonical answer.
// Also holds the impl-side property oracles (independent of the Lean model).

import (
	"bytes"
	"encoding/hex"
	"encoding/json"
	"fmt"
	"math/big"
	"os"
	"sort"
	"strings"
	"sync/atomic"
	"time"

	"github.com/xuperchain/xupercore/bcs/ledger/xledger/ledger"
	"github.com/xuperchain/xupercore/bcs/ledger/xledger/state"
	"github.com/xuperchain/xupercore/bcs/ledger/xledger/state/utxo"
	pb "github.com/xuperchain/xupercore/bcs/ledger/xledger/xldgpb"
	"github.com/xuperchain/xupercore/kernel/contract"
	"github.com/xuperchain/xupercore/kernel/engines/xuperos/miner"
	"github.com/xuperchain/xupercore/protos"

	"xv/chainlib"
	"xv/kvmem"
	"xv/xvlib"
)

type Exec struct {
	w       *World
	scratch string
	caseOps []string // op lines of the current case (for replays)
	caseOut []string
	out     *xvlib.Out
	prop    string
	// pool as the harness believes it: tx indices in admission order
	pool []int
	// oracle bookkeeping
	maxIrrevSeen  int64
	everApplied   map[int]bool
	prunedEver    bool
	kvAtTip       map[int]map[string]string // block -> key -> live Get answer when it was tip (C18)
	lastObs       string
	failedOps     int
	ltrack        *ledgerTrack
	crashStart    int
	badBlocks     map[int]bool
	failedDest    map[int]bool // blocks whose play, or the walk to which, failed in the uninterrupted run
	selSeq        int
	minerTrunc    bool
	minerTruncErr error
	faulting      bool
	obsLedgerH    *int64 // ledger height to use for the frozen split when observing another node
	// walkrace.go: blocks seen on the state machine's chain at or below the irreversible height (of world irrevSetW), the
	// last race, and the world in which a race left the set of applied blocks unknown
	irrevSet      map[int]bool
	irrevSetW     *World
	irrevUnknownW *World
	lastRaced     *lastRace
}

func errEnum(err error) string {
	if err == nil {
		return "ok"
	}
	switch err {
	case state.ErrAlreadyInUnconfirmed:
		return "inpool"
	case utxo.ErrUTXONotFound:
		return "utxo"
	case utxo.ErrUTXOFrozen:
		return "frozen"
	case utxo.ErrUnexpected, state.ErrUnexpected:
		return "mismatch"
	case utxo.ErrInputOutputNotEqual:
		return "balance"
	case utxo.ErrUTXODuplicated, state.ErrUTXODuplicated:
		return "dupinput"
	case state.ErrRWSetInvalid:
		return "rwset"
	case state.ErrDoubleSpent:
		return "lock"
	case state.ErrPreBlockMissMatch:
		return "premismatch"
	}
	return "other"
}

func (e *Exec) name(addr []byte) string {
	if string(addr) == "$" {
		return "$"
	}
	if n, ok := e.w.NameOf[string(addr)]; ok {
		return n
	}
	return "?" + string(addr)
}

func (e *Exec) newWorld(kv map[string]string) error {
	w := &World{AddrOf: map[string]string{}, NameOf: map[string]string{}, TxByID: map[string]int{}, BlkByID: map[string]int{},
		specAt: map[int]*Spec{}, scratch: e.scratch}
	w.Fee = kv["fee"] == "1"
	w.Window = int64(atoi(kv["w"]))
	nu, nm := 3, 2
	for i := 0; i < nu; i++ {
		a := xvlib.NewAccount(10 + i)
		w.Users = append(w.Users, a)
		w.AddrOf[fmt.Sprintf("u%d", i)] = a.Address
		w.NameOf[a.Address] = fmt.Sprintf("u%d", i)
	}
	for i := 0; i < nm; i++ {
		a := xvlib.NewAccount(20 + i)
		w.Miners = append(w.Miners, a)
		w.AddrOf[fmt.Sprintf("m%d", i)] = a.Address
		w.NameOf[a.Address] = fmt.Sprintf("m%d", i)
	}
	w.Keys = []string{"k0", "k1", "k2", "k3", "k4"}
	alloc := splitList(kv["alloc"])
	g := &chainlib.Genesis{Alloc: map[string]string{}, NoFee: !w.Fee, SlideWindow: w.Window, Award: "0"}
	if w.Fee {
		g.Award = "50"
		w.Award = 50
	}
	for i, q := range alloc {
		a := w.Users[i].Address
		g.Alloc[a] = q
		g.AllocOrder = append(g.AllocOrder, a)
	}
	e.w = w
	kvmem.ResetCounter()
	kvmem.Logging = e.prop == "C06"
	n, err := chainlib.NewNode(e.scratch, "main", g.JSON(), w.Miners[0])
	if err != nil {
		return err
	}
	e.crashStart = len(kvmem.Log)
	e.badBlocks = map[int]bool{}
	e.failedDest = map[int]bool{}
	e.selSeq = 0
	w.Main = n
	// root block / root tx as block 0 / tx 0
	rb, _ := n.L.QueryBlock(n.L.GetMeta().RootBlockid)
	rt := &TxInfo{Coinbase: true, From: "-", Tx: rb.Transactions[0]}
	for i, q := range alloc {
		a, _ := new(big.Int).SetString(q, 10)
		rt.Outs = append(rt.Outs, OutInfo{Addr: fmt.Sprintf("u%d", i), Amt: a})
	}
	w.addTx(rt)
	w.bindTx(rt)
	w.Blocks = append(w.Blocks, &BlockInfo{Idx: 0, Blk: rb, Pre: -1, Height: 0, Txs: []int{0}, Prop: "-"})
	w.BlkByID[string(rb.Blockid)] = 0
	e.pool = nil
	e.maxIrrevSeen = 0
	e.everApplied = map[int]bool{0: true}
	e.prunedEver = false
	e.kvAtTip = map[int]map[string]string{}
	e.ltrack = nil
	e.recordTip()
	return nil
}

func (e *Exec) realUtxo(r InRef) chainlib.Utxo {
	return chainlib.Utxo{Addr: e.w.AddrOf[r.Addr], RefTx: e.w.Txs[r.Tx].Tx.Txid, Offset: int32(r.Off), Amount: r.Amt, Frozen: r.Frozen}
}

func (e *Exec) acct(name string) *xvlib.Account {
	i := atoi(name[1:])
	if name[0] == 'u' {
		return e.w.Users[i]
	}
	return e.w.Miners[i]
}

// buildX builds the real transaction for an abstract transfer.
func (e *Exec) buildX(t *TxInfo) error {
	tx := &pb.Transaction{Version: 3, Nonce: fmt.Sprintf("n%d", t.Idx), Timestamp: int64(1000 + t.Idx), Desc: []byte(fmt.Sprintf("xv-%d", t.Idx)),
		Initiator: e.w.AddrOf[t.From], AuthRequire: []string{e.w.AddrOf[t.From]}}
	for _, r := range t.Ins {
		amt := r.Amt.Bytes()
		if r.RawHex != "" {
			amt, _ = hex.DecodeString(r.RawHex)
		}
		tx.TxInputs = append(tx.TxInputs, &protos.TxInput{RefTxid: e.w.Txs[r.Tx].Tx.Txid, RefOffset: int32(r.Off), FromAddr: []byte(e.w.AddrOf[r.Addr]),
			Amount: amt, FrozenHeight: r.Frozen})
	}
	for _, o := range t.Outs {
		to := "$"
		if o.Addr != "$" {
			to = e.w.AddrOf[o.Addr]
		}
		tx.TxOutputs = append(tx.TxOutputs, &protos.TxOutput{ToAddr: []byte(to), Amount: o.amtBytes(), FrozenHeight: o.Frozen})
	}
	tx.Coinbase = t.Coinbase
	var err error
	t.Tx, err = chainlib.Sign(tx, e.acct(t.From))
	return err
}

// preexec runs prog in the real sandbox over the live state of main ("live") or over the spec state of block b.
func (e *Exec) preexec(from string, at string, prog string) (*chainlib.PreExecResult, error) {
	n := e.w.Main
	prog = strings.ReplaceAll(strings.ReplaceAll(prog, "_", " "), "+", ";")
	if at == "live" {
		r := n.PreExecKV(e.w.AddrOf[from], prog)
		return r, r.Err
	}
	b := atoi(at[1:])
	rd := &specReader{w: e.w, s: e.w.SpecAt(b)}
	sb, err := n.CM.NewStateSandbox(&contract.SandboxConfig{XMReader: rd, UTXOReader: n.S.CreateUtxoReader()})
	if err != nil {
		return nil, err
	}
	req := &protos.InvokeRequest{ModuleName: "xkernel", ContractName: chainlib.KVContract, MethodName: "run", Args: map[string][]byte{"prog": []byte(prog)}}
	ctx, err := n.CM.NewContext(&contract.ContextConfig{State: sb, Initiator: e.w.AddrOf[from], AuthRequire: []string{e.w.AddrOf[from]},
		ResourceLimits: contract.MaxLimits, Module: req.ModuleName, ContractName: req.ContractName})
	if err != nil {
		return nil, err
	}
	resp, err := ctx.Invoke(req.MethodName, req.Args)
	if err != nil {
		ctx.Release()
		return nil, err
	}
	used := ctx.ResourceUsed()
	ctx.Release()
	if err := sb.Flush(); err != nil {
		return nil, err
	}
	rw := sb.RWSet()
	rq := *req
	rq.ResourceLimits = contract.ToPbLimits(used)
	r := &chainlib.PreExecResult{Status: resp.Status, Body: string(resp.Body), Requests: []*protos.InvokeRequest{&rq}}
	for _, vd := range rw.RSet {
		r.Inputs = append(r.Inputs, &protos.TxInputExt{Bucket: vd.PureData.Bucket, Key: vd.PureData.Key, RefTxid: vd.RefTxid, RefOffset: vd.RefOffset})
	}
	for _, pd := range rw.WSet {
		r.Outputs = append(r.Outputs, &protos.TxOutputExt{Bucket: pd.Bucket, Key: pd.Key, Value: pd.Value})
	}
	return r, nil
}

// absorbRW fills the abstract KIn/KOut of t from a pre-execution result.
func (e *Exec) absorbRW(t *TxInfo, r *chainlib.PreExecResult) error {
	t.KIn, t.KOut = nil, nil
	for _, in := range r.Inputs {
		if in.Bucket != chainlib.KVBucket {
			continue
		}
		ki := KIn{Key: string(in.Key), VTx: -1}
		if in.RefTxid != nil {
			idx, ok := e.w.TxByID[string(in.RefTxid)]
			if !ok {
				return fmt.Errorf("read set cites unknown tx %x", in.RefTxid)
			}
			ki.VTx, ki.VOff = idx, int(in.RefOffset)
		}
		t.KIn = append(t.KIn, ki)
	}
	for _, o := range r.Outputs {
		if o.Bucket != chainlib.KVBucket {
			continue
		}
		ko := KOut{Key: string(o.Key), Val: string(o.Value)}
		if string(o.Value) == delFlag {
			ko.Del = true
		}
		t.KOut = append(t.KOut, ko)
	}
	return nil
}

func (e *Exec) blockOf(idx int) *BlockInfo { return e.w.Blocks[idx] }

func (e *Exec) stateTip() int {
	id := e.w.Main.S.GetLatestBlockid()
	if b, ok := e.w.BlkByID[string(id)]; ok {
		return b
	}
	return -1
}

func (e *Exec) ledgerTip() int {
	id := e.w.Main.L.GetMeta().TipBlockid
	if b, ok := e.w.BlkByID[string(id)]; ok {
		return b
	}
	return -1
}

// implPool returns the pool of main as sorted tx indices.
func (e *Exec) implPool() []int {
	txs, err := e.w.Main.S.GetUnconfirmedTx(false)
	if err != nil {
		return []int{-1}
	}
	var idx []int
	for _, t := range txs {
		if i, ok := e.w.TxByID[string(t.Txid)]; ok {
			idx = append(idx, i)
		} else {
			idx = append(idx, -2)
		}
	}
	sort.Ints(idx)
	return idx
}

// observe renders every observable of C01/C02 on node n in canonical form.
func (e *Exec) observe(n *chainlib.Node) string {
	var sb strings.Builder
	tip := -1
	if b, ok := e.w.BlkByID[string(n.S.GetLatestBlockid())]; ok {
		tip = b
	}
	m := n.S.GetMeta()
	fmt.Fprintf(&sb, "tip=%d total=%s irrev=%d win=%d", tip, n.S.GetTotal().String(), m.IrreversibleBlockHeight, m.IrreversibleSlideWindow)
	// balances through the API
	var names []string
	for k := range e.w.AddrOf {
		names = append(names, k)
	}
	sort.Strings(names)
	sb.WriteString(" bal=")
	for i, nm := range names {
		b, err := n.S.GetBalance(e.w.AddrOf[nm])
		if i > 0 {
			sb.WriteString(",")
		}
		if err != nil {
			fmt.Fprintf(&sb, "%s:err", nm)
		} else {
			fmt.Fprintf(&sb, "%s:%s", nm, b.String())
		}
	}
	// raw UTXO table
	sb.WriteString(" U=")
	rows := n.ScanTable(pb.UTXOTablePrefix)
	var us []string
	for _, r := range rows {
		k := r[0][1:]
		p := strings.Split(k, "_")
		if len(p) < 3 {
			us = append(us, "?"+k)
			continue
		}
		txid, _ := hex.DecodeString(p[len(p)-2])
		addr := strings.Join(p[:len(p)-2], "_")
		ti, ok := e.w.TxByID[string(txid)]
		tis := fmt.Sprint(ti)
		if !ok {
			tis = "?"
		}
		it := &utxo.UtxoItem{}
		it.Loads([]byte(r[1]))
		amt := "nil"
		if it.Amount != nil {
			amt = it.Amount.String()
		}
		us = append(us, fmt.Sprintf("%s.%s:%s:%s:%d", tis, p[len(p)-1], e.name([]byte(addr)), amt, it.FrozenHeight))
	}
	sort.Strings(us)
	sb.WriteString(strings.Join(us, ","))
	// keys through the live reader
	sb.WriteString(" kv=")
	for i, k := range e.w.Keys {
		if i > 0 {
			sb.WriteString(",")
		}
		sb.WriteString(k + ":" + e.kvStr(n, k))
	}
	// range scan through the live reader (XModel.Select): the live keys in order
	sb.WriteString(" sel=")
	if it, err := n.S.CreateXMReader().Select(chainlib.KVBucket, []byte("k"), []byte("l")); err == nil {
		first := true
		for it.Next() {
			if !first {
				sb.WriteString(",")
			}
			first = false
			sb.WriteString(string(it.Key()))
		}
		it.Close()
	} else {
		sb.WriteString("err")
	}
	// frozen part of every balance (GetBalanceDetail)
	sb.WriteString(" fz=")
	for i, nm := range names {
		if i > 0 {
			sb.WriteString(",")
		}
		d, err := n.S.GetBalanceDetail(e.w.AddrOf[nm])
		fz := "err"
		if err == nil {
			for _, x := range d {
				if x.IsFrozen {
					fz = x.Balance
				}
			}
		}
		sb.WriteString(nm + ":" + fz)
	}
	// ZU table (live keys) raw
	sb.WriteString(" ZU=")
	zu := n.ScanTable(pb.ExtUtxoTablePrefix + chainlib.KVBucket + "/")
	for i, r := range zu {
		if i > 0 {
			sb.WriteString(",")
		}
		sb.WriteString(strings.TrimPrefix(r[0], pb.ExtUtxoTablePrefix+chainlib.KVBucket+"/") + "@" + e.verStr(r[1]))
	}
	return sb.String()
}

func (e *Exec) verStr(version string) string {
	var txid []byte
	off := 0
	if _, err := fmt.Sscanf(version, "%x_%d", &txid, &off); err != nil {
		return "?"
	}
	if ti, ok := e.w.TxByID[string(txid)]; ok {
		return fmt.Sprintf("%d.%d", ti, off)
	}
	return "?"
}

func (e *Exec) kvStr(n *chainlib.Node, k string) string {
	v, rt, off, err := n.KVGet(k)
	if err != nil {
		return "err"
	}
	if rt == nil {
		return "-"
	}
	ti, ok := e.w.TxByID[string(rt)]
	ver := fmt.Sprintf("%d.%d", ti, off)
	if !ok {
		ver = "?"
	}
	if v == delFlag {
		return "DEL@" + ver
	}
	return v + "@" + ver
}

// poolOf: the pending transactions of node n as sorted tx indices (-2: unknown transaction, err: unreadable)
func (e *Exec) poolOf(n *chainlib.Node) string {
	txs, err := n.S.GetUnconfirmedTx(false)
	if err != nil {
		return "err"
	}
	var idx []int
	for _, t := range txs {
		if i, ok := e.w.TxByID[string(t.Txid)]; ok {
			idx = append(idx, i)
		} else {
			idx = append(idx, -2)
		}
	}
	sort.Ints(idx)
	return fmt.Sprint(idx)
}

func (e *Exec) poolStr() string {
	p := e.implPool()
	s := make([]string, len(p))
	for i, x := range p {
		s[i] = fmt.Sprint(x)
	}
	return strings.Join(s, ",")
}

// specObserve renders what the spec says the observables must be at block b with the pool applied.
func (e *Exec) specNow() *Spec {
	tip := e.stateTip()
	if tip < 0 {
		return nil
	}
	s := e.w.SpecAt(tip).clone()
	for _, ti := range e.pool {
		s.apply(e.w.Txs[ti])
	}
	return s
}

func (e *Exec) specObserve(s *Spec, tip int, irrev int64) string {
	var sb strings.Builder
	fmt.Fprintf(&sb, "tip=%d total=%s irrev=%d win=%d", tip, s.Total.String(), irrev, e.w.Window)
	var names []string
	for k := range e.w.AddrOf {
		names = append(names, k)
	}
	sort.Strings(names)
	sb.WriteString(" bal=")
	for i, nm := range names {
		if i > 0 {
			sb.WriteString(",")
		}
		fmt.Fprintf(&sb, "%s:%s", nm, s.balance(nm).String())
	}
	sb.WriteString(" U=")
	var us []string
	for k, u := range s.U {
		us = append(us, fmt.Sprintf("%s:%s:%s:%d", k, u.Addr, u.Amt.String(), u.Frozen))
	}
	sort.Strings(us)
	sb.WriteString(strings.Join(us, ","))
	sb.WriteString(" kv=")
	for i, k := range e.w.Keys {
		if i > 0 {
			sb.WriteString(",")
		}
		kv, ok := s.KV[k]
		switch {
		case !ok:
			sb.WriteString(k + ":-")
		case kv.Del:
			fmt.Fprintf(&sb, "%s:DEL@%d.%d", k, kv.Tx, kv.Off)
		default:
			fmt.Fprintf(&sb, "%s:%s@%d.%d", k, kv.Val, kv.Tx, kv.Off)
		}
	}
	sb.WriteString(" sel=")
	var lk []string
	for k, kv := range s.KV {
		if !kv.Del {
			lk = append(lk, k)
		}
	}
	sort.Strings(lk)
	sb.WriteString(strings.Join(lk, ","))
	sb.WriteString(" fz=")
	lh := e.w.Main.L.GetMeta().TrunkHeight
	if e.obsLedgerH != nil {
		lh = *e.obsLedgerH
	}
	for i, nm := range names {
		if i > 0 {
			sb.WriteString(",")
		}
		f := big.NewInt(0)
		for _, u := range s.U {
			if u.Addr == nm && (u.Frozen > lh || u.Frozen == -1) {
				f.Add(f, u.Amt)
			}
		}
		sb.WriteString(nm + ":" + f.String())
	}
	sb.WriteString(" ZU=")
	var zs []string
	for k, kv := range s.KV {
		if !kv.Del {
			zs = append(zs, fmt.Sprintf("%s@%d.%d", k, kv.Tx, kv.Off))
		}
	}
	sort.Strings(zs)
	sb.WriteString(strings.Join(zs, ","))
	return sb.String()
}

func (e *Exec) violate(key, what string, extra string) {
	if e.out == nil {
		return
	}
	e.out.Violate(xvlib.Violation{Key: key, What: what, Ops: append([]string{}, e.caseOps...), Impl: lastN(e.caseOut, 3), Extra: extra})
	// a ledger / state invariant that breaks AFTER an operation of this history reported failure is also a trace that
	// failed operation left behind (C05), unless the same history without the failed operations breaks it too —
	// which the C04 / C01 checks decide
	// (not in histories with a fabricated block - generated transaction citing a version that does not exist, in-block
	// conflicts - that only its producer applies: what such a block leaves behind says nothing about the failed operation)
	if !strings.HasPrefix(key, "failed-") && !strings.HasPrefix(key, "after-failed-op:") && key != "panic" && len(e.badBlocks) == 0 {
		for i, a := range e.caseOut {
			if i < len(e.caseOps) && (a == "fail" || strings.HasPrefix(a, "fail:")) && !strings.Contains(e.caseOps[i], "fault=1") {
				e.out.Violate(xvlib.Violation{Key: "after-failed-op:" + key, What: "after an operation that reported failure (" + e.caseOps[i] + "): " + what,
					Ops: append([]string{}, e.caseOps...), Impl: lastN(e.caseOut, 3), Extra: extra})
				break
			}
		}
	}
}

func lastN(s []string, n int) []string {
	if len(s) > n {
		return append([]string{}, s[len(s)-n:]...)
	}
	return append([]string{}, s...)
}

// recordTip remembers what the live reader answers for every key while the state tip is a given block and the pool is empty (C18).
func (e *Exec) recordTip() {
	tip := e.stateTip()
	if tip < 0 || len(e.implPool()) != 0 {
		return
	}
	if _, ok := e.kvAtTip[tip]; ok {
		return
	}
	m := map[string]string{}
	for _, k := range e.w.Keys {
		m[k] = e.kvStr(e.w.Main, k)
	}
	e.kvAtTip[tip] = m
}

// expected irreversible height: max over blocks ever applied of (height - w), floored at 0 (C17)
func (e *Exec) expectedIrrev() int64 {
	if e.w.Window == 0 {
		return 0
	}
	var m int64
	for b := range e.everApplied {
		if h := e.w.Blocks[b].Height - e.w.Window; h > m {
			m = h
		}
	}
	return m
}

func (e *Exec) markApplied(from, to int) {
	// every block on the path root..to that is not on root..from was applied
	for _, b := range e.w.chain(to) {
		e.everApplied[b] = true
	}
}

// checkState runs the state oracles of C01/C02/C17 after an op (quiescent point).
func (e *Exec) checkState(tag string) {
	n := e.w.Main
	tip := e.stateTip()
	if tip < 0 {
		e.violate("state-tip-unknown", "state machine points at a block the harness never built", tag)
		return
	}
	obs := e.observe(n)
	s := e.specNow()
	m := n.S.GetMeta()
	irrev := m.IrreversibleBlockHeight
	want := e.specObserve(s, tip, irrev)
	if obs != want {
		e.violate(classifyStateDiff(obs, want), fmt.Sprintf("after %s the state at block %d differs from replaying genesis..%d (+pool): impl {%s} expected {%s}", tag, tip, tip, obs, want), "")
	}
	// C02: sum of U table + pending fees == total
	sum := big.NewInt(0)
	for _, r := range n.ScanTable(pb.UTXOTablePrefix) {
		it := &utxo.UtxoItem{}
		if it.Loads([]byte(r[1])) == nil && it.Amount != nil {
			sum.Add(sum, it.Amount)
		}
	}
	for _, ti := range e.pool {
		for _, o := range e.w.Txs[ti].Outs {
			if o.Addr == "$" {
				sum.Add(sum, o.Amt)
			}
		}
	}
	if sum.Cmp(n.S.GetTotal()) != 0 {
		e.violate("conservation", fmt.Sprintf("after %s: sum of unspent outputs + pending fees = %s but reported total = %s", tag, sum, n.S.GetTotal()), "")
	}
	// what a (non-locking) selector is handed must be unspent outputs of that address in the table: the in-memory output
	// cache may not remember an output the table no longer holds (on every second check, so that histories with and
	// without a selection before a spend are both exercised)
	e.selSeq++
	if e.selSeq%2 == 0 {
		rows := map[string]*big.Int{}
		for _, r := range n.ScanTable(pb.UTXOTablePrefix) {
			it := &utxo.UtxoItem{}
			if it.Loads([]byte(r[1])) == nil && it.Amount != nil {
				rows[r[0]] = it.Amount
			}
		}
		var names []string
		for name := range e.w.AddrOf {
			names = append(names, name)
		}
		sort.Strings(names)
		for _, name := range names {
			addr := e.w.AddrOf[name]
			ins, _, _, err := n.S.SelectUtxos(addr, big.NewInt(1), false, false)
			if err != nil {
				continue
			}
			for _, in := range ins {
				k := utxo.GenUtxoKeyWithPrefix(in.FromAddr, in.RefTxid, in.RefOffset)
				if _, ok := rows[k]; !ok {
					e.violate("selected-output-not-in-table", fmt.Sprintf("after %s: SelectUtxos(%s) hands out output %x.%d, which the output table does not hold (spent or undone)", tag, name, in.RefTxid[:4], in.RefOffset), "")
				}
			}
		}
	}
	// C17
	e.checkIrrevSet(tag, tip, irrev)
	if !e.prunedEver {
		if exp := e.expectedIrrev(); irrev != exp && e.irrevUnknownW != e.w {
			e.violate("irrev-height", fmt.Sprintf("after %s: irreversible height %d, expected max(height-w)=%d (w=%d)", tag, irrev, exp, e.w.Window), "")
		}
		if irrev < e.maxIrrevSeen {
			e.violate("irrev-decreased", fmt.Sprintf("after %s: irreversible height decreased %d -> %d", tag, e.maxIrrevSeen, irrev), "")
		}
	}
	if irrev > e.maxIrrevSeen {
		e.maxIrrevSeen = irrev
	}
	if m.IrreversibleSlideWindow != e.w.Window {
		e.violate("irrev-window", fmt.Sprintf("slide window reported %d, configured %d", m.IrreversibleSlideWindow, e.w.Window), "")
	}
	e.recordTip()
}

func classifyStateDiff(obs, want string) string {
	fo, fw := strings.Fields(obs), strings.Fields(want)
	for i := range fo {
		if i < len(fw) && fo[i] != fw[i] {
			name := strings.SplitN(fo[i], "=", 2)[0]
			return "state-differs-from-replay:" + name
		}
	}
	return "state-differs-from-replay"
}

// exec runs one op line.
func (e *Exec) exec(line string) (ans string) {
	defer func() {
		if r := recover(); r != nil {
			ans = fmt.Sprintf("panic:%v", r)
			e.caseOut = append(e.caseOut, ans)
			e.violate("panic", fmt.Sprintf("op %q panicked: %v", line, r), "")
		}
	}()
	op, pos, kv := fields(line)
	if op == "reset" {
		e.caseOps = nil
		e.caseOut = nil
	}
	e.caseOps = append(e.caseOps, line)
	if op != "reset" && e.w != nil && e.w.Main != nil && e.w.Main.S == nil {
		// a reopen failed earlier in this history (reported then): there is no node to ask
		e.caseOut = append(e.caseOut, "node-gone")
		return "node-gone"
	}
	if kv["fault"] == "1" {
		// injected storage write error: the next write group (either database) fails
		before := ""
		if e.w != nil {
			before = e.observe(e.w.Main) + " pool=" + e.poolStr() + " L=" + e.ledgerObs()
		}
		at := kvmem.Seq()
		kvmem.FailAt = at
		e.faulting = true
		ans = e.exec1(op, pos, kv, line)
		e.faulting = false
		kvmem.FailAt = -1
		if kvmem.Seq() > at {
			// the fault was consumed: the operation must have failed and left no trace
			if ans == "ok" || strings.HasPrefix(ans, "ok-") {
				e.violate("fault-ignored", fmt.Sprintf("op %q reported success although its storage write failed", line), "")
			}
			if op == "walk" {
				state.VerifWaitRecover()
			}
			after := e.observe(e.w.Main) + " pool=" + e.poolStr() + " L=" + e.ledgerObs()
			if after != before {
				e.violate("failed-write-left-trace", fmt.Sprintf("op %q failed on an injected write error but changed observable state: before {%s} after {%s}", line, before, after), "")
			}
			ans = "fault"
		}
	} else {
		ans = e.exec1(op, pos, kv, line)
	}
	e.caseOut = append(e.caseOut, ans)
	return ans
}

func (e *Exec) exec1(op string, pos []string, kv map[string]string, line string) string {
	w := e.w
	switch op {
	case "reset":
		if err := e.newWorld(kv); err != nil {
			return "error:" + err.Error()
		}
		return "ok"
	case "xtx":
		t := &TxInfo{From: kv["from"], Coinbase: kv["c"] == "1", Ins: parseIns(kv["in"]), Outs: parseOuts(kv["out"])}
		idx := w.addTx(t)
		if idx != atoi(pos[0]) {
			return "bad-index"
		}
		if err := e.buildX(t); err != nil {
			return "error:" + err.Error()
		}
		if kv["sig"] == "bad" {
			// a transaction whose signature does not verify (the id is recomputed over the altered signature, so only the
			// signature check can refuse it): blocks carrying it fail in the verification stage of Play / Walk
			seen := map[*protos.SignatureInfo]bool{} // one entry may stand in both lists
			for _, sg := range append(append([]*protos.SignatureInfo{}, t.Tx.InitiatorSigns...), t.Tx.AuthRequireSigns...) {
				if len(sg.Sign) > 0 && !seen[sg] {
					seen[sg] = true
					sg.Sign = append([]byte{}, sg.Sign...)
					sg.Sign[len(sg.Sign)-1] ^= 1
				}
			}
			t.Tx.Txid, _ = makeTxid(t.Tx)
			t.BadSig = true
		}
		w.bindTx(t)
		return "-"
	case "ktx":
		t := &TxInfo{From: kv["from"], Prog: kv["prog"], Ins: parseIns(kv["in"]), Outs: parseOuts(kv["out"])}
		idx := w.addTx(t)
		if idx != atoi(pos[0]) {
			return "bad-index"
		}
		r, err := e.preexec(t.From, kv["at"], t.Prog)
		if err != nil {
			return "error:" + err.Error()
		}
		if err := e.absorbRW(t, r); err != nil {
			return "error:" + err.Error()
		}
		// replay consistency: the op line records the read/write set observed when it was generated
		if want, ok := kv["kin"]; ok {
			got := t.line("ktx", "")
			if !strings.Contains(got, " kin="+want+" ") || !strings.HasSuffix(got, " kout="+kv["kout"]) {
				if e.out != nil {
					e.out.Stats.Notes = append(e.out.Stats.Notes, "pre-execution of "+line+" now yields "+got)
				}
			}
		}
		tx := &pb.Transaction{Version: 3, Nonce: fmt.Sprintf("n%d", t.Idx), Timestamp: int64(1000 + t.Idx), Desc: []byte(fmt.Sprintf("xv-%d", t.Idx)),
			Initiator: w.AddrOf[t.From], AuthRequire: []string{w.AddrOf[t.From]},
			ContractRequests: r.Requests, TxInputsExt: r.Inputs, TxOutputsExt: r.Outputs}
		for _, in := range t.Ins {
			tx.TxInputs = append(tx.TxInputs, &protos.TxInput{RefTxid: w.Txs[in.Tx].Tx.Txid, RefOffset: int32(in.Off), FromAddr: []byte(w.AddrOf[in.Addr]),
				Amount: in.Amt.Bytes(), FrozenHeight: in.Frozen})
		}
		for _, o := range t.Outs {
			to := "$"
			if o.Addr != "$" {
				to = w.AddrOf[o.Addr]
			}
			tx.TxOutputs = append(tx.TxOutputs, &protos.TxOutput{ToAddr: []byte(to), Amount: o.amtBytes(), FrozenHeight: o.Frozen})
		}
		t.Tx, err = chainlib.Sign(tx, e.acct(t.From))
		if err != nil {
			return "error:" + err.Error()
		}
		w.bindTx(t)
		return "-"
	case "race2":
		// DoTx(b) is executed while DoTx(a) is about to write its batch (a deterministic point of a concurrent schedule)
		if kv["y"] != "" {
			return e.opRace3(pos, kv, line) // hold point inside TryLock (race3.go)
		}
		ta, tb := w.Txs[atoi(pos[0])], w.Txs[atoi(pos[1])]
		var errB error
		fired := false
		kvmem.SetBeforeWrite(func(store string) {
			if !strings.HasSuffix(store, "/utxoVM") {
				return
			}
			fired = true
			c := *tb.Tx
			errB = w.Main.S.DoTx(&c)
		})
		ca := *ta.Tx
		errA := w.Main.S.DoTx(&ca)
		kvmem.ClearHooks()
		if !fired {
			c := *tb.Tx
			errB = w.Main.S.DoTx(&c)
		}
		if errA == nil {
			e.pool = append(e.pool, ta.Idx)
		}
		if errB == nil {
			e.pool = append(e.pool, tb.Idx)
		}
		e.checkPool(line)
		e.checkState(line)
		return errEnum(errA) + "," + errEnum(errB)
	case "race3":
		return e.opRace3(pos, kv, line)
	case "flood":
		return e.opFlood(pos, kv, line)
	case "kvengine":
		kvEngineCase(e.out, e.scratch, uint64(atoi(pos[0])), atoi(pos[1]))
		return "-"
	case "selrace":
		// two selectors with locking on one address: selector B runs while selector A is held at its k-th log call,
		// for every k (cold cache: the selection scans the utxo table and locks output by output)
		addr := w.AddrOf[pos[0]]
		need := big.NewInt(int64(atoi(pos[1])))
		points := 0
		for k := 0; k < 48; k++ {
			if err := w.Main.Reopen(); err != nil {
				e.violate("reopen-failed", "reopen failed: "+err.Error(), "")
				return "error:" + err.Error()
			}
			reached, common, desc := selRaceAt(w.Main.S, addr, need, k, kv["x"] == "1")
			if common != "" {
				e.violate("selection-handed-twice", fmt.Sprintf("two concurrent SelectUtxos(%s, %s, lock) were both handed output %s (selector B ran while selector A was at its log call #%d %q)", pos[0], pos[1], common, k, desc), line)
				break
			}
			if !reached {
				break
			}
			points++
		}
		e.out.Count(fmt.Sprintf("selrace-points:%02d", points))
		e.checkState(line)
		return "-"
	case "balrace":
		// GetBalance of a cold address overlaps an admission: the tx lands right after the balance scan took its snapshot
		t := w.Txs[atoi(pos[1])]
		addr := w.AddrOf[pos[0]]
		if kv["nc"] != "1" {
			w.Main.S.ClearCache() // nc=1: the caches stay as the history left them
		}
		preAns := ""
		if kv["pre"] != "" {
			// an admission touching the address while its balance is not cached and not queried afterwards: the address
			// carries an un-queried change when the racing reader starts
			pt := w.Txs[atoi(kv["pre"])]
			c := *pt.Tx
			errP := w.Main.S.DoTx(&c)
			if errP == nil {
				e.pool = append(e.pool, pt.Idx)
			}
			preAns = errEnum(errP) + ","
		}
		var errT error
		fired := false
		kvmem.SetOnIter(func(store, prefix string) {
			if fired || !strings.HasSuffix(store, "/utxoVM") || !strings.HasPrefix(prefix, pb.UTXOTablePrefix+addr) {
				return
			}
			fired = true
			kvmem.ClearHooks()
			if kv["g2"] == "1" {
				// a second reader runs completely (and fills the balance cache) before the admission: three actors
				w.Main.S.GetBalance(addr)
			}
			c := *t.Tx
			errT = w.Main.S.DoTx(&c)
		})
		w.Main.S.GetBalance(addr)
		kvmem.ClearHooks()
		if !fired {
			c := *t.Tx
			errT = w.Main.S.DoTx(&c)
		}
		if errT == nil {
			e.pool = append(e.pool, t.Idx)
		}
		e.checkPool(line)
		e.checkState(line)
		return preAns + errEnum(errT)
	case "atx":
		// a generated (autogen) transaction carrying only a read / write set, as the timer task produces them
		t := &TxInfo{From: "-", Autogen: true, KIn: parseKIn(kv["kin"]), KOut: parseKOut(kv["kout"])}
		idx := w.addTx(t)
		if idx != atoi(pos[0]) {
			return "bad-index"
		}
		var ins []*protos.TxInputExt
		var outs []*protos.TxOutputExt
		for _, ki := range t.KIn {
			in := &protos.TxInputExt{Bucket: chainlib.KVBucket, Key: []byte(ki.Key)}
			if ki.VTx >= 0 && ki.VTx < len(w.Txs) && w.Txs[ki.VTx].Tx != nil {
				in.RefTxid = w.Txs[ki.VTx].Tx.Txid
				in.RefOffset = int32(ki.VOff)
			}
			ins = append(ins, in)
		}
		for _, ko := range t.KOut {
			outs = append(outs, &protos.TxOutputExt{Bucket: chainlib.KVBucket, Key: []byte(ko.Key), Value: []byte(ko.Val)})
		}
		tx := &pb.Transaction{Version: 3, Autogen: true, Nonce: fmt.Sprintf("a%d", t.Idx), Timestamp: int64(1000 + t.Idx), TxInputsExt: ins, TxOutputsExt: outs}
		tx.Txid, _ = makeTxid(tx)
		t.Tx = tx
		w.bindTx(t)
		return "-"
	case "verify":
		t := w.Txs[atoi(pos[0])]
		ok, err := w.Main.S.VerifyTx(t.Tx)
		if ok && err == nil {
			return "ok"
		}
		return "reject"
	case "dotx":
		t := w.Txs[atoi(pos[0])]
		before := e.observe(w.Main) + " pool=" + e.poolStr()
		s := e.specNow()
		ledgerH := w.Main.L.GetMeta().TrunkHeight
		reason := s.admissible(t, ledgerH)
		inPool := false
		for _, p := range e.pool {
			if p == t.Idx {
				inPool = true
			}
		}
		txc := *t.Tx // DoTx stamps ReceivedTimestamp on its argument
		err := w.Main.S.DoTx(&txc)
		res := errEnum(err)
		// C03 oracle
		if err == nil {
			if inPool {
				e.violate("admitted-twice", fmt.Sprintf("tx %d admitted to the pool twice", t.Idx), "")
			} else if reason != "" {
				e.violate("admitted-not-current:"+reason, fmt.Sprintf("tx %d admitted although the spec refuses it (%s): an input is not current / well-formed", t.Idx, reason), "")
			}
			if !inPool {
				e.pool = append(e.pool, t.Idx)
			}
		} else {
			if reason == "" && !inPool && (res == "utxo" || res == "rwset" || res == "frozen" || res == "mismatch") {
				e.violate("refused-although-current:"+res, fmt.Sprintf("tx %d refused as %s although all its inputs are current", t.Idx, res), "")
			}
			if reason == "" && !inPool && !e.faulting {
				// (not when this very call was given a failing storage write) nothing else is in flight: a refusal for a lock, or any refusal that instances reopened on the same data do
				// not repeat, is something an earlier request left behind
				if res == "lock" {
					e.violate("refused-although-current:lock", fmt.Sprintf("tx %d refused because a lock is held although nothing else is in flight and all its inputs are current", t.Idx), "")
				}
				e.lockRefusal(t, res)
				if e.out != nil {
					e.out.Count("dotx-refused-current:" + res)
				}
			}
			after := e.observe(w.Main) + " pool=" + e.poolStr()
			if after != before {
				e.violate("failed-dotx-left-trace", fmt.Sprintf("refused tx %d changed observable state: before {%s} after {%s}", t.Idx, before, after), "")
			}
			e.failedOps++
		}
		e.checkState(line)
		e.checkPool(line)
		return res
	case "blk":
		b := &BlockInfo{Pre: atoi(kv["pre"]), Prop: kv["prop"]}
		b.Idx = len(w.Blocks)
		if b.Idx != atoi(pos[0]) {
			return "bad-index"
		}
		pre := w.Blocks[b.Pre]
		b.Height = pre.Height + 1
		// award tx
		aw := &TxInfo{Coinbase: true, From: "-", Outs: []OutInfo{{Addr: b.Prop, Amt: big.NewInt(w.Award)}}}
		if kv["aa"] != "" {
			a, _ := new(big.Int).SetString(kv["aa"], 10)
			aw.Outs[0].Amt = a
		}
		w.addTx(aw)
		if aw.Idx != atoi(kv["aw"]) {
			return "bad-index"
		}
		var err error
		aw.Tx, err = w.Main.AwardTx(w.AddrOf[b.Prop], b.Height)
		if kv["aa"] != "" && err == nil {
			aw.Tx.TxOutputs[0].Amount = aw.Outs[0].Amt.Bytes()
		}
		if err != nil {
			return "error:" + err.Error()
		}
		aw.Tx.Desc = []byte(fmt.Sprintf("award-%d", aw.Idx))
		aw.Tx.Timestamp = int64(aw.Idx)
		aw.Tx.Txid, _ = makeTxid(aw.Tx)
		w.bindTx(aw)
		b.Txs = []int{aw.Idx}
		list := []*pb.Transaction{aw.Tx}
		for _, s := range splitList(kv["txs"]) {
			ti := atoi(s)
			b.Txs = append(b.Txs, ti)
			if w.Txs[ti].BadSig {
				e.badBlocks[b.Idx] = true
			}
			tc := *w.Txs[ti].Tx
			tc.ReceivedTimestamp = 0
			list = append(list, &tc)
		}
		p := e.acct(b.Prop)
		b.Blk, err = w.Main.L.FormatMinerBlock(list, []byte(p.Address), p.Pri, int64(1e9)*int64(b.Idx+1), 0, 0, pre.Blk.Blockid, 0, big.NewInt(0), nil, nil, b.Height)
		if err != nil {
			return "error:" + err.Error()
		}
		w.Blocks = append(w.Blocks, b)
		w.BlkByID[string(b.Blk.Blockid)] = b.Idx
		return "-"
	case "confirm":
		b := w.Blocks[atoi(pos[0])]
		before := e.ledgerObs()
		st := w.Main.L.ConfirmBlock(chainlib.CloneBlock(b.Blk), false)
		if !st.Succ {
			if after := e.ledgerObs(); after != before {
				e.violate("failed-confirm-left-trace", fmt.Sprintf("rejected block %d changed the ledger: before {%s} after {%s}", b.Idx, before, after), "")
			}
			e.failedOps++
			return "fail"
		}
		e.noteConfirmed(b.Idx)
		if st.TrunkSwitch {
			return "ok-switch"
		}
		if st.Orphan {
			return "ok-side"
		}
		return "ok"
	case "play", "playminer":
		b := w.Blocks[atoi(pos[0])]
		before := e.observe(w.Main) + " pool=" + e.poolStr()
		var err error
		if op == "play" {
			err = w.Main.S.Play(b.Blk.Blockid)
		} else {
			err = w.Main.S.PlayForMiner(b.Blk.Blockid)
		}
		if err != nil {
			after := e.observe(w.Main) + " pool=" + e.poolStr()
			if after != before {
				e.violate("failed-play-left-trace", fmt.Sprintf("failed %s of block %d changed observable state: before {%s} after {%s}", op, b.Idx, before, after), "")
			}
			e.failedOps++
			e.failedDest[b.Idx] = true
			e.checkState(line)
			if e.out != nil {
				e.out.Count(op + "-fail:" + errEnum(err))
			}
			return "fail"
		}
		e.markApplied(b.Pre, b.Idx)
		e.afterBlockPool(b, op == "playminer")
		e.checkState(line)
		e.checkPool(line)
		return "ok"
	case "walk":
		b := w.Blocks[atoi(pos[0])]
		prune := kv["prune"] == "1"
		from := e.stateTip()
		irrevBefore := w.Main.S.GetMeta().IrreversibleBlockHeight
		var err error
		if e.minerTrunc {
			// the miner's consensus-requested rollback: state walk to the target, then ledger truncation, in the real code
			err = miner.NewMiner(w.Main.Ctx).VerifTruncateForMiner(w.Main.Ctx, b.Blk.Blockid)
			e.minerTruncErr = err
			if err != nil && e.stateTip() == b.Idx {
				err = nil // the walk part succeeded, the ledger cut failed: judged by mtruncate
			}
		} else {
			err = w.Main.S.Walk(b.Blk.Blockid, prune)
		}
		state.VerifWaitRecover()
		if prune {
			e.prunedEver = true
		}
		to := e.stateTip()
		if err != nil {
			// C17: a refused walk must leave the state on a chain that still contains every irreversible block
			e.failedOps++
			e.failedDest[b.Idx] = true
			e.reconcilePool()
			if to >= 0 {
				e.markApplied(from, to)
			}
			e.checkIrrevChain(from, to, irrevBefore, line)
			e.checkState(line)
			return "fail"
		}
		if to != b.Idx {
			e.violate("walk-wrong-tip", fmt.Sprintf("walk to block %d reported success but the state points at %d", b.Idx, to), "")
		}
		e.markApplied(from, b.Idx)
		if !prune {
			e.checkIrrevChain(from, to, irrevBefore, line)
		}
		e.reconcilePool()
		e.checkState(line)
		e.checkPool(line)
		return "ok"
	case "walkrace":
		return e.opWalkRace(pos, kv, line)
	case "raced":
		return e.opRaced(pos)
	case "mtruncate":
		// Miner.truncateForMiner (what the miner does when the consensus names a truncate target): the state machine walks
		// back WITHOUT pruning - finality holds against the consensus too - and only then the ledger is cut
		e.minerTrunc = true
		lbefore := e.ledgerObs()
		ans := e.exec1("walk", pos, map[string]string{}, line)
		e.minerTrunc = false
		if ans != "ok" {
			if after := e.ledgerObs(); after != lbefore {
				e.violate("failed-truncate-left-trace", fmt.Sprintf("the miner's rollback to %s failed in its state walk but changed the ledger", pos[0]), "")
			}
			return "fail-walk"
		}
		return e.opTruncateDone(atoi(pos[0]), lbefore, e.minerTruncErr)
	case "walktrace":
		// a walk whose every atomic state-DB write group is observed: the node opened on the image after each group must
		// be the corresponding element of the model's walkTrace (ties the crash model of C06 to the code)
		n0 := len(kvmem.Log)
		ans := e.exec1("walk", pos, map[string]string{}, line)
		if !kvmem.Logging {
			return ans + " T=-"
		}
		log := append([]kvmem.Group{}, kvmem.Log...)
		kvmem.Logging = false
		defer func() { kvmem.Logging = true }()
		var tr []string
		for k := n0 + 1; k <= len(log); k++ {
			if !strings.HasSuffix(log[k-1].Store, "/utxoVM") {
				continue
			}
			w.nodeSeq++
			name := fmt.Sprintf("wt%d", w.nodeSeq)
			root := chainlib.RootFor(e.scratch, name)
			kvmem.Drop(root)
			kvmem.ApplyGroups(w.Main.Root, root, log[:k])
			c, err := chainlib.OpenOn(e.scratch, name, w.Main.Genesis, w.Miners[0])
			if err != nil {
				tr = append(tr, "open-failed:"+err.Error())
				kvmem.Drop(root)
				continue
			}
			p := "?"
			if txs, err := c.S.GetUnconfirmedTx(false); err == nil {
				var idx []int
				for _, t := range txs {
					idx = append(idx, w.TxByID[string(t.Txid)])
				}
				sort.Ints(idx)
				ss := make([]string, len(idx))
				for i, x := range idx {
					ss[i] = fmt.Sprint(x)
				}
				p = strings.Join(ss, ",")
			}
			tr = append(tr, e.observe(c)+" pool="+p)
			kvmem.Drop(root)
		}
		e.out.Count(fmt.Sprintf("walktrace-groups:%02d", len(tr)))
		// the block-boundary part (empty pool) is compared element by element; independent pending transactions are
		// re-admitted in an order the pool's map iteration decides, so of the re-admission part only the number of
		// write groups and the last state are compared
		var mid, rep []string
		for _, x := range tr {
			if strings.HasSuffix(x, " pool=") {
				mid = append(mid, x)
			} else {
				rep = append(rep, x)
			}
		}
		last := "-"
		if len(rep) > 0 {
			last = rep[len(rep)-1]
		}
		return ans + " T=" + strings.Join(mid, " || ") + fmt.Sprintf(" R=%d:", len(rep)) + last
	case "reopen":
		poolBefore := e.poolObs(w.Main)
		idsBefore := e.implPool()
		if err := w.Main.Reopen(); err != nil {
			e.violate("reopen-failed", "reopen failed: "+err.Error(), "")
			return "fail"
		}
		if poolAfter := e.poolObs(w.Main); poolAfter != poolBefore {
			e.violate("running-differs-from-reopened:pool", fmt.Sprintf("pending pool of the running state machine {%s}, of the reopened one {%s}", poolBefore, poolAfter), "")
		}
		if e.out != nil {
			e.out.Count(fmt.Sprintf("reopen-pending:%d", min(len(e.implPool()), 3)))
		}
		e.checkState(line)
		if after := e.implPool(); fmt.Sprint(after) != fmt.Sprint(idsBefore) {
			e.violate("running-differs-from-reopened:pool", fmt.Sprintf("pending pool of the running node %v, of the reopened node %v", idsBefore, after), "")
		}
		e.checkPool(line)
		return "ok"
	case "truncate":
		return e.opTruncate(atoi(pos[0]))
	case "undotodo":
		return e.opUndoTodo(atoi(pos[0]), atoi(pos[1]))
	case "lcheck":
		return e.ledgerCheck(strings.Join(lastN(e.caseOps, 2)[:1], ""))
	case "obs":
		return e.observe(w.Main) + " pool=" + e.poolStr()
	case "ledger":
		return e.ledgerObs()
	case "cmpcopy":
		// C05: a second instance opened on a copy of the image answers identically
		w.nodeSeq++
		c, err := w.Main.OpenCopy(e.scratch, fmt.Sprintf("copy%d", w.nodeSeq))
		if err != nil {
			e.violate("copy-open-failed", "opening instances on a copy of the data failed: "+err.Error(), "")
			return "fail"
		}
		a, b := e.observe(w.Main)+" L="+e.ledgerObsOf(w.Main)+" pool="+e.poolOf(w.Main), e.observe(c)+" L="+e.ledgerObsOf(c)+" pool="+e.poolOf(c)
		pa, pb2 := e.poolObs(w.Main), e.poolObs(c)
		kvmem.Drop(c.Root)
		if e.out != nil {
			e.out.Count(fmt.Sprintf("cmpcopy-pending:%d", min(len(e.implPool()), 3)))
		}
		if pa != pb2 {
			e.violate("running-differs-from-reopened:pool", fmt.Sprintf("pending pool of the running state machine {%s}, of instances reopened on a copy {%s}", pa, pb2), "")
			return "differ"
		}
		if a != b {
			e.violate("running-differs-from-reopened", fmt.Sprintf("running node {%s} vs instances reopened on a copy {%s}", a, b), "")
			return "differ"
		}
		return "same"
	case "crashcheck":
		mp := 0
		if len(pos) > 0 {
			mp = atoi(pos[0])
		}
		return e.crashCheck(mp)
	case "replica":
		// C01: a fresh node that plays genesis..tip in order
		return e.replicaCheck()
	case "snap":
		return e.snapCheck()
	}
	return e.execLedgerExt(op, pos, kv, line) // ledgerrace.go, ledgerfault.go
}

func makeTxid(tx *pb.Transaction) ([]byte, error) {
	return txidOf(tx)
}

// afterBlockPool updates the harness's pool belief after a successfully played block.
func (e *Exec) afterBlockPool(b *BlockInfo, miner bool) {
	// the implementation decides what stays; we re-read it and check it against the rule:
	// a pool tx stays iff it is not in the block and (transitively) not in conflict with it
	e.reconcilePool()
}

// reconcilePool re-reads the implementation's pool, keeping the harness's admission order for survivors.
func (e *Exec) reconcilePool() {
	impl := map[int]bool{}
	for _, i := range e.implPool() {
		impl[i] = true
	}
	var np []int
	for _, p := range e.pool {
		if impl[p] {
			np = append(np, p)
			delete(impl, p)
		}
	}
	// txs the implementation re-admitted in another order (recover after walk)
	var rest []int
	for i := range impl {
		if i >= 0 { // -1: the pool query failed, -2: a transaction the harness does not know (both reported by checkPool / poolObs)
			rest = append(rest, i)
		}
	}
	sort.Ints(rest)
	e.pool = append(np, rest...)
}

// checkPool: C03 — no two admitted transactions (main chain of the state tip + pool) consume the same output or key version,
// and every pool tx is admissible in admission order on top of the tip.
func (e *Exec) checkPool(tag string) {
	tip := e.stateTip()
	if tip < 0 {
		return
	}
	impl := e.implPool()
	mine := append([]int{}, e.pool...)
	sort.Ints(mine)
	if fmt.Sprint(impl) != fmt.Sprint(mine) {
		e.violate("pool-unexpected", fmt.Sprintf("after %s: pool is %v, harness expects %v", tag, impl, mine), "")
		return
	}
	e.pendingRecords(tag)
	usedU := map[string]int{}
	usedK := map[string]int{}
	add := func(ti int) {
		t := e.w.Txs[ti]
		for _, r := range t.Ins {
			k := ukey(r.Tx, r.Off)
			if o, dup := usedU[k]; dup {
				e.violate("double-spend", fmt.Sprintf("after %s: output %s is spent by admitted txs %d and %d", tag, k, o, ti), "")
			}
			usedU[k] = ti
		}
		wk := map[string]bool{}
		for _, ko := range t.KOut {
			wk[ko.Key] = true
		}
		for _, ki := range t.KIn {
			if !wk[ki.Key] {
				continue // read-only: does not supersede
			}
			k := fmt.Sprintf("%s@%d.%d", ki.Key, ki.VTx, ki.VOff)
			if o, dup := usedK[k]; dup {
				e.violate("double-supersede", fmt.Sprintf("after %s: key version %s is superseded by admitted txs %d and %d", tag, k, o, ti), "")
			}
			usedK[k] = ti
		}
	}
	for _, b := range e.w.chain(tip) {
		for _, ti := range e.w.Blocks[b].Txs {
			add(ti)
		}
	}
	for _, ti := range e.pool {
		add(ti)
	}
	// the pending pool, in the order the node itself yields it (the order its miner would pack), must be admissible on the
	// state of the chain alone: every token input an unspent output of the chain or of an earlier pending transaction,
	// every read at the version current at that point ("frozen" is not judged: it depends on the ledger height at admission)
	if len(e.badBlocks) == 0 {
		if txs, err := e.w.Main.S.GetUnconfirmedTx(false); err == nil {
			s := e.w.SpecAt(tip).clone()
			for _, tx := range txs {
				ti, ok := e.w.TxByID[string(tx.Txid)]
				if !ok {
					continue
				}
				t := e.w.Txs[ti]
				if why := s.admissible(t, 1<<40); why != "" && why != "frozen" {
					e.violate("pending-tx-not-replayable:"+why, fmt.Sprintf("after %s: pending transaction %d is not admissible (%s) on the chain state of block %d followed by the pending transactions the pool yields before it", tag, ti, why, tip), "")
					break
				}
				s.apply(t)
			}
		}
	}
}

// checkIrrevChain: C17 — after a non-pruning walk (successful or refused) every block at height <= irreversible height
// of the chain the state was on is still on the chain the state is on now.
func (e *Exec) checkIrrevChain(from, to int, irrev int64, tag string) {
	if from < 0 || to < 0 {
		return
	}
	for _, b := range e.w.chain(from) {
		if e.w.Blocks[b].Height <= irrev && e.w.Blocks[b].Height > 0 && !e.w.isAncestorOrSelf(b, to) {
			e.violate("irreversible-block-undone", fmt.Sprintf("%s: block %d at height %d <= irreversible height %d is no longer on the state's chain (now at block %d)",
				tag, b, e.w.Blocks[b].Height, irrev, to), "")
			return
		}
	}
}

func (e *Exec) ledgerObs() string { return e.ledgerObsOf(e.w.Main) }

// ledgerObsOf: canonical dump of every ledger query named by C04, for all blocks/txs the harness knows.
func (e *Exec) ledgerObsOf(n *chainlib.Node) string {
	var sb strings.Builder
	m := n.L.GetMeta()
	fmt.Fprintf(&sb, "tip=%d h=%d root=%d", e.bidx(m.TipBlockid), m.TrunkHeight, e.bidx(m.RootBlockid))
	sb.WriteString(" B=")
	for i, b := range e.w.Blocks {
		if i > 0 {
			sb.WriteString(",")
		}
		h, err := n.L.QueryBlockHeader(b.Blk.Blockid)
		if err != nil {
			fmt.Fprintf(&sb, "%d:-", i)
			continue
		}
		fmt.Fprintf(&sb, "%d:h%d:t%v:p%d:n%d", i, h.Height, h.InTrunk, e.bidx(h.PreHash), e.bidx(h.NextHash))
	}
	sb.WriteString(" ZH=")
	for h := int64(0); h <= m.TrunkHeight+2; h++ {
		if h > 0 {
			sb.WriteString(",")
		}
		b, err := n.L.QueryBlockByHeight(h)
		if err != nil {
			sb.WriteString("-")
		} else {
			fmt.Fprintf(&sb, "%d", e.bidx(b.Blockid))
		}
	}
	sb.WriteString(" C=")
	for i, t := range e.w.Txs {
		if t.Tx == nil {
			continue
		}
		if i > 0 {
			sb.WriteString(",")
		}
		ct, err := n.L.QueryTransaction(t.Tx.Txid)
		if err != nil {
			fmt.Fprintf(&sb, "%d:-", i)
			continue
		}
		fmt.Fprintf(&sb, "%d:b%d:%v", i, e.bidx(ct.Blockid), n.L.IsTxInTrunk(t.Tx.Txid))
	}
	sb.WriteString(" ZI=")
	var tips []string
	for _, r := range n.LedgerScan(pb.BranchInfoPrefix) {
		tips = append(tips, fmt.Sprintf("%d:%s", e.bidx([]byte(r[0][len(pb.BranchInfoPrefix):])), r[1]))
	}
	sort.Strings(tips)
	sb.WriteString(strings.Join(tips, ","))
	return sb.String()
}

func (e *Exec) bidx(id []byte) int {
	if len(id) == 0 {
		return -1
	}
	if b, ok := e.w.BlkByID[string(id)]; ok {
		return b
	}
	return -9
}

// replicaCheck: C01's own oracle — a fresh node confirms and plays genesis..tip in order and must answer every query identically.
func (e *Exec) replicaCheck() string {
	w := e.w
	tip := e.stateTip()
	if tip < 0 {
		return "no-tip"
	}
	if len(e.implPool()) != 0 {
		return "skip-pool"
	}
	for _, b := range w.chain(tip) {
		if e.badBlocks[b] {
			return "skip-bad" // the chain contains a block only its producer applies (fabricated generated tx)
		}
	}
	w.nodeSeq++
	r, err := chainlib.NewNode(e.scratch, fmt.Sprintf("replica%d", w.nodeSeq), w.Main.Genesis, w.Miners[1])
	if err != nil {
		return "error:" + err.Error()
	}
	defer kvmem.Drop(r.Root)
	for _, b := range w.chain(tip)[1:] {
		st := r.L.ConfirmBlock(chainlib.CloneBlock(w.Blocks[b].Blk), false)
		if !st.Succ {
			e.violate("replica-confirm-failed", fmt.Sprintf("a fresh node cannot confirm block %d of the chain the node is on", b), "")
			return "fail"
		}
		if err := r.S.Play(w.Blocks[b].Blk.Blockid); err != nil {
			e.violate("replica-play-failed", fmt.Sprintf("a fresh node cannot play block %d of the chain the node is on: %v", b, err), "")
			return "fail"
		}
	}
	a, b := e.observe(w.Main), e.observe(r)
	// the irreversible height is history dependent by design (max over blocks ever applied): compare the rest
	a, b = stripField(a, "irrev"), stripField(b, "irrev")
	// the frozen / unfrozen split of a balance is taken against the LEDGER's trunk height, which differs on the replica
	a, b = stripField(a, "fz"), stripField(b, "fz")
	if a != b {
		e.violate("walked-differs-from-fresh-replay", fmt.Sprintf("node at block %d {%s} vs fresh node that played genesis..%d {%s}", tip, a, tip, b), "")
		return "differ"
	}
	return "same"
}

func stripField(s, name string) string {
	f := strings.Fields(s)
	var o []string
	for _, x := range f {
		if !strings.HasPrefix(x, name+"=") {
			o = append(o, x)
		}
	}
	return strings.Join(o, " ")
}

// snapCheck: C18 — snapshot reads at every main-chain block up to the tip equal what the live reader answered when that block was the tip.
func (e *Exec) snapCheck() string {
	w := e.w
	tip := e.stateTip()
	if tip < 0 {
		return "no-tip"
	}
	n := w.Main
	cnt := 0
	// the property speaks of snapshots at MAIN-CHAIN blocks up to the tip: the state must be on the ledger's main chain
	if lt := e.ledgerTip(); lt < 0 || !w.isAncestorOrSelf(tip, lt) {
		return "skip-side-branch"
	}
	for _, b := range w.chain(tip) {
		exp := map[string]string{}
		s := w.SpecAt(b)
		for _, k := range w.Keys {
			kv, ok := s.KV[k]
			switch {
			case !ok:
				exp[k] = "-"
			case kv.Del:
				exp[k] = fmt.Sprintf("DEL@%d.%d", kv.Tx, kv.Off)
			default:
				exp[k] = fmt.Sprintf("%s@%d.%d", kv.Val, kv.Tx, kv.Off)
			}
		}
		if rec, ok := e.kvAtTip[b]; ok {
			for k, v := range rec {
				if exp[k] != v {
					e.violate("tip-read-differs-from-spec", fmt.Sprintf("live read of %s at tip %d was %s, spec %s", k, b, v, exp[k]), "")
				}
			}
		}
		rd, err := n.S.CreateSnapshot(w.Blocks[b].Blk.Blockid)
		if err != nil {
			e.violate("snapshot-create-failed", fmt.Sprintf("CreateSnapshot(block %d): %v", b, err), "")
			continue
		}
		sr, err2 := n.S.CreateXMSnapshotReader(w.Blocks[b].Blk.Blockid)
		for _, k := range w.Keys {
			vd, err := rd.Get(chainlib.KVBucket, []byte(k))
			got := "err"
			if err == nil {
				switch {
				case vd == nil || vd.RefTxid == nil:
					got = "-"
				default:
					ti, ok := w.TxByID[string(vd.RefTxid)]
					ver := fmt.Sprintf("%d.%d", ti, vd.RefOffset)
					if !ok {
						ver = "?"
					}
					if string(vd.PureData.Value) == delFlag {
						got = "DEL@" + ver
					} else {
						got = string(vd.PureData.Value) + "@" + ver
					}
				}
			}
			cnt++
			if got != exp[k] {
				e.violate("snapshot-wrong", fmt.Sprintf("snapshot at block %d (height %d, tip %d, pool %v): key %s reads %s, the live reader answered %s when that block was the tip",
					b, w.Blocks[b].Height, tip, e.pool, k, got, exp[k]), "")
			}
			if err2 == nil {
				raw, err := sr.Get(chainlib.KVBucket, []byte(k))
				want := ""
				if kv, ok := s.KV[k]; ok && !kv.Del {
					want = kv.Val
				}
				if err != nil || string(raw) != want {
					if !(err == nil && string(raw) == delFlag && want == "") {
						e.violate("snapshot-reader-wrong", fmt.Sprintf("XMSnapshotReader at block %d: key %s reads %q (err %v), expected %q", b, k, raw, err, want), "")
					}
				}
			}
		}
	}
	if b, ok := w.BlkByID[string(n.S.GetLatestBlockid())]; ok {
		tr, err := n.S.GetTipXMSnapshotReader()
		if err == nil {
			s := w.SpecAt(b)
			for _, k := range w.Keys {
				raw, err := tr.Get(chainlib.KVBucket, []byte(k))
				want := ""
				if kv, ok := s.KV[k]; ok && !kv.Del {
					want = kv.Val
				}
				if err != nil || (string(raw) != want && !(string(raw) == delFlag && want == "")) {
					e.violate("tip-snapshot-exposes-pending", fmt.Sprintf("tip snapshot at block %d with pool %v: key %s reads %q (err %v), confirmed value %q", b, e.pool, k, raw, err, want), "")
				}
			}
		}
	}
	return fmt.Sprintf("checked:%d", cnt)
}

var _ = json.Marshal
var _ = bytes.Equal
var _ = ledger.ErrBlockNotExist

// selRaceAt runs selector A until its k-th log call, lets selector B run (to its end, or until it is seen to wait for
// A), then lets A finish. Returns whether A reached that point, and an output that both selectors were handed.
// With failing=true selector A excludes unconfirmed outputs and asks for more than the address holds (it fails and rolls
// its locks back), B is an ordinary locking selector running in the middle of A, and a third locking selector C runs after
// both: what B was handed must not be handed to C.
func selRaceAt(s *state.State, addr string, need *big.Int, k int, failing bool) (bool, string, string) {
	type res struct {
		ins []*protos.TxInput
		err error
	}
	first := true
	sel := func(c chan res) {
		if failing && first {
			first = false
			huge := new(big.Int).Lsh(big.NewInt(1), 100)
			ins, _, _, err := s.SelectUtxos(addr, huge, true, true)
			c <- res{ins, err}
			return
		}
		ins, _, _, err := s.SelectUtxos(addr, need, true, false)
		c <- res{ins, err}
	}
	var n int32
	var desc string
	paused, resume := make(chan struct{}), make(chan struct{})
	chainlib.SetLogHook(func(msg string) {
		if atomic.AddInt32(&n, 1) == int32(k+1) {
			chainlib.SetLogHook(nil)
			desc = msg
			close(paused)
			select {
			case <-resume:
			case <-time.After(5 * time.Second):
			}
		}
	})
	defer chainlib.SetLogHook(nil)
	ra, rb := make(chan res, 1), make(chan res, 1)
	go sel(ra)
	var a, b res
	select {
	case a = <-ra:
		if os.Getenv("XV_DEBUG") != "" {
			fmt.Fprintf(os.Stderr, "selRaceAt k=%d: A finished early: %d inputs err=%v logcalls=%d\n", k, len(a.ins), a.err, atomic.LoadInt32(&n))
		}
		return false, "", ""
	case <-paused:
	}
	go sel(rb)
	gotB := false
	select {
	case b = <-rb:
		gotB = true
	case <-time.After(20 * time.Millisecond): // B waits for a lock A holds: A goes on
	}
	close(resume)
	a = <-ra
	if !gotB {
		b = <-rb
	}
	if failing {
		// A has failed and rolled back; C selects now: B's outputs are still B's
		rc := make(chan res, 1)
		sel(rc)
		a = <-rc
	}
	if a.err != nil || b.err != nil {
		return true, "", desc
	}
	seen := map[string]bool{}
	for _, in := range a.ins {
		seen[fmt.Sprintf("%x.%d", in.RefTxid, in.RefOffset)] = true
	}
	for _, in := range b.ins {
		if id := fmt.Sprintf("%x.%d", in.RefTxid, in.RefOffset); seen[id] {
			return true, id[:8] + id[strings.LastIndex(id, "."):], desc
		}
	}
	return true, "", desc
}
