package main

// Generator: builds histories (op lines) step by step, executing each line as it is produced so that
// later choices can depend on what the implementation answered. Every random choice comes from one Rng.

import (
	"fmt"
	"math/big"
	"sort"
	"strings"

	"github.com/xuperchain/xupercore/bcs/ledger/xledger/state/utxo/txhash"
	pb "github.com/xuperchain/xupercore/bcs/ledger/xledger/xldgpb"
	"xv/xvlib"
)

func txidOf(tx *pb.Transaction) ([]byte, error) { return txhash.MakeTransactionID(tx) }

type Profile struct {
	Name      string
	Steps     int
	Fee       []bool
	Windows   []int64
	W         map[string]int // action weights
	EndChecks []string
}

type Gen struct {
	held      []int // built but not yet submitted transactions (may have become stale)
	e         *Exec
	r         *xvlib.Rng
	out       *xvlib.Out
	confirmed map[int]bool // blocks in main's ledger
	nontriv   bool
	stop      bool // a race of this history already broke a property: the node is in a state no history reaches, stop here
	canon     []string
}

func (g *Gen) emit(line string) string {
	ans := g.emit1(line)
	// after every mutating op the full observation is compared with the model
	switch strings.Fields(line)[0] {
	case "dotx", "play", "playminer", "walk", "walktrace", "reopen", "race2", "race3", "flood", "balrace", "selrace", "raced":
		g.emit1("obs")
	case "mtruncate":
		g.emit1("obs")
		g.emit1("ledger")
		g.emit1("lcheck")
	case "confirm", "truncate":
		g.emit1("ledger")
		g.emit1("lcheck")
	}
	return ans
}

func (g *Gen) emit1(line string) string {
	g.out.Begin(line)
	ans := g.e.exec(line)
	g.out.Emit(line, cmpAns(line, ans))
	g.out.Count(strings.Fields(line)[0] + ":" + strings.SplitN(ans, " ", 2)[0][:min(len(strings.SplitN(ans, " ", 2)[0]), 14)])
	g.canon = append(g.canon, line)
	return ans
}

// cmpAns: oracle-only ops are not compared with the model
func cmpAns(line, ans string) string {
	switch strings.Fields(line)[0] {
	case "verify", "lcheck", "cmpcopy", "replica", "snap", "crashcheck":
		return "-"
	}
	return ans
}

func min(a, b int) int {
	if a < b {
		return a
	}
	return b
}

func (g *Gen) pick(w map[string]int) string {
	var ks []string
	tot := 0
	for k, v := range w {
		if v > 0 {
			ks = append(ks, k)
			tot += v
		}
	}
	sort.Strings(ks)
	x := g.r.Intn(tot)
	for _, k := range ks {
		x -= w[k]
		if x < 0 {
			return k
		}
	}
	return ks[0]
}

func (g *Gen) users() []string { return []string{"u0", "u1", "u2"} }

// spenders: users and block producers (fee and award outputs get spent too)
func (g *Gen) spenders() []string { return []string{"u0", "u1", "u2", "m0", "m1"} }

// spendable outputs of addr in spec s at ledger height h (sorted)
func spendable(s *Spec, addr string, h int64, includeFrozen bool) []string {
	var ks []string
	for k, u := range s.U {
		if u.Addr != addr {
			continue
		}
		if !includeFrozen && (u.Frozen > h || u.Frozen == -1) {
			continue
		}
		if u.Amt.Sign() == 0 {
			continue
		}
		ks = append(ks, k)
	}
	sort.Strings(ks)
	return ks
}

func refOf(k string) (int, int) {
	p := strings.Split(k, ".")
	return atoi(p[0]), atoi(p[1])
}

// genXfer builds an xtx line for user `from` over spec s; variant "" = valid.
func (g *Gen) genXfer(s *Spec, h int64, variant string) (string, bool) {
	w := g.e.w
	us := g.users()
	from := us[g.r.Intn(len(us))]
	if g.r.Chance(1, 4) {
		sps := g.spenders()
		from = sps[g.r.Intn(len(sps))]
	}
	sp := spendable(s, from, h, false)
	if variant == "frozen" {
		all := spendable(s, from, h, true)
		var fr []string
		for _, k := range all {
			if u := s.U[k]; u.Frozen > h || u.Frozen == -1 {
				fr = append(fr, k)
			}
		}
		if len(fr) == 0 {
			return "", false
		}
		sp = fr[:1]
	}
	if len(sp) == 0 {
		// try any user
		for _, u := range us {
			if x := spendable(s, u, h, false); len(x) > 0 {
				from, sp = u, x
				break
			}
		}
		if len(sp) == 0 {
			return "", false
		}
	}
	n := 1 + g.r.Intn(2)
	if n > len(sp) {
		n = len(sp)
	}
	// random subset of size n
	for i := len(sp) - 1; i > 0; i-- {
		j := g.r.Intn(i + 1)
		sp[i], sp[j] = sp[j], sp[i]
	}
	sel := sp[:n]
	sort.Strings(sel)
	t := &TxInfo{Idx: len(w.Txs), From: from}
	total := big.NewInt(0)
	for _, k := range sel {
		tx, off := refOf(k)
		u := s.U[k]
		t.Ins = append(t.Ins, InRef{Tx: tx, Off: off, Addr: from, Amt: new(big.Int).Set(u.Amt), Frozen: u.Frozen})
		total.Add(total, u.Amt)
	}
	rest := new(big.Int).Set(total)
	nout := 1 + g.r.Intn(3)
	for i := 0; i < nout && rest.Sign() > 0; i++ {
		var amt *big.Int
		if i == nout-1 {
			amt = new(big.Int).Set(rest)
		} else {
			amt = new(big.Int).Div(rest, big.NewInt(int64(2+g.r.Intn(3))))
		}
		fr := int64(0)
		if g.r.Chance(1, 8) {
			fr = []int64{-1, h + 1, h + 3, 1}[g.r.Intn(4)]
		}
		t.Outs = append(t.Outs, OutInfo{Addr: us[g.r.Intn(len(us))], Amt: amt, Frozen: fr})
		rest.Sub(rest, amt)
	}
	if rest.Sign() > 0 {
		t.Outs = append(t.Outs, OutInfo{Addr: from, Amt: rest})
	}
	if g.r.Chance(1, 6) {
		zo := OutInfo{Addr: us[g.r.Intn(len(us))], Amt: big.NewInt(0)} // zero-valued output
		if g.r.Chance(1, 2) {
			// the zero amount spelled non-minimally (clients that do not go through big.Int.Bytes())
			zo.RawHex = []string{"00", "0000", "00"}[g.r.Intn(3)]
		}
		t.Outs = append(t.Outs, zo)
	}
	if w.Fee && g.r.Chance(1, 2) && len(t.Outs) > 0 && t.Outs[0].Amt.Cmp(big.NewInt(3)) > 0 {
		fee := big.NewInt(int64(1 + g.r.Intn(3)))
		t.Outs[0].Amt = new(big.Int).Sub(t.Outs[0].Amt, fee)
		t.Outs = append(t.Outs, OutInfo{Addr: "$", Amt: fee})
		if g.r.Chance(1, 4) && t.Outs[0].Amt.Cmp(big.NewInt(3)) > 0 {
			// a second output to the fee placeholder (fee + tip): every '$' output is paid to the proposer and taken back on undo
			tip := big.NewInt(int64(1 + g.r.Intn(2)))
			t.Outs[0].Amt = new(big.Int).Sub(t.Outs[0].Amt, tip)
			t.Outs = append(t.Outs, OutInfo{Addr: "$", Amt: tip})
		}
	}
	switch variant {
	case "amount":
		t.Ins[0].Amt = new(big.Int).Add(t.Ins[0].Amt, big.NewInt(1))
		t.Outs[0].Amt = new(big.Int).Add(t.Outs[0].Amt, big.NewInt(1))
	case "unbalanced":
		t.Outs[0].Amt = new(big.Int).Add(t.Outs[0].Amt, big.NewInt(1))
	case "dupinput":
		t.Ins = append(t.Ins, t.Ins[0])
		t.Outs = append(t.Outs, OutInfo{Addr: from, Amt: new(big.Int).Set(t.Ins[0].Amt)})
	case "raw":
		t.Ins[0].RawHex = "00" + fmt.Sprintf("%x", t.Ins[0].Amt.Bytes())
	case "wrongowner":
		other := us[(g.r.Intn(2)+1+atoi(from[1:]))%3]
		t.Ins[0].Addr = other
	case "bigamount":
		// a huge (beyond 64 bit) amount cited: must be refused as mismatch
		t.Ins[0].Amt = new(big.Int).Lsh(big.NewInt(1), 70)
		t.Outs = []OutInfo{{Addr: from, Amt: new(big.Int).Lsh(big.NewInt(1), 70)}}
		for _, r := range t.Ins[1:] {
			t.Outs = append(t.Outs, OutInfo{Addr: from, Amt: r.Amt})
		}
	}
	if len(t.Outs) > 0 && g.r.Chance(1, 8) {
		// a non-zero amount with leading zero bytes
		i := g.r.Intn(len(t.Outs))
		if t.Outs[i].Amt.Sign() > 0 && t.Outs[i].RawHex == "" {
			t.Outs[i].RawHex = []string{"00", "0000"}[g.r.Intn(2)] + fmt.Sprintf("%x", t.Outs[i].Amt.Bytes())
		}
	}
	return t.line("xtx", ""), true
}

func (g *Gen) genProg() string {
	ks := g.e.w.Keys
	n := 1 + g.r.Intn(4)
	var st []string
	for i := 0; i < n; i++ {
		k := ks[g.r.Intn(len(ks))]
		switch g.r.Intn(10) {
		case 0, 1, 2:
			st = append(st, "get_"+k)
		case 3, 4, 5, 6:
			st = append(st, fmt.Sprintf("put_%s_v%d", k, g.r.Intn(1000)))
		case 7, 8:
			st = append(st, "del_"+k)
		case 9:
			st = append(st, "scan_k0_k9")
		}
	}
	return strings.Join(st, "+")
}

// ktx line: pre-executes through the executor (so that the line can carry the observed rw set)
func (g *Gen) genKtx(at string) string {
	w := g.e.w
	from := g.users()[g.r.Intn(3)]
	idx := len(w.Txs)
	prog := g.genProg()
	// dry run to learn the read/write set, then emit the full line
	r, err := g.e.preexec(from, at, prog)
	if err != nil {
		return ""
	}
	t := &TxInfo{Idx: idx, From: from, Prog: prog}
	if g.e.absorbRW(t, r) != nil {
		return ""
	}
	if at == "live" && g.r.Chance(1, 4) {
		// a transaction that carries a token transfer AND a read / write set: refused for a stale read, it must not have
		// moved any token either
		if s := g.e.specNow(); s != nil {
			if sp := spendable(s, from, g.ledgerHeight(), false); len(sp) > 0 {
				k := sp[g.r.Intn(len(sp))]
				tx, off := refOf(k)
				u := s.U[k]
				t.Ins = []InRef{{Tx: tx, Off: off, Addr: from, Amt: new(big.Int).Set(u.Amt), Frozen: u.Frozen}}
				us := g.users()
				t.Outs = []OutInfo{{Addr: us[g.r.Intn(len(us))], Amt: new(big.Int).Set(u.Amt)}}
			}
		}
	}
	return t.line("ktx", "at="+at+" prog="+prog)
}

func (g *Gen) ledgerHeight() int64 { return g.e.w.Main.L.GetMeta().TrunkHeight }

func (g *Gen) confirmedList() []int {
	var l []int
	for b := range g.confirmed {
		l = append(l, b)
	}
	sort.Ints(l)
	return l
}

// syncState brings the state machine to the ledger tip the way the miner does (walk), or by play when it extends.
func (g *Gen) syncState() {
	e := g.e
	lt, st := e.ledgerTip(), e.stateTip()
	if lt == st || lt < 0 {
		return
	}
	if e.w.Blocks[lt].Pre == st && g.r.Chance(1, 2) {
		g.emit(fmt.Sprintf("play %d", lt))
		return
	}
	g.emit(fmt.Sprintf("walk %d", lt))
}

func (g *Gen) scenario(p *Profile) {
	e := g.e
	fee := p.Fee[g.r.Intn(len(p.Fee))]
	win := p.Windows[g.r.Intn(len(p.Windows))]
	f := 0
	if fee {
		f = 1
	}
	g.canon = nil
	g.held = nil
	g.emit(fmt.Sprintf("reset fee=%d w=%d alloc=1000,500,300", f, win))
	g.confirmed = map[int]bool{0: true}
	w := e.w
	g.stop = false
	for step := 0; step < p.Steps && !g.stop; step++ {
		if w.Main == nil || w.Main.S == nil {
			g.stop = true // a reopen inside an op failed: the node is gone
			break
		}
		act := g.pick(p.W)
		switch act {
		case "xfer":
			if line, ok := g.genXfer(e.specNow(), g.ledgerHeight(), ""); ok {
				g.emit(line)
				g.emit(fmt.Sprintf("dotx %d", len(w.Txs)-1))
			}
		case "xfer-bad":
			if g.r.Chance(1, 3) {
				// an output that an admitted transaction (pending, or confirmed on the current chain) has already spent is
				// spent again by another transaction, sequentially
				var cands []InRef
				for _, ti := range e.pool {
					cands = append(cands, w.Txs[ti].Ins...)
				}
				if st := e.stateTip(); st >= 0 {
					for _, b := range w.chain(st) {
						for _, ti := range w.Blocks[b].Txs {
							cands = append(cands, w.Txs[ti].Ins...)
						}
					}
				}
				if len(cands) > 0 {
					in := cands[g.r.Intn(len(cands))]
					t2 := &TxInfo{Idx: len(w.Txs), From: in.Addr, Ins: []InRef{in}, Outs: []OutInfo{{Addr: g.users()[g.r.Intn(3)], Amt: new(big.Int).Set(in.Amt)}}}
					g.emit(t2.line("xtx", ""))
					g.emit(fmt.Sprintf("dotx %d", t2.Idx))
				}
				break
			}
			vs := []string{"amount", "unbalanced", "dupinput", "raw", "wrongowner", "frozen", "bigamount"}
			if line, ok := g.genXfer(e.specNow(), g.ledgerHeight(), vs[g.r.Intn(len(vs))]); ok {
				g.emit(line)
				g.emit(fmt.Sprintf("dotx %d", len(w.Txs)-1))
			}
		case "race":
			// two submissions at a deterministic point of a concurrent schedule; half of the pairs conflict
			cur := e.specNow()
			var a, b int
			if g.r.Chance(1, 2) {
				l1, ok := g.genXfer(cur, g.ledgerHeight(), "")
				if !ok {
					break
				}
				g.emit(l1)
				a = len(w.Txs) - 1
				if g.r.Chance(1, 2) {
					// the same inputs again
					t := w.Txs[a]
					t2 := &TxInfo{Idx: len(w.Txs), From: t.From, Ins: t.Ins}
					sum := big.NewInt(0)
					for _, r := range t.Ins {
						sum.Add(sum, r.Amt)
					}
					t2.Outs = []OutInfo{{Addr: g.users()[g.r.Intn(3)], Amt: sum}}
					g.emit(t2.line("xtx", ""))
				} else if l2, ok := g.genXfer(cur, g.ledgerHeight(), ""); ok {
					g.emit(l2)
				} else {
					break
				}
				b = len(w.Txs) - 1
			} else {
				l1 := g.genKtx("live")
				if l1 == "" {
					break
				}
				g.emit(l1)
				a = len(w.Txs) - 1
				l2 := g.genKtx("live")
				if l2 == "" {
					break
				}
				g.emit(l2)
				b = len(w.Txs) - 1
			}
			if a != b {
				g.emit(fmt.Sprintf("race2 %d %d", a, b))
			}
		case "race3":
			g.race3() // race3.go
		case "flood":
			g.flood()
		case "walkrace":
			g.walkRace() // walkrace.go
		case "selrace":
			// two selectors with locking on an address that holds something
			s, h := e.specNow(), g.ledgerHeight()
			us := g.users()
			from := us[g.r.Intn(len(us))]
			for _, u := range us {
				if len(spendable(s, from, h, false)) > 0 {
					break
				}
				from = u
			}
			if sp := spendable(s, from, h, false); len(sp) > 0 {
				amt := s.U[sp[g.r.Intn(len(sp))]].Amt.Int64()
				if amt > 1 && g.r.Bool() {
					amt = 1 + int64(g.r.Intn(int(amt)))
				}
				if g.r.Chance(1, 3) {
					g.emit(fmt.Sprintf("selrace %s %d x=1", from, amt))
				} else {
					g.emit(fmt.Sprintf("selrace %s %d", from, amt))
				}
			}
		case "balrace":
			if line, ok := g.genXfer(e.specNow(), g.ledgerHeight(), ""); ok {
				g.emit(line)
				t := w.Txs[len(w.Txs)-1]
				addr := t.From
				if g.r.Chance(1, 2) && len(t.Outs) > 0 && t.Outs[0].Addr != "$" {
					addr = t.Outs[0].Addr
				}
				opt := ""
				if g.r.Chance(1, 3) {
					// another admission touching the same address first (not observed in between)
					s2 := e.specNow()
					s2.apply(t)
					if l2, ok := g.genXfer(s2, g.ledgerHeight(), ""); ok {
						t2 := (*TxInfo)(nil)
						g.emit(l2)
						t2 = w.Txs[len(w.Txs)-1]
						touches := t2.From == addr
						for _, o := range t2.Outs {
							if o.Addr == addr {
								touches = true
							}
						}
						if touches {
							// t first (pre), then the race on t2
							g.emit(fmt.Sprintf("balrace %s %d pre=%d", addr, t2.Idx, t.Idx))
							break
						}
					}
				}
				if g.r.Chance(1, 2) {
					opt += " g2=1"
				}
				if g.r.Chance(1, 3) {
					opt += " nc=1"
				}
				g.emit(fmt.Sprintf("balrace %s %d%s", addr, t.Idx, opt))
			}
		case "xfer-hold":
			// build a valid transaction now, submit it later (it may be stale by then)
			if line, ok := g.genXfer(e.specNow(), g.ledgerHeight(), ""); ok {
				g.emit(line)
				g.held = append(g.held, len(w.Txs)-1)
			}
		case "submit-held":
			if len(g.held) > 0 {
				k := g.r.Intn(len(g.held))
				ti := g.held[k]
				g.held = append(g.held[:k], g.held[k+1:]...)
				g.emit(fmt.Sprintf("dotx %d", ti))
			}
		case "mine-auto", "mine-auto-stale":
			// own block carrying a generated (autogen) transaction after the award; PlayForMiner applies it unverified
			// (-stale: the generated transaction always cites a version that never existed, so the block fails after its
			// award was applied and is dropped again: no fabricated block stays on the chain)
			st := e.stateTip()
			if st != e.ledgerTip() {
				g.syncState()
				break
			}
			key := w.Keys[g.r.Intn(len(w.Keys))]
			cur := e.specNow()
			ver := "-"
			if kv, ok := cur.KV[key]; ok {
				ver = fmt.Sprintf("%d.%d", kv.Tx, kv.Off)
			}
			if g.r.Chance(1, 2) || act == "mine-auto-stale" {
				ver = "0.7" // a version that never existed: the generated transaction is stale
			}
			ai := len(w.Txs)
			g.emit(fmt.Sprintf("atx %d kin=%s@%s kout=%s=auto%d", ai, key, ver, key, ai))
			txs, err := w.Main.S.GetUnconfirmedTx(false)
			if err != nil {
				break
			}
			ids := []string{fmt.Sprint(ai)}
			for _, t := range txs {
				ids = append(ids, fmt.Sprint(w.TxByID[string(t.Txid)]))
			}
			bi := len(w.Blocks)
			g.emit(fmt.Sprintf("blk %d pre=%d prop=m0 aa=%d aw=%d txs=%s", bi, st, w.Award, len(w.Txs), strings.Join(ids, ",")))
			if g.emit(fmt.Sprintf("confirm %d", bi)) != "fail" {
				g.confirmed[bi] = true
				e.badBlocks[bi] = true // replicas refuse a fabricated generated transaction
				if g.emit(fmt.Sprintf("playminer %d", bi)) != "ok" {
					// the producer drops its own block again (as the miner does on failure: truncate back)
					g.emit(fmt.Sprintf("truncate %d", st))
					delete(g.confirmed, bi)
				}
			}
		case "resubmit":
			// submit an older transaction again (stale, already confirmed, or still pending)
			if len(w.Txs) > 1 {
				ti := 1 + g.r.Intn(len(w.Txs)-1)
				if !w.Txs[ti].Coinbase && w.Txs[ti].Tx != nil {
					g.emit(fmt.Sprintf("dotx %d", ti))
				}
			}
		case "ktx":
			if line := g.genKtx("live"); line != "" {
				g.emit(line)
				g.emit(fmt.Sprintf("dotx %d", len(w.Txs)-1))
			}
		case "ktx-two":
			// two transactions pre-executed on the same state (second becomes stale if they overlap); verify both first
			l1 := g.genKtx("live")
			if l1 == "" {
				break
			}
			g.emit(l1)
			a := len(w.Txs) - 1
			l2 := g.genKtx("live")
			if l2 == "" {
				break
			}
			g.emit(l2)
			b := len(w.Txs) - 1
			g.emit(fmt.Sprintf("verify %d", a))
			g.emit(fmt.Sprintf("verify %d", b))
			g.emit(fmt.Sprintf("dotx %d", a))
			g.emit(fmt.Sprintf("dotx %d", b))
		case "ktx-old":
			cl := g.confirmedList()
			b := cl[g.r.Intn(len(cl))]
			if line := g.genKtx(fmt.Sprintf("b%d", b)); line != "" {
				g.emit(line)
				g.emit(fmt.Sprintf("dotx %d", len(w.Txs)-1))
			}
		case "mine":
			st := e.stateTip()
			if st != e.ledgerTip() {
				g.syncState()
				break
			}
			txs, err := w.Main.S.GetUnconfirmedTx(false)
			if err != nil {
				break
			}
			var ids []string
			lim := len(txs)
			if lim > 0 && g.r.Chance(1, 4) {
				lim = g.r.Intn(lim + 1) // the size limit cuts the pool order at some prefix
			}
			for _, t := range txs[:lim] {
				ids = append(ids, fmt.Sprint(w.TxByID[string(t.Txid)]))
			}
			bi := len(w.Blocks)
			g.emit(fmt.Sprintf("blk %d pre=%d prop=m0 aa=%d aw=%d txs=%s", bi, st, w.Award, len(w.Txs), strings.Join(ids, ",")))
			if g.emit(fmt.Sprintf("confirm %d", bi)) != "fail" {
				g.confirmed[bi] = true
				g.emit(fmt.Sprintf("playminer %d", bi))
			}
		case "foreign":
			g.foreignBlock(false)
		case "fork":
			g.foreignBlock(true)
		case "badblock":
			g.badBlock()
		case "badswitch":
			g.refusedSwitch()
		case "walk":
			cl := g.confirmedList()
			b := cl[g.r.Intn(len(cl))]
			if e.prop == "C06" && g.r.Chance(1, 2) {
				g.emit(fmt.Sprintf("walktrace %d", b))
			} else {
				g.emit(fmt.Sprintf("walk %d", b))
			}
		case "walk-prune":
			cl := g.confirmedList()
			b := cl[g.r.Intn(len(cl))]
			g.emit(fmt.Sprintf("walk %d prune=1", b))
		case "bad-truncate":
			// a block refused by the ledger at a late stage (its batch partly filled), and the ledger cut right after it
			g.badBlockKind([]int{1, 3, 1, 2}[g.r.Intn(4)])
			fallthrough
		case "truncate":
			// as Miner.truncateForMiner: walk the state to a main-chain ancestor, then cut the ledger there
			tip := e.ledgerTip()
			if tip > 0 && e.stateTip() == tip {
				c := w.chain(tip)
				tgt := c[len(c)-1-(1+g.r.Intn(min(3, len(c)-1)))]
				// Miner.truncateForMiner re-admits the pending transactions in a goroutine that races with its ledger cut: a
				// pending spender of an output frozen above the target's height is kept or dropped depending on that schedule.
				// Such a history takes the walk-then-truncate form, whose schedule is fixed (re-admission first).
				racy := false
				for _, ti := range e.pool {
					for _, in := range w.Txs[ti].Tx.TxInputs {
						if in.FrozenHeight > w.Blocks[tgt].Height {
							racy = true
						}
					}
				}
				if !racy && g.r.Chance(1, 2) {
					// through the real Miner.truncateForMiner
					if g.emit(fmt.Sprintf("mtruncate %d", tgt)) == "ok" {
						for b := range g.confirmed {
							if w.Blocks[b].Height > w.Blocks[tgt].Height {
								delete(g.confirmed, b)
							}
						}
					}
					break
				}
				if g.emit(fmt.Sprintf("walk %d", tgt)) == "ok" {
					if g.emit(fmt.Sprintf("truncate %d", tgt)) == "ok" {
						for b := range g.confirmed {
							if w.Blocks[b].Height > w.Blocks[tgt].Height {
								delete(g.confirmed, b)
							}
						}
					}
				}
			}
		case "fault":
			// an operation whose first storage write fails (injected)
			switch g.r.Intn(4) {
			case 0:
				if line, ok := g.genXfer(e.specNow(), g.ledgerHeight(), ""); ok {
					g.emit(line)
					g.emit(fmt.Sprintf("dotx %d fault=1", len(w.Txs)-1))
				}
			case 1:
				if line := g.genKtx("live"); line != "" {
					g.emit(line)
					g.emit(fmt.Sprintf("dotx %d fault=1", len(w.Txs)-1))
				}
			case 2:
				cl := g.confirmedList()
				g.emit(fmt.Sprintf("walk %d fault=1", cl[g.r.Intn(len(cl))]))
			case 3:
				st := e.stateTip()
				if st == e.ledgerTip() && g.r.Chance(1, 2) {
					// own block: confirm, then PlayForMiner whose write fails, then retry
					txs, err := w.Main.S.GetUnconfirmedTx(false)
					if err != nil {
						break
					}
					var ids []string
					for _, t := range txs {
						ids = append(ids, fmt.Sprint(w.TxByID[string(t.Txid)]))
					}
					bi := len(w.Blocks)
					g.emit(fmt.Sprintf("blk %d pre=%d prop=m0 aa=%d aw=%d txs=%s", bi, st, w.Award, len(w.Txs), strings.Join(ids, ",")))
					if g.emit(fmt.Sprintf("confirm %d", bi)) != "fail" {
						g.confirmed[bi] = true
						g.emit(fmt.Sprintf("playminer %d fault=1", bi))
						g.emit("cmpcopy")
						// the process keeps running: the block is in the ledger, the state machine is not on it - the miner's
						// next round synchronises by walking to the ledger tip; or the play is tried again
						if g.r.Chance(1, 2) {
							g.emit(fmt.Sprintf("walk %d", bi))
						} else {
							g.emit(fmt.Sprintf("playminer %d", bi))
						}
					}
				} else if st == e.ledgerTip() {
					bi := len(w.Blocks)
					g.emit(fmt.Sprintf("blk %d pre=%d prop=m1 aa=%d aw=%d txs=", bi, st, w.Award, len(w.Txs)))
					if g.r.Chance(1, 2) {
						g.emit(fmt.Sprintf("confirm %d fault=1", bi))
					} else if g.emit(fmt.Sprintf("confirm %d", bi)) != "fail" {
						g.confirmed[bi] = true
						g.emit(fmt.Sprintf("play %d fault=1", bi))
						g.syncState()
					}
				}
			}
		case "sync":
			g.syncState()
		case "reopen":
			if g.emit("reopen") == "fail" {
				g.stop = true // the node is gone
			}
		case "cmpcopy":
			g.emit("cmpcopy")
		case "replica":
			g.emit("replica")
		case "snap":
			g.emit("snap")
		case "obs":
			g.emit("obs")
		}
	}
	for _, c := range p.EndChecks {
		if g.stop {
			break
		}
		if c == "sync" {
			g.syncState()
			continue
		}
		g.emit(c)
	}
	g.out.Case(strings.Join(g.canon, "\n"), len(w.Blocks) > 2 && len(w.Txs) > 3)
}

// foreignBlock builds a block a peer could have produced on top of `base` with transactions main has not seen
// (and, when base is the state tip, some it has), confirms it and synchronises.
func (g *Gen) foreignBlock(fork bool) {
	e := g.e
	w := e.w
	cl := g.confirmedList()
	base := e.ledgerTip()
	if fork && len(cl) > 1 {
		// bias to recent blocks
		base = cl[len(cl)-1-g.r.Intn(min(len(cl), 4))]
	}
	if base < 0 {
		return
	}
	s := w.SpecAt(base).clone()
	h := w.Blocks[base].Height // the producer's ledger height when it admitted the txs
	var ids []string
	// some of main's pending txs, in admission order, if they apply on base
	if base == e.stateTip() && g.r.Chance(1, 2) {
		for _, ti := range e.pool {
			if g.r.Chance(2, 3) && s.admissible(w.Txs[ti], h) == "" {
				s.apply(w.Txs[ti])
				ids = append(ids, fmt.Sprint(ti))
			} else if g.r.Chance(1, 2) {
				break // a prefix of the pool
			}
			// else: any subset of the pool that is valid on the base (a pending reader may be left behind its overwriter)
		}
	}
	// transactions that are already on the main chain above the fork point, if they still apply on this base:
	// the same transaction on two branches (exercises the tx -> block re-mapping of a trunk switch)
	if fork && g.r.Chance(1, 2) {
		lt := e.ledgerTip()
		if lt >= 0 && !w.isAncestorOrSelf(lt, base) {
			onBase := map[int]bool{}
			for _, b := range w.chain(base) {
				for _, ti := range w.Blocks[b].Txs {
					onBase[ti] = true
				}
			}
			for _, b := range w.chain(lt) {
				if w.isAncestorOrSelf(b, base) {
					continue
				}
				for _, ti := range w.Blocks[b].Txs[1:] {
					if !onBase[ti] && len(ids) < 3 && g.r.Chance(2, 3) && !w.Txs[ti].Coinbase && s.admissible(w.Txs[ti], h) == "" {
						s.apply(w.Txs[ti])
						ids = append(ids, fmt.Sprint(ti))
						onBase[ti] = true
					}
				}
			}
		}
	}
	nx := g.r.Intn(3)
	for i := 0; i < nx; i++ {
		if line, ok := g.genXfer(s, h, ""); ok {
			g.emit(line)
			t := w.Txs[len(w.Txs)-1]
			s.apply(t)
			ids = append(ids, fmt.Sprint(t.Idx))
		}
	}
	if g.r.Chance(2, 3) {
		if line := g.genKtx(fmt.Sprintf("b%d", base)); line != "" {
			// only usable if the pending txs taken above did not touch its keys
			g.emit(line)
			t := w.Txs[len(w.Txs)-1]
			if s.admissible(t, h) == "" {
				s.apply(t)
				ids = append(ids, fmt.Sprint(t.Idx))
			}
		}
	}
	bi := len(w.Blocks)
	g.emit(fmt.Sprintf("blk %d pre=%d prop=m1 aa=%d aw=%d txs=%s", bi, base, w.Award, len(w.Txs), strings.Join(ids, ",")))
	if g.emit(fmt.Sprintf("confirm %d", bi)) != "fail" {
		g.confirmed[bi] = true
	}
	if g.r.Chance(3, 4) {
		g.syncState()
	}
}

// badBlock submits blocks that must be refused somewhere: unknown parent, a tx already on the main chain,
// a double spend inside the block, an over-paid award.
func (g *Gen) badBlock() { g.badBlockKind(g.r.Intn(7)) }

func (g *Gen) badBlockKind(kind int) {
	e := g.e
	w := e.w
	base := e.ledgerTip()
	if base < 0 {
		return
	}
	switch kind {
	case 6: // refused in the VERIFICATION stage (a transaction whose signature does not verify) while it conflicts with the pool
		st := e.stateTip()
		if st != base {
			return
		}
		var ids []string
		// a double spend of a pending transaction's input (that pending transaction is rolled back in memory first)
		for _, ti := range e.pool {
			t := w.Txs[ti]
			if len(t.Ins) > 0 && !t.Coinbase {
				t2 := &TxInfo{Idx: len(w.Txs), From: t.From, Ins: t.Ins}
				sum := big.NewInt(0)
				for _, r := range t.Ins {
					sum.Add(sum, r.Amt)
				}
				t2.Outs = []OutInfo{{Addr: g.users()[g.r.Intn(3)], Amt: sum}}
				g.emit(t2.line("xtx", ""))
				ids = append(ids, fmt.Sprint(t2.Idx))
				break
			}
		}
		s := w.SpecAt(base).clone()
		l1, ok := g.genXfer(s, w.Blocks[base].Height, "")
		if !ok {
			return
		}
		g.emit(strings.Replace(l1, " from=", " sig=bad from=", 1))
		ids = append(ids, fmt.Sprint(len(w.Txs)-1))
		if g.r.Bool() && len(ids) == 2 {
			ids[0], ids[1] = ids[1], ids[0]
		}
		bi := len(w.Blocks)
		e.badBlocks[bi] = true
		g.emit(fmt.Sprintf("blk %d pre=%d prop=m1 aa=%d aw=%d txs=%s", bi, base, w.Award, len(w.Txs), strings.Join(ids, ",")))
		if g.emit(fmt.Sprintf("confirm %d", bi)) != "fail" {
			g.confirmed[bi] = true
			g.syncState()
		}
	case 5: // a pending transaction without the pending transaction it depends on (spends its output / reads its write)
		st := e.stateTip()
		if st != base {
			return
		}
		inPool := map[int]bool{}
		for _, ti := range e.pool {
			inPool[ti] = true
		}
		child := -1
		for _, ti := range e.pool {
			t := w.Txs[ti]
			for _, in := range t.Ins {
				if inPool[in.Tx] {
					child = ti
				}
			}
			for _, ki := range t.KIn {
				if ki.VTx >= 0 && inPool[ki.VTx] {
					child = ti
				}
			}
		}
		if child < 0 {
			return
		}
		bi := len(w.Blocks)
		g.emit(fmt.Sprintf("blk %d pre=%d prop=m1 aa=%d aw=%d txs=%d", bi, base, w.Award, len(w.Txs), child))
		if g.emit(fmt.Sprintf("confirm %d", bi)) != "fail" {
			g.confirmed[bi] = true
			a := g.emit(fmt.Sprintf("play %d", bi))
			e.out.Count("badblock:child-without-pending-parent:play-" + a)
			if a == "ok" {
				g.emit(fmt.Sprintf("walk %d", bi))
			} else {
				g.syncState()
			}
		}
	case 4: // two transactions superseding the same key version inside one block (delete + write, or write + write)
		k := w.Keys[g.r.Intn(len(w.Keys))]
		cur := w.SpecAt(base)
		p1, p2 := "del_"+k, fmt.Sprintf("put_%s_x%d", k, g.r.Intn(100))
		if _, ok := cur.KV[k]; !ok || g.r.Chance(1, 2) {
			p1 = fmt.Sprintf("put_%s_y%d", k, g.r.Intn(100))
		}
		if g.r.Chance(1, 2) {
			p1, p2 = p2, p1
		}
		mk := func(prog string) int {
			from := g.users()[g.r.Intn(3)]
			r, err := e.preexec(from, fmt.Sprintf("b%d", base), prog)
			if err != nil {
				return -1
			}
			t := &TxInfo{Idx: len(w.Txs), From: from, Prog: prog}
			if e.absorbRW(t, r) != nil {
				return -1
			}
			g.emit(t.line("ktx", fmt.Sprintf("at=b%d prog=%s", base, prog)))
			return t.Idx
		}
		a, b := mk(p1), mk(p2)
		if a < 0 || b < 0 {
			return
		}
		bi := len(w.Blocks)
		e.badBlocks[bi] = true
		g.emit(fmt.Sprintf("blk %d pre=%d prop=m1 aa=%d aw=%d txs=%d,%d", bi, base, w.Award, len(w.Txs), a, b))
		if g.emit(fmt.Sprintf("confirm %d", bi)) != "fail" {
			g.confirmed[bi] = true
			g.syncState()
		}
	case 0: // unknown parent: build on a block that is never confirmed
		bi := len(w.Blocks)
		g.emit(fmt.Sprintf("blk %d pre=%d prop=m1 aa=%d aw=%d txs=", bi, base, w.Award, len(w.Txs)))
		bj := len(w.Blocks)
		g.emit(fmt.Sprintf("blk %d pre=%d prop=m1 aa=%d aw=%d txs=", bj, bi, w.Award, len(w.Txs)))
		g.emit(fmt.Sprintf("confirm %d", bj))
	case 1: // a transaction that is already on the main chain
		var cands []int
		for _, b := range w.chain(base) {
			for _, ti := range w.Blocks[b].Txs[1:] {
				cands = append(cands, ti)
			}
		}
		if len(cands) == 0 {
			return
		}
		ti := cands[g.r.Intn(len(cands))]
		bi := len(w.Blocks)
		e.badBlocks[bi] = true
		g.emit(fmt.Sprintf("blk %d pre=%d prop=m1 aa=%d aw=%d txs=%d", bi, base, w.Award, len(w.Txs), ti))
		if g.emit(fmt.Sprintf("confirm %d", bi)) != "fail" {
			g.confirmed[bi] = true
			g.syncState()
		}
	case 2: // two transactions spending the same output inside one block
		s := w.SpecAt(base).clone()
		l1, ok := g.genXfer(s, w.Blocks[base].Height, "")
		if !ok {
			return
		}
		g.emit(l1)
		a := len(w.Txs) - 1
		// same inputs again, other outputs
		t := w.Txs[a]
		t2 := &TxInfo{Idx: len(w.Txs), From: t.From, Ins: t.Ins}
		sum := big.NewInt(0)
		for _, r := range t.Ins {
			sum.Add(sum, r.Amt)
		}
		t2.Outs = []OutInfo{{Addr: "u2", Amt: sum}}
		g.emit(t2.line("xtx", ""))
		b := len(w.Txs) - 1
		bi := len(w.Blocks)
		e.badBlocks[bi] = true
		g.emit(fmt.Sprintf("blk %d pre=%d prop=m1 aa=%d aw=%d txs=%d,%d", bi, base, w.Award, len(w.Txs), a, b))
		if g.emit(fmt.Sprintf("confirm %d", bi)) != "fail" {
			g.confirmed[bi] = true
			g.syncState()
		}
	case 3: // second coinbase inside the block
		bi := len(w.Blocks)
		t := &TxInfo{Idx: len(w.Txs), From: "u0", Coinbase: true, Outs: []OutInfo{{Addr: "u0", Amt: big.NewInt(7)}}}
		g.emit(t.line("xtx", ""))
		e.badBlocks[bi] = true
		g.emit(fmt.Sprintf("blk %d pre=%d prop=m1 aa=%d aw=%d txs=%d", bi, base, w.Award, len(w.Txs), t.Idx))
		if g.emit(fmt.Sprintf("confirm %d", bi)) != "fail" {
			g.confirmed[bi] = true
			g.syncState()
		}
	}
}
