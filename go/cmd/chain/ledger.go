package main

// C04: ledger-only operations, the independent main-chain oracle and the ledger history generator.

import (
	"fmt"
	"math/big"
	"sort"
	"strings"

	pb "github.com/xuperchain/xupercore/bcs/ledger/xledger/xldgpb"
)

type ledgerTrack struct {
	stored    map[int]bool // blocks currently stored (confirmed, not truncated away)
	arrival   []int        // successful confirmations in order
	truncated bool
	removed   map[int]bool
}

func (e *Exec) lt() *ledgerTrack {
	if e.ltrack == nil || e.ltrack.stored == nil {
		e.ltrack = &ledgerTrack{stored: map[int]bool{0: true}, arrival: []int{0}, removed: map[int]bool{}}
	}
	return e.ltrack
}

func (e *Exec) noteConfirmed(b int) {
	t := e.lt()
	if !t.stored[b] {
		t.stored[b] = true
		t.arrival = append(t.arrival, b)
		delete(t.removed, b)
	}
}

// truncate op
func (e *Exec) opTruncate(b int) string {
	before := e.ledgerObs()
	return e.opTruncateDone(b, before, e.w.Main.L.Truncate(e.w.Blocks[b].Blk.Blockid))
}

// opTruncateDone judges a truncation that has been carried out (err = what it reported).
func (e *Exec) opTruncateDone(b int, before string, err error) string {
	w := e.w
	if err != nil {
		if after := e.ledgerObs(); after != before {
			e.violate("failed-truncate-left-trace", fmt.Sprintf("failed truncate to %d changed the ledger: before {%s} after {%s}", b, before, after), "")
		}
		return "fail"
	}
	t := e.lt()
	t.truncated = true
	// every stored block higher than the target is removed
	h := w.Blocks[b].Height
	for x := range t.stored {
		if w.Blocks[x].Height > h {
			delete(t.stored, x)
			t.removed[x] = true
		}
	}
	return "ok"
}

func (e *Exec) opUndoTodo(a, b int) string {
	w := e.w
	u, t, err := w.Main.L.FindUndoAndTodoBlocks(w.Blocks[a].Blk.Blockid, w.Blocks[b].Blk.Blockid)
	if err != nil {
		return "fail"
	}
	var us, ts []string
	for _, x := range u {
		us = append(us, fmt.Sprint(e.bidx(x.Blockid)))
	}
	for _, x := range t {
		ts = append(ts, fmt.Sprint(e.bidx(x.Blockid)))
	}
	got := "undo=" + strings.Join(us, ",") + " todo=" + strings.Join(ts, ",")
	// oracle: ancestors of a above the lowest common ancestor newest first / of b, newest first as the API returns them
	ca, cb := w.chain(a), w.chain(b)
	i := 0
	for i < len(ca) && i < len(cb) && ca[i] == cb[i] {
		i++
	}
	var eu, et []string
	for j := len(ca) - 1; j >= i; j-- {
		eu = append(eu, fmt.Sprint(ca[j]))
	}
	for j := len(cb) - 1; j >= i; j-- {
		et = append(et, fmt.Sprint(cb[j]))
	}
	want := "undo=" + strings.Join(eu, ",") + " todo=" + strings.Join(et, ",")
	if got != want {
		e.violate("undo-todo-wrong", fmt.Sprintf("FindUndoAndTodoBlocks(%d,%d) = {%s}, the tree says {%s}", a, b, got, want), "")
	}
	return got
}

// ledgerCheck: the main-chain invariants of C04 evaluated on what the ledger answers.
func (e *Exec) ledgerCheck(tag string) string {
	w := e.w
	n := w.Main
	t := e.lt()
	m := n.L.GetMeta()
	tip := e.bidx(m.TipBlockid)
	if tip < 0 || !t.stored[tip] {
		e.violate("tip-not-stored", fmt.Sprintf("after %s: recorded tip %d is not a stored block", tag, tip), "")
		return "bad"
	}
	// (1) path from the tip reaches the root with heights trunkHeight..0
	path := map[int64]int{}
	onPath := map[int]bool{}
	x := tip
	hExp := m.TrunkHeight
	for x >= 0 {
		hd, err := n.L.QueryBlockHeader(w.Blocks[x].Blk.Blockid)
		if err != nil {
			e.violate("path-broken", fmt.Sprintf("after %s: block %d on the path from the tip cannot be queried", tag, x), "")
			return "bad"
		}
		if hd.Height != hExp {
			e.violate("path-heights", fmt.Sprintf("after %s: block %d on the path has height %d, expected %d", tag, x, hd.Height, hExp), "")
		}
		path[hd.Height] = x
		onPath[x] = true
		hExp--
		x = e.bidx(hd.PreHash)
		if x == -9 {
			e.violate("path-broken", fmt.Sprintf("after %s: unknown predecessor on the path from the tip", tag), "")
			return "bad"
		}
	}
	if hExp != -1 || !onPath[0] {
		e.violate("path-not-to-root", fmt.Sprintf("after %s: the path from the tip does not end at genesis", tag), "")
	}
	// stored set agrees with ExistBlock; flags, links, height index
	for i, b := range w.Blocks {
		ex := n.L.ExistBlock(b.Blk.Blockid)
		if ex != t.stored[i] {
			e.violate("stored-set", fmt.Sprintf("after %s: ExistBlock(%d)=%v, harness expects %v", tag, i, ex, t.stored[i]), "")
			continue
		}
		if !ex {
			continue
		}
		hd, _ := n.L.QueryBlockHeader(b.Blk.Blockid)
		full, ferr := n.L.QueryBlock(b.Blk.Blockid)
		if ferr != nil {
			e.violate("query-block-failed", fmt.Sprintf("after %s: QueryBlock(%d): %v", tag, i, ferr), "")
		} else if full.InTrunk != hd.InTrunk || e.bidx(full.NextHash) != e.bidx(hd.NextHash) {
			e.violate("block-vs-header", fmt.Sprintf("after %s: QueryBlock(%d) says trunk=%v next=%d, header says trunk=%v next=%d", tag, i, full.InTrunk, e.bidx(full.NextHash), hd.InTrunk, e.bidx(hd.NextHash)), "")
		}
		if hd.Height != b.Height {
			e.violate("height-wrong", fmt.Sprintf("after %s: block %d stored with height %d, tree height %d", tag, i, hd.Height, b.Height), "")
		}
		if hd.Height > m.TrunkHeight {
			e.violate("block-above-trunk", fmt.Sprintf("after %s: stored block %d has height %d above the trunk height %d", tag, i, hd.Height, m.TrunkHeight), "")
		}
		if hd.InTrunk != onPath[i] {
			e.violate("intrunk-flag", fmt.Sprintf("after %s: block %d InTrunk=%v but on the main chain: %v", tag, i, hd.InTrunk, onPath[i]), "")
		}
		wantNext := -1
		if onPath[i] && i != tip {
			wantNext = path[hd.Height+1]
		}
		if e.bidx(hd.NextHash) != wantNext {
			e.violate("next-link", fmt.Sprintf("after %s: block %d NextHash names %d, the main chain says %d", tag, i, e.bidx(hd.NextHash), wantNext), "")
		}
	}
	for h := int64(0); h <= m.TrunkHeight+2; h++ {
		b, err := n.L.QueryBlockByHeight(h)
		if h <= m.TrunkHeight {
			if err != nil || e.bidx(b.Blockid) != path[h] {
				got := -1
				if err == nil {
					got = e.bidx(b.Blockid)
				}
				e.violate("height-index", fmt.Sprintf("after %s: QueryBlockByHeight(%d)=%d, the main chain has %d", tag, h, got, path[h]), "")
			}
		} else if err == nil {
			e.violate("height-index-above", fmt.Sprintf("after %s: QueryBlockByHeight(%d) answers block %d above the trunk height %d", tag, h, e.bidx(b.Blockid), m.TrunkHeight), "")
		}
	}
	// tip has maximal height; earlier-confirmed wins ties (until an explicit truncation)
	if !t.truncated {
		best := -1
		for _, b := range t.arrival {
			if t.stored[b] && (best < 0 || w.Blocks[b].Height > w.Blocks[best].Height) {
				best = b
			}
		}
		if best != tip {
			e.violate("tip-rule", fmt.Sprintf("after %s: tip is %d but the first-confirmed block of maximal height is %d", tag, tip, best), "")
		}
	}
	// transactions
	for ti, tx := range w.Txs {
		if tx.Tx == nil {
			continue
		}
		var trunkBlk []int
		stored := false
		for b := range t.stored {
			for _, x := range w.Blocks[b].Txs {
				if x == ti {
					stored = true
					if onPath[b] {
						trunkBlk = append(trunkBlk, b)
					}
				}
			}
		}
		inTrunk := n.L.IsTxInTrunk(tx.Tx.Txid)
		if len(trunkBlk) > 1 {
			e.violate("tx-twice-on-main-chain", fmt.Sprintf("after %s: tx %d is in main-chain blocks %v", tag, ti, trunkBlk), "")
		}
		if inTrunk != (len(trunkBlk) > 0) {
			e.violate("tx-in-trunk", fmt.Sprintf("after %s: IsTxInTrunk(tx %d)=%v but main-chain blocks containing it: %v", tag, ti, inTrunk, trunkBlk), "")
		}
		ct, err := n.L.QueryTransaction(tx.Tx.Txid)
		if stored && err != nil {
			e.violate("tx-lookup", fmt.Sprintf("after %s: tx %d of a stored block cannot be looked up", tag, ti), "")
		}
		if err == nil && len(trunkBlk) == 1 && e.bidx(ct.Blockid) != trunkBlk[0] {
			e.violate("tx-block-mapping", fmt.Sprintf("after %s: tx %d maps to block %d, it is on the main chain in block %d", tag, ti, e.bidx(ct.Blockid), trunkBlk[0]), "")
		}
		if err == nil && len(trunkBlk) == 1 {
			qb, qerr := n.L.QueryBlockByTxid(tx.Tx.Txid)
			if qerr != nil || e.bidx(qb.Blockid) != trunkBlk[0] {
				e.violate("tx-block-mapping", fmt.Sprintf("after %s: QueryBlockByTxid(tx %d) does not answer main-chain block %d", tag, ti, trunkBlk[0]), "")
			}
		}
	}
	// branch tips = leaves of the stored tree
	leaves := map[int]bool{}
	for b := range t.stored {
		leaves[b] = true
	}
	for b := range t.stored {
		if p := w.Blocks[b].Pre; p >= 0 {
			delete(leaves, p)
		}
	}
	var ls, zs []string
	for b := range leaves {
		ls = append(ls, fmt.Sprintf("%d:%d", b, w.Blocks[b].Height))
	}
	for _, r := range n.LedgerScan(pb.BranchInfoPrefix) {
		zs = append(zs, fmt.Sprintf("%d:%s", e.bidx([]byte(r[0][len(pb.BranchInfoPrefix):])), r[1]))
	}
	sort.Strings(ls)
	sort.Strings(zs)
	if strings.Join(ls, ",") != strings.Join(zs, ",") {
		e.violate("branch-tips", fmt.Sprintf("after %s: recorded branch tips {%s}, leaves of the stored tree {%s}", tag, strings.Join(zs, ","), strings.Join(ls, ",")), "")
	}
	return "checked"
}

// ---------- generator for ledger histories

func (g *Gen) ledgerScenario(steps int) {
	e := g.e
	g.canon = nil
	g.emit("reset fee=0 w=0 alloc=1000,500,300")
	w := e.w
	e.ltrack = nil
	e.lt()
	// a small set of transactions (validity is irrelevant to the ledger)
	var txs []int
	for i := 0; i < 5; i++ {
		t := &TxInfo{Idx: len(w.Txs), From: "u0", Outs: []OutInfo{{Addr: "u1", Amt: bigN(int64(i + 1))}}}
		g.emit(t.line("xtx", ""))
		txs = append(txs, t.Idx)
	}
	unconfirmed := []int{} // built but not (successfully) confirmed
	for s := 0; s < steps; s++ {
		st := e.lt()
		var stored []int
		for b := range st.stored {
			stored = append(stored, b)
		}
		sort.Ints(stored)
		switch x := g.r.Intn(20); {
		case x < 11: // new block on a stored block (depth bias), with 0-2 transactions, then confirm
			base := stored[g.r.Intn(len(stored))]
			if g.r.Chance(2, 3) {
				// bias to high blocks
				for _, b := range stored {
					if w.Blocks[b].Height >= w.Blocks[base].Height && g.r.Chance(1, 2) {
						base = b
					}
				}
			}
			// transactions already on the chain below the new block (a valid chain never repeats one)
			anc := map[int]bool{}
			for _, a := range w.chain(base) {
				for _, x := range w.Blocks[a].Txs {
					anc[x] = true
				}
			}
			var ids []string
			for i := 0; i < g.r.Intn(3); i++ {
				c := txs[g.r.Intn(len(txs))]
				if !anc[c] {
					ids = append(ids, fmt.Sprint(c))
				}
			}
			ids = dedupStr(ids)
			dupOnTrunk := false
			if base == e.ledgerTip() && g.r.Chance(1, 10) {
				// the same transaction again on the main chain: must be refused (ErrTxDuplicated); such a block is
				// confirmed at once (as a late side-branch arrival the ledger would store it: an invalid chain, outside the property)
				for x := range anc {
					if x > 0 && !w.Txs[x].Coinbase {
						ids = append(ids, fmt.Sprint(x))
						dupOnTrunk = true
						break
					}
				}
			}
			// a block that would switch the trunk (its parent is as high as the tip, on another branch) but repeats a
			// transaction of its own chain: refused only after the fork handling has run; then the old tip is extended
			oldTip := e.ledgerTip()
			dupOnSwitch := false
			if !dupOnTrunk && oldTip >= 0 && base != oldTip && w.Blocks[base].Height == w.Blocks[oldTip].Height && g.r.Chance(1, 3) {
				// only a transaction of a COMMON ancestor (on the main chain now): one of the side branch's own blocks would
				// be accepted - the ledger stores a branch that repeats its own transaction (observation outside the
				// property, see DESIGN "As built") - and the resulting chain is invalid
				for _, a := range w.chain(base) {
					if !w.isAncestorOrSelf(a, oldTip) {
						continue
					}
					for _, x := range w.Blocks[a].Txs {
						if x > 0 && !w.Txs[x].Coinbase && !dupOnSwitch {
							ids = append(ids, fmt.Sprint(x))
							dupOnSwitch = true
						}
					}
				}
			}
			bi := len(w.Blocks)
			g.emit(fmt.Sprintf("blk %d pre=%d prop=m1 aa=%d aw=%d txs=%s", bi, base, w.Award, len(w.Txs), strings.Join(ids, ",")))
			if !dupOnTrunk && !dupOnSwitch && g.r.Chance(1, 8) {
				unconfirmed = append(unconfirmed, bi) // arrives later (or never)
			} else {
				g.emit(fmt.Sprintf("confirm %d", bi))
				g.emit("lcheck")
			}
			if (dupOnTrunk || dupOnSwitch) && e.ledgerTip() == oldTip && oldTip > 0 && g.r.Chance(1, 3) {
				// the ledger is cut right after a block it refused at a late stage (nothing of the refused block may get
				// written with the truncation), and reopened
				c := w.chain(oldTip)
				g.emit(fmt.Sprintf("truncate %d", c[g.r.Intn(len(c))]))
				g.emit("lcheck")
				g.emit("ledger")
				g.emit("reopen")
				g.emit("lcheck")
				g.emit("ledger")
				dupOnSwitch = false
			}
			if dupOnSwitch && e.ledgerTip() == oldTip {
				bj := len(w.Blocks)
				g.emit(fmt.Sprintf("blk %d pre=%d prop=m1 aa=%d aw=%d txs=", bj, oldTip, w.Award, len(w.Txs)))
				g.emit(fmt.Sprintf("confirm %d", bj))
				g.emit("lcheck")
			}
		case x < 13: // duplicate confirmation of a stored block
			b := stored[g.r.Intn(len(stored))]
			if b != 0 {
				g.emit(fmt.Sprintf("confirm %d", b))
				g.emit("lcheck")
			}
		case x < 15: // late arrival / block whose parent may be missing
			if len(unconfirmed) > 0 {
				i := g.r.Intn(len(unconfirmed))
				b := unconfirmed[i]
				unconfirmed = append(unconfirmed[:i], unconfirmed[i+1:]...)
				g.emit(fmt.Sprintf("confirm %d", b))
				g.emit("lcheck")
			} else if len(w.Blocks) > 1 {
				// child of a block that was never confirmed
				bi := len(w.Blocks)
				g.emit(fmt.Sprintf("blk %d pre=%d prop=m1 aa=%d aw=%d txs=", bi, stored[len(stored)-1], w.Award, len(w.Txs)))
				bj := len(w.Blocks)
				g.emit(fmt.Sprintf("blk %d pre=%d prop=m1 aa=%d aw=%d txs=", bj, bi, w.Award, len(w.Txs)))
				g.emit(fmt.Sprintf("confirm %d", bj))
				g.emit("lcheck")
				unconfirmed = append(unconfirmed, bi)
			}
		case x < 17: // truncate to a main-chain block
			tip := e.ledgerTip()
			if tip > 0 {
				c := w.chain(tip)
				b := c[g.r.Intn(len(c))]
				g.emit(fmt.Sprintf("truncate %d", b))
				g.emit("lcheck")
			}
		case x < 18 && g.r.Chance(1, 2): // two requests in flight at once
			g.lraceCase(stored)
		case x < 19 && g.r.Chance(1, 2): // table scans that break off (storage read fault)
			g.ifaultCase(stored)
		case x < 19:
			a := stored[g.r.Intn(len(stored))]
			b := stored[g.r.Intn(len(stored))]
			g.emit(fmt.Sprintf("undotodo %d %d", a, b))
		default:
			g.emit("reopen")
			g.emit("lcheck")
		}
	}
	g.emit("ledger")
	g.emit("cmpcopy")
	g.out.Case(strings.Join(g.canon, "\n"), len(w.Blocks) > 4)
}

func dedupStr(s []string) []string {
	seen := map[string]bool{}
	var o []string
	for _, x := range s {
		if !seen[x] {
			seen[x] = true
			o = append(o, x)
		}
	}
	return o
}

func bigN(n int64) *big.Int { return big.NewInt(n) }
