// Engine `chain`: drives the real ledger + state machine of xupercore in-process (in-memory kvdb engine)
// through generated histories and evaluates the properties C01 C02 C03 C05 C17 C18 on what it returns.
// The same op lines are the input of the Lean driver `xvdriver chain`.
package main

import (
	"fmt"
	"path/filepath"
	"sort"
	"strings"

	"xv/kvmem"
	"xv/xvlib"
)

// which violation keys decide which property
var keyProps = map[string][]string{
	"state-differs-from-replay":        {"C01", "C12"},
	"state-differs-from-replay:total":  {"C01", "C02", "C12"},
	"state-differs-from-replay:bal":    {"C01", "C02", "C12"},
	"walked-differs-from-fresh-replay": {"C01"},
	"replica-":                         {"C01"},
	"walk-wrong-tip":                   {"C01"},
	"state-tip-unknown":                {"C01"},
	"reopen-failed":                    {"C01", "C05", "C12"},
	"panic":                            {"C01", "C02", "C03", "C04", "C05", "C06", "C12", "C17", "C18"},
	"conservation":                     {"C02", "C12"},
	"admitted-":                        {"C03", "C12"},
	"refused-although-current":         {"C03"},
	"double-spend":                     {"C03", "C12"},
	"selection-handed-twice":           {"C12"},
	"walkrace-not-serialisable":        {"C12"},
	"selected-output-not-in-table":     {"C05", "C03", "C12"},
	"double-supersede":                 {"C03", "C12"},
	"pool-unexpected":                  {"C03", "C12"},
	"pending-tx-not-replayable":        {"C01", "C03", "C12"},
	"failed-":                          {"C05", "C01", "C02"},
	"after-failed-op:":                 {"C05"},
	"fault-ignored":                    {"C05"},
	"running-differs-from-reopened":    {"C05"},
	"pending-record-differs":           {"C12", "C05"},
	"copy-open-failed":                 {"C05"},
	"irrev-":                           {"C17"},
	"irreversible-block-undone":        {"C17"},
	"snapshot-":                        {"C18"},
	"crash-":                           {"C06"},
	"kvengine-":                        {"C06"},
	"failed-truncate-left-trace":       {"C04", "C05"},
	"failed-confirm-left-trace":        {"C04", "C05"},
	"undo-todo-wrong":                  {"C04"},
	"ledger-race-not-serialisable":     {"C04"},
	"dump-incomplete":                  {"C04"},
	"tip-":                             {"C04"}, "path-": {"C04"}, "stored-set": {"C04", "C05"}, "query-block-failed": {"C04"}, "block-vs-header": {"C04", "C05"},
	"height-": {"C04"}, "block-above-trunk": {"C04"}, "intrunk-flag": {"C04"}, "next-link": {"C04"}, "tx-": {"C04"}, "branch-tips": {"C04"},
	"tip-snapshot-": {"C18"},
	"tip-read-":     {"C18"},
}

func propsOfKey(key string) []string {
	best := ""
	for p := range keyProps {
		if strings.HasPrefix(key, p) && len(p) > len(best) {
			best = p
		}
	}
	return keyProps[best]
}

var profiles = map[string]*Profile{
	"C01": {Name: "walks", Steps: 34, Fee: []bool{false, true}, Windows: []int64{0, 0, 2},
		W:         map[string]int{"xfer": 6, "ktx": 7, "mine": 4, "foreign": 4, "fork": 5, "walk": 4, "reopen": 1, "sync": 2, "xfer-bad": 1, "xfer-hold": 1, "submit-held": 1, "badblock": 2, "fault": 2, "mine-auto-stale": 2},
		EndChecks: []string{"sync", "obs", "replica", "walk 0", "replica", "sync", "replica"}},
	"C02": {Name: "amounts", Steps: 30, Fee: []bool{true}, Windows: []int64{0},
		W:         map[string]int{"xfer": 10, "xfer-bad": 4, "mine": 4, "foreign": 3, "fork": 3, "walk": 3, "sync": 2, "resubmit": 1, "xfer-hold": 3, "submit-held": 3, "mine-auto": 2, "balrace": 3, "badblock": 3, "fault": 2, "reopen": 2, "race3": 3, "flood": 1},
		EndChecks: []string{"sync", "obs"}},
	"C03": {Name: "conflicts", Steps: 36, Fee: []bool{false, true}, Windows: []int64{0},
		W: map[string]int{"xfer": 5, "xfer-bad": 4, "resubmit": 3, "ktx": 5, "ktx-two": 5, "ktx-old": 3, "mine": 3, "foreign": 5, "fork": 3,
			"walk": 2, "sync": 2, "badblock": 2, "xfer-hold": 2, "submit-held": 2, "race": 4, "race3": 3},
		EndChecks: []string{"sync", "obs"}},
	"C05": {Name: "failures", Steps: 30, Fee: []bool{false, true}, Windows: []int64{0, 2},
		W: map[string]int{"xfer": 4, "xfer-bad": 5, "ktx": 4, "ktx-old": 3, "resubmit": 2, "badblock": 5, "mine": 3, "foreign": 3, "fork": 3,
			"walk": 2, "cmpcopy": 4, "reopen": 2, "badswitch": 2, "sync": 2, "fault": 5, "mine-auto": 3, "xfer-hold": 1, "submit-held": 1, "balrace": 3, "race3": 3, "flood": 2},
		EndChecks: []string{"cmpcopy", "sync", "cmpcopy"}},
	"C06": {Name: "crash", Steps: 26, Fee: []bool{false, true}, Windows: []int64{0},
		W:         map[string]int{"xfer": 6, "ktx": 6, "mine": 5, "foreign": 5, "fork": 5, "walk": 3, "sync": 3, "xfer-bad": 1, "truncate": 2, "badblock": 1, "bad-truncate": 2, "fault": 3},
		EndChecks: []string{"crashcheck 120"}},
	"C12": {Name: "schedules", Steps: 30, Fee: []bool{false, true}, Windows: []int64{0},
		W:         map[string]int{"xfer": 4, "ktx": 4, "race": 10, "race3": 5, "flood": 5, "balrace": 6, "selrace": 4, "walkrace": 4, "xfer-bad": 3, "ktx-two": 3, "ktx-old": 2, "mine": 3, "foreign": 3, "fork": 2, "walk": 2, "sync": 2},
		EndChecks: []string{"sync", "obs"}},
	"C17": {Name: "finality", Steps: 34, Fee: []bool{false}, Windows: []int64{1, 2, 3, 0},
		W:         map[string]int{"xfer": 2, "ktx": 2, "mine": 6, "foreign": 5, "fork": 7, "walk": 6, "sync": 3, "reopen": 2, "badblock": 2, "truncate": 2, "walkrace": 4},
		EndChecks: []string{"sync", "obs"}},
	"C18": {Name: "snapshots", Steps: 34, Fee: []bool{false}, Windows: []int64{0},
		W:         map[string]int{"ktx": 12, "mine": 6, "foreign": 4, "fork": 3, "walk": 2, "sync": 2, "snap": 3, "xfer": 1, "badswitch": 3},
		EndChecks: []string{"snap", "sync", "snap"}},
}

func main() {
	args := xvlib.ParseArgs()
	out := xvlib.NewOut(args.Out)
	defer out.Close()
	prop := args.Prop
	if prop == "" {
		prop = "C01"
	}
	ex := &Exec{scratch: args.Scratch, out: out, prop: prop}
	// filter violations to the property under decision; others are counted as notes
	filter := func() {
		var keep []xvlib.Violation
		for _, v := range out.Stats.Violations {
			ok := false
			for _, p := range propsOfKey(v.Key) {
				if p == prop {
					ok = true
				}
			}
			if ok {
				keep = append(keep, v)
			} else {
				out.Stats.Notes = append(out.Stats.Notes, fmt.Sprintf("violation of another property seen (%s): %s", strings.Join(propsOfKey(v.Key), ","), v.Key))
			}
		}
		out.Stats.Violations = keep
	}
	defer filter()
	if args.Replay != "" {
		for _, l := range xvlib.ReadLines(args.Replay) {
			out.Begin(l)
			a := ex.exec(l)
			out.Emit(l, cmpAns(l, a))
			out.Case(l, true)
		}
		return
	}
	// minimised past failures and hand-written corner cases run first
	if files, _ := filepath.Glob(filepath.Join("corpus", prop, "*.ops")); len(files) > 0 {
		sort.Strings(files)
		for _, f := range files {
			var canon []string
			for _, l := range xvlib.ReadLines(f) {
				out.Begin(l)
				a := ex.exec(l)
				out.Emit(l, cmpAns(l, a))
				canon = append(canon, l)
			}
			out.Case(strings.Join(canon, "\n"), true)
			out.Count("corpus")
			kvmem.Drop(args.Scratch)
		}
	}
	if prop == "C04" || prop == "C05" {
		// C05 (failed operations leave no trace; running == reopened) also holds of the ledger alone: the ledger
		// histories of C04 (with refused blocks of every kind) run for C05 too, before its own profile
		n := xvlib.EnvInt("XV_CASES", 0)
		if n == 0 {
			n = 400
			if args.Tier == "thorough" {
				n = 6000
			}
		}
		g := &Gen{e: ex, r: xvlib.NewRng(args.Seed*1000003 + 404), out: out}
		for i := 0; i < n; i++ {
			g.ledgerScenario(10 + g.r.Intn(30))
			if i < 2 {
				out.Sample(map[string]interface{}{"ops": headTail(g.canon, 16)})
			}
			kvmem.Drop(args.Scratch)
		}
		ledgerRule := fmt.Sprintf("%d generated ledger histories of 10-40 steps: blocks attached to random stored blocks (depth bias) carrying 0-2 of 5 transactions (the same transaction on several branches), duplicates, late arrivals, blocks with unknown parent, truncations to main-chain blocks, undo/todo queries, reopen; after every mutation all C04 queries are checked against the tree kept by the harness; non-trivial = more than 4 blocks", n)
		if prop == "C04" {
			out.Stats.Rule = ledgerRule
			return
		}
		out.Stats.Notes = append(out.Stats.Notes, "before the profile: "+ledgerRule)
	}
	p := profiles[prop]
	if p == nil {
		xvlib.Die("no profile for %s", prop)
	}
	// corpus first
	n := xvlib.EnvInt("XV_CASES", 0)
	if n == 0 {
		n = 300
		if args.Tier == "thorough" {
			n = 4000
		}
		if prop == "C06" {
			n /= 4
		}
	}
	if prop == "C06" {
		// the engine contract the crash enumeration relies on, checked against the real leveldb engine
		kc := 24
		if args.Tier == "thorough" {
			kc = 200
		}
		for c := 0; c < kc; c++ {
			l := fmt.Sprintf("kvengine %d %d", args.Seed, c)
			out.Begin(l)
			out.Emit(l, ex.exec(l))
		}
	}
	g := &Gen{e: ex, r: xvlib.NewRng(args.Seed*1000003 + uint64(len(prop))*7 + uint64(prop[2])), out: out}
	for i := 0; i < n; i++ {
		g.scenario(p)
		if i < 2 {
			out.Sample(map[string]interface{}{"ops": headTail(g.canon, 14)})
		}
		kvmem.Drop(args.Scratch)
	}
	if p.W["walkrace"] > 0 {
		out.Stats.Notes = append(out.Stats.Notes, "walkrace: pairs of state-changing requests (Walk / Play / PlayForMiner / DoTx) in flight at once on the real node - the first held at one of its yield points (log calls, storage write groups; inside utxo.Mutex but for a walk's first), the second started and seen waiting for the lock, re-admission goroutines run after both returned; the outcome must equal one of the two one-at-a-time orders executed by the real code on copies of the storage image, and the C17 oracles (irreversible blocks stay on the chain, height = max(height - w), monotone) must hold; the Lean driver answers both orders")
	}
	out.Stats.Rule = fmt.Sprintf("profile %q: %d generated histories of ~%d steps (transfers incl. zero / frozen / fee outputs and malformed variants, $xvkv contract txs pre-executed by the real sandbox, own blocks, peer blocks on the tip and on forks, walks, reopen) over 3 users, 2 producers, 5 keys; a history is non-trivial if it has >2 blocks and >3 txs; distinct by full op list", p.Name, n, p.Steps)
}

func headTail(s []string, n int) []string {
	if len(s) <= n {
		return s
	}
	return append(append([]string{}, s[:n]...), "...")
}
