package main

// World: the scenario state kept by the harness — accounts, abstract transactions and blocks with
// their real counterparts, and an independent spec interpreter (`Spec`) that folds the obvious
// semantics over a chain (what a client would expect), used by generators and by the oracles.

import (
	"encoding/hex"
	"fmt"
	"math/big"
	"sort"
	"strconv"
	"strings"

	pb "github.com/xuperchain/xupercore/bcs/ledger/xledger/xldgpb"
	kledger "github.com/xuperchain/xupercore/kernel/ledger"
	"xv/chainlib"
	"xv/xvlib"
)

const delFlag = "\x00"

type InRef struct {
	Tx, Off int
	Addr    string // "u0", "m1"
	Amt     *big.Int
	Frozen  int64
	RawHex  string // non-canonical amount bytes cited (hex) or ""
}
type OutInfo struct {
	Addr   string // "u0", "m1" or "$"
	Amt    *big.Int
	Frozen int64
	RawHex string // the amount bytes as spelled in the transaction when not big.Int.Bytes() (hex: "00", "0000", "0005"...) or ""
}

// amtBytes: the bytes of the output's amount as the transaction carries them
func (o OutInfo) amtBytes() []byte {
	if o.RawHex != "" {
		b, _ := hex.DecodeString(o.RawHex)
		return b
	}
	return o.Amt.Bytes()
}
type KIn struct {
	Key       string
	VTx, VOff int // VTx = -1: never written
}
type KOut struct {
	Key, Val string
	Del      bool
}
type TxInfo struct {
	Idx      int
	Tx       *pb.Transaction
	Coinbase bool
	Autogen  bool
	From     string
	Ins      []InRef
	Outs     []OutInfo
	KIn      []KIn
	KOut     []KOut
	Prog     string
	BadSig   bool // its signature does not verify: every block carrying it is refused at play / walk
}
type BlockInfo struct {
	Idx    int
	Blk    *pb.InternalBlock
	Pre    int // -1 for root
	Height int64
	Txs    []int // including the award tx first
	Prop   string
}

// ---------- spec interpreter

type SUtxo struct {
	Addr   string
	Amt    *big.Int
	Frozen int64
}
type SKV struct {
	Tx, Off int
	Val     string
	Del     bool
}
type Spec struct {
	U     map[string]SUtxo // "tx.off"
	KV    map[string]SKV
	Total *big.Int
}

func newSpec() *Spec { return &Spec{U: map[string]SUtxo{}, KV: map[string]SKV{}, Total: big.NewInt(0)} }
func (s *Spec) clone() *Spec {
	c := newSpec()
	for k, v := range s.U {
		c.U[k] = v
	}
	for k, v := range s.KV {
		c.KV[k] = v
	}
	c.Total.Set(s.Total)
	return c
}
func ukey(tx, off int) string { return fmt.Sprintf("%d.%d", tx, off) }

// admissible: the spec-level admission rule of C03 (ledgerHeight = main-chain height used for frozen outputs).
// returns "" or the reason.
func (s *Spec) admissible(t *TxInfo, ledgerHeight int64) string {
	seen := map[string]bool{}
	in := big.NewInt(0)
	for _, r := range t.Ins {
		k := ukey(r.Tx, r.Off)
		if seen[k] {
			return "dupinput"
		}
		seen[k] = true
		u, ok := s.U[k]
		if !ok || u.Addr != r.Addr {
			return "utxo"
		}
		if r.RawHex != "" || u.Amt.Cmp(r.Amt) != 0 {
			return "mismatch"
		}
		if u.Frozen > ledgerHeight || u.Frozen == -1 {
			return "frozen"
		}
		in.Add(in, u.Amt)
	}
	out := big.NewInt(0)
	for _, o := range t.Outs {
		out.Add(out, o.Amt)
	}
	if in.Cmp(out) != 0 && !(t.Coinbase && in.Sign() == 0) {
		return "balance"
	}
	ink := map[string]bool{}
	for _, ki := range t.KIn {
		ink[ki.Key] = true
		cur, ok := s.KV[ki.Key]
		if !ok {
			if ki.VTx != -1 {
				return "rwset"
			}
		} else if cur.Tx != ki.VTx || cur.Off != ki.VOff {
			return "rwset"
		}
	}
	for _, ko := range t.KOut {
		if !ink[ko.Key] {
			return "rwset"
		}
	}
	return ""
}

func (s *Spec) apply(t *TxInfo) {
	for _, r := range t.Ins {
		delete(s.U, ukey(r.Tx, r.Off))
	}
	for i, o := range t.Outs {
		if o.Addr == "$" || o.Amt.Sign() == 0 {
			continue
		}
		s.U[ukey(t.Idx, i)] = SUtxo{o.Addr, o.Amt, o.Frozen}
		if t.Coinbase {
			s.Total.Add(s.Total, o.Amt)
		}
	}
	for i, ko := range t.KOut {
		s.KV[ko.Key] = SKV{t.Idx, i, ko.Val, ko.Del}
	}
}

func (s *Spec) payFee(t *TxInfo, proposer string) {
	for i, o := range t.Outs {
		if o.Addr == "$" {
			// the fee output materialises for the proposer when the tx is confirmed in a block (also when zero)
			s.U[ukey(t.Idx, i)] = SUtxo{proposer, o.Amt, 0}
		}
	}
}

func (s *Spec) balance(addr string) *big.Int {
	b := big.NewInt(0)
	for _, u := range s.U {
		if u.Addr == addr {
			b.Add(b, u.Amt)
		}
	}
	return b
}

// ---------- world

type World struct {
	Fee     bool
	Window  int64
	Users   []*xvlib.Account
	Miners  []*xvlib.Account
	AddrOf  map[string]string // "u0" -> real address
	NameOf  map[string]string // real address -> "u0"
	Txs     []*TxInfo
	TxByID  map[string]int
	Blocks  []*BlockInfo
	BlkByID map[string]int
	specAt  map[int]*Spec
	Award   int64
	Main    *chainlib.Node
	scratch string
	nodeSeq int
	Keys    []string
}

func (w *World) tx(i int) *TxInfo { return w.Txs[i] }

func (w *World) addTx(t *TxInfo) int {
	t.Idx = len(w.Txs)
	w.Txs = append(w.Txs, t)
	return t.Idx
}

func (w *World) bindTx(t *TxInfo) { w.TxByID[string(t.Tx.Txid)] = t.Idx }

// spec state after block b (memoised fold along the path from the root)
func (w *World) SpecAt(b int) *Spec {
	if s, ok := w.specAt[b]; ok {
		return s
	}
	bi := w.Blocks[b]
	var s *Spec
	if bi.Pre < 0 {
		s = newSpec()
	} else {
		s = w.SpecAt(bi.Pre).clone()
	}
	for _, ti := range bi.Txs {
		t := w.Txs[ti]
		s.apply(t)
		s.payFee(t, bi.Prop)
	}
	w.specAt[b] = s
	return s
}

// chain returns the block indices from the root to b.
func (w *World) chain(b int) []int {
	var c []int
	for x := b; x >= 0; x = w.Blocks[x].Pre {
		c = append([]int{x}, c...)
	}
	return c
}

func (w *World) isAncestorOrSelf(a, b int) bool {
	for x := b; x >= 0; x = w.Blocks[x].Pre {
		if x == a {
			return true
		}
	}
	return false
}

// ---------- canonical rendering

func amtStr(a *big.Int) string { return a.String() }

func (t *TxInfo) line(kind string, extra string) string {
	var sb strings.Builder
	fmt.Fprintf(&sb, "%s %d from=%s", kind, t.Idx, t.From)
	if t.Coinbase {
		sb.WriteString(" c=1")
	}
	if extra != "" {
		sb.WriteString(" " + extra)
	}
	var ins []string
	for _, r := range t.Ins {
		a := amtStr(r.Amt)
		if r.RawHex != "" {
			a = "x" + r.RawHex
		}
		ins = append(ins, fmt.Sprintf("%d.%d:%s:%s:%d", r.Tx, r.Off, r.Addr, a, r.Frozen))
	}
	sb.WriteString(" in=" + strings.Join(ins, ","))
	var outs []string
	for _, o := range t.Outs {
		a := amtStr(o.Amt)
		if o.RawHex != "" {
			a = "x" + o.RawHex
		}
		outs = append(outs, fmt.Sprintf("%s:%s:%d", o.Addr, a, o.Frozen))
	}
	sb.WriteString(" out=" + strings.Join(outs, ","))
	var kin []string
	for _, k := range t.KIn {
		if k.VTx < 0 {
			kin = append(kin, k.Key+"@-")
		} else {
			kin = append(kin, fmt.Sprintf("%s@%d.%d", k.Key, k.VTx, k.VOff))
		}
	}
	sb.WriteString(" kin=" + strings.Join(kin, ","))
	var kout []string
	for _, k := range t.KOut {
		if k.Del {
			kout = append(kout, k.Key+"=DEL")
		} else {
			kout = append(kout, k.Key+"="+k.Val)
		}
	}
	sb.WriteString(" kout=" + strings.Join(kout, ","))
	return sb.String()
}

// parse helpers for op lines
func fields(line string) (string, []string, map[string]string) {
	w := strings.Fields(line)
	kv := map[string]string{}
	var pos []string
	for _, x := range w[1:] {
		if i := strings.Index(x, "="); i > 0 && !strings.Contains(x[:i], ":") && !strings.Contains(x[:i], "@") {
			kv[x[:i]] = x[i+1:]
		} else {
			pos = append(pos, x)
		}
	}
	return w[0], pos, kv
}

func splitList(s string) []string {
	if s == "" {
		return nil
	}
	return strings.Split(s, ",")
}

func atoi(s string) int { n, _ := strconv.Atoi(s); return n }

func parseIns(s string) []InRef {
	var out []InRef
	for _, e := range splitList(s) {
		p := strings.Split(e, ":")
		to := strings.Split(p[0], ".")
		r := InRef{Tx: atoi(to[0]), Off: atoi(to[1]), Addr: p[1]}
		if strings.HasPrefix(p[2], "x") {
			r.RawHex = p[2][1:]
			r.Amt = new(big.Int)
			fmt.Sscanf(r.RawHex, "%x", r.Amt)
		} else {
			r.Amt, _ = new(big.Int).SetString(p[2], 10)
		}
		f, _ := strconv.ParseInt(p[3], 10, 64)
		r.Frozen = f
		out = append(out, r)
	}
	return out
}

func parseOuts(s string) []OutInfo {
	var out []OutInfo
	for _, e := range splitList(s) {
		p := strings.Split(e, ":")
		f, _ := strconv.ParseInt(p[2], 10, 64)
		if strings.HasPrefix(p[1], "x") {
			// the amount spelled byte by byte (non-minimal encodings: leading zero bytes, the zero amount as 0x00)
			b, _ := hex.DecodeString(p[1][1:])
			out = append(out, OutInfo{Addr: p[0], Amt: new(big.Int).SetBytes(b), Frozen: f, RawHex: p[1][1:]})
			continue
		}
		a, _ := new(big.Int).SetString(p[1], 10)
		out = append(out, OutInfo{Addr: p[0], Amt: a, Frozen: f})
	}
	return out
}

func parseKIn(s string) []KIn {
	var out []KIn
	for _, e := range splitList(s) {
		p := strings.SplitN(e, "@", 2)
		if p[1] == "-" {
			out = append(out, KIn{Key: p[0], VTx: -1})
		} else {
			to := strings.Split(p[1], ".")
			out = append(out, KIn{Key: p[0], VTx: atoi(to[0]), VOff: atoi(to[1])})
		}
	}
	return out
}

func parseKOut(s string) []KOut {
	var out []KOut
	for _, e := range splitList(s) {
		p := strings.SplitN(e, "=", 2)
		if p[1] == "DEL" {
			out = append(out, KOut{Key: p[0], Del: true, Val: delFlag})
		} else {
			out = append(out, KOut{Key: p[0], Val: p[1]})
		}
	}
	return out
}

// ---------- a spec-backed XMReader: lets the real sandbox pre-execute against the state of any block

type specReader struct {
	w *World
	s *Spec
}

func (r *specReader) vd(key string) *kledger.VersionedData {
	kv, ok := r.s.KV[key]
	if !ok {
		return &kledger.VersionedData{PureData: &kledger.PureData{Bucket: chainlib.KVBucket, Key: []byte(key)}}
	}
	return &kledger.VersionedData{PureData: &kledger.PureData{Bucket: chainlib.KVBucket, Key: []byte(key), Value: []byte(kv.Val)},
		RefTxid: r.w.Txs[kv.Tx].Tx.Txid, RefOffset: int32(kv.Off)}
}
func (r *specReader) Get(bucket string, key []byte) (*kledger.VersionedData, error) {
	if bucket != chainlib.KVBucket {
		return &kledger.VersionedData{PureData: &kledger.PureData{Bucket: bucket, Key: key}}, nil
	}
	return r.vd(string(key)), nil
}
func (r *specReader) Select(bucket string, start, end []byte) (kledger.XMIterator, error) {
	var ks []string
	if bucket == chainlib.KVBucket {
		for k, v := range r.s.KV {
			if v.Del {
				continue
			}
			if k >= string(start) && k < string(end) {
				ks = append(ks, k)
			}
		}
	}
	sort.Strings(ks)
	return &specIter{r: r, ks: ks, i: -1}, nil
}

type specIter struct {
	r  *specReader
	ks []string
	i  int
}

func (it *specIter) Next() bool { it.i++; return it.i < len(it.ks) }
func (it *specIter) Key() []byte {
	if it.i < 0 || it.i >= len(it.ks) {
		return nil
	}
	return []byte(it.ks[it.i])
}
func (it *specIter) Value() *kledger.VersionedData {
	if it.i < 0 || it.i >= len(it.ks) {
		return nil
	}
	return it.r.vd(it.ks[it.i])
}
func (it *specIter) Error() error { return nil }
func (it *specIter) Close()       {}
