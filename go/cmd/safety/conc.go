package main

// Overlapping CheckProposal calls on ONE DefaultSaftyRules instance.  The Smr owns one instance and calls CheckProposal
// from one goroutine per received proposal message and from the ledger's sync / miner goroutines (tdpos / xpoa
// CheckMinerMatch): the verdict on a certificate must be the verdict the same call gets when it runs alone.
//
//	cpi <p> <n> <col> <entry>... / <n2> <col2> <entry>...
//	      deterministic interleaving: the first call (A) is held at its p-th pause point (point 2k-1 = just before its
//	      k-th signature verification, point 2k = just after it; both lie between two signature entries of the loop),
//	      the second call (B) then runs from start to end on the same instance, then A goes on.
//	      -> <verdict of A> <verdict of B>      (compared with the model: each verdict is a function of its own arguments)
//	conc <seed> <n> <goroutines> <rounds>
//	      free running: <goroutines> certificates over validators 0..n-1 drawn from <seed> (genuine quorums, one member
//	      short of the quorum with that shortfall filled by repeated / re-signed / respelled entries of a counted member,
//	      junk), each judged alone first, then all at once on the same instance, <rounds> times.   -> `-`
//
// Oracle (the property, on every verdict obtained under overlap): accepted => a quorum of distinct valid members besides
// the collector.  Key = what was counted + ":overlapping-calls".

import (
	"crypto/ecdsa"
	"fmt"
	"strconv"
	"strings"
	"sync"

	bft "github.com/xuperchain/xupercore/kernel/consensus/base/driver/chained-bft"
	bftpb "github.com/xuperchain/xupercore/kernel/consensus/base/driver/chained-bft/pb"
	cctx "github.com/xuperchain/xupercore/kernel/consensus/context"
	"xv/xvlib"
)

// pauseCrypto is the crypto client handed to the instance under test: the real client, with a yield point before and
// after every signature verification.
type pauseCrypto struct {
	cctx.CryptoClient
	mu     sync.Mutex
	armed  bool
	point  int
	seen   int
	paused chan struct{}
	resume chan struct{}
}

func (p *pauseCrypto) yield() {
	p.mu.Lock()
	if !p.armed {
		p.mu.Unlock()
		return
	}
	p.seen++
	if p.seen != p.point {
		p.mu.Unlock()
		return
	}
	p.armed = false
	p.mu.Unlock()
	p.paused <- struct{}{}
	<-p.resume
}

func (p *pauseCrypto) VerifyECDSA(k *ecdsa.PublicKey, sig, msg []byte) (bool, error) {
	p.yield()
	ok, err := p.CryptoClient.VerifyECDSA(k, sig, msg)
	p.yield()
	return ok, err
}

var pauser = &pauseCrypto{}

// prepared: one CheckProposal call with what the property says about it
type prepared struct {
	n, col           int
	toks             []string
	proposal, parent *bft.QuorumCert
	vals             []string
	others           int // distinct valid members besides the collector
	key              string
}

func prepare(w []string) (*prepared, bool) {
	if len(w) < 2 {
		return nil, false
	}
	n, e1 := strconv.Atoi(w[0])
	col, e2 := strconv.Atoi(w[1])
	if e1 != nil || e2 != nil || n < 0 || n > 64 || col < 0 || col > 200 {
		return nil, false
	}
	p := &prepared{n: n, col: col, toks: w[2:]}
	for i := 0; i < n; i++ {
		p.vals = append(p.vals, acct(i).Address)
	}
	if p.vals == nil {
		p.vals = []string{}
	}
	curID = certID
	var signs []*bftpb.QuorumCertSign
	others := map[int]bool{}
	multi := map[int]int{}
	kinds := map[byte]int{}
	colValid := false
	for _, tok := range p.toks {
		e, a, kind, err := mkEntry(tok)
		if err != nil {
			return nil, false
		}
		signs = append(signs, e)
		kinds[kind]++
		if kind == 'v' || kind == 'r' || kind == 's' {
			if a < n {
				multi[a]++
				if a == col {
					colValid = true
				} else {
					others[a] = true
				}
			} else {
				kinds['o']++
			}
		}
	}
	p.others = len(others)
	p.parent = &bft.QuorumCert{VoteInfo: &bft.VoteInfo{ProposalId: certID, ProposalView: 0},
		LedgerCommitInfo: &bft.LedgerCommitInfo{CommitStateId: certID}, SignInfos: signs}
	p.proposal = &bft.QuorumCert{VoteInfo: &bft.VoteInfo{ProposalId: []byte{2}, ProposalView: 1, ParentId: certID, ParentView: 0},
		SignInfos: []*bftpb.QuorumCertSign{{Address: acct(col).Address, PublicKey: acct(col).PubJSON, Sign: sign(col, []byte{2})}}}
	dup := false
	for _, c := range multi {
		dup = dup || c > 1
	}
	junk := kinds['w'] + kinds['c'] + kinds['m']
	withCol := p.others
	if colValid {
		withCol++
	}
	switch {
	case withCol >= quorum(n) && colValid:
		p.key = "collector-counted"
	case dup && junk == 0 && kinds['o'] == 0:
		p.key = "repeated-member-counted"
	case kinds['o'] > 0 && !dup && junk == 0:
		p.key = "non-member-counted"
	case junk > 0:
		p.key = "invalid-signature-counted"
	default:
		p.key = "quorum-not-reached"
	}
	return p, true
}

func (p *prepared) call() (res string) {
	defer func() {
		if r := recover(); r != nil {
			res = "panic"
		}
	}()
	if rules.CheckProposal(p.proposal, p.parent, p.vals) == nil {
		return "accept"
	}
	return "reject"
}

// judge: the property on one verdict obtained while another call was in flight
func (p *prepared) judge(res string, ops []string, out *xvlib.Out, how string) {
	if out == nil {
		return
	}
	if res == "panic" {
		out.Violate(xvlib.Violation{Key: "panic:overlapping-calls", What: "CheckProposal panicked " + how, Ops: ops, Impl: []string{res}})
		return
	}
	if res != "accept" || p.others >= quorum(p.n) {
		return
	}
	key := p.key
	if key != "collector-counted" { // the known finding is the same finding under overlap
		key += ":overlapping-calls"
	}
	out.Violate(xvlib.Violation{Key: key,
		What: fmt.Sprintf("CheckProposal accepted the certificate [%s] (n=%d, collector %d) with %d distinct valid members besides the collector, %d required, %s",
			strings.Join(p.toks, " "), p.n, p.col, p.others, quorum(p.n), how),
		Ops: ops, Impl: []string{res}})
}

func execCpi(w []string, line string, out *xvlib.Out) string {
	if len(w) < 2 {
		return "bad-op"
	}
	point, err := strconv.Atoi(w[1])
	if err != nil || point < 1 {
		return "bad-op"
	}
	rest := w[2:]
	sep := -1
	for i, t := range rest {
		if t == "/" {
			sep = i
			break
		}
	}
	if sep < 0 {
		return "bad-op"
	}
	a, ok1 := prepare(rest[:sep])
	b, ok2 := prepare(rest[sep+1:])
	if !ok1 || !ok2 {
		return "bad-op"
	}
	pauser.mu.Lock()
	pauser.armed, pauser.point, pauser.seen = true, point, 0
	pauser.paused, pauser.resume = make(chan struct{}), make(chan struct{})
	pauser.mu.Unlock()
	done := make(chan string, 1)
	go func() { done <- a.call() }()
	var ra, rb string
	select {
	case ra = <-done:
		// A has fewer pause points: B runs after it
		pauser.mu.Lock()
		pauser.armed = false
		pauser.mu.Unlock()
		rb = b.call()
	case <-pauser.paused:
		rb = b.call()
		pauser.resume <- struct{}{}
		ra = <-done
	}
	how := fmt.Sprintf("when another CheckProposal call on the same instance ran while it was held at pause point %d (between two signature entries)", point)
	a.judge(ra, []string{line}, out, how)
	b.judge(rb, []string{line}, out, "while another CheckProposal call on the same instance was in flight")
	return ra + " " + rb
}

// concCerts draws the certificates of a conc line.
func concCerts(r *xvlib.Rng, n, g int) []*prepared {
	var ps []*prepared
	q := quorum(n)
	col := n - 1
	for len(ps) < g {
		perm := rngPerm(r, n-1) // members besides the collector
		var es []string
		switch k := len(ps) % 4; {
		case k == 0 || q < 2 || len(perm) == 0:
			// genuine: q .. n-1 distinct members
			cnt := q + r.Intn(n-q)
			for j := 0; j < cnt && j < len(perm); j++ {
				es = append(es, fmt.Sprintf("%dv", perm[j]))
			}
		case k == 3:
			// junk beside a short certificate
			for j := 0; j < q-1; j++ {
				es = append(es, fmt.Sprintf("%dv", perm[j]))
			}
			es = append(es, fmt.Sprintf("%dv", n), fmt.Sprintf("%dw", perm[0]))
		default:
			// one member short of the quorum, the rest of the certificate repeats counted members
			for j := 0; j < q-1; j++ {
				es = append(es, fmt.Sprintf("%dv", perm[j]))
			}
			reps := 1 + r.Intn(5)
			for j := 0; j < reps; j++ {
				es = append(es, fmt.Sprintf("%d%c", perm[r.Intn(q-1)], "vrs"[r.Intn(3)]))
			}
		}
		for j := len(es) - 1; j > 0; j-- {
			k := r.Intn(j + 1)
			es[j], es[k] = es[k], es[j]
		}
		p, ok := prepare(append([]string{strconv.Itoa(n), strconv.Itoa(col)}, es...))
		if !ok {
			continue
		}
		ps = append(ps, p)
	}
	return ps
}

func execConc(w []string, line string, out *xvlib.Out) string {
	if len(w) != 5 {
		return "bad-op"
	}
	seed, e0 := strconv.ParseUint(w[1], 10, 64)
	n, e1 := strconv.Atoi(w[2])
	g, e2 := strconv.Atoi(w[3])
	rounds, e3 := strconv.Atoi(w[4])
	if e0 != nil || e1 != nil || e2 != nil || e3 != nil || n < 2 || n > 32 || g < 1 || g > 256 || rounds < 0 {
		return "bad-op"
	}
	ps := concCerts(xvlib.NewRng(seed), n, g)
	alone := make([]string, len(ps))
	for i, p := range ps {
		alone[i] = p.call()
	}
	// every goroutine makes `chain` calls back to back (certificates i, i+1, ...: of different lengths), so that calls
	// START while others are in the middle of their signature loops, not only all at the same instant
	const chain = 5
	reported := false
	for k := 0; k < rounds && !reported; k++ {
		var wg sync.WaitGroup
		start := make(chan struct{})
		got := make([][chain]string, len(ps))
		for i := range ps {
			wg.Add(1)
			go func(i int) {
				defer wg.Done()
				<-start
				for j := 0; j < chain; j++ {
					got[i][j] = ps[(i+j)%len(ps)].call()
				}
			}(i)
		}
		close(start)
		wg.Wait()
		for i := range ps {
			for j := 0; j < chain && !reported; j++ {
				p := ps[(i+j)%len(ps)]
				if got[i][j] == alone[(i+j)%len(ps)] {
					continue
				}
				if got[i][j] == "panic" || (got[i][j] == "accept" && p.others < quorum(p.n)) {
					reported = true
				}
				p.judge(got[i][j], []string{line}, out, fmt.Sprintf("when %d goroutines made CheckProposal calls at once on the same instance (alone: %s)", len(ps), alone[(i+j)%len(ps)]))
			}
		}
	}
	if out != nil {
		out.Count("conc")
	}
	return "-"
}

// genOverlap: the generator part for the two ops above
func genOverlap(rng *xvlib.Rng, thorough bool, run func(line string, nontrivial bool)) {
	maxN := 5
	if thorough {
		maxN = 8
	}
	for n := 2; n <= maxN; n++ {
		q := quorum(n)
		col := n - 1
		var short []string // q-1 distinct members
		for j := 0; j < q-1; j++ {
			short = append(short, fmt.Sprintf("%dv", j))
		}
		full := append(append([]string{}, short...), fmt.Sprintf("%dv", q-1))
		// victims: one member short, the shortfall "filled" by a repeat (same bytes, re-signed, respelled key) in every
		// position after the original; a genuine exact quorum; a genuine quorum with a repeat
		var victims [][]string
		if q >= 2 {
			for _, kind := range []string{"v", "r", "s"} {
				for rep := 0; rep < q-1; rep++ {
					victims = append(victims, append(append([]string{}, short...), fmt.Sprintf("%d%s", rep, kind)))
					if n <= 4 || thorough {
						victims = append(victims, append(append([]string{}, short...), fmt.Sprintf("%d%s", rep, kind), fmt.Sprintf("%d%s", rep, kind)))
					}
				}
			}
			// the repeat right after its original, the others after it
			v := []string{"0v", "0r"}
			victims = append(victims, append(v, short[1:]...))
		}
		victims = append(victims, full, append(append([]string{}, full...), "0r"))
		if q >= 1 {
			victims = append(victims, append(append([]string{}, short...), fmt.Sprintf("%dv", n)), append(append([]string{}, short...), "0w"))
		}
		// the other call: no entry at all, members the victim does not carry, the victim's members, a full certificate
		others := [][]string{nil, {fmt.Sprintf("%dv", q-1)}, short, full}
		if n > q+1 {
			others = append(others, []string{fmt.Sprintf("%dv", q)})
		}
		for _, v := range victims {
			for _, o := range others {
				for p := 1; p <= 2*len(v); p++ {
					if !thorough && n >= 4 && !rng.Chance(1, 2) {
						continue
					}
					n2 := n
					if rng.Chance(1, 4) {
						n2 = 2 + rng.Intn(maxN-1)
					}
					line := fmt.Sprintf("cpi %d %d %d %s / %d %d %s", p, n, col, strings.Join(v, " "), n2, n2-1, strings.Join(o, " "))
					run(strings.Join(strings.Fields(line), " "), true)
				}
			}
		}
	}
	rounds, lines := 25, 6
	if thorough {
		rounds, lines = 300, 20
	}
	for i := 0; i < lines; i++ {
		n := 3 + rng.Intn(8)
		run(fmt.Sprintf("conc %d %d %d %d", rng.Intn(1<<30), n, 16+rng.Intn(17), rounds), true)
	}
}
