// Engine `safety` (C14): drives the real DefaultSaftyRules.CheckProposal /
// CheckVote / CalVotesThreshold / CheckPacemaker with real keys and signatures.
//
// op lines (also the input of the Lean driver `xvdriver safety`):
//
//	thr <k> <n>                 CalVotesThreshold(k, n)            -> true|false
//	pm <pending> <local>        CheckPacemaker                      -> true|false
//	cp <n> <col> <entry>...     CheckProposal with validators 0..n-1, certificate entries,
//	                            collector (signer of the proposal) = <col>  -> accept|reject
//	cv <n> <entry>...           CheckVote (signature part)          -> accept|reject
//	cpi <p> <A> / <B>           two CheckProposal calls on the one instance, B running while A is held between two
//	                            signature entries (conc.go)           -> <verdict A> <verdict B>
//	conc <seed> <n> <g> <r>     g calls at once, r rounds, against the verdicts of the same calls made alone -> -
//
// entry = <addr><kind>: v valid signature by <addr> over the certified id; w signature by <addr>
// over another id; c corrupted signature; m claims <addr> but key+signature of an outsider.
package main

import (
	"container/list"
	"encoding/json"
	"fmt"
	"sort"
	"strconv"
	"strings"

	bft "github.com/xuperchain/xupercore/kernel/consensus/base/driver/chained-bft"
	cCrypto "github.com/xuperchain/xupercore/kernel/consensus/base/driver/chained-bft/crypto"
	bftpb "github.com/xuperchain/xupercore/kernel/consensus/base/driver/chained-bft/pb"
	cctx "github.com/xuperchain/xupercore/kernel/consensus/context"
	"xv/xvlib"
)

var (
	accts    []*xvlib.Account
	rules    *bft.DefaultSaftyRules
	certID   = []byte{0}
	otherID  = []byte{7, 7}
	sigCache = map[string][]byte{}
	curID    = certID // the id certified by the op being executed
)

// other returns the id that is NOT being certified (a signature over it is a wrong-id signature)
func other(id []byte) []byte {
	if string(id) == string(certID) {
		return otherID
	}
	return certID
}

func acct(i int) *xvlib.Account {
	for len(accts) <= i {
		accts = append(accts, xvlib.NewAccount(len(accts)))
	}
	return accts[i]
}

func sign(i int, id []byte) []byte {
	k := fmt.Sprintf("%d/%x", i, id)
	if s, ok := sigCache[k]; ok {
		return s
	}
	s, err := xvlib.Crypto().SignECDSA(acct(i).Pri, id)
	if err != nil {
		panic(err)
	}
	sigCache[k] = s
	return s
}

const outsider = 90

func mkEntry(tok string) (*bftpb.QuorumCertSign, int, byte, error) {
	if len(tok) < 2 {
		return nil, 0, 0, fmt.Errorf("bad entry %q", tok)
	}
	kind := tok[len(tok)-1]
	a, err := strconv.Atoi(tok[:len(tok)-1])
	if err != nil {
		return nil, 0, 0, err
	}
	e := &bftpb.QuorumCertSign{Address: acct(a).Address, PublicKey: acct(a).PubJSON}
	switch kind {
	case 'v':
		e.Sign = sign(a, curID)
	case 'r':
		// a fresh (different) valid signature of the same member over the certified id: ECDSA signing is randomised
		sg, err := xvlib.Crypto().SignECDSA(acct(a).Pri, curID)
		if err != nil {
			return nil, 0, 0, err
		}
		e.Sign = sg
	case 's':
		// the same member again, valid fresh signature, its public key spelled differently (the key field is JSON text:
		// blanks and field order do not change the key it decodes to, nor the address derived from it)
		sg, err := xvlib.Crypto().SignECDSA(acct(a).Pri, curID)
		if err != nil {
			return nil, 0, 0, err
		}
		e.Sign = sg
		e.PublicKey = respell(acct(a).PubJSON)
	case 'w':
		e.Sign = sign(a, other(curID))
	case 'c':
		s := append([]byte{}, sign(a, curID)...)
		s[len(s)/2] ^= 0x20
		e.Sign = s
	case 'm':
		e.PublicKey = acct(outsider).PubJSON
		e.Sign = sign(outsider, curID)
	default:
		return nil, 0, 0, fmt.Errorf("bad kind %q", tok)
	}
	return e, a, kind, nil
}

// respell writes the same JSON object with other blanks and field order.
func respell(js string) string {
	var m map[string]interface{}
	d := json.NewDecoder(strings.NewReader(js))
	d.UseNumber()
	if d.Decode(&m) != nil {
		return js + " "
	}
	var ks []string
	for k := range m {
		ks = append(ks, k)
	}
	sort.Sort(sort.Reverse(sort.StringSlice(ks)))
	var parts []string
	for _, k := range ks {
		v, _ := json.Marshal(m[k])
		parts = append(parts, fmt.Sprintf(" %q : %s", k, v))
	}
	return "{" + strings.Join(parts, " ,") + " }"
}

func newRules() *bft.DefaultSaftyRules {
	initQC := &bft.QuorumCert{
		VoteInfo:         &bft.VoteInfo{ProposalId: certID, ProposalView: 0},
		LedgerCommitInfo: &bft.LedgerCommitInfo{CommitStateId: certID},
	}
	root := &bft.ProposalNode{In: initQC}
	// a second stored proposal (id otherID) so that certificates over either id refer to a node of the local tree
	root.Sons = append(root.Sons, &bft.ProposalNode{In: &bft.QuorumCert{
		VoteInfo:         &bft.VoteInfo{ProposalId: otherID, ProposalView: 0, ParentId: certID, ParentView: 0},
		LedgerCommitInfo: &bft.LedgerCommitInfo{CommitStateId: otherID}}})
	tree := &bft.QCPendingTree{Genesis: root, Root: root, HighQC: root, CommitQC: root,
		OrphanList: list.New(), OrphanMap: map[string]bool{}, Log: xvlib.Logger("qctree")}
	a := acct(0)
	addr := &cctx.Address{Address: a.Address, PrivateKeyStr: a.PriJSON, PublicKeyStr: a.PubJSON, PrivateKey: a.Pri, PublicKey: a.Pub}
	// the crypto client is the real one behind yield points (conc.go); it never pauses unless a cpi line arms it
	pauser.CryptoClient = xvlib.Crypto()
	return &bft.DefaultSaftyRules{Crypto: cCrypto.NewCBFTCrypto(addr, pauser), QcTree: tree, Log: xvlib.Logger("safety")}
}

func quorum(n int) int { return n - (n-1)/3 - 1 }

// exec runs one op line against the real code; returns the canonical answer.
// For cp it also evaluates the property oracle.
var prevLine string

// replayOps: a wrong-id case right after a `cpy` line replays with that line (the same instance verified those votes first)
func replayOps(line string) []string {
	if strings.HasPrefix(prevLine, "cpy ") && line != prevLine {
		return []string{prevLine, line}
	}
	return []string{line}
}

func exec(line string, out *xvlib.Out) string {
	defer func() {
		if out != nil && !strings.HasPrefix(line, "cv ") {
			prevLine = line
		}
	}()
	w := strings.Fields(line)
	if len(w) == 0 {
		return "bad-op"
	}
	switch w[0] {
	case "thr":
		k, _ := strconv.Atoi(w[1])
		n, _ := strconv.Atoi(w[2])
		return strconv.FormatBool(rules.CalVotesThreshold(k, n))
	case "pm":
		p, _ := strconv.ParseInt(w[1], 10, 64)
		l, _ := strconv.ParseInt(w[2], 10, 64)
		return strconv.FormatBool(rules.CheckPacemaker(p, l))
	case "cpi":
		return execCpi(w, line, out)
	case "conc":
		return execConc(w, line, out)
	case "cp", "cpy":
		curID = certID
		if w[0] == "cpy" {
			curID = otherID
		}
		defer func() { curID = certID }()
		n, _ := strconv.Atoi(w[1])
		col, _ := strconv.Atoi(w[2])
		vals := make([]string, n)
		for i := range vals {
			vals[i] = acct(i).Address
		}
		var signs []*bftpb.QuorumCertSign
		others := map[int]bool{} // distinct valid members besides the collector
		colValid := false
		kinds := map[byte]int{}
		multi := map[int]int{}
		for _, tok := range w[3:] {
			e, a, kind, err := mkEntry(tok)
			if err != nil {
				return "bad-op"
			}
			signs = append(signs, e)
			kinds[kind]++
			if (kind == 'v' || kind == 'r' || kind == 's') && a < n {
				multi[a]++
				if a == col {
					colValid = true
				} else {
					others[a] = true
				}
			}
			if (kind == 'v' || kind == 'r' || kind == 's') && a >= n {
				kinds['o']++
			}
		}
		parent := &bft.QuorumCert{VoteInfo: &bft.VoteInfo{ProposalId: curID, ProposalView: 0},
			LedgerCommitInfo: &bft.LedgerCommitInfo{CommitStateId: curID}, SignInfos: signs}
		proposal := &bft.QuorumCert{VoteInfo: &bft.VoteInfo{ProposalId: []byte{2}, ProposalView: 1, ParentId: curID, ParentView: 0},
			SignInfos: []*bftpb.QuorumCertSign{{Address: acct(col).Address, PublicKey: acct(col).PubJSON, Sign: sign(col, []byte{2})}}}
		err := rules.CheckProposal(proposal, parent, vals)
		res := "reject"
		if err == nil {
			res = "accept"
		}
		if out != nil && err == nil && len(others) < quorum(n) {
			// property oracle: accepted without a quorum of distinct valid members besides the collector
			key := "quorum-not-reached"
			withCol := len(others)
			if colValid {
				withCol++
			}
			dup := false
			for _, c := range multi {
				if c > 1 {
					dup = true
				}
			}
			switch {
			case withCol >= quorum(n) && colValid:
				key = "collector-counted" // reaches the count only by the collector's own signature
			case dup && kinds['w']+kinds['c']+kinds['m'] == 0 && kinds['o'] == 0:
				key = "repeated-member-counted"
			case kinds['o'] > 0 && !dup && kinds['w']+kinds['c']+kinds['m'] == 0:
				key = "non-member-counted"
			case kinds['w']+kinds['c']+kinds['m'] > 0:
				key = "invalid-signature-counted"
			}
			out.Violate(xvlib.Violation{Key: key,
				What: fmt.Sprintf("CheckProposal accepted a certificate with %d distinct valid members besides the collector; %d required (n=%d)", len(others), quorum(n), n),
				Ops:  replayOps(line), Impl: []string{res}})
		}
		return res
	case "cv":
		n, _ := strconv.Atoi(w[1])
		vals := make([]string, n)
		for i := range vals {
			vals[i] = acct(i).Address
		}
		var signs []*bftpb.QuorumCertSign
		okFirst := false
		for i, tok := range w[2:] {
			e, a, kind, err := mkEntry(tok)
			if err != nil {
				return "bad-op"
			}
			if i == 0 {
				okFirst = (kind == 'v' || kind == 'r' || kind == 's') && a < n
			}
			signs = append(signs, e)
		}
		qc := &bft.QuorumCert{VoteInfo: &bft.VoteInfo{ProposalId: certID, ProposalView: 0},
			LedgerCommitInfo: &bft.LedgerCommitInfo{CommitStateId: certID}, SignInfos: signs}
		err := rules.CheckVote(qc, "xv", vals)
		res := "reject"
		if err == nil {
			res = "accept"
		}
		if out != nil && err == nil && !okFirst {
			out.Violate(xvlib.Violation{Key: "vote-accepted-invalid", What: "CheckVote accepted a vote whose signer is not a member with a valid signature over the proposal id",
				Ops: replayOps(line), Impl: []string{res}})
		}
		return res
	}
	return "bad-op"
}

func alphabet(n int) []string {
	var a []string
	for i := 0; i < n; i++ {
		a = append(a, fmt.Sprintf("%dv", i))
	}
	a = append(a, fmt.Sprintf("%dv", n), fmt.Sprintf("%dv", n+1))
	for i := 0; i < 2 && i < n; i++ {
		a = append(a, fmt.Sprintf("%dr", i)) // the same member again with a different valid signature
	}
	if n > 1 {
		a = append(a, "1s") // ... and with its public key spelled differently
	}
	for i := 0; i < 2 && i < n; i++ {
		a = append(a, fmt.Sprintf("%dw", i), fmt.Sprintf("%dc", i), fmt.Sprintf("%dm", i))
	}
	return a
}

// multisets enumerates all multisets of size ≤ max over alphabet a (as sorted index lists).
func multisets(a []string, max int, f func([]string)) {
	var rec func(start int, cur []string)
	rec = func(start int, cur []string) {
		f(cur)
		if len(cur) == max {
			return
		}
		for i := start; i < len(a); i++ {
			rec(i, append(cur, a[i]))
		}
	}
	rec(0, nil)
}

func main() {
	args := xvlib.ParseArgs()
	tier, seed, outDir, replay := &args.Tier, &args.Seed, &args.Out, &args.Replay
	rules = newRules()
	out := xvlib.NewOut(*outDir)
	defer out.Close()
	run := func(line string, nontrivial bool) {
		r := exec(line, out)
		out.Emit(line, r)
		out.Case(line, nontrivial)
		out.Count(strings.Fields(line)[0] + ":" + r)
	}
	if *replay != "" {
		for _, l := range xvlib.ReadLines(*replay) {
			run(l, true)
		}
		return
	}
	rng := xvlib.NewRng(*seed)
	// 1. the regenerated threshold / pacemaker functions against the real ones: exhaustive small box
	for n := 0; n <= 13; n++ {
		for k := -1; k <= 14; k++ {
			run(fmt.Sprintf("thr %d %d", k, n), true)
		}
	}
	for p := -2; p <= 12; p++ {
		for l := -2; l <= 12; l++ {
			run(fmt.Sprintf("pm %d %d", p, l), true)
		}
	}
	// 2. certificates: exhaustive multisets for small n
	exN, exExtra := 3, 2
	randCases := 2500
	if *tier == "thorough" {
		exN, exExtra = 5, 2
		randCases = 40000
	}
	for n := 1; n <= exN; n++ {
		a := alphabet(n)
		multisets(a, n+exExtra, func(es []string) {
			line := fmt.Sprintf("cp %d 0 %s", n, strings.Join(es, " "))
			run(strings.TrimSpace(line), len(es) > 0)
			if len(es) > 0 && len(es) <= 3 {
				run(strings.TrimSpace(fmt.Sprintf("cv %d %s", n, strings.Join(es, " "))), true)
			}
		})
	}
	// 2b. overlapping calls on the one instance (conc.go)
	genOverlap(rng, *tier == "thorough", run)
	// 3. random multisets (shuffled order, random collector) for n up to 10
	for i := 0; i < randCases; i++ {
		n := 1 + rng.Intn(10)
		a := alphabet(n)
		// bias towards the neighbourhood of the threshold
		q := quorum(n)
		cnt := q - 1 + rng.Intn(4)
		if cnt < 0 {
			cnt = 0
		}
		var es []string
		perm := rngPerm(rng, n)
		for j := 0; j < cnt && j < n; j++ {
			es = append(es, fmt.Sprintf("%dv", perm[j]))
		}
		junk := rng.Intn(4)
		for j := 0; j < junk; j++ {
			if rng.Chance(1, 2) && len(es) > 0 {
				es = append(es, es[rng.Intn(len(es))]) // repeat a member
			} else {
				es = append(es, a[n+rng.Intn(len(a)-n)])
			}
		}
		for j := len(es) - 1; j > 0; j-- {
			k := rng.Intn(j + 1)
			es[j], es[k] = es[k], es[j]
		}
		col := rng.Intn(n)
		line := strings.TrimSpace(fmt.Sprintf("cp %d %d %s", n, col, strings.Join(es, " ")))
		if i%5 == 0 {
			// replay across ids on the same instance: genuine votes for the other id are verified first (cpy, accepted
			// or not), then the very same entries are presented for this id (there they are wrong-id signatures)
			var ys, ws []string
			for j := 0; j < n && j < quorum(n)+2; j++ {
				ys = append(ys, fmt.Sprintf("%dv", j))
				ws = append(ws, fmt.Sprintf("%dw", j))
			}
			run(strings.TrimSpace(fmt.Sprintf("cpy %d %d %s", n, col, strings.Join(ys, " "))), true)
			run(strings.TrimSpace(fmt.Sprintf("cp %d %d %s", n, col, strings.Join(ws, " "))), true)
			if n > 1 {
				run(strings.TrimSpace(fmt.Sprintf("cv %d %dw", n, 1)), true)
			}
		}
		if rng.Chance(1, 3) && len(es) > 0 {
			// a member votes twice with different signature bytes
			k := rng.Intn(len(es))
			if strings.HasSuffix(es[k], "v") {
				es2 := append(append([]string{}, es...), strings.TrimSuffix(es[k], "v")+"r")
				run(strings.TrimSpace(fmt.Sprintf("cp %d %d %s", n, col, strings.Join(es2, " "))), true)
				// one member fills the certificate with respelled copies of its own vote
				es3 := []string{es[k]}
				for len(es3) < n {
					es3 = append(es3, strings.TrimSuffix(es[k], "v")+"s")
				}
				run(strings.TrimSpace(fmt.Sprintf("cp %d %d %s", n, col, strings.Join(es3, " "))), true)
			}
		}
		run(line, true)
		if i < 3 {
			out.Sample(map[string]string{"op": line, "impl": exec(line, nil)})
		}
	}
	out.Stats.Exhaustive = false
	out.Stats.Rule = fmt.Sprintf("thr/pm: exhaustive boxes; cp: all multisets of ≤ n+%d entries over the entry alphabet (valid member i, 2 non-members, wrong-id/corrupted/key-mismatch on members 0,1) for n ≤ %d, plus %d random shuffled multisets for n ≤ 10 near the threshold; overlapping calls on the one instance: cpi = a second call run while the first is held before / after its k-th signature verification (every pause point; first call one member short of the quorum with a repeated / re-signed / respelled entry, exact quorum, junk; second call empty / disjoint / same members / full), conc = 16-32 calls at once against their verdicts alone; a case is non-trivial if it has ≥1 entry, distinct by op line", exExtra, exN, randCases)
	ks := xvlib.SortedKeys(out.Stats.Distribution)
	sort.Strings(ks)
}

func rngPerm(r *xvlib.Rng, n int) []int {
	p := make([]int, n)
	for i := range p {
		p[i] = i
	}
	for j := n - 1; j > 0; j-- {
		k := r.Intn(j + 1)
		p[j], p[k] = p[k], p[j]
	}
	return p
}
