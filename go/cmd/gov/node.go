package main

// Node cases of the `gov` engine (first line `reset node <acct>:<quota> ...`): the same kernel contracts, but on a REAL
// chainlib node. Every call is a pre-execution in a sandbox over the node's live state, a signed transaction assembled
// from the read / write set, `State.VerifyTx` + `State.DoTx` (xmodel.DoTx: the read-set version check), blocks packed by
// the node's miner. What the one-call-at-a-time cases cannot express:
//
//	pre <tag> <call>     pre-execute <call> (init / xfer / propose / vote) on the CURRENT live state and hold the
//	                     assembled transaction: several held transactions were all computed on the same state
//	sub <tag>            submit the held transaction now (VerifyTx + DoTx); `none` if the pre-execution failed
//	ver <tag>            State.VerifyTx alone (what every submission and every block verification does first)
//	dotx <tag>           State.DoTx alone of a transaction `ver` accepted: `ver a, ver b, dotx a, dotx b` is two
//	                     submissions whose verifications both ran before either admission (two RPC goroutines, or the
//	                     parallel verification of a block's transactions before they are applied one by one)
//	pack                 a block of the miner with everything pending (ConfirmBlock + PlayForMiner)
//	qbal <acct>          State.QueryAccountGovernTokenBalance: the balance AT THE TIP BLOCK, read through the tip
//	                     snapshot reader (xModSnapshot.Get walks back from the newest, possibly pending, version)
//	init / xfer / propose / vote written plainly = pre + sub in one step
//
// answers: pre: ok[ <pid>] | reject;  sub / plain / pack: <ok|reject|none> | <dump of the live state>;  qbal: <n> | none

import (
	"bytes"
	"fmt"
	"strings"

	pb "github.com/xuperchain/xupercore/bcs/ledger/xledger/xldgpb"
	"github.com/xuperchain/xupercore/kernel/contract/proposal/utils"
	"github.com/xuperchain/xupercore/protos"
	"xv/chainlib"
	"xv/kvmem"
	"xv/xvlib"
)

var (
	nodeMode  bool
	nodeAccts = map[int]*xvlib.Account{}
	nodeIDs   = map[string]int{}
	nodeMiner *xvlib.Account
)

func nodeAcct(i int) *xvlib.Account {
	if a, ok := nodeAccts[i]; ok {
		return a
	}
	a := xvlib.NewAccount(600 + i)
	nodeAccts[i] = a
	nodeIDs[a.Address] = i
	return a
}

type heldTx struct {
	info     opInfo
	req      *protos.InvokeRequest
	res      *chainlib.PreExecResult
	tx       *pb.Transaction
	verified bool // `ver` accepted it (VerifyTx); `dotx` then runs State.DoTx alone
}

type nodeWorld struct {
	n         *chainlib.Node
	tip       *pb.InternalBlock
	held      map[string]*heldTx
	confirmed *snap // the decoded state as of the tip block (taken when nothing was pending)
	packs     int
}

func newNodeWorld(pre []string) (*world, error) {
	if nodeMiner == nil {
		nodeMiner = xvlib.NewAccount(699)
	}
	g := &chainlib.Genesis{Alloc: map[string]string{}, NoFee: true, Award: "0"}
	for _, t := range pre {
		p := strings.SplitN(t, ":", 2)
		var a int
		if len(p) != 2 {
			return nil, fmt.Errorf("bad predistribution")
		}
		if _, err := fmt.Sscanf(p[0], "%d", &a); err != nil {
			return nil, err
		}
		var q int64
		if _, err := fmt.Sscanf(p[1], "%d", &q); err != nil || q <= 0 {
			return nil, fmt.Errorf("bad quota")
		}
		ad := nodeAcct(a).Address
		if _, dup := g.Alloc[ad]; dup {
			return nil, fmt.Errorf("duplicate address")
		}
		g.Alloc[ad] = p[1]
		g.AllocOrder = append(g.AllocOrder, ad)
	}
	for _, a := range []int{0, 1, 2, 3, 50} {
		nodeAcct(a)
	}
	kvmem.Drop(chainlib.RootFor(scratchDir, "govnode"))
	n, err := chainlib.NewNode(scratchDir, "govnode", g.JSON(), nodeMiner)
	if err != nil {
		return nil, err
	}
	nw := &nodeWorld{n: n, held: map[string]*heldTx{}}
	nw.tip, err = n.L.QueryBlock(n.L.GetMeta().TipBlockid)
	if err != nil {
		return nil, err
	}
	w := &world{node: nw}
	nw.confirmed = w.snapshot()
	return w, nil
}

// parseCallReq: the invocation an op line (init / xfer / propose / vote) stands for
func parseCallReq(f []string, info *opInfo) (*protos.InvokeRequest, bool) {
	bad := false
	atoi := func(s string) int {
		var n int
		if _, err := fmt.Sscanf(s, "%d", &n); err != nil || fmt.Sprint(n) != s {
			bad = true
		}
		return n
	}
	req := &protos.InvokeRequest{ModuleName: "xkernel"}
	info.kind = f[0]
	switch {
	case f[0] == "init" && len(f) == 2:
		info.acct = atoi(f[1])
		req.ContractName, req.MethodName, req.Args = utils.GovernTokenKernelContract, "Init", map[string][]byte{}
	case f[0] == "xfer" && len(f) == 4:
		info.acct, info.to, info.amount = atoi(f[1]), atoi(f[2]), int64(atoi(f[3]))
		req.ContractName, req.MethodName = utils.GovernTokenKernelContract, "Transfer"
		req.Args = map[string][]byte{"to": []byte(acctName(info.to)), "amount": []byte(f[3])}
	case f[0] == "propose" && len(f) == 6:
		info.acct = atoi(f[1])
		atoi(f[2])
		atoi(f[3])
		req.ContractName, req.MethodName = utils.ProposalKernelContract, "Propose"
		req.Args = map[string][]byte{"proposal": proposalJSON(f[2], f[3], atoi(f[4]), f[5] == "1")}
	case f[0] == "vote" && len(f) == 4:
		info.acct, info.pid, info.amount = atoi(f[1]), atoi(f[2]), int64(atoi(f[3]))
		req.ContractName, req.MethodName = utils.ProposalKernelContract, "Vote"
		req.Args = map[string][]byte{"proposal_id": []byte(f[2]), "amount": []byte(f[3])}
	default:
		return nil, false
	}
	return req, !bad
}

func (nw *nodeWorld) preexec(f []string) (*heldTx, bool) {
	h := &heldTx{}
	req, ok := parseCallReq(f, &h.info)
	if !ok {
		return nil, false
	}
	h.req = req
	from := nodeAcct(h.info.acct)
	h.res = nw.n.PreExecReq(from.Address, []string{from.Address}, req)
	if h.res.Err == nil {
		tx, err := chainlib.ContractTx(from, h.res, "gov")
		if err != nil {
			h.res.Err = err
		}
		h.tx = tx
	}
	return h, true
}

func sameOutputs(a, b []*protos.TxOutputExt) bool {
	if len(a) != len(b) {
		return false
	}
	for i := range a {
		if a[i].Bucket != b[i].Bucket || !bytes.Equal(a[i].Key, b[i].Key) || !bytes.Equal(a[i].Value, b[i].Value) {
			return false
		}
	}
	return true
}

// submit: VerifyTx + DoTx of a held transaction. The second result: the transaction was ACCEPTED although the same
// request executed on the state it is committed to writes something else (serialisability of pre-executed calls: a
// transaction computed on an older state is either refused or has the effect of the call made now).
func (nw *nodeWorld) verify(h *heldTx) bool {
	tc := *h.tx
	ok, err := nw.n.S.VerifyTx(&tc)
	return err == nil && ok
}

func (nw *nodeWorld) submit(h *heldTx, verify bool) (accepted bool, staleWhat string) {
	if h.tx == nil {
		return false, ""
	}
	from := nodeAcct(h.info.acct)
	fresh := nw.n.PreExecReq(from.Address, []string{from.Address}, h.req)
	tc := *h.tx
	if verify && !nw.verify(h) {
		return false, ""
	}
	if err := nw.n.S.DoTx(&tc); err != nil {
		return false, ""
	}
	switch {
	case fresh.Err != nil:
		staleWhat = "the call fails on the state the transaction was committed to (" + fresh.Err.Error() + ")"
	case !sameOutputs(fresh.Outputs, h.res.Outputs):
		staleWhat = "the call made on the state the transaction was committed to writes other values than the transaction carries"
	}
	return true, staleWhat
}

func (nw *nodeWorld) pack(w *world) error {
	txs, err := nw.n.S.GetUnconfirmedTx(false)
	if err != nil {
		return err
	}
	var list []*pb.Transaction
	for _, t := range txs {
		tc := *t
		tc.ReceivedTimestamp = 0
		list = append(list, &tc)
	}
	blk, err := nw.n.MakeBlock(nodeMiner, nw.tip.Blockid, nw.tip.Height+1, list, int64(1e9)*(nw.tip.Height+2))
	if err != nil {
		return err
	}
	if st := nw.n.L.ConfirmBlock(chainlib.CloneBlock(blk), false); !st.Succ {
		return fmt.Errorf("confirm: %v", st.Error)
	}
	if err := nw.n.S.PlayForMiner(blk.Blockid); err != nil {
		return fmt.Errorf("play for miner: %v", err)
	}
	nw.tip = blk
	nw.packs++
	nw.confirmed = w.snapshot()
	return nil
}

// execNode runs one op of a node case. extra: violations of the oracles that belong to the new ops themselves.
func (w *world) execNode(line string) (ans string, info opInfo, stateOp bool, extra []viol) {
	nw := w.node
	f := strings.Fields(line)
	info = opInfo{kind: f[0]}
	defer func() {
		if r := recover(); r != nil {
			ans, stateOp = "panic", false
			extra = append(extra, viol{"panic:" + f[0], fmt.Sprintf("%v (at `%s`)", r, line)})
		}
	}()
	switch f[0] {
	case "pre":
		if len(f) < 3 {
			info.malformed = true
			return "bad-op", info, false, extra
		}
		h, ok := nw.preexec(f[2:])
		if !ok || h.info.kind == "init" {
			info.malformed = true
			return "bad-op", info, false, extra
		}
		nw.held[f[1]] = h
		if h.res.Err != nil {
			return "reject", info, false, extra
		}
		if h.info.kind == "propose" {
			return "ok " + h.res.Body, info, false, extra
		}
		return "ok", info, false, extra
	case "ver":
		if len(f) != 2 {
			info.malformed = true
			return "bad-op", info, false, extra
		}
		h := nw.held[f[1]]
		if h == nil || h.tx == nil {
			return "none", info, false, extra
		}
		h.verified = nw.verify(h)
		if !h.verified {
			return "reject", info, false, extra
		}
		return "ok", info, false, extra
	case "sub", "dotx":
		if len(f) != 2 {
			info.malformed = true
			return "bad-op", info, false, extra
		}
		h := nw.held[f[1]]
		if h == nil || h.tx == nil || (f[0] == "dotx" && !h.verified) {
			return "none", info, true, extra
		}
		delete(nw.held, f[1])
		info = h.info
		acc, stale := nw.submit(h, f[0] == "sub")
		if stale != "" {
			extra = append(extra, viol{"stale-preexecution-committed:" + h.info.kind,
				fmt.Sprintf("the held transaction of `%s` was accepted, but %s (at `%s`)", strings.Join(f[1:], " "), stale, line)})
		}
		if !acc {
			return "reject", info, true, extra
		}
		info.ok = true
		return "ok", info, true, extra
	case "pack":
		if len(f) != 1 {
			info.malformed = true
			return "bad-op", info, false, extra
		}
		if err := nw.pack(w); err != nil {
			extra = append(extra, viol{"pack-failed", fmt.Sprintf("a block of the accepted transactions cannot be produced / played: %v (at `%s`)", err, line)})
			return "fail", info, true, extra
		}
		info.ok = true
		return "ok", info, true, extra
	case "qbal":
		var a int
		if len(f) != 2 {
			info.malformed = true
			return "bad-op", info, false, extra
		}
		if _, err := fmt.Sscanf(f[1], "%d", &a); err != nil || fmt.Sprint(a) != f[1] {
			info.malformed = true
			return "bad-op", info, false, extra
		}
		ans = "none"
		if b, err := nw.n.S.QueryAccountGovernTokenBalance(acctName(a)); err == nil && b != nil {
			ans = b.TotalBalance
		}
		// oracle: the answer is the account's balance in the state of the tip block
		want := "none"
		if r, ok := nw.confirmed.bal[a]; ok {
			want = fmt.Sprint(r.total)
		}
		if ans != want {
			extra = append(extra, viol{"balance-query-differs-from-tip-state",
				fmt.Sprintf("QueryAccountGovernTokenBalance(account %d) = %s, the state of the tip block holds %s (at `%s`)", a, ans, want, line)})
		}
		return ans, info, false, extra
	case "init", "xfer", "propose", "vote":
		h, ok := nw.preexec(f)
		if !ok {
			info.malformed = true
			return "bad-op", info, false, extra
		}
		info = h.info
		if h.tx == nil {
			return "reject", info, true, extra
		}
		if acc, _ := nw.submit(h, true); !acc {
			extra = append(extra, viol{"preexecuted-not-accepted:" + info.kind, "a transaction pre-executed on the live state and submitted at once was refused (at `" + line + "`)"})
			return "reject", info, true, extra
		}
		info.ok = true
		if info.kind == "propose" {
			return "ok " + h.res.Body, info, true, extra
		}
		return "ok", info, true, extra
	}
	info.malformed = true
	return "bad-op", info, false, extra
}
