package main

// conc <goroutines> <reps> <call> ; <call> ; ...
//
// The kernel methods run concurrently in a node: one goroutine per PreExec request and per transaction being verified,
// each with its own sandbox over the same state. `conc` pre-executes the listed calls (xfer / lock / unlock / propose /
// vote / thaw) once each, one at a time - the sequential verdicts and write sets, which are also what the model answers -
// and then <reps> times each from <goroutines> goroutines at once (call i on goroutines i, i+n, ...). Nothing is committed.
// Oracle: every concurrent execution returns the verdict and the write set of the sequential one (an execution depends
// on the state and its own arguments only). answer: the sequential verdicts, e.g. `ok reject ok`.

import (
	"fmt"
	"strconv"
	"strings"
	"sync"
)

var concKinds = map[string]bool{"xfer": true, "lock": true, "unlock": true, "propose": true, "vote": true, "thaw": true}

func (w *world) dryRun(call string) string {
	c := *w
	c.dry, c.dryW = true, &strings.Builder{}
	ans, info := c.exec(call)
	if info.malformed {
		return "bad-op"
	}
	if !info.ok {
		return ans
	}
	return ans + " " + c.dryW.String()
}

func (w *world) conc(line string) (string, []viol, bool) {
	f := strings.Fields(line)
	if len(f) < 4 {
		return "", nil, false
	}
	g, err1 := strconv.Atoi(f[1])
	reps, err2 := strconv.Atoi(f[2])
	if err1 != nil || err2 != nil || g < 1 || g > 64 || reps < 1 || reps > 100000 || strconv.Itoa(g) != f[1] || strconv.Itoa(reps) != f[2] {
		return "", nil, false
	}
	var calls []string
	for _, c := range strings.Split(strings.Join(f[3:], " "), ";") {
		c = strings.Join(strings.Fields(c), " ")
		if c == "" || !concKinds[strings.Fields(c)[0]] {
			return "", nil, false
		}
		calls = append(calls, c)
	}
	seq := make([]string, len(calls))
	var verdicts []string
	for i, c := range calls {
		seq[i] = w.dryRun(c)
		if seq[i] == "bad-op" {
			return "", nil, false
		}
		verdicts = append(verdicts, strings.Fields(seq[i])[0])
	}
	type diff struct {
		call int
		got  string
	}
	var mu sync.Mutex
	var diffs []diff
	var wg sync.WaitGroup
	start := make(chan struct{})
	for j := 0; j < g; j++ {
		wg.Add(1)
		go func(j int) {
			defer wg.Done()
			i := j % len(calls)
			<-start
			for r := 0; r < reps; r++ {
				if got := w.dryRun(calls[i]); got != seq[i] {
					mu.Lock()
					diffs = append(diffs, diff{i, got})
					mu.Unlock()
					return
				}
			}
		}(j)
	}
	close(start)
	wg.Wait()
	var vs []viol
	seen := map[int]bool{}
	for _, d := range diffs {
		if seen[d.call] {
			continue
		}
		seen[d.call] = true
		kind := strings.Fields(calls[d.call])[0]
		vs = append(vs, viol{"concurrent-execution-differs:" + kind,
			fmt.Sprintf("`%s` executed while other calls run at the same time answered `%s`; executed alone on the same state it answers `%s` (at `%s`)", calls[d.call], d.got, seq[d.call], line)})
	}
	return strings.Join(verdicts, " "), vs, true
}
