package main

// Stub ledger / block / network the real tdpos plugin is instantiated with (public constructor
// tdpos.NewTdposConsensus). The $tdpos kernel methods read their election records through
// ledger snapshots (`getSnapshotKey(height, ...)`: QueryBlockByHeight + CreateSnapshot + Get), never
// through the contract context. The stub ledger serves these reads from the snapshots the CURRENT
// world took of its committed $tdpos bucket, one per sealed block.

import (
	"errors"
	"fmt"

	xctx "github.com/xuperchain/xupercore/kernel/common/xcontext"
	"github.com/xuperchain/xupercore/kernel/ledger"
	nctx "github.com/xuperchain/xupercore/kernel/network/context"
	"github.com/xuperchain/xupercore/kernel/network/p2p"
	pb "github.com/xuperchain/xupercore/protos"
)

const (
	tdStartHeight = 1 // StartHeight of the tdpos instance: heights <= 1 are refused by checkArgs
	tdBaseTip     = 2 // height of the ledger tip of a fresh world; blocks 0..2 carry no $tdpos record
)

var errNoBlock = errors.New("block not found")

// curWorld is the world the running call belongs to (the tdpos instance of a manager outlives worlds).
var curWorld *world

type blk struct{ height int64 }

func (b *blk) GetProposer() []byte                  { return []byte("miner") }
func (b *blk) GetHeight() int64                     { return b.height }
func (b *blk) GetBlockid() []byte                   { return []byte(fmt.Sprintf("blk%06d", b.height)) }
func (b *blk) GetConsensusStorage() ([]byte, error) { return nil, nil }
func (b *blk) GetTimestamp() int64                  { return b.height * 3000 * 1000000 }
func (b *blk) SetItem(string, interface{}) error    { return errors.New("immutable") }
func (b *blk) GetPreHash() []byte                   { return []byte(fmt.Sprintf("blk%06d", b.height-1)) }
func (b *blk) GetNextHash() []byte                  { return nil }
func (b *blk) GetPublicKey() string                 { return "" }
func (b *blk) GetSign() []byte                      { return nil }
func (b *blk) GetTxIDs() []string                   { return nil }
func (b *blk) GetInTrunk() bool                     { return true }
func (b *blk) MakeBlockId() ([]byte, error)         { return b.GetBlockid(), nil }

type tdLedger struct{}

func tipHeight() int64 {
	if curWorld == nil {
		return tdBaseTip
	}
	return int64(tdBaseTip + len(curWorld.tdSnaps))
}

func (tdLedger) GetConsensusConf() ([]byte, error) { return nil, nil }
func (tdLedger) QueryBlock(id []byte) (ledger.BlockHandle, error) {
	var h int64
	if _, err := fmt.Sscanf(string(id), "blk%06d", &h); err != nil || h < 0 || h > tipHeight() {
		return nil, errNoBlock
	}
	return &blk{h}, nil
}
func (tdLedger) QueryBlockByHeight(h int64) (ledger.BlockHandle, error) {
	if h < 0 || h > tipHeight() {
		return nil, errNoBlock
	}
	return &blk{h}, nil
}
func (tdLedger) GetTipBlock() ledger.BlockHandle { return &blk{tipHeight()} }
func (tdLedger) GetTipXMSnapshotReader() (ledger.XMSnapshotReader, error) {
	return nil, errors.New("not supported")
}
func (l tdLedger) CreateSnapshot(id []byte) (ledger.XMReader, error) {
	b, err := l.QueryBlock(id)
	if err != nil {
		return nil, err
	}
	return snapReader{b.GetHeight()}, nil
}
func (tdLedger) GetTipSnapshot() (ledger.XMReader, error) { return snapReader{tipHeight()}, nil }

// snapReader: the state as of block `height`: the snapshot taken when that block was sealed
// (blocks up to tdBaseTip are empty).
type snapReader struct{ height int64 }

func (r snapReader) Get(bucket string, key []byte) (*ledger.VersionedData, error) {
	i := int(r.height) - tdBaseTip - 1
	if curWorld == nil || i < 0 || i >= len(curWorld.tdSnaps) {
		return nil, nil
	}
	v, ok := curWorld.tdSnaps[i][bucket+"/"+string(key)]
	if !ok {
		return nil, nil
	}
	return &ledger.VersionedData{RefTxid: []byte("snap"), PureData: &ledger.PureData{Bucket: bucket, Key: key, Value: v}}, nil
}
func (r snapReader) Select(string, []byte, []byte) (ledger.XMIterator, error) {
	return nil, fmt.Errorf("not supported")
}

// ---- network stub (the plugin only asks for PeerInfo().Account without bft)

type stubNet struct{ account string }

func (n *stubNet) Start() {}
func (n *stubNet) Stop()  {}
func (n *stubNet) SendMessage(xctx.XContext, *pb.XuperMessage, ...p2p.OptionFunc) error {
	return nil
}
func (n *stubNet) SendMessageWithResponse(xctx.XContext, *pb.XuperMessage, ...p2p.OptionFunc) ([]*pb.XuperMessage, error) {
	return nil, nil
}
func (n *stubNet) NewSubscriber(pb.XuperMessage_MessageType, interface{}, ...p2p.SubscriberOption) p2p.Subscriber {
	return nil
}
func (n *stubNet) Register(p2p.Subscriber) error   { return nil }
func (n *stubNet) UnRegister(p2p.Subscriber) error { return nil }
func (n *stubNet) Context() *nctx.NetCtx           { return nil }
func (n *stubNet) PeerInfo() pb.PeerInfo           { return pb.PeerInfo{Account: n.account} }
