// Engine `gov` (C19): drives the REAL $govern_token, $proposal and $timer_task kernel contracts
// (registered by the real NewGovManager / NewProposeManager / NewTimerTaskManager) through the real
// contract.Manager (xkernel driver, bridge, syscall service, sandbox.XMCache) over a growing
// in-memory sandbox.MemXModel. No chain is needed: every successful top-level call's write set is
// committed into the backing store, a failed call's writes are discarded (what a failed tx does).
//
// op lines (also the input of the Lean driver `xvdriver gov`); accounts are small numbers, the
// harness names account i "K<i>" for i < 50 and "k<i>" (lower case first byte) for i >= 50:
//
//	reset <acct>:<quota> ...              new case: empty store, genesis predistribution in order
//	init <acct>                           $govern_token.Init
//	xfer <from> <to> <amount>             $govern_token.Transfer, initiator <from>
//	lock   <via> <acct> <amount> <type>   $govern_token.Lock   reached from <via>
//	unlock <via> <acct> <amount> <type>   $govern_token.UnLock reached from <via>
//	         via: P = a method of $proposal, T = $tdpos, X = $xpos, O = another kernel contract,
//	              D = directly as a top-level call (caller empty);  type: o ordinary, t tdpos, z invalid
//	propose <acct> <pct> <stop> <trig> <ok>   $proposal.Propose (min_vote_percent, stop_vote_height,
//	                                          trigger height, whether the trigger target succeeds)
//	vote <acct> <pid> <amount>            $proposal.Vote
//	thaw <acct> <pid>                     $proposal.Thaw
//	timer <height>                        $timer_task.Do (what the miner's timer tx does at that height)
//	cvr <via> <pid> / trig <via> <pid>    $proposal.CheckVoteResult / Trigger reached from O or D
//
// the REAL $tdpos kernel methods (registered by tdpos.NewTdposConsensus on the same contract manager; they
// read their election records from the ledger snapshot of the block height the caller names and write
// through the contract context):
//
//	nominate <init> <cand> <amount> <auth> <h>   $tdpos.nominateCandidate, initiator <init>, candidate <cand>,
//	                                             AuthRequire = [init] plus [cand] when <auth> = 1
//	revnom   <init> <cand> <h>                   $tdpos.revokeNominate
//	tvote    <init> <cand> <amount> <h>          $tdpos.voteCandidate
//	trevoke  <init> <cand> <amount> <h>          $tdpos.revokeVote
//	seal                                         a new block: tip height + 1, its snapshot = the committed $tdpos bucket
//	         <h>: a block height, or `+` = seal first, then name the new tip (what a well-behaved client does)
//
// answer: "<ok|reject>[ <pid>] | <canonical dump of the governToken, proposal and $tdpos buckets>"
package main

import (
	"encoding/base64"
	"encoding/json"
	"errors"
	"fmt"
	"io/ioutil"
	"math/big"
	"os"
	"path/filepath"
	"sort"
	"strconv"
	"strings"

	"github.com/xuperchain/xupercore/bcs/consensus/tdpos"
	xledger "github.com/xuperchain/xupercore/bcs/ledger/xledger/ledger"
	"github.com/xuperchain/xupercore/kernel/common/xcontext"
	cctx "github.com/xuperchain/xupercore/kernel/consensus/context"
	"github.com/xuperchain/xupercore/kernel/consensus/def"
	"github.com/xuperchain/xupercore/kernel/contract"
	cpb "github.com/xuperchain/xupercore/kernel/contract/bridge/pb"
	_ "github.com/xuperchain/xupercore/kernel/contract/kernel"
	_ "github.com/xuperchain/xupercore/kernel/contract/manager"
	governToken "github.com/xuperchain/xupercore/kernel/contract/proposal/govern_token"
	"github.com/xuperchain/xupercore/kernel/contract/proposal/propose"
	timerTask "github.com/xuperchain/xupercore/kernel/contract/proposal/timer"
	"github.com/xuperchain/xupercore/kernel/contract/proposal/utils"
	"github.com/xuperchain/xupercore/kernel/contract/sandbox"
	"github.com/xuperchain/xupercore/kernel/ledger"
	"xv/kvmem"
	"xv/xvlib"
)

const (
	bcName = "xuper"
	govGas = 1000 // new_account_resource_amount of the fake genesis
)

// ---------------------------------------------------------------- fakes the managers need

type fakeLedger struct{ pre []xledger.Predistribution }

func (f *fakeLedger) GetNewGovGas() (int64, error) { return govGas, nil }
func (f *fakeLedger) GetGenesisPreDistribution() ([]xledger.Predistribution, error) {
	return f.pre, nil
}
func (f *fakeLedger) GetTipXMSnapshotReader() (ledger.XMSnapshotReader, error) {
	return nil, errors.New("no snapshot in the harness")
}

type fakeCore struct{}

func (fakeCore) GetAccountAddresses(accountName string) ([]string, error) {
	return []string{accountName}, nil
}
func (fakeCore) VerifyContractPermission(initiator string, authRequire []string, contractName, methodName string) (bool, error) {
	return true, nil
}
func (fakeCore) VerifyContractOwnerPermission(contractName string, authRequire []string) error {
	return nil
}
func (fakeCore) QueryTransaction(txid []byte) (*cpb.Transaction, error) {
	return nil, errors.New("none")
}
func (fakeCore) QueryBlock(blockid []byte) (ledger.BlockHandle, error) {
	return nil, errors.New("none")
}

// ---------------------------------------------------------------- world

var (
	scratchDir string
	mgrCache   = map[string]contract.Manager{}
	tdposInsts []interface{} // keeps the plugin instances alive
)

func acctName(i int) string {
	if nodeMode {
		return nodeAcct(i).Address
	}
	if i >= 50 {
		return fmt.Sprintf("k%02d", i)
	}
	return fmt.Sprintf("K%02d", i)
}

func acctID(name string) int {
	if nodeMode {
		if i, ok := nodeIDs[name]; ok {
			return i
		}
		return -1
	}
	if len(name) < 2 {
		return -1
	}
	n, err := strconv.Atoi(name[1:])
	if err != nil {
		return -1
	}
	return n
}

// forward: a kernel method of another contract that calls $govern_token / $proposal on behalf of the
// harness, so that Caller() is produced by the real bridge (SyscallService.ContractCall).
func forward(ctx contract.KContext) (*contract.Response, error) {
	args := map[string][]byte{}
	for k, v := range ctx.Args() {
		if k != "xv_contract" && k != "xv_method" {
			args[k] = v
		}
	}
	return ctx.Call("xkernel", string(ctx.Args()["xv_contract"]), string(ctx.Args()["xv_method"]), args)
}

func newManager(pre []xledger.Predistribution) contract.Manager {
	key := fmt.Sprint(pre)
	if m, ok := mgrCache[key]; ok {
		return m
	}
	m, err := contract.CreateManager("default", &contract.ManagerConfig{
		Basedir:  scratchDir,
		BCName:   bcName,
		Core:     fakeCore{},
		XMReader: sandbox.NewMemXModel(),
		Config: &contract.ContractConfig{
			Xkernel:   contract.XkernelConfig{Enable: true, Driver: "default"},
			LogDriver: xvlib.Logger("contract"),
		},
	})
	if err != nil {
		xvlib.Die("contract manager: %v", err)
	}
	lg := &fakeLedger{pre: pre}
	gctx, err := governToken.NewGovCtx(bcName, lg, m)
	if err != nil {
		xvlib.Die("gov ctx: %v", err)
	}
	if _, err := governToken.NewGovManager(gctx); err != nil {
		xvlib.Die("gov manager: %v", err)
	}
	pctx, err := propose.NewProposeCtx(bcName, lg, m)
	if err != nil {
		xvlib.Die("propose ctx: %v", err)
	}
	if _, err := propose.NewProposeManager(pctx); err != nil {
		xvlib.Die("propose manager: %v", err)
	}
	tctx, err := timerTask.NewTimerTaskCtx(bcName, lg, m)
	if err != nil {
		xvlib.Die("timer ctx: %v", err)
	}
	if _, err := timerTask.NewTimerTaskManager(tctx); err != nil {
		xvlib.Die("timer manager: %v", err)
	}
	// the real tdpos plugin registers nominateCandidate / revokeNominate / voteCandidate / revokeVote of $tdpos
	curWorld = nil
	ac := xvlib.NewAccount(0)
	tcfg, _ := json.Marshal(map[string]interface{}{
		"timestamp": "0", "proposer_num": "1", "period": "3000", "alternate_interval": "3000", "term_interval": "6000",
		"block_num": "10", "vote_unit_price": "1", "init_proposer": map[string][]string{"1": {ac.Address}},
	})
	inst := tdpos.NewTdposConsensus(cctx.ConsensusCtx{
		BaseCtx:  xcontext.BaseCtx{XLog: xvlib.Logger("tdpos")},
		BcName:   bcName,
		Address:  &cctx.Address{Address: ac.Address, PrivateKeyStr: ac.PriJSON, PublicKeyStr: ac.PubJSON, PrivateKey: ac.Pri, PublicKey: ac.Pub},
		Crypto:   xvlib.Crypto(),
		Contract: m,
		Ledger:   tdLedger{},
		Network:  &stubNet{account: ac.Address},
	}, def.ConsensusConfig{ConsensusName: "tdpos", Config: string(tcfg), StartHeight: tdStartHeight, Index: 0})
	if inst == nil {
		xvlib.Die("NewTdposConsensus returned nil")
	}
	tdposInsts = append(tdposInsts, inst)
	reg := m.GetKernRegistry()
	for _, m := range []string{"nominateCandidate", "revokeNominate", "voteCandidate", "revokeVote"} {
		if _, err := reg.GetKernMethod(utils.TDPOSKernelContract, m); err != nil {
			xvlib.Die("the tdpos plugin did not register $tdpos.%s: %v", m, err)
		}
	}
	for _, c := range []string{utils.ProposalKernelContract, utils.TDPOSKernelContract, utils.XPOSKernelContract, "$xvother"} {
		reg.RegisterKernMethod(c, "XvForward", forward)
	}
	reg.RegisterKernMethod("$xvtarget", "ok", func(ctx contract.KContext) (*contract.Response, error) {
		return &contract.Response{Status: 200, Message: "ok"}, nil
	})
	reg.RegisterKernMethod("$xvtarget", "fail", func(ctx contract.KContext) (*contract.Response, error) {
		return nil, errors.New("trigger target fails")
	})
	mgrCache[key] = m
	return m
}

type world struct {
	store *sandbox.MemXModel
	mgr   contract.Manager
	ntx   int
	// one snapshot of the committed $tdpos bucket per sealed block (heights tdBaseTip+1, ...): "bucket/key" -> value
	tdSnaps []map[string][]byte
	// node cases (node.go): the contracts run on a real chainlib node, store / mgr are unused
	node *nodeWorld
	// dry: calls are pre-executions only, nothing is committed (conc.go); dryW collects the write sets
	dry  bool
	dryW *strings.Builder
}

func (w *world) tip() int {
	if w.node != nil {
		return tdBaseTip + w.node.packs
	}
	return tdBaseTip + len(w.tdSnaps)
}

// sel: all entries of a bucket in the live state
func (w *world) sel(bucket string) ledger.XMIterator {
	if w.node != nil {
		it, err := w.node.n.S.CreateXMReader().Select(bucket, []byte{0}, []byte{0xff})
		if err != nil {
			xvlib.Die("select: %v", err)
		}
		return it
	}
	it, _ := w.store.Select(bucket, nil, nil)
	return it
}

// tdBucket: the committed $tdpos bucket
func (w *world) tdBucket() map[string][]byte {
	m := map[string][]byte{}
	it, _ := w.store.Select(utils.TDPOSKernelContract, nil, nil)
	for it.Next() {
		m[utils.TDPOSKernelContract+"/"+string(it.Key())] = append([]byte{}, it.Value().PureData.Value...)
	}
	return m
}

// seal: a new block on top; its snapshot is what has been committed so far
func (w *world) seal() { w.tdSnaps = append(w.tdSnaps, w.tdBucket()) }

// staleAt: the snapshot of block h differs from the committed election records (the revoke log aside)
func (w *world) staleAt(h int) bool {
	if h <= tdStartHeight || h > w.tip() {
		return false
	}
	snap := map[string][]byte{}
	if i := h - tdBaseTip - 1; i >= 0 {
		snap = w.tdSnaps[i]
	}
	cur := w.tdBucket()
	rk := utils.TDPOSKernelContract + "/tdpos_0_revoke"
	for k, v := range cur {
		if k != rk && string(snap[k]) != string(v) {
			return true
		}
	}
	for k := range snap {
		if _, ok := cur[k]; !ok && k != rk {
			return true
		}
	}
	return false
}

func newWorld(pre []xledger.Predistribution) *world {
	return &world{store: sandbox.NewMemXModel(), mgr: newManager(pre)}
}

// invoke runs one top-level kernel call like a transaction: sandbox over the store, real context,
// commit the write set iff the call returned no error.
func (w *world) invoke(contractName, method, initiator string, args map[string][]byte) (resp *contract.Response, err error) {
	return w.invokeAuth(contractName, method, initiator, []string{initiator}, args)
}

func (w *world) invokeAuth(contractName, method, initiator string, auth []string, args map[string][]byte) (resp *contract.Response, err error) {
	if !w.dry {
		curWorld = w
	}
	defer func() {
		if r := recover(); r != nil {
			resp, err = nil, fmt.Errorf("panic: %v", r)
		}
	}()
	state, err := w.mgr.NewStateSandbox(&contract.SandboxConfig{XMReader: w.store})
	if err != nil {
		return nil, err
	}
	ctx, err := w.mgr.NewContext(&contract.ContextConfig{
		Module:         "xkernel",
		ContractName:   contractName,
		State:          state,
		Initiator:      initiator,
		AuthRequire:    auth,
		ResourceLimits: contract.MaxLimits,
	})
	if err != nil {
		return nil, err
	}
	defer ctx.Release()
	resp, err = ctx.Invoke(method, args)
	if err != nil {
		return nil, err
	}
	if w.dry {
		for _, wr := range state.RWSet().WSet {
			fmt.Fprintf(w.dryW, "%s/%s=%s;", wr.Bucket, wr.Key, wr.Value)
		}
		return resp, nil
	}
	w.ntx++
	txid := []byte(fmt.Sprintf("tx%08d", w.ntx))
	for i, wr := range state.RWSet().WSet {
		w.store.Put(wr.Bucket, wr.Key, &ledger.VersionedData{RefTxid: txid, RefOffset: int32(i),
			PureData: &ledger.PureData{Bucket: wr.Bucket, Key: wr.Key, Value: wr.Value}})
	}
	return resp, nil
}

// via: how a restricted method is reached
func (w *world) invokeVia(via, target, method, initiator string, args map[string][]byte) (*contract.Response, error) {
	if via == "D" {
		return w.invoke(target, method, initiator, args)
	}
	c := map[string]string{"P": utils.ProposalKernelContract, "T": utils.TDPOSKernelContract, "X": utils.XPOSKernelContract, "O": "$xvother"}[via]
	if c == "" {
		return nil, errors.New("bad via")
	}
	a := map[string][]byte{"xv_contract": []byte(target), "xv_method": []byte(method)}
	for k, v := range args {
		a[k] = v
	}
	return w.invoke(c, "XvForward", initiator, a)
}

// ---------------------------------------------------------------- snapshot of the two buckets (independent of the model)

type rec struct{ total, ord, tdpos int64 }

type prop struct {
	status   string
	votes    int64
	proposer int
}

type nomRec struct {
	nominator int
	amount    int64
}

type snap struct {
	supply      *int64
	distributed bool
	bal         map[int]rec
	props       map[int]prop
	locks       map[[2]int]int64 // (pid, acct) -> amount
	lastPid     int
	tasks       int
	noms        map[int]nomRec   // $tdpos nominate record: candidate -> (nominator, deposit)
	tdVotes     map[[2]int]int64 // $tdpos vote records: (candidate, voter) -> ballots
	tip         int
	junk        []string
}

const (
	tdNominateKey = "tdpos_0_nominate"
	tdVotePrefix  = "tdpos_0_vote_"
	tdRevokeKey   = "tdpos_0_revoke"
)

var statusCode = map[string]string{
	utils.ProposalStatusVoting: "V", utils.ProposalStatusCancelled: "C", utils.ProposalStatusRejected: "R",
	utils.ProposalStatusPassed: "P", utils.ProposalStatusCompletedAndFailure: "F", utils.ProposalStatusCompletedAndSuccess: "S",
}

func toI64(b *big.Int) int64 {
	if b == nil {
		return 0
	}
	if !b.IsInt64() {
		xvlib.Die("value out of int64 range: %s", b.String())
	}
	return b.Int64()
}

func (w *world) snapshot() *snap {
	s := &snap{bal: map[int]rec{}, props: map[int]prop{}, locks: map[[2]int]int64{}, noms: map[int]nomRec{}, tdVotes: map[[2]int]int64{}, tip: w.tip()}
	it := w.sel(utils.GetGovernTokenBucket())
	for it.Next() {
		k, v := string(it.Key()), it.Value().PureData.Value
		switch {
		case k == utils.MakeTotalSupplyKey():
			n, ok := new(big.Int).SetString(string(v), 10)
			if !ok {
				s.junk = append(s.junk, "supply:"+string(v))
				continue
			}
			x := toI64(n)
			s.supply = &x
		case k == utils.GetDistributedKey():
			s.distributed = string(v) == "true"
		case strings.HasPrefix(k, "balanceOf_"):
			// decoded with encoding/json into a plain struct: not the contract's own helper
			var r struct {
				Total  *big.Int            `json:"total_balance"`
				Locked map[string]*big.Int `json:"locked_balances"`
			}
			if err := json.Unmarshal(v, &r); err != nil {
				s.junk = append(s.junk, "bal:"+k)
				continue
			}
			for t := range r.Locked {
				if t != utils.GovernTokenTypeOrdinary && t != utils.GovernTokenTypeTDPOS {
					s.junk = append(s.junk, "locktype:"+t)
				}
			}
			s.bal[acctID(k[len("balanceOf_"):])] = rec{toI64(r.Total), toI64(r.Locked[utils.GovernTokenTypeOrdinary]), toI64(r.Locked[utils.GovernTokenTypeTDPOS])}
		default:
			s.junk = append(s.junk, "govkey:"+k)
		}
	}
	it = w.sel(utils.GetProposalBucket())
	for it.Next() {
		k, v := string(it.Key()), it.Value().PureData.Value
		switch {
		case k == "id":
			s.lastPid, _ = strconv.Atoi(string(v))
		case strings.HasPrefix(k, "lock_"):
			f := strings.SplitN(k[len("lock_"):], "_", 2)
			pid, _ := strconv.Atoi(f[0])
			n, _ := new(big.Int).SetString(string(v), 10)
			s.locks[[2]int{pid, acctID(f[1])}] = toI64(n)
		default:
			pid, err := strconv.Atoi(k)
			var p struct {
				VoteAmount *big.Int `json:"vote_amount"`
				Status     string   `json:"status"`
				Proposer   string   `json:"proposer"`
			}
			if err != nil || json.Unmarshal(v, &p) != nil {
				s.junk = append(s.junk, "propkey:"+k)
				continue
			}
			s.props[pid] = prop{statusCode[p.Status], toI64(p.VoteAmount), acctID(p.Proposer)}
		}
	}
	it = w.sel(utils.GetTimerBucket())
	for it.Next() {
		if string(it.Key()) != "id" {
			s.tasks++
		}
	}
	// the $tdpos bucket, decoded with encoding/json into plain maps (not the contract's own types)
	it = w.sel(utils.TDPOSKernelContract)
	for it.Next() {
		k, v := string(it.Key()), it.Value().PureData.Value
		switch {
		case k == tdNominateKey:
			var m map[string]map[string]int64
			if err := json.Unmarshal(v, &m); err != nil {
				s.junk = append(s.junk, "tdkey:"+k)
				continue
			}
			for c, r := range m {
				if len(r) != 1 {
					s.junk = append(s.junk, fmt.Sprintf("nominate-record:%s:%d-nominators", c, len(r)))
				}
				for n, amt := range r {
					s.noms[acctID(c)] = nomRec{acctID(n), amt}
				}
			}
		case strings.HasPrefix(k, tdVotePrefix):
			var m map[string]int64
			if err := json.Unmarshal(v, &m); err != nil {
				s.junk = append(s.junk, "tdkey:"+k)
				continue
			}
			for voter, amt := range m {
				s.tdVotes[[2]int{acctID(k[len(tdVotePrefix):]), acctID(voter)}] = amt
			}
		case k == tdRevokeKey: // the log of withdrawals: carries no stake
		default:
			s.junk = append(s.junk, "tdkey:"+k)
		}
	}
	return s
}

func (s *snap) dump() string {
	var b strings.Builder
	if s.supply == nil {
		b.WriteString("S=-")
	} else {
		fmt.Fprintf(&b, "S=%d", *s.supply)
	}
	if s.distributed {
		b.WriteString(" D=1 |")
	} else {
		b.WriteString(" D=0 |")
	}
	var ids []int
	for a := range s.bal {
		ids = append(ids, a)
	}
	sort.Ints(ids)
	for _, a := range ids {
		r := s.bal[a]
		fmt.Fprintf(&b, " %d=%d/%d/%d", a, r.total, r.ord, r.tdpos)
	}
	b.WriteString(" |")
	ids = ids[:0]
	for p := range s.props {
		ids = append(ids, p)
	}
	sort.Ints(ids)
	for _, p := range ids {
		x := s.props[p]
		fmt.Fprintf(&b, " P%d=%s/%d/%d", p, x.status, x.votes, x.proposer)
	}
	b.WriteString(" |")
	var lk [][2]int
	for k := range s.locks {
		lk = append(lk, k)
	}
	sort.Slice(lk, func(i, j int) bool {
		if lk[i][0] != lk[j][0] {
			return lk[i][0] < lk[j][0]
		}
		return lk[i][1] < lk[j][1]
	})
	for _, k := range lk {
		fmt.Fprintf(&b, " L%d.%d=%d", k[0], k[1], s.locks[k])
	}
	fmt.Fprintf(&b, " | T=%d |", s.tasks)
	ids = ids[:0]
	for c := range s.noms {
		ids = append(ids, c)
	}
	sort.Ints(ids)
	for _, c := range ids {
		fmt.Fprintf(&b, " N%d=%d/%d", c, s.noms[c].nominator, s.noms[c].amount)
	}
	b.WriteString(" |")
	lk = lk[:0]
	for k := range s.tdVotes {
		lk = append(lk, k)
	}
	sort.Slice(lk, func(i, j int) bool {
		if lk[i][0] != lk[j][0] {
			return lk[i][0] < lk[j][0]
		}
		return lk[i][1] < lk[j][1]
	})
	for _, k := range lk {
		fmt.Fprintf(&b, " V%d.%d=%d", k[0], k[1], s.tdVotes[k])
	}
	fmt.Fprintf(&b, " | H=%d", s.tip)
	if len(s.junk) > 0 {
		fmt.Fprintf(&b, " | JUNK %s", strings.Join(s.junk, ","))
	}
	return b.String()
}

// ---------------------------------------------------------------- executor

var lockTypes = map[string]string{"o": utils.GovernTokenTypeOrdinary, "t": utils.GovernTokenTypeTDPOS, "z": "other"}

type opInfo struct {
	kind      string
	via       string
	acct, to  int
	amount    int64
	ltype     string
	pid       int
	ok        bool
	malformed bool
	height    int
	stale     bool // a $tdpos call naming a block whose snapshot differs from the committed election records
}

// exec runs one op (not `reset`) on the real code.
func (w *world) exec(line string) (string, opInfo) {
	f := strings.Fields(line)
	info := opInfo{kind: f[0]}
	atoi := func(s string) int {
		n, err := strconv.Atoi(s)
		if err != nil {
			info.malformed = true
		}
		return n
	}
	need := map[string]int{"init": 2, "xfer": 4, "lock": 5, "unlock": 5, "propose": 6, "vote": 4, "thaw": 3, "timer": 2, "cvr": 3, "trig": 3,
		"nominate": 6, "revnom": 4, "tvote": 5, "trevoke": 5, "seal": 1}
	if n, ok := need[f[0]]; !ok || len(f) != n {
		info.malformed = true
		return "bad-op", info
	}
	var resp *contract.Response
	var err error
	// tdCall: one of the four $tdpos methods; the last field of the op line is the height (`+`: new block first)
	tdCall := func(method string, auth []string, args map[string][]byte) {
		hs := f[len(f)-1]
		if hs != "+" {
			info.height = atoi(hs)
		}
		if info.malformed {
			return
		}
		if hs == "+" {
			w.seal()
			info.height = w.tip()
		}
		info.stale = w.staleAt(info.height)
		args["candidate"] = []byte(acctName(info.to))
		args["height"] = []byte(strconv.Itoa(info.height))
		resp, err = w.invokeAuth(utils.TDPOSKernelContract, method, acctName(info.acct), auth, args)
	}
	switch f[0] {
	case "seal":
		w.seal()
		resp = &contract.Response{Status: 200}
	case "nominate":
		info.acct, info.to, info.amount = atoi(f[1]), atoi(f[2]), int64(atoi(f[3]))
		auth := []string{acctName(info.acct)}
		switch f[4] {
		case "1":
			auth = append(auth, acctName(info.to))
		case "0":
		default:
			info.malformed = true
		}
		tdCall("nominateCandidate", auth, map[string][]byte{"amount": []byte(f[3])})
	case "revnom":
		info.acct, info.to = atoi(f[1]), atoi(f[2])
		tdCall("revokeNominate", []string{acctName(info.acct)}, map[string][]byte{})
	case "tvote":
		info.acct, info.to, info.amount = atoi(f[1]), atoi(f[2]), int64(atoi(f[3]))
		tdCall("voteCandidate", []string{acctName(info.acct)}, map[string][]byte{"amount": []byte(f[3])})
	case "trevoke":
		info.acct, info.to, info.amount = atoi(f[1]), atoi(f[2]), int64(atoi(f[3]))
		tdCall("revokeVote", []string{acctName(info.acct)}, map[string][]byte{"amount": []byte(f[3])})
	case "init":
		info.acct = atoi(f[1])
		resp, err = w.invoke(utils.GovernTokenKernelContract, "Init", acctName(info.acct), map[string][]byte{})
	case "xfer":
		info.acct, info.to, info.amount = atoi(f[1]), atoi(f[2]), int64(atoi(f[3]))
		resp, err = w.invoke(utils.GovernTokenKernelContract, "Transfer", acctName(info.acct),
			map[string][]byte{"to": []byte(acctName(info.to)), "amount": []byte(f[3])})
	case "lock", "unlock":
		info.via, info.acct, info.amount, info.ltype = f[1], atoi(f[2]), int64(atoi(f[3])), f[4]
		lt, ok := lockTypes[f[4]]
		if !ok {
			info.malformed = true
			break
		}
		m := "Lock"
		if f[0] == "unlock" {
			m = "UnLock"
		}
		// the transaction's initiator is deliberately another (funded) account than the one named in `from`
		initiator := 1
		if info.acct == 1 {
			initiator = 0
		}
		resp, err = w.invokeVia(f[1], utils.GovernTokenKernelContract, m, acctName(initiator),
			map[string][]byte{"from": []byte(acctName(info.acct)), "amount": []byte(f[3]), "lock_type": []byte(lt)})
	case "propose":
		info.acct = atoi(f[1])
		trig := atoi(f[4])
		method := "ok"
		if f[5] != "1" {
			method = "fail"
		}
		_ = method
		resp, err = w.invoke(utils.ProposalKernelContract, "Propose", acctName(info.acct), map[string][]byte{"proposal": proposalJSON(f[2], f[3], trig, f[5] == "1")})
	case "vote":
		info.acct, info.pid, info.amount = atoi(f[1]), atoi(f[2]), int64(atoi(f[3]))
		resp, err = w.invoke(utils.ProposalKernelContract, "Vote", acctName(info.acct),
			map[string][]byte{"proposal_id": []byte(f[2]), "amount": []byte(f[3])})
	case "thaw":
		info.acct, info.pid = atoi(f[1]), atoi(f[2])
		resp, err = w.invoke(utils.ProposalKernelContract, "Thaw", acctName(info.acct), map[string][]byte{"proposal_id": []byte(f[2])})
	case "timer":
		atoi(f[1])
		resp, err = w.invoke(utils.TimerTaskKernelContract, "Do", acctName(0), map[string][]byte{"block_height": []byte(f[1])})
	case "cvr", "trig":
		info.via, info.pid = f[1], atoi(f[2])
		m := "CheckVoteResult"
		if f[0] == "trig" {
			m = "Trigger"
		}
		// the argument format the timer contract produces: {"proposal_id": base64(id)}
		a, _ := json.Marshal(map[string]interface{}{"proposal_id": base64.StdEncoding.EncodeToString([]byte(f[2]))})
		resp, err = w.invokeVia(f[1], utils.ProposalKernelContract, m, acctName(0), map[string][]byte{"args": a})
	}
	if info.malformed {
		return "bad-op", info
	}
	if err != nil {
		return "reject", info
	}
	info.ok = true
	if f[0] == "propose" {
		return "ok " + string(resp.Body), info
	}
	if (f[0] == "cvr" || f[0] == "trig") && resp.Status >= 400 {
		return "noop", info
	}
	return "ok", info
}

func proposalJSON(pct, stop string, trig int, ok bool) []byte {
	method := "ok"
	if !ok {
		method = "fail"
	}
	p := map[string]interface{}{
		"args":    map[string]interface{}{"min_vote_percent": pct, "stop_vote_height": stop},
		"trigger": map[string]interface{}{"height": trig, "module": "xkernel", "contract": "$xvtarget", "method": method, "args": map[string]interface{}{}},
	}
	b, _ := json.Marshal(p)
	return b
}

func parseReset(line string) ([]xledger.Predistribution, bool) {
	f := strings.Fields(line)
	var pre []xledger.Predistribution
	for _, t := range f[1:] {
		p := strings.SplitN(t, ":", 2)
		if len(p) != 2 {
			return nil, false
		}
		a, err := strconv.Atoi(p[0])
		if err != nil {
			return nil, false
		}
		if _, err := strconv.Atoi(p[1]); err != nil {
			return nil, false
		}
		pre = append(pre, xledger.Predistribution{Address: acctName(a), Quota: p[1]})
	}
	return pre, true
}

// ---------------------------------------------------------------- impl-side property oracle

type viol struct{ key, what string }

func allowedVia(v string) bool { return v == "P" || v == "T" || v == "X" }

// oracle evaluates C19 on what the real code did in one call: pre/post are decoded from the store.
func oracle(op opInfo, line string, pre, post *snap) []viol {
	var vs []viol
	add := func(key, format string, a ...interface{}) {
		what := fmt.Sprintf(format, a...) + " (at `" + line + "`)"
		if op.stale {
			// the call named a block whose snapshot is not the committed state: the $tdpos methods read their
			// election records from that snapshot, whatever has been committed since
			key = tdOracleClass(key) + "-stale-snapshot"
			what += fmt.Sprintf(" [the call names block %d, whose snapshot of the election records differs from the committed ones]", op.height)
		}
		vs = append(vs, viol{key, what})
	}
	// (1) conservation: sum of balances == total supply fixed at initialisation
	// (reported at the call that introduces or changes the discrepancy)
	sumOf := func(s *snap) int64 {
		var sum int64
		for _, r := range s.bal {
			sum += r.total
		}
		return sum
	}
	if post.distributed {
		switch {
		case post.supply == nil:
			add("supply-missing", "initialised but no total supply recorded")
		case sumOf(post) != *post.supply && !(pre.distributed && pre.supply != nil && sumOf(pre)-*pre.supply == sumOf(post)-*post.supply):
			key := "supply-not-conserved-by-" + op.kind
			if op.kind == "xfer" && op.acct == op.to {
				key = "supply-changed-by-self-transfer"
			}
			if op.kind == "init" {
				key = "init-supply-mismatch"
			}
			add(key, "sum of balances %d != total supply %d", sumOf(post), *post.supply)
		}
		if pre.distributed && pre.supply != nil && post.supply != nil && *pre.supply != *post.supply {
			add("total-supply-rewritten", "total supply changed from %d to %d after initialisation", *pre.supply, *post.supply)
		}
	} else if len(post.bal) > 0 {
		add("balance-before-init", "balances exist before initialisation")
	}
	if len(post.junk) > 0 {
		add("bucket-junk", "unexpected content in the contract buckets: %v", post.junk)
	}
	// (2) locked amounts change only through lock / unlock on that account
	ended := map[int]bool{} // proposals whose status changed in this call
	for pid, p := range post.props {
		if q, ok := pre.props[pid]; ok && q.status != p.status {
			ended[pid] = true
		}
	}
	accts := map[int]bool{}
	for a := range pre.bal {
		accts[a] = true
	}
	for a := range post.bal {
		accts[a] = true
	}
	for a := range accts {
		p0, p1 := pre.bal[a], post.bal[a]
		for ti, d := range [2]int64{p1.ord - p0.ord, p1.tdpos - p0.tdpos} {
			if d == 0 {
				continue
			}
			tname := [2]string{"o", "t"}[ti]
			okChange := false
			switch op.kind {
			case "lock":
				okChange = op.ok && a == op.acct && tname == op.ltype && d == op.amount
			case "unlock":
				okChange = op.ok && a == op.acct && tname == op.ltype && d == -op.amount
			case "propose":
				okChange = a == op.acct && ti == 0 && d == 1000
			case "vote":
				okChange = a == op.acct && ti == 0 && d == op.amount
			case "thaw":
				okChange = a == op.acct && ti == 0 && d < 0 && ended[op.pid] && -d == pre.locks[[2]int{op.pid, a}]
			case "timer":
				// only releases of what the account locked for a proposal that ended in this call
				var rel int64
				for pid := range ended {
					rel += pre.locks[[2]int{pid, a}]
				}
				okChange = ti == 0 && d < 0 && -d <= rel
			case "nominate", "tvote":
				// the INITIATOR's tokens are locked (tdpos type), whoever the candidate is
				okChange = op.ok && a == op.acct && ti == 1 && d == op.amount
			case "trevoke":
				okChange = op.ok && a == op.acct && ti == 1 && d == -op.amount
			case "revnom":
				// the deposit recorded for this nomination goes back to the nominator who made it
				r, has := pre.noms[op.to]
				okChange = op.ok && a == op.acct && ti == 1 && has && r.nominator == a && d == -r.amount
			}
			if !okChange {
				key := "lock-changed-by-" + op.kind
				if op.kind == "xfer" {
					key = "lock-changed-by-transfer"
				}
				add(key, "locked[%s] of account %d changed by %d in a call that is no lock/unlock on it", tname, a, d)
			}
		}
	}
	if (op.kind == "lock" || op.kind == "unlock") && op.ok {
		if !allowedVia(op.via) {
			add("lock-by-unauthorised-caller", "%s succeeded for a caller other than $proposal/$tdpos/$xpos (via %s)", op.kind, op.via)
		}
		if op.ltype == "z" {
			add("lock-invalid-type", "%s succeeded with an invalid lock type", op.kind)
		}
	}
	if (op.kind == "cvr" || op.kind == "trig") && op.ok {
		add("proposal-callback-unrestricted", "%s succeeded for a caller other than $timer_task", op.kind)
	}
	// (5) stakes bind: what an account has staked on a proposal that is still open (voting, or passed and not yet
	// executed), on a nomination or on a TDPoS vote stays locked. No call other than a contract's explicit UnLock
	// (the harness's forwarding stub, which keeps no books) may lower locked - open stakes of any account.
	if op.kind != "unlock" {
		s0, s1 := pre.stakes(), post.stakes()
		for a := range accts {
			p0, p1 := pre.bal[a], post.bal[a]
			for ti, lk := range [2][2]int64{{p0.ord, p1.ord}, {p0.tdpos, p1.tdpos}} {
				k := [2]int{a, ti}
				if lk[1]-s1[k] < lk[0]-s0[k] {
					add("open-stake-unlocked-by-"+op.kind, "account %d: locked[%s] %d -> %d while its open stakes are %d -> %d: %d staked tokens lost their lock",
						a, [2]string{"o", "t"}[ti], lk[0], lk[1], s0[k], s1[k], (lk[0]-s0[k])-(lk[1]-s1[k]))
				}
			}
		}
	}
	// (6) stake records change only through the staking calls of the account that owns them
	for k, v1 := range post.locks {
		if d := v1 - pre.locks[k]; d != 0 {
			okRec := false
			switch op.kind {
			case "propose":
				okRec = op.ok && k[1] == op.acct && k[0] == post.lastPid && post.lastPid == pre.lastPid+1 && d == 1000
			case "vote":
				okRec = op.ok && k[1] == op.acct && k[0] == op.pid && d == op.amount
			}
			if !okRec {
				add("stake-record-changed-by-"+op.kind, "lock record of account %d for proposal %d changed by %d", k[1], k[0], d)
			}
		}
	}
	for k := range pre.locks {
		if _, ok := post.locks[k]; !ok {
			add("stake-record-changed-by-"+op.kind, "lock record of account %d for proposal %d disappeared", k[1], k[0])
		}
	}
	cands := map[int]bool{}
	for c := range pre.noms {
		cands[c] = true
	}
	for c := range post.noms {
		cands[c] = true
	}
	for c := range cands {
		r0, h0 := pre.noms[c]
		r1, h1 := post.noms[c]
		okRec := h0 == h1 && r0 == r1
		switch {
		case !h0 && h1:
			okRec = op.kind == "nominate" && op.ok && op.to == c && r1.nominator == op.acct && r1.amount == op.amount
		case h0 && !h1:
			okRec = op.kind == "revnom" && op.ok && op.to == c && r0.nominator == op.acct
		}
		if !okRec {
			add("stake-record-changed-by-"+op.kind, "nomination record of candidate %d: %v(%v) -> %v(%v)", c, r0, h0, r1, h1)
		}
	}
	vks := map[[2]int]bool{}
	for k := range pre.tdVotes {
		vks[k] = true
	}
	for k := range post.tdVotes {
		vks[k] = true
	}
	for k := range vks {
		if d := post.tdVotes[k] - pre.tdVotes[k]; d != 0 {
			okRec := op.ok && k[0] == op.to && k[1] == op.acct && ((op.kind == "tvote" && d == op.amount) || (op.kind == "trevoke" && d == -op.amount))
			if !okRec {
				add("stake-record-changed-by-"+op.kind, "ballots of voter %d for candidate %d changed by %d", k[1], k[0], d)
			}
		}
		if post.tdVotes[k] < 0 {
			add("negative-stake", "voter %d has %d ballots for candidate %d", k[1], post.tdVotes[k], k[0])
		}
	}
	// ... and a successful staking call puts exactly what it locked on the books of its initiator
	if op.ok {
		bad := func(format string, a ...interface{}) {
			add("stake-record-changed-by-"+op.kind, "the call succeeded but "+format, a...)
		}
		switch op.kind {
		case "propose":
			if k := [2]int{post.lastPid, op.acct}; post.lastPid != pre.lastPid+1 || post.locks[k] != 1000 {
				bad("the lock record of the proposer for the new proposal is %d (last id %d -> %d)", post.locks[k], pre.lastPid, post.lastPid)
			}
		case "vote":
			if k := [2]int{op.pid, op.acct}; post.locks[k]-pre.locks[k] != op.amount {
				bad("the lock record of the voter went %d -> %d for %d voted", pre.locks[k], post.locks[k], op.amount)
			}
		case "nominate":
			if r, has := post.noms[op.to]; !has || r.nominator != op.acct || r.amount != op.amount {
				bad("the nomination record of candidate %d is %v (present: %v)", op.to, r, has)
			}
		case "revnom":
			if r, has := post.noms[op.to]; has {
				bad("the nomination record of candidate %d is still there: %v", op.to, r)
			}
		case "tvote", "trevoke":
			want := op.amount
			if op.kind == "trevoke" {
				want = -want
			}
			if k := [2]int{op.to, op.acct}; post.tdVotes[k]-pre.tdVotes[k] != want {
				bad("the ballots of voter %d for candidate %d went %d -> %d", op.acct, op.to, pre.tdVotes[k], post.tdVotes[k])
			}
		}
	}
	// (3) locks bind transfers
	if op.kind == "xfer" && op.ok {
		p0, p1 := pre.bal[op.acct], post.bal[op.acct]
		if op.amount < 0 {
			add("negative-transfer", "transfer of a negative amount succeeded")
		}
		if p0.total-p0.ord < op.amount || p0.total-p0.tdpos < op.amount {
			add("transfer-exceeds-unlocked", "transfer of %d succeeded with total %d locked %d/%d", op.amount, p0.total, p0.ord, p0.tdpos)
		}
		if p1.total < p1.ord || p1.total < p1.tdpos {
			add("balance-below-lock-after-transfer", "after the transfer sender has total %d locked %d/%d", p1.total, p1.ord, p1.tdpos)
		}
		if op.acct != op.to {
			r0, r1 := pre.bal[op.to], post.bal[op.to]
			if p1.total != p0.total-op.amount || r1.total != r0.total+op.amount {
				add("transfer-wrong-amounts", "transfer of %d: sender %d->%d receiver %d->%d", op.amount, p0.total, p1.total, r0.total, r1.total)
			}
		}
	}
	// (4) in every state: 0 <= locked <= total
	for a, r := range post.bal {
		q := pre.bal[a]
		if (r.ord < 0 || r.tdpos < 0) && !(q.ord < 0 || q.tdpos < 0) {
			add("negative-lock", "account %d has locked %d/%d", a, r.ord, r.tdpos)
		}
		if r.total < 0 && q.total >= 0 {
			add("negative-balance", "account %d has balance %d", a, r.total)
		}
		if (r.total < r.ord || r.total < r.tdpos) && !(q.total < q.ord || q.total < q.tdpos) && op.kind != "xfer" {
			add("balance-below-lock", "account %d has total %d locked %d/%d", a, r.total, r.ord, r.tdpos)
		}
	}
	return vs
}

// stakes: what every account has staked, by lock type (0 ordinary: proposals still open; 1 tdpos: nominations and votes)
func (s *snap) stakes() map[[2]int]int64 {
	m := map[[2]int]int64{}
	for k, amt := range s.locks {
		if st := s.props[k[0]].status; st == "V" || st == "P" {
			m[[2]int{k[1], 0}] += amt
		}
	}
	for _, r := range s.noms {
		m[[2]int{r.nominator, 1}] += r.amount
	}
	for k, amt := range s.tdVotes {
		m[[2]int{k[1], 1}] += amt
	}
	return m
}

// tdOracleClass: the class of oracle a violation key belongs to (keys of violations raised in stale $tdpos calls
// name the class only: they all have the one root cause)
func tdOracleClass(key string) string {
	for _, c := range []string{"open-stake-unlocked", "stake-record-changed", "lock-changed"} {
		if strings.HasPrefix(key, c) {
			return c
		}
	}
	return key
}

// ---------------------------------------------------------------- case runner

type result struct {
	answers []string
	viols   []viol
	nontriv bool
}

// runCase executes a whole case (first line `reset ...`) on a fresh world.
func runCase(ops []string) result {
	var res result
	if f := strings.Fields(ops[0]); len(f) >= 2 && f[0] == "reset" && f[1] == "node" {
		return runNodeCase(ops)
	}
	pre, ok := parseReset(ops[0])
	if !ok || !strings.HasPrefix(ops[0], "reset") {
		for range ops {
			res.answers = append(res.answers, "bad-op")
		}
		return res
	}
	w := newWorld(pre)
	res.answers = append(res.answers, "ok")
	prev := w.snapshot()
	oks := 0
	for _, l := range ops[1:] {
		if len(strings.Fields(l)) == 0 {
			res.answers = append(res.answers, "bad-op")
			continue
		}
		if strings.Fields(l)[0] == "conc" {
			ans, vs, ok := w.conc(l)
			if !ok {
				res.answers = append(res.answers, "bad-op")
				continue
			}
			res.answers = append(res.answers, ans+" | "+prev.dump())
			res.viols = append(res.viols, vs...)
			continue
		}
		ans, info := w.exec(l)
		if info.malformed {
			res.answers = append(res.answers, "bad-op")
			continue
		}
		cur := w.snapshot()
		res.answers = append(res.answers, ans+" | "+cur.dump())
		res.viols = append(res.viols, oracle(info, l, prev, cur)...)
		if info.ok && info.kind != "init" {
			oks++
		}
		prev = cur
	}
	res.nontriv = oks > 0
	return res
}

// runNodeCase: a case on a real node (node.go)
func runNodeCase(ops []string) result {
	var res result
	nodeMode = true
	defer func() { nodeMode = false }()
	w, err := newNodeWorld(strings.Fields(ops[0])[2:])
	if err != nil {
		for range ops {
			res.answers = append(res.answers, "bad-op")
		}
		return res
	}
	defer kvmem.Drop(w.node.n.Root)
	res.answers = append(res.answers, "ok")
	prev := w.snapshot()
	oks := 0
	for _, l := range ops[1:] {
		if len(strings.Fields(l)) == 0 {
			res.answers = append(res.answers, "bad-op")
			continue
		}
		ans, info, stateOp, extra := w.execNode(l)
		res.viols = append(res.viols, extra...)
		if info.malformed {
			res.answers = append(res.answers, "bad-op")
			continue
		}
		if !stateOp {
			res.answers = append(res.answers, ans)
			continue
		}
		cur := w.snapshot()
		res.answers = append(res.answers, ans+" | "+cur.dump())
		first := strings.Fields(l)[0]
		switch first {
		case "pack":
			if a, b := *prev, *cur; func() bool { a.tip, b.tip = 0, 0; return a.dump() != b.dump() }() {
				res.viols = append(res.viols, viol{"pack-changed-state", "packing the pending transactions into a block changed the contract buckets (at `" + l + "`)"})
			}
		case "sub", "dotx":
			if ans == "none" {
				break
			}
			for _, v := range oracle(info, l, prev, cur) {
				res.viols = append(res.viols, viol{v.key + ":sub", v.what})
			}
		default:
			res.viols = append(res.viols, oracle(info, l, prev, cur)...)
		}
		if info.ok && info.kind != "init" && first != "pack" {
			oks++
		}
		prev = cur
	}
	res.nontriv = oks > 0
	return res
}

func hasKey(vs []viol, key string) bool {
	for _, v := range vs {
		if v.key == key {
			return true
		}
	}
	return false
}

// shrink drops ops while the violation with this key persists (greedy delta debugging).
func shrink(ops []string, key string) []string {
	cur := append([]string{}, ops...)
	for changed := true; changed; {
		changed = false
		for i := len(cur) - 1; i >= 1; i-- {
			cand := append(append([]string{}, cur[:i]...), cur[i+1:]...)
			if len(cand) > 1 && hasKey(runCase(cand).viols, key) {
				cur, changed = cand, true
			}
		}
	}
	return cur
}

var reported = map[string]int{}

func doCase(out *xvlib.Out, ops []string) {
	res := runCase(ops)
	for i, l := range ops {
		out.Emit(l, res.answers[i])
		k := strings.Fields(l)
		if len(k) > 0 && i > 0 {
			a := strings.Fields(res.answers[i])
			if len(a) > 0 {
				out.Count(k[0] + ":" + a[0])
			}
		}
	}
	out.Case(strings.Join(ops, ";"), res.nontriv)
	seen := map[string]bool{}
	for _, v := range res.viols {
		if seen[v.key] {
			continue
		}
		seen[v.key] = true
		reported[v.key]++
		if reported[v.key] > 3 {
			out.Count("violation:" + v.key)
			continue
		}
		min := shrink(ops, v.key)
		r := runCase(min)
		what := v.what
		for _, x := range r.viols {
			if x.key == v.key {
				what = x.what
				break
			}
		}
		out.Violate(xvlib.Violation{Key: v.key, What: what, Ops: min, Impl: r.answers})
	}
}

// ---------------------------------------------------------------- generators

const (
	resetSmall = "reset 0:10 1:4"      // accounts 0,1 funded; 2 fresh
	resetBig   = "reset 0:3000 1:1500" // enough for the fixed 1000-token proposal lock; 2 and 50 fresh
)

func smallAlphabet(level int) []string {
	var a []string
	amts := []int{0, 1, 5, 10, 11}
	switch level {
	case 0: // full
		for f := 0; f < 3; f++ {
			for t := 0; t < 3; t++ {
				for _, n := range amts {
					a = append(a, fmt.Sprintf("xfer %d %d %d", f, t, n))
				}
			}
		}
		for ac := 0; ac < 3; ac++ {
			for _, n := range []int{1, 5, 10, 11} {
				a = append(a, fmt.Sprintf("lock P %d %d o", ac, n))
			}
			for _, n := range []int{1, 5, 11} {
				a = append(a, fmt.Sprintf("unlock P %d %d o", ac, n))
			}
			a = append(a, fmt.Sprintf("lock T %d 4 t", ac), fmt.Sprintf("unlock T %d 4 t", ac))
		}
		a = append(a, "lock O 0 5 o", "lock D 0 5 o", "unlock O 0 5 o", "unlock D 0 5 o", "lock X 0 3 t", "unlock X 0 3 t",
			"lock P 0 5 z", "unlock P 0 5 z", "lock P 0 -3 o", "unlock P 0 -3 o", "init 0", "xfer 0 1 -1")
	case 1: // reduced
		a = []string{"xfer 0 0 5", "xfer 0 1 1", "xfer 0 1 10", "xfer 0 1 11", "xfer 1 0 1", "xfer 1 0 4", "xfer 0 2 5", "xfer 2 0 1", "xfer 1 1 4",
			"xfer 0 1 6", "lock P 0 5 o", "lock P 0 10 o", "lock P 1 4 o", "lock T 0 5 t", "lock P 2 1 o", "lock T 1 1 t",
			"unlock P 0 5 o", "unlock P 0 10 o", "unlock P 0 11 o", "unlock P 1 5 o", "unlock T 0 5 t", "unlock P 1 4 o",
			"lock O 0 5 o", "unlock D 0 5 o"}
	default: // core
		a = []string{"xfer 0 0 5", "xfer 0 1 6", "xfer 1 0 1", "xfer 0 2 10", "xfer 2 1 5", "lock P 0 5 o", "lock T 0 10 t", "lock P 1 4 o",
			"unlock P 0 5 o", "unlock P 1 5 o", "unlock T 0 10 t"}
	}
	return a
}

func bigAlphabet(level int) []string {
	a := []string{"propose 0 51 5 9 1", "propose 1 100 5 0 0", "vote 0 1 1000", "vote 1 1 500", "vote 1 1 0", "vote 0 1 2001",
		"thaw 0 1", "thaw 1 1", "timer 5", "timer 9", "xfer 0 1 1", "xfer 1 0 500", "xfer 0 0 100", "unlock P 0 1000 o", "vote 0 1 1295"}
	if level == 0 {
		a = append(a, "propose 0 50 5 9 1", "propose 0 51 5 5 1", "vote 0 2 1", "vote 2 1 1", "thaw 0 2", "timer 0", "xfer 0 2 2000", "xfer 0 50 1500",
			"vote 50 1 700", "propose 50 60 5 9 0", "cvr D 1", "cvr O 1", "trig D 1", "trig O 1", "lock T 0 2000 t", "unlock T 0 2000 t", "xfer 1 0 1500",
			"vote 1 1 1500", "init 1")
	}
	return a
}

// lifecycleAlphabet: calls around one proposal by account 1 that account 0 can make pass (51% of 4500 = 2295)
func lifecycleAlphabet() []string {
	return []string{"vote 0 1 2295", "vote 0 1 2294", "vote 0 1 1", "vote 1 1 500", "timer 5", "timer 9", "thaw 1 1", "xfer 0 1 1",
		"xfer 1 0 500", "xfer 0 0 100", "propose 0 60 5 0 0", "timer 0", "unlock P 1 1000 o", "lock T 0 705 t", "xfer 0 1 705", "vote 50 1 0", "propose 1 60 7 0 0", "lock P 0 2295 o"}
}

// tdposAlphabet: the real $tdpos methods over accounts 0:3000 1:1500 (2 and 50 fresh): self and third-party
// nominations (candidate co-signing or not), votes, withdrawals by the nominator / the candidate / a stranger,
// mixed with transfers and the stub's raw Lock / UnLock; level 0 adds stale and invalid heights, bad amounts,
// fresh accounts and proposal locks.
func tdposAlphabet(level int) []string {
	a := []string{"nominate 1 0 500 1 +", "nominate 0 0 500 0 +", "nominate 0 1 700 1 +", "tvote 0 0 600 +", "tvote 1 0 400 +", "tvote 0 1 600 +",
		"revnom 1 0 +", "revnom 0 0 +", "revnom 0 1 +", "trevoke 0 0 600 +", "trevoke 1 0 400 +", "trevoke 0 0 100 +",
		"xfer 0 1 2000", "xfer 1 0 1000", "lock T 0 500 t", "unlock T 0 500 t"}
	if level == 2 { // core: deeper histories around one third-party and one self-made nomination
		return []string{"nominate 1 0 500 1 +", "nominate 0 1 700 1 +", "tvote 0 0 600 +", "tvote 1 0 400 +", "revnom 1 0 +", "revnom 0 1 +",
			"trevoke 0 0 600 +", "trevoke 1 0 400 +", "revnom 1 0 4", "xfer 0 1 2400"}
	}
	if level == 0 {
		a = append(a, "revnom 1 0 2", "revnom 1 0 3", "revnom 0 0 3", "nominate 1 1 300 0 2", "nominate 0 1 300 1 3", "tvote 0 0 600 3", "tvote 1 0 100 4",
			"trevoke 0 0 600 3", "trevoke 0 0 600 4", "nominate 0 0 500 0 1", "nominate 0 0 500 0 99", "tvote 0 0 1 0", "revnom 0 0 -1", "seal",
			"nominate 0 0 0 0 +", "tvote 0 0 -5 +", "trevoke 0 0 0 +", "nominate 1 0 500 0 +", "nominate 2 2 1 0 +", "nominate 50 50 10 0 +",
			"tvote 50 0 10 +", "nominate 1 1 1501 0 +", "tvote 1 0 1501 +", "propose 0 51 5 9 1", "vote 0 1 1000", "xfer 0 50 1000", "revnom 1 1 +",
			"trevoke 0 1 600 +", "nominate 0 50 100 1 +", "revnom 0 50 +")
	}
	return a
}

// enumerate all sequences of exactly 1..depth calls from alphabet after the given prefix
func enumerate(out *xvlib.Out, prefix []string, alpha []string, depth int) {
	var rec func(cur []string, d int)
	rec = func(cur []string, d int) {
		if d == 0 {
			doCase(out, cur)
			return
		}
		for _, c := range alpha {
			rec(append(append([]string{}, cur...), c), d-1)
		}
	}
	for d := 1; d <= depth; d++ {
		rec(prefix, d)
	}
}

func randomCase(r *xvlib.Rng) []string {
	big := r.Chance(1, 2)
	accts := []int{0, 1, 2, 50}
	pick := func() int { return accts[r.Intn(len(accts))] }
	var ops []string
	var amts []int
	if big {
		switch r.Intn(4) {
		case 0:
			ops = []string{"reset 0:3000 1:1500 50:2500"}
		case 1:
			ops = []string{"reset 0:3000 1:1500 0:700"}
		default:
			ops = []string{resetBig}
		}
		amts = []int{0, 1, 500, 1000, 1500, 2000, 3000, 3001}
	} else {
		switch r.Intn(4) {
		case 0:
			ops = []string{"reset 0:10 1:4 1:3 50:8"}
		case 1:
			ops = []string{"reset 0:10 0:10"}
		default:
			ops = []string{resetSmall}
		}
		amts = []int{0, 1, 2, 4, 5, 7, 10, 11, 14}
	}
	amt := func() int { return amts[r.Intn(len(amts))] }
	if !r.Chance(1, 25) {
		ops = append(ops, fmt.Sprintf("init %d", pick()))
	}
	n := 2 + r.Intn(9)
	props := 0
	vias := []string{"P", "P", "P", "T", "T", "X", "O", "D"}
	hgt := func() string {
		if r.Chance(3, 4) {
			return "+"
		}
		return strconv.Itoa(r.Intn(8))
	}
	for i := 0; i < n; i++ {
		c := r.Intn(100)
		if r.Chance(1, 3) {
			switch t := r.Intn(9); {
			case t < 3:
				ops = append(ops, fmt.Sprintf("nominate %d %d %d %d %s", pick(), pick(), amt(), r.Intn(2), hgt()))
			case t < 5:
				ops = append(ops, fmt.Sprintf("tvote %d %d %d %s", pick(), pick(), amt(), hgt()))
			case t < 6:
				ops = append(ops, fmt.Sprintf("revnom %d %d %s", pick(), pick(), hgt()))
			case t < 8:
				ops = append(ops, fmt.Sprintf("trevoke %d %d %d %s", pick(), pick(), amt(), hgt()))
			default:
				ops = append(ops, "seal")
			}
			continue
		}
		switch {
		case c < 28:
			ops = append(ops, fmt.Sprintf("xfer %d %d %d", pick(), pick(), amt()))
		case c < 43:
			via := vias[r.Intn(len(vias))]
			t := "o"
			if via == "T" || via == "X" || r.Chance(1, 6) {
				t = "t"
			}
			ops = append(ops, fmt.Sprintf("lock %s %d %d %s", via, pick(), amt(), t))
		case c < 58:
			via := vias[r.Intn(len(vias))]
			t := "o"
			if via == "T" || via == "X" || r.Chance(1, 6) {
				t = "t"
			}
			ops = append(ops, fmt.Sprintf("unlock %s %d %d %s", via, pick(), amt(), t))
		case c < 60:
			ops = append(ops, fmt.Sprintf("init %d", pick()))
		case !big:
			ops = append(ops, fmt.Sprintf("xfer %d %d %d", pick(), pick(), amt()))
		case c < 70 && props < 4:
			pct := []int{51, 60, 100, 50}[r.Intn(4)]
			stop := 3 + r.Intn(2)
			trig := []int{0, stop, stop + 2, stop + 3}[r.Intn(4)]
			ops = append(ops, fmt.Sprintf("propose %d %d %d %d %d", pick(), pct, stop, trig, r.Intn(2)))
			props++
		case c < 82:
			ops = append(ops, fmt.Sprintf("vote %d %d %d", pick(), 1+r.Intn(props+1), amt()))
		case c < 88:
			ops = append(ops, fmt.Sprintf("thaw %d %d", pick(), 1+r.Intn(props+1)))
		case c < 97:
			ops = append(ops, fmt.Sprintf("timer %d", []int{0, 3, 4, 5, 6, 7}[r.Intn(6)]))
		default:
			ops = append(ops, fmt.Sprintf("%s %s %d", []string{"cvr", "trig"}[r.Intn(2)], []string{"D", "O"}[r.Intn(2)], 1+r.Intn(props+1)))
		}
	}
	return ops
}

// directedCase grows a history call by call on a live world and picks most arguments from the REAL current
// state (boundary amounts around the available / locked balances, existing proposals and their heights), so
// that the success paths and their edges are reached far more often than by blind choice.
func directedCase(r *xvlib.Rng) []string {
	resets := []string{resetBig, resetBig, "reset 0:3000 1:1500 50:2500", "reset 0:3000 1:1500 0:700", "reset 0:2500 1:1000 2:1000 50:1000",
		resetSmall, "reset 0:10 1:4 1:3 50:8", "reset 0:1000 1:999"}
	ops := []string{resets[r.Intn(len(resets))]}
	pre, _ := parseReset(ops[0])
	w := newWorld(pre)
	accts := []int{0, 1, 2, 50}
	pick := func() int { return accts[r.Intn(len(accts))] }
	push := func(l string) {
		ops = append(ops, l)
		w.exec(l)
	}
	push(fmt.Sprintf("init %d", pick()))
	n := 3 + r.Intn(10)
	heights := []int{0, 5}
	props := 0
	around := func(x int64) int64 {
		c := []int64{x, x, x + 1, x - 1, x / 2, 1, 0}
		v := c[r.Intn(len(c))]
		if v < 0 && !r.Chance(1, 8) {
			v = 0
		}
		return v
	}
	for i := 0; i < n; i++ {
		s := w.snapshot()
		var have []int
		for a := range s.bal {
			have = append(have, a)
		}
		sort.Ints(have)
		holder := func() int {
			if len(have) == 0 || r.Chance(1, 6) {
				return pick()
			}
			return have[r.Intn(len(have))]
		}
		avail := func(a int) int64 {
			b := s.bal[a]
			m := b.ord
			if b.tdpos > m {
				m = b.tdpos
			}
			return b.total - m
		}
		var voting []int
		for pid, p := range s.props {
			if p.status == "V" {
				voting = append(voting, pid)
			}
		}
		sort.Ints(voting)
		anyPid := func() int {
			if len(voting) > 0 && !r.Chance(1, 5) {
				return voting[r.Intn(len(voting))]
			}
			return 1 + r.Intn(props+1)
		}
		c := r.Intn(100)
		if r.Chance(3, 10) {
			// a call of the real $tdpos contract, arguments from the live election records
			hgt := "+"
			if r.Chance(1, 5) {
				hgt = strconv.Itoa(r.Intn(w.tip() + 2))
			}
			var cands []int
			for cd := range s.noms {
				cands = append(cands, cd)
			}
			sort.Ints(cands)
			var vks [][2]int
			for k := range s.tdVotes {
				vks = append(vks, k)
			}
			sort.Slice(vks, func(i, j int) bool { return vks[i][0] < vks[j][0] || (vks[i][0] == vks[j][0] && vks[i][1] < vks[j][1]) })
			switch t := r.Intn(10); {
			case t < 3:
				a, cd := holder(), pick()
				auth := 1
				if r.Chance(1, 5) {
					auth = 0
				}
				if r.Chance(1, 3) {
					cd = a
				}
				push(fmt.Sprintf("nominate %d %d %d %d %s", a, cd, around(s.bal[a].total-s.bal[a].tdpos), auth, hgt))
			case t < 6:
				a, cd := holder(), pick()
				if len(cands) > 0 && !r.Chance(1, 6) {
					cd = cands[r.Intn(len(cands))]
				}
				push(fmt.Sprintf("tvote %d %d %d %s", a, cd, around((s.bal[a].total-s.bal[a].tdpos)/2), hgt))
			case t < 8:
				a, cd := pick(), pick()
				if len(cands) > 0 && !r.Chance(1, 6) {
					cd = cands[r.Intn(len(cands))]
					a = s.noms[cd].nominator
					if r.Chance(1, 4) {
						a = cd // the candidate (not the nominator) tries to withdraw
					}
				}
				push(fmt.Sprintf("revnom %d %d %s", a, cd, hgt))
			default:
				a, cd, n := pick(), pick(), around(s.bal[pick()].tdpos)
				if len(vks) > 0 && !r.Chance(1, 6) {
					k := vks[r.Intn(len(vks))]
					cd, a, n = k[0], k[1], around(s.tdVotes[k])
				}
				push(fmt.Sprintf("trevoke %d %d %d %s", a, cd, n, hgt))
			}
			continue
		}
		switch {
		case c < 22:
			f := holder()
			push(fmt.Sprintf("xfer %d %d %d", f, pick(), around(avail(f))))
		case c < 36:
			a := holder()
			via := []string{"P", "T", "T", "X", "P", "O", "D"}[r.Intn(7)]
			t, locked := "o", s.bal[a].ord
			if via == "T" || via == "X" {
				t, locked = "t", s.bal[a].tdpos
			}
			if r.Chance(1, 25) {
				t = "z"
			}
			push(fmt.Sprintf("lock %s %d %d %s", via, a, around(s.bal[a].total-locked), t))
		case c < 50:
			a := holder()
			via := []string{"P", "T", "T", "X", "P", "O", "D"}[r.Intn(7)]
			t, locked := "o", s.bal[a].ord
			if via == "T" || via == "X" || (s.bal[a].ord == 0 && s.bal[a].tdpos > 0) {
				t, locked = "t", s.bal[a].tdpos
			}
			if r.Chance(1, 25) {
				t = "z"
			}
			push(fmt.Sprintf("unlock %s %d %d %s", via, a, around(locked), t))
		case c < 60 && props < 4:
			pct := []int{51, 51, 60, 100, 50, 101}[r.Intn(6)]
			stop := 3 + r.Intn(3)
			trig := []int{0, stop, stop + 2, stop + 3, stop + 2}[r.Intn(5)]
			push(fmt.Sprintf("propose %d %d %d %d %d", holder(), pct, stop, trig, r.Intn(2)))
			heights = append(heights, stop, trig)
			if s2 := w.snapshot(); s2.lastPid > props {
				props = s2.lastPid
			}
		case c < 74:
			a := holder()
			amt := around(avail(a))
			pid := anyPid()
			if r.Chance(1, 2) && s.supply != nil {
				// the richest account votes around what is still missing to the (51%) threshold
				for _, x := range have {
					if avail(x) > avail(a) {
						a = x
					}
				}
				amt = around(*s.supply*51/100 - s.props[pid].votes)
			}
			push(fmt.Sprintf("vote %d %d %d", a, pid, amt))
		case c < 82:
			pid := anyPid()
			a := s.props[pid].proposer
			if r.Chance(1, 4) {
				a = pick()
			}
			push(fmt.Sprintf("thaw %d %d", a, pid))
		case c < 94:
			push(fmt.Sprintf("timer %d", heights[r.Intn(len(heights))]))
		case c < 96:
			push(fmt.Sprintf("init %d", pick()))
		default:
			push(fmt.Sprintf("%s %s %d", []string{"cvr", "trig"}[r.Intn(2)], []string{"D", "O"}[r.Intn(2)], anyPid()))
		}
	}
	return ops
}

func splitCases(lines []string) [][]string {
	var cases [][]string
	for _, l := range lines {
		if strings.HasPrefix(l, "reset") || len(cases) == 0 {
			cases = append(cases, nil)
		}
		cases[len(cases)-1] = append(cases[len(cases)-1], l)
	}
	return cases
}

func main() {
	args := xvlib.ParseArgs()
	scratchDir, _ = filepath.Abs(args.Scratch)
	os.MkdirAll(scratchDir, 0755)
	out := xvlib.NewOut(args.Out)
	defer out.Close()
	if args.Replay != "" {
		for _, c := range splitCases(xvlib.ReadLines(args.Replay)) {
			doCase(out, c)
		}
		return
	}
	// 0. corpus (minimised past failures and hand-written corner cases) runs first
	if files, err := ioutil.ReadDir(filepath.Join("corpus", args.Prop)); err == nil {
		for _, f := range files {
			if strings.HasSuffix(f.Name(), ".ops") {
				for _, c := range splitCases(xvlib.ReadLines(filepath.Join("corpus", args.Prop, f.Name()))) {
					doCase(out, c)
					out.Count("corpus-case")
				}
			}
		}
	}
	thorough := args.Tier == "thorough"
	// 1. genesis variants: init alone, duplicates, before-init calls
	for _, rs := range []string{"reset", "reset 0:10", resetSmall, "reset 0:10 0:10", "reset 0:10 1:4 0:3 1:0", "reset 0:0", "reset 50:7 0:1"} {
		doCase(out, []string{rs, "init 0"})
		doCase(out, []string{rs, "init 0", "init 1", "xfer 0 1 1"})
		doCase(out, []string{rs, "xfer 0 1 1", "lock P 0 1 o", "unlock P 0 1 o", "init 2", "xfer 0 1 1"})
	}
	// 2. exhaustive call sequences over the small universe
	type lvl struct{ level, depth int }
	small := []lvl{{0, 2}, {1, 3}, {2, 4}}
	bigs := []lvl{{0, 2}, {1, 3}}
	nRandom := 36000
	if thorough {
		small = []lvl{{0, 3}, {1, 4}, {2, 5}}
		bigs = []lvl{{0, 3}, {1, 4}}
		nRandom = 150000
	}
	var rules []string
	for _, l := range small {
		al := smallAlphabet(l.level)
		enumerate(out, []string{resetSmall, "init 0"}, al, l.depth)
		rules = append(rules, fmt.Sprintf("all sequences of <= %d calls over %d calls (accounts 0:10 1:4 2:fresh)", l.depth, len(al)))
	}
	for _, l := range bigs {
		al := bigAlphabet(l.level)
		enumerate(out, []string{resetBig, "init 0"}, al, l.depth)
		rules = append(rules, fmt.Sprintf("all sequences of <= %d proposal-level calls over %d calls (accounts 0:3000 1:1500, 2 and 50 fresh)", l.depth, len(al)))
	}
	lifeDepth := 3
	if thorough {
		lifeDepth = 4
	}
	for _, ok := range []string{"1", "0"} {
		enumerate(out, []string{resetBig, "init 0", "propose 1 51 5 9 " + ok}, lifecycleAlphabet(), lifeDepth)
		enumerate(out, []string{"reset 0:3000 1:1500 50:2500", "init 0", "propose 1 51 5 9 " + ok, "vote 50 1 1500"}, lifecycleAlphabet(), lifeDepth-1)
		enumerate(out, []string{resetBig, "init 0", "propose 1 51 5 9 " + ok, "vote 0 1 2295", "timer 5"}, lifecycleAlphabet(), 3)
	}
	rules = append(rules, fmt.Sprintf("all sequences of <= %d calls over %d calls after a proposal that can pass (votes at threshold-1 / threshold, timers at stop and trigger heights, trigger target ok/failing)", lifeDepth, len(lifecycleAlphabet())))
	// 2b. the real $tdpos contract: exhaustive short histories, then histories after a third-party nomination whose
	// candidate has votes of its own locked
	tdl := []lvl{{0, 2}, {1, 3}, {2, 4}}
	tdLife := 2
	if thorough {
		tdl = []lvl{{0, 3}, {1, 4}, {2, 5}}
		tdLife = 3
	}
	for _, l := range tdl {
		al := tdposAlphabet(l.level)
		enumerate(out, []string{resetBig, "init 0"}, al, l.depth)
		rules = append(rules, fmt.Sprintf("all sequences of <= %d calls over %d calls of the real $tdpos contract (self / third-party nominations, votes, withdrawals, stale and invalid heights) mixed with transfers and raw Lock/UnLock", l.depth, len(al)))
	}
	enumerate(out, []string{resetBig, "init 0", "nominate 1 0 500 1 +", "tvote 0 0 600 +"}, tdposAlphabet(0), tdLife)
	enumerate(out, []string{"reset 0:3000 1:1500 50:2500", "init 0", "nominate 50 1 400 1 +", "tvote 1 1 300 +", "tvote 50 1 300 +"}, tdposAlphabet(1), tdLife)
	// 2c. node cases: transactions pre-executed on the same state and submitted / verified / admitted in every schedule
	// of two submissions in flight, balance queries through the tip snapshot reader while transfers are pending
	for _, c := range systematicNodeCases() {
		doCase(out, c)
		out.Count("node-case")
	}
	nNode, nConc, concReps, fixedReps := 150, 40, 300, 3000
	if thorough {
		nNode, nConc, concReps, fixedReps = 1500, 300, 500, 20000
	}
	nrng := xvlib.NewRng((args.Seed ^ 0x6e6f6465) * 0x9E3779B97F4A7C15)
	for i := 0; i < nNode; i++ {
		doCase(out, randomNodeCase(nrng))
		out.Count("node-case")
	}
	// 2d. concurrent pre-executions against the sequential verdicts and write sets
	for _, c := range fixedConcCases(fixedReps) {
		doCase(out, c)
		out.Count("conc-case")
	}
	for i := 0; i < nConc; i++ {
		if c := concCase(nrng, 12, concReps); c != nil {
			doCase(out, c)
			out.Count("conc-case")
		}
	}
	rules = append(rules, fmt.Sprintf("node cases on a real chainlib node (VerifyTx + DoTx, blocks): every role assignment over 4 accounts of {confirmed transfer a->b, pending transfer b->c, balance query of every account at the tip} and of two transfers to one (fresh) account pre-executed on the same state, first-ever proposals, votes on one proposal, in 5 verification / admission schedules; %d random node histories (pre / ver / sub / dotx / pack / qbal); %d concurrent pre-execution cases (12 goroutines) against the sequential verdicts and write sets", nNode, nConc+3))
	// 3. random longer sequences (duplicated genesis entries, lower-case account, all callers)
	// xvlib.NewRng(s) and NewRng(s+1) are the same splitmix stream one draw apart (and the generators re-synchronise on
	// it): spread the seeds so that different VERIF_SEEDs give unrelated streams
	rng := xvlib.NewRng((args.Seed ^ (args.Seed << 29) ^ 0x5bf0a8b1457695) * 0xD6E8FEB86659FD93)
	for i := 0; i < nRandom; i++ {
		var c []string
		if i%3 == 0 {
			c = randomCase(rng)
		} else {
			c = directedCase(rng)
		}
		doCase(out, c)
		if i < 3 {
			r := runCase(c)
			out.Sample(map[string]interface{}{"ops": c, "impl": r.answers})
		}
	}
	out.Stats.Exhaustive = true
	out.Stats.Rule = "exhaustive: " + strings.Join(rules, "; ") + fmt.Sprintf("; plus %d seeded random sequences of 2-13 calls, one third blind, two thirds state-directed (arguments chosen around the real available/locked balances, existing proposals and their heights) (transfers incl. self/fresh, lock/unlock from $proposal/$tdpos/$xpos/outsiders/top-level, propose/vote/thaw/timer, the real $tdpos nominate/vote/revoke at fresh, stale and invalid heights, duplicated genesis addresses); every call is checked by the oracle against the decoded store; non-trivial = at least one successful call after init, distinct by op list", nRandom)
}
