package main

// generators of the node cases (node.go) and of the concurrent pre-executions (conc.go)

import (
	"fmt"
	"sort"
	"strings"

	xledger "github.com/xuperchain/xupercore/bcs/ledger/xledger/ledger"
	"xv/xvlib"
)

// raceSteps: the two held transactions a, b go through verification and admission in one of the schedules of two
// submissions in flight
func raceSteps(k int) []string {
	return [][]string{
		{"ver a", "ver b", "dotx a", "dotx b"},
		{"ver a", "ver b", "dotx b", "dotx a"},
		{"sub a", "sub b"},
		{"sub b", "sub a"},
		{"ver b", "sub a", "dotx b"},
	}[k%5]
}

// systematicNodeCases: every assignment of the roles to four accounts (0,1,2 funded, 3 fresh; the write sets are sorted
// by the account's address, so the roles decide at which offset a record sits in each transaction)
func systematicNodeCases() [][]string {
	var cs [][]string
	const rs = "reset node 0:3000 1:1500 2:2500"
	k := 0
	for a := 0; a < 4; a++ {
		for b := 0; b < 4; b++ {
			for c := 0; c < 4; c++ {
				if a == b || b == c || a == c || a == 3 {
					continue
				}
				// balance queries while a transfer is pending: b received in the confirmed block and sends in the pending one
				cs = append(cs, []string{rs, "init 0", fmt.Sprintf("xfer %d %d 100", a, b), "pack", fmt.Sprintf("xfer %d %d 50", b, c),
					"qbal 0", "qbal 1", "qbal 2", "qbal 3", "pack", "qbal 0", "qbal 1", "qbal 2", "qbal 3"})
				// two transfers to the same account, pre-executed on the same state (c fresh or not)
				if b != 3 {
					cs = append(cs, append([]string{rs, "init 0", fmt.Sprintf("pre a xfer %d %d 10", a, c), fmt.Sprintf("pre b xfer %d %d 20", b, c)},
						append(raceSteps(k), "pack", "qbal 0", "qbal 1", "qbal 2", "qbal 3")...))
					k++
				}
			}
		}
	}
	for k := 0; k < 5; k++ {
		// first-ever proposals, votes on one proposal, a proposal against a transfer of the proposer
		cs = append(cs, append([]string{rs, "init 0", "pre a propose 0 51 5 9 1", "pre b propose 2 51 5 9 1"}, append(raceSteps(k), "pack", "vote 1 1 200", "vote 1 2 200")...))
		cs = append(cs, append([]string{rs, "init 0", "propose 0 51 5 9 1", "pack", "pre a vote 1 1 200", "pre b vote 2 1 300"}, append(raceSteps(k), "pack", "qbal 1")...))
		cs = append(cs, append([]string{rs, "init 0", "pre a propose 0 51 5 9 1", "pre b xfer 0 3 2500"}, append(raceSteps(k), "pack", "qbal 0", "qbal 3")...))
		cs = append(cs, append([]string{rs, "init 0", "pre a xfer 0 3 10", "pre b xfer 1 2 20"}, append(raceSteps(k), "pack", "qbal 3")...))
	}
	return cs
}

func randomNodeCase(r *xvlib.Rng) []string {
	quota := []string{"1000", "1500", "3000", "2500"}
	var funded []int
	rs := "reset node"
	for a := 0; a < 4; a++ {
		if r.Chance(3, 4) {
			funded = append(funded, a)
			rs += fmt.Sprintf(" %d:%s", a, quota[r.Intn(len(quota))])
		}
	}
	if len(funded) == 0 {
		funded = []int{0}
		rs += " 0:3000"
	}
	ops := []string{rs, fmt.Sprintf("init %d", funded[r.Intn(len(funded))])}
	acct := func() int { return r.Intn(4) }
	props := 0
	call := func() string {
		switch c := r.Intn(10); {
		case c < 6:
			return fmt.Sprintf("xfer %d %d %d", acct(), acct(), []int{0, 1, 10, 500, 1000, 1500, 3001}[r.Intn(7)])
		case c < 8:
			props++
			return fmt.Sprintf("propose %d 51 5 9 %d", acct(), r.Intn(2))
		default:
			return fmt.Sprintf("vote %d %d %d", acct(), 1+r.Intn(props+1), []int{1, 200, 1000}[r.Intn(3)])
		}
	}
	tags := []string{"a", "b", "c"}
	n := 4 + r.Intn(9)
	for i := 0; i < n; i++ {
		switch c := r.Intn(12); {
		case c < 3:
			ops = append(ops, call())
		case c < 6:
			ops = append(ops, "pre "+tags[r.Intn(3)]+" "+call())
		case c < 7:
			ops = append(ops, "ver "+tags[r.Intn(3)])
		case c < 9:
			ops = append(ops, []string{"sub ", "dotx "}[r.Intn(2)]+tags[r.Intn(3)])
		case c < 10:
			ops = append(ops, "pack")
		default:
			ops = append(ops, fmt.Sprintf("qbal %d", acct()))
		}
	}
	for _, t := range tags {
		ops = append(ops, "sub "+t)
	}
	for a := 0; a < 4; a++ {
		ops = append(ops, fmt.Sprintf("qbal %d", a))
	}
	ops = append(ops, "pack")
	for a := 0; a < 4; a++ {
		ops = append(ops, fmt.Sprintf("qbal %d", a))
	}
	return ops
}

// concCase: a state-directed history, then calls around every holder's available balance pre-executed from many
// goroutines at once
func concCase(r *xvlib.Rng, g, reps int) []string {
	ops := directedCase(r)
	w := newWorld(mustPre(ops[0]))
	for _, l := range ops[1:] {
		w.exec(l)
	}
	s := w.snapshot()
	var have []int
	for a := range s.bal {
		have = append(have, a)
	}
	sort.Ints(have)
	if len(have) == 0 {
		return nil
	}
	var calls []string
	for _, a := range have {
		b := s.bal[a]
		other := have[r.Intn(len(have))]
		av := b.total - b.ord
		if b.total-b.tdpos < av {
			av = b.total - b.tdpos
		}
		calls = append(calls, fmt.Sprintf("xfer %d %d %d", a, other, av+int64(r.Intn(2))), fmt.Sprintf("lock P %d %d o", a, b.total-b.ord+int64(r.Intn(2))))
		if r.Chance(1, 2) {
			calls = append(calls, fmt.Sprintf("xfer %d %d %d", a, other, b.total), fmt.Sprintf("lock T %d %d t", a, b.total-b.tdpos+int64(r.Intn(2))))
		}
	}
	if r.Chance(1, 3) {
		calls = append(calls, fmt.Sprintf("propose %d 51 5 9 1", have[r.Intn(len(have))]), fmt.Sprintf("vote %d 1 %d", have[r.Intn(len(have))], 1+r.Intn(1000)))
	}
	return append(ops, fmt.Sprintf("conc %d %d %s", g, reps, strings.Join(calls, " ; ")))
}

// fixedConcCases: fully locked accounts next to free ones, long runs
func fixedConcCases(reps int) [][]string {
	return [][]string{
		{resetBig, "init 0", "lock P 1 1500 o", fmt.Sprintf("conc 12 %d xfer 1 0 1500 ; xfer 0 1 3000 ; lock P 1 1 o ; lock P 0 3000 o", reps)},
		{resetBig, "init 0", "propose 1 51 5 9 1", "xfer 1 0 500", fmt.Sprintf("conc 12 %d xfer 1 0 1000 ; xfer 0 1 3500 ; xfer 1 0 1 ; lock T 0 3500 t ; vote 1 1 1 ; vote 0 1 3500", reps)},
		{"reset 0:3000 1:1500 50:2500", "init 0", "lock T 50 2500 t", "lock P 0 1000 o", fmt.Sprintf("conc 12 %d xfer 50 0 1 ; xfer 1 50 1500 ; xfer 0 1 2001 ; xfer 0 1 2000 ; lock P 50 2500 o ; lock T 50 1 t", reps)},
	}
}

func mustPre(line string) []xledger.Predistribution {
	p, _ := parseReset(line)
	return p
}
