package main

// Executor: runs op lines against a real producer node and a real replica node (in-process, in-memory kvdb),
// and holds the impl-side oracles of C13 (independent of the Lean model).

import (
	"bytes"
	"encoding/hex"
	"encoding/json"
	"fmt"
	"math/big"
	"sort"
	"strings"
	"time"

	"github.com/golang/protobuf/proto"
	"github.com/xuperchain/xupercore/bcs/ledger/xledger/state"
	"github.com/xuperchain/xupercore/bcs/ledger/xledger/state/utxo"
	txn "github.com/xuperchain/xupercore/bcs/ledger/xledger/tx"
	pb "github.com/xuperchain/xupercore/bcs/ledger/xledger/xldgpb"
	"github.com/xuperchain/xupercore/kernel/engines/xuperos/miner"
	"github.com/xuperchain/xupercore/protos"

	"xv/chainlib"
	"xv/kvmem"
	"xv/xvlib"
)

type uRow struct {
	Tx, Off int
	Addr    string
	Amt     string
}

func (r uRow) String() string { return fmt.Sprintf("%d.%d:%s:%s", r.Tx, r.Off, r.Addr, r.Amt) }

type tables struct {
	U     []uRow
	KV    []string // key:value@version per key of the world
	Total string
}

type Exec struct {
	w       *World
	scratch string
	out     *xvlib.Out
	rng     *xvlib.Rng
	caseOps []string
	caseOut []string

	admitted []int // pending transactions in admission order, as the harness believes
	rejected []int

	// snapshot taken by `sync`
	base      *chainlib.Node
	snapPool  []*TxInfo
	snapNodes []int
	snapGraph [][2]int
	snapSpec  []edge
	snapP     *tables
	snapKeys  []string
	sampled   [][]int
	packed    []int
	seq       int
	replays   int
	broken    bool
}

func (e *Exec) violate(key, what string) {
	if e.out == nil {
		return
	}
	e.out.Violate(xvlib.Violation{Key: key, What: what, Ops: append([]string{}, e.caseOps...), Impl: lastN(e.caseOut, 6)})
}

func lastN(s []string, n int) []string {
	if len(s) <= n {
		return append([]string{}, s...)
	}
	return append([]string{}, s[len(s)-n:]...)
}

func (e *Exec) name(addr []byte) string {
	if string(addr) == "$" {
		return "$"
	}
	if n, ok := e.w.NameOf[string(addr)]; ok {
		return n
	}
	return "?" + string(addr)
}

func (e *Exec) acct(name string) *xvlib.Account {
	i := atoi(name[1:])
	if name[0] == 'u' {
		return e.w.Users[i]
	}
	return e.w.Miners[i]
}

func (e *Exec) dropCase() {
	if e.w != nil {
		kvmem.Drop(e.scratch)
	}
	e.base = nil
}

func (e *Exec) newWorld(kv map[string]string) error {
	e.dropCase()
	w := &World{AddrOf: map[string]string{}, NameOf: map[string]string{}, Txs: map[int]*TxInfo{}, TxByID: map[string]int{}}
	w.Fee = kv["fee"] == "1"
	w.MaxMB = atoi(kv["mb"])
	for i := 0; i < 4; i++ {
		a := xvlib.NewAccount(10 + i)
		w.Users = append(w.Users, a)
		w.AddrOf[fmt.Sprintf("u%d", i)] = a.Address
		w.NameOf[a.Address] = fmt.Sprintf("u%d", i)
	}
	for i := 0; i < 2; i++ {
		a := xvlib.NewAccount(20 + i)
		w.Miners = append(w.Miners, a)
		w.AddrOf[fmt.Sprintf("m%d", i)] = a.Address
		w.NameOf[a.Address] = fmt.Sprintf("m%d", i)
	}
	w.Keys = []string{"k0", "k1", "k2", "k3", "k4", "k5"}
	g := &chainlib.Genesis{Alloc: map[string]string{}, NoFee: !w.Fee, Award: "0", MaxBlockMB: w.MaxMB}
	if w.Fee {
		w.Award = 50
		if a, ok := kv["award"]; ok {
			w.Award = int64(atoi(a))
		}
		g.Award = fmt.Sprint(w.Award)
		// decay=<gap>:<num>/<den>: the award is multiplied by num/den every gap blocks
		if d, ok := kv["decay"]; ok {
			var gap, num, den int64
			if n, _ := fmt.Sscanf(d, "%d:%d/%d", &gap, &num, &den); n != 3 || den <= 0 || gap < 0 {
				return fmt.Errorf("bad decay %q", d)
			}
			w.Gap, w.Num, w.Den = gap, num, den
		}
	}
	rt := &TxInfo{Coinbase: true, From: "-"}
	for i := range w.Users {
		a := w.Users[i].Address
		g.Alloc[a] = "1000"
		g.AllocOrder = append(g.AllocOrder, a)
		rt.Outs = append(rt.Outs, OutInfo{Addr: fmt.Sprintf("u%d", i), Amt: 1000})
	}
	e.w = w
	gj := g.JSON()
	if w.Gap != 0 {
		m := map[string]interface{}{}
		if err := json.Unmarshal(gj, &m); err != nil {
			return err
		}
		m["award_decay"] = map[string]interface{}{"height_gap": w.Gap, "ratio": float64(w.Num) / float64(w.Den)}
		gj, _ = json.Marshal(m)
	}
	w.Genesis = gj
	var err error
	if w.P, err = chainlib.NewNode(e.scratch, "prod", gj, w.Miners[0]); err != nil {
		return err
	}
	if w.R, err = chainlib.NewNode(e.scratch, "repl", gj, w.Miners[1]); err != nil {
		return err
	}
	registerTick(w.P)
	registerTick(w.R)
	// the producer's miner talks to a scripted consensus and a network that records what is broadcast
	w.Cons, w.Net = &scriptCons{signer: w.Miners[0]}, newCaptureNet()
	w.P.Ctx.Consensus = w.Cons
	w.P.Ctx.EngCtx.Net = w.Net
	w.Miner = miner.NewMiner(w.P.Ctx)
	rb, err := w.P.L.QueryBlock(w.P.L.GetMeta().RootBlockid)
	if err != nil {
		return err
	}
	rt.Idx, rt.Tx, rt.Built = 0, rb.Transactions[0], true
	w.Txs[0] = rt
	w.bind(rt)
	w.NextIdx = 1
	e.admitted, e.rejected = nil, nil
	e.base, e.snapPool, e.sampled, e.packed = nil, nil, nil, nil
	e.broken = false
	return nil
}

// ---------------------------------------------------------------- building real transactions

func (e *Exec) absorbRW(t *TxInfo, r *chainlib.PreExecResult) error {
	return e.absorbExt(t, r.Inputs, r.Outputs)
}

// absorbExt records the key accesses of a transaction (the $xvkv bucket and the timer bucket) in op-line terms.
func (e *Exec) absorbExt(t *TxInfo, ins []*protos.TxInputExt, outs []*protos.TxOutputExt) error {
	t.KIn, t.KOut = nil, nil
	for _, in := range ins {
		name := nameOfKey(in.Bucket, in.Key)
		if name == "" {
			continue
		}
		e.w.addKey(name)
		ki := KIn{Key: name, VTx: -1}
		if in.RefTxid != nil {
			idx, ok := e.w.TxByID[string(in.RefTxid)]
			if !ok {
				return fmt.Errorf("read set cites unknown tx %x", in.RefTxid)
			}
			ki.VTx, ki.VOff = idx, int(in.RefOffset)
		}
		t.KIn = append(t.KIn, ki)
	}
	for _, o := range outs {
		name := nameOfKey(o.Bucket, o.Key)
		if name == "" {
			// the offsets of key versions count every output: keep the slot
			t.KOut = append(t.KOut, KOut{Key: "X." + o.Bucket, Val: "x"})
			continue
		}
		e.w.addKey(name)
		ko := KOut{Key: name, Val: string(o.Value)}
		if string(o.Value) == delFlag {
			ko.Del, ko.Val = true, ""
		} else if o.Bucket == timerBucket {
			ko.Val = timerVal(o.Key, o.Value)
		}
		t.KOut = append(t.KOut, ko)
	}
	return nil
}

// timerVal renders the value of a timer-bucket row for op lines: the task counter as it is, a task as #<prog>.
func timerVal(key, val []byte) string {
	if string(key) == "id" {
		return string(val)
	}
	var trig struct {
		Args map[string]interface{} `json:"args"`
	}
	if json.Unmarshal(val, &trig) != nil {
		return "#?"
	}
	prog, _ := trig.Args["prog"].(string)
	return "#" + encProg(prog)
}

func encProg(p string) string { return strings.ReplaceAll(strings.ReplaceAll(p, " ", "_"), ";", "+") }
func decProg(p string) string { return strings.ReplaceAll(strings.ReplaceAll(p, "_", " "), "+", ";") }

func (e *Exec) build(t *TxInfo) error {
	w := e.w
	desc := fmt.Sprintf("xv-%d", t.Idx)
	if t.Pad > 0 {
		desc += strings.Repeat("p", t.Pad)
	}
	tx := &pb.Transaction{Version: 3, Nonce: fmt.Sprintf("n%d", t.Idx), Timestamp: int64(1000 + t.Idx), Desc: []byte(desc),
		Initiator: w.AddrOf[t.From], AuthRequire: []string{w.AddrOf[t.From]}}
	if t.Prog != "" {
		r := w.P.PreExecKV(w.AddrOf[t.From], decProg(t.Prog))
		if r.Err != nil {
			return r.Err
		}
		if err := e.absorbRW(t, r); err != nil {
			return err
		}
		tx.ContractRequests, tx.TxInputsExt, tx.TxOutputsExt = r.Requests, r.Inputs, r.Outputs
	} else if t.Timer != "" {
		// $timer_task.Add(block_height, trigger = run the $xvkv program at that height)
		i := strings.Index(t.Timer, ":")
		if i <= 0 {
			return fmt.Errorf("bad timer %q", t.Timer)
		}
		r := preExecKernel(w.P, w.AddrOf[t.From], timerContract, "Add", timerAddArgs(atoi(t.Timer[:i]), decProg(t.Timer[i+1:])))
		if r.Err != nil {
			return r.Err
		}
		if err := e.absorbRW(t, r); err != nil {
			return err
		}
		tx.ContractRequests, tx.TxInputsExt, tx.TxOutputsExt = r.Requests, r.Inputs, r.Outputs
	}
	for _, in := range t.Ins {
		ref, ok := w.Txs[in.Tx]
		if !ok || !ref.Built {
			return fmt.Errorf("input cites undefined tx %d", in.Tx)
		}
		tx.TxInputs = append(tx.TxInputs, &protos.TxInput{RefTxid: ref.Tx.Txid, RefOffset: int32(in.Off), FromAddr: []byte(w.AddrOf[in.Addr]),
			Amount: big.NewInt(in.Amt).Bytes()})
	}
	for _, o := range t.Outs {
		to := "$"
		if o.Addr != "$" {
			to = w.AddrOf[o.Addr]
		}
		tx.TxOutputs = append(tx.TxOutputs, &protos.TxOutput{ToAddr: []byte(to), Amount: big.NewInt(o.Amt).Bytes()})
	}
	var err error
	t.Tx, err = chainlib.Sign(tx, e.acct(t.From))
	if err != nil {
		return err
	}
	t.Built = true
	w.bind(t)
	return nil
}

// ---------------------------------------------------------------- observation

func (e *Exec) tablesOf(n *chainlib.Node) *tables { return e.tablesOfKeys(n, e.w.Keys) }

func (e *Exec) tablesOfKeys(n *chainlib.Node, keys []string) *tables {
	t := &tables{Total: n.S.GetTotal().String()}
	for _, r := range n.ScanTable(pb.UTXOTablePrefix) {
		k := r[0][1:]
		p := strings.Split(k, "_")
		if len(p) < 3 {
			t.U = append(t.U, uRow{-1, 0, "?" + k, "?"})
			continue
		}
		txid, _ := hex.DecodeString(p[len(p)-2])
		addr := strings.Join(p[:len(p)-2], "_")
		ti, ok := e.w.TxByID[string(txid)]
		if !ok {
			ti = -1
		}
		it := &utxo.UtxoItem{}
		it.Loads([]byte(r[1]))
		amt := "nil"
		if it.Amount != nil {
			amt = it.Amount.String()
		}
		t.U = append(t.U, uRow{ti, atoi(p[len(p)-1]), e.name([]byte(addr)), amt})
	}
	sort.Slice(t.U, func(i, j int) bool {
		if t.U[i].Tx != t.U[j].Tx {
			return t.U[i].Tx < t.U[j].Tx
		}
		return t.U[i].Off < t.U[j].Off
	})
	for _, k := range keys {
		t.KV = append(t.KV, k+":"+e.kvStr(n, k))
	}
	return t
}

func (e *Exec) kvStr(n *chainlib.Node, k string) string {
	bucket, key := bucketOf(k)
	vd, err := n.S.CreateXMReader().Get(bucket, []byte(key))
	if err != nil {
		return "err"
	}
	if vd == nil || vd.PureData == nil || vd.RefTxid == nil {
		return "-"
	}
	v, rt, off := string(vd.PureData.Value), vd.RefTxid, vd.RefOffset
	ti, ok := e.w.TxByID[string(rt)]
	ver := fmt.Sprintf("%d.%d", ti, off)
	if !ok {
		ver = "?"
	}
	if v == delFlag {
		return "DEL@" + ver
	}
	if bucket == timerBucket {
		v = timerVal([]byte(key), []byte(v))
	}
	return v + "@" + ver
}

func (t *tables) String() string {
	us := make([]string, len(t.U))
	for i, r := range t.U {
		us[i] = r.String()
	}
	return fmt.Sprintf("total=%s U=%s kv=%s", t.Total, strings.Join(us, ","), strings.Join(t.KV, ","))
}

// observe renders every observable the property names (through the APIs and the raw tables).
func (e *Exec) observe(n *chainlib.Node) string {
	var names []string
	for k := range e.w.AddrOf {
		names = append(names, k)
	}
	sort.Strings(names)
	var bal []string
	for _, nm := range names {
		b, err := n.S.GetBalance(e.w.AddrOf[nm])
		if err != nil {
			bal = append(bal, nm+":err")
		} else {
			bal = append(bal, nm+":"+b.String())
		}
	}
	return fmt.Sprintf("tip=%x bal=%s %s", n.S.GetLatestBlockid(), strings.Join(bal, ","), e.tablesOf(n).String())
}

func (e *Exec) realPool() ([]int, error) {
	txs, err := e.w.P.S.GetUnconfirmedTx(false)
	if err != nil {
		return nil, err
	}
	var idx []int
	for _, t := range txs {
		if i, ok := e.w.TxByID[string(t.Txid)]; ok {
			idx = append(idx, i)
		} else {
			idx = append(idx, -2)
		}
	}
	return idx, nil
}

// reconcile drops from the harness's admission list what is no longer pending on the producer.
func (e *Exec) reconcile() {
	p, err := e.realPool()
	if err != nil {
		return
	}
	in := map[int]bool{}
	for _, i := range p {
		in[i] = true
	}
	var keep []int
	for _, i := range e.admitted {
		if in[i] {
			keep = append(keep, i)
		}
	}
	e.admitted = keep
}

// ---------------------------------------------------------------- blocks

// receive is what a node does with a block it did not produce (miner.ProcBlock / batchConfirmBlock / Walk to the tip).
func (e *Exec) receive(n *chainlib.Node, blk *pb.InternalBlock, checkSize bool) (stage string, err error) {
	if checkSize && int64(proto.Size(blk)) > n.S.GetMaxBlockSize() {
		return "size", fmt.Errorf("block too large")
	}
	for i, tx := range blk.Transactions {
		if !n.L.IsValidTx(i, tx, blk) {
			return "validtx", fmt.Errorf("IsValidTx refuses transaction %d", i)
		}
	}
	if ok, _ := n.L.VerifyBlock(blk, "xv"); !ok {
		return "verify", fmt.Errorf("VerifyBlock refuses the block")
	}
	if st := n.L.ConfirmBlock(chainlib.CloneBlock(blk), false); !st.Succ {
		return "confirm", fmt.Errorf("ConfirmBlock: %v", st.Error)
	}
	err = n.S.Walk(blk.Blockid, false)
	state.VerifWaitRecover()
	if err != nil {
		return "walk", err
	}
	return "", nil
}

// blockIDs maps the transactions of a block to harness indices (numbering award / generated transactions).
func (e *Exec) blockIDs(blk *pb.InternalBlock, prop string) []int {
	var ids []int
	for _, tx := range blk.Transactions {
		if i, ok := e.w.TxByID[string(tx.Txid)]; ok {
			ids = append(ids, i)
			continue
		}
		t := &TxInfo{Coinbase: tx.Coinbase, Autogen: tx.Autogen && !tx.Coinbase, From: "-"}
		for _, o := range tx.TxOutputs {
			t.Outs = append(t.Outs, OutInfo{Addr: e.name(o.ToAddr), Amt: new(big.Int).SetBytes(o.Amount).Int64()})
		}
		e.absorbExt(t, tx.TxInputsExt, tx.TxOutputsExt)
		ids = append(ids, e.w.bindForeign(tx, t))
	}
	return ids
}

// checkBlockShape: award first, exactly one coinbase, award amount as the genesis configuration says.
func (e *Exec) checkBlockShape(blk *pb.InternalBlock, who string) bool {
	ok := true
	if len(blk.Transactions) == 0 || !blk.Transactions[0].Coinbase {
		e.violate("award-not-first", who+": the first transaction of the block is not the award")
		ok = false
	}
	cb := 0
	for _, tx := range blk.Transactions {
		if tx.Coinbase {
			cb++
			if len(tx.TxOutputs) < 1 || new(big.Int).SetBytes(tx.TxOutputs[0].Amount).Cmp(big.NewInt(e.w.specAward(blk.Height))) != 0 {
				e.violate("award-invalid", fmt.Sprintf("%s: the award of the block at height %d is %s, the schedule of the genesis configuration gives %d", who, blk.Height, awardOf(blk), e.w.specAward(blk.Height)))
				ok = false
			} else if string(tx.TxOutputs[0].ToAddr) != string(blk.Proposer) {
				e.violate("award-invalid", who+": the award is not paid to the proposer of the block")
				ok = false
			}
		}
	}
	if cb != 1 {
		e.violate("award-count", fmt.Sprintf("%s: %d coinbase transactions in one block", who, cb))
		ok = false
	}
	for i, tx := range blk.Transactions {
		if !e.w.P.L.IsValidTx(i, tx, blk) {
			e.violate("award-invalid", fmt.Sprintf("%s: IsValidTx refuses transaction %d of the block", who, i))
			ok = false
		}
	}
	if v, _ := e.w.P.L.VerifyBlock(blk, "xv"); !v {
		e.violate("block-verify-failed", who+": VerifyBlock refuses the block")
		ok = false
	}
	return ok
}

// formatBlock builds a block of the producer (award first) with the given pending transactions in the given order.
func (e *Exec) formatBlock(n *chainlib.Node, prop *xvlib.Account, order []int) (*pb.InternalBlock, error) {
	return e.formatBlockT(n, prop, order, false)
}

// withTimer: the block also carries the timer transaction the node generates for its height (what a real peer's miner
// does; forced-order blocks of the check phase carry the pending transactions only).
func (e *Exec) formatBlockT(n *chainlib.Node, prop *xvlib.Account, order []int, withTimer bool) (*pb.InternalBlock, error) {
	var list []*pb.Transaction
	for _, i := range order {
		t := e.w.Txs[i]
		if t == nil || !t.Built {
			return nil, fmt.Errorf("undefined tx %d", i)
		}
		tc := *t.Tx
		tc.ReceivedTimestamp = 0
		list = append(list, &tc)
	}
	pre := n.S.GetLatestBlockid()
	hd, err := n.L.QueryBlockHeader(pre)
	if err != nil {
		return nil, err
	}
	if withTimer {
		auto, err := n.S.GetTimerTx(hd.Height + 1)
		if err != nil {
			return nil, err
		}
		if auto != nil && len(auto.TxOutputsExt) > 0 {
			list = append([]*pb.Transaction{auto}, list...)
		}
	}
	return n.MakeBlock(prop, pre, hd.Height+1, list, time.Now().UnixNano())
}

// ---------------------------------------------------------------- exec

func (e *Exec) exec(line string) (ans string) {
	e.caseOps = append(e.caseOps, line)
	defer func() {
		if r := recover(); r != nil {
			ans = fmt.Sprintf("panic:%v", r)
			e.violate("panic", fmt.Sprintf("panic while executing %q: %v", line, r))
		}
		e.caseOut = append(e.caseOut, ans)
	}()
	op, pos, kv := fields(line)
	if op == "reset" {
		e.caseOps = []string{line}
		e.caseOut = nil
	}
	return e.exec1(op, pos, kv, line)
}

func (e *Exec) defineTx(pos []string, kv map[string]string) (*TxInfo, string) {
	if len(pos) < 1 {
		return nil, "bad-op"
	}
	t := &TxInfo{Idx: atoi(pos[0]), From: kv["from"], Prog: kv["prog"], Timer: kv["timer"], Pad: atoi(kv["pad"]), Ins: parseIns(kv["in"]), Outs: parseOuts(kv["out"])}
	if _, dup := e.w.Txs[t.Idx]; dup {
		return nil, "bad-index"
	}
	if err := e.build(t); err != nil {
		return nil, "error:" + err.Error()
	}
	e.w.Txs[t.Idx] = t
	return t, ""
}

func (e *Exec) submit(t *TxInfo) string {
	txc := *t.Tx
	err := e.w.P.S.DoTx(&txc)
	if err != nil {
		e.rejected = append(e.rejected, t.Idx)
		e.out.Count("submit:rejected")
		return "reject"
	}
	e.admitted = append(e.admitted, t.Idx)
	e.out.Count("submit:admitted")
	return "ok"
}

func (e *Exec) exec1(op string, pos []string, kv map[string]string, line string) string {
	w := e.w
	if op != "reset" && op != "rawsort" && w == nil {
		return "no-world"
	}
	if e.broken && op != "reset" && op != "rawsort" {
		return "-" // producer and replica diverged after a reported failure: the rest of the case is not evaluated
	}
	switch op {
	case "reset":
		if err := e.newWorld(kv); err != nil {
			return "error:" + err.Error()
		}
		return "ok"
	case "dtx": // define (pre-execute now, build, sign) without submitting
		if _, errs := e.defineTx(pos, kv); errs != "" {
			return errs
		}
		return "-"
	case "atx": // define and submit to the producer
		t, errs := e.defineTx(pos, kv)
		if errs != "" {
			return errs
		}
		e.submit(t)
		return "-"
	case "submit":
		t := w.Txs[atoi(pos[0])]
		if t == nil {
			return "bad-index"
		}
		e.submit(t)
		return "-"
	case "fblock":
		return e.opForeign(parseIDs(kv["txs"]), kv["lazy"] == "1")
	case "pack":
		return e.opPack()
	case "mine":
		return e.opMine(kv)
	case "task":
		return e.opTask(pos, kv)
	case "award":
		return e.opAward(pos)
	case "height":
		if len(pos) != 1 {
			return "bad-op"
		}
		if w.P.L.GetMeta().TrunkHeight == int64(atoi(pos[0])) {
			return "ok"
		}
		return "differ"
	case "sync":
		return e.opSync()
	case "utxo":
		if e.base == nil || len(pos) != 3 {
			return "bad-op"
		}
		for _, r := range e.tablesOf(e.base).U {
			if fmt.Sprintf("%d.%d", r.Tx, r.Off) == pos[0] && r.Addr == pos[1] && r.Amt == pos[2] {
				return "ok"
			}
		}
		return "absent"
	case "key", "dkey":
		if e.base == nil || len(pos) != 2 {
			return "bad-op"
		}
		s := e.kvStr(e.base, pos[0])
		if strings.HasSuffix(s, "@"+pos[1]) && (strings.HasPrefix(s, "DEL@") == (op == "dkey")) {
			return "ok"
		}
		return "differ"
	case "ptx":
		if len(pos) < 1 {
			return "bad-op"
		}
		id := atoi(pos[0])
		for _, t := range e.snapPool {
			if t.Idx == id {
				if strings.TrimSpace(strings.TrimPrefix(line, "ptx "+pos[0])) != t.body() {
					return "differ"
				}
				return "ok"
			}
		}
		return "reject"
	case "graph":
		return edgesStr(e.snapGraph)
	case "sample":
		return e.opSample(atoi(pos[0]))
	case "order":
		o := parseIDs(strings.Join(pos, ""))
		if isPerm(o, e.snapNodes) && firstViolated(o, realEdges(e.snapGraph)) == nil {
			return "possible"
		}
		return "impossible"
	case "replay":
		return e.opReplay(parseIDs(strings.Join(pos, "")))
	case "rawsort":
		return e.opRawSort(parseIDs(kv["nodes"]), kv["e"])
	}
	return "bad-op"
}

func realEdges(g [][2]int) []edge {
	es := make([]edge, len(g))
	for i, x := range g {
		es[i] = edge{x[0], x[1], "graph"}
	}
	return es
}

// ---------------------------------------------------------------- ops

// lazy: the producer only confirms the block in its ledger (Miner.batchConfirmBlock); its state follows when the next
// mining round walks to the ledger tip.
func (e *Exec) opForeign(ids []int, lazy bool) string {
	w := e.w
	blk, err := e.formatBlockT(w.R, w.Miners[1], ids, true)
	if err != nil {
		return "error:" + err.Error()
	}
	e.blockIDs(blk, "m1")
	// a generated peer block must be valid for a node without pending transactions: try it on a copy first
	e.seq++
	c, err := w.R.OpenCopy(e.scratch, fmt.Sprintf("fc%d", e.seq))
	if err != nil {
		return "error:" + err.Error()
	}
	registerTick(c)
	stage, err := e.receive(c, blk, true)
	kvmem.Drop(c.Root)
	if err != nil {
		return "error:invalid-peer-block-" + stage
	}
	if stage, err := e.receive(w.R, blk, true); err != nil {
		return "error:replica-" + stage
	}
	if lazy {
		for i, tx := range blk.Transactions {
			if !w.P.L.IsValidTx(i, tx, blk) {
				return "error:producer-validtx"
			}
		}
		if ok, _ := w.P.L.VerifyBlock(blk, "xv"); !ok {
			return "error:producer-verify"
		}
		if st := w.P.L.ConfirmBlock(chainlib.CloneBlock(blk), false); !st.Succ {
			return "error:producer-confirm"
		}
		e.out.Count("foreign-block-lazy")
		return "-"
	}
	if stage, err := e.receive(w.P, blk, true); err != nil {
		return "error:producer-" + stage
	}
	e.reconcile()
	e.out.Count("foreign-block")
	return "-"
}

func (e *Exec) opSync() string {
	w := e.w
	if !bytes.Equal(w.P.S.GetLatestBlockid(), w.R.S.GetLatestBlockid()) {
		return "error:tips-differ"
	}
	real, err := e.realPool()
	if err != nil {
		e.violate("pool-order-failed", "GetUnconfirmedTx fails on a pool of admitted transactions: "+err.Error())
		return "error:pool"
	}
	// pool membership: exactly the admitted transactions are pending
	a := append([]int{}, e.admitted...)
	b := append([]int{}, real...)
	sort.Ints(a)
	sort.Ints(b)
	if idsStr(a) != idsStr(b) {
		e.violate("pool-membership", fmt.Sprintf("pending set %v differs from the admitted transactions %v", b, a))
		e.reconcile()
	}
	if e.base != nil {
		kvmem.Drop(e.base.Root)
	}
	e.seq++
	if e.base, err = w.R.OpenCopy(e.scratch, fmt.Sprintf("base%d", e.seq)); err != nil {
		return "error:" + err.Error()
	}
	registerTick(e.base)
	e.snapPool, e.snapNodes = nil, nil
	for _, i := range e.admitted {
		e.snapPool = append(e.snapPool, w.Txs[i])
		e.snapNodes = append(e.snapNodes, i)
	}
	e.snapSpec = specEdges(e.snapPool)
	e.snapGraph = nil
	_, g, err := w.P.S.VerifPoolGraph()
	if err != nil {
		return "error:" + err.Error()
	}
	for u, vs := range g {
		for _, v := range vs {
			ui, ok1 := w.TxByID[u]
			vi, ok2 := w.TxByID[v]
			if !ok1 || !ok2 {
				ui, vi = -1, -1
			}
			e.snapGraph = append(e.snapGraph, [2]int{ui, vi})
		}
	}
	sort.Slice(e.snapGraph, func(i, j int) bool {
		if e.snapGraph[i][0] != e.snapGraph[j][0] {
			return e.snapGraph[i][0] < e.snapGraph[j][0]
		}
		return e.snapGraph[i][1] < e.snapGraph[j][1]
	})
	// oracle: the graph records every dependency and anti-dependency of the property
	have := map[[2]int]bool{}
	for _, x := range e.snapGraph {
		have[x] = true
	}
	for _, s := range e.snapSpec {
		if !have[[2]int{s.U, s.V}] {
			if s.Kind == "anti" {
				e.violate("graph-misses-antidependency", fmt.Sprintf("tx %d only reads a key version that tx %d overwrites, but the pool graph has no edge %d>%d", s.U, s.V, s.U, s.V))
			} else {
				e.violate("graph-misses-dependency", fmt.Sprintf("tx %d consumes an output / key version of tx %d, but the pool graph has no edge %d>%d", s.V, s.U, s.U, s.V))
			}
		}
	}
	e.snapKeys = append([]string{}, w.Keys...)
	e.snapP = e.tablesOf(w.P)
	e.sampled, e.packed = nil, nil
	return "-"
}

func (e *Exec) checkOrder(o []int, who string) {
	if !isPerm(o, e.snapNodes) {
		e.violate("order-not-permutation", fmt.Sprintf("%s yields %v, not a permutation of the pending transactions %v", who, o, e.snapNodes))
		return
	}
	if v := firstViolated(o, e.snapSpec); v != nil {
		if v.Kind == "anti" {
			e.violate("order-violates-antidependency", fmt.Sprintf("%s yields %v: tx %d overwrites a key version that tx %d only reads, but comes first", who, o, v.V, v.U))
		} else {
			e.violate("order-violates-dependency", fmt.Sprintf("%s yields %v: tx %d consumes an output / key version of tx %d, but comes first", who, o, v.V, v.U))
		}
	}
}

func (e *Exec) opSample(n int) string {
	seen := map[string]bool{}
	for _, s := range e.sampled {
		seen[idsStr(s)] = true
	}
	for i := 0; i < n; i++ {
		o, err := e.realPool()
		if err != nil {
			e.violate("pool-order-failed", "GetUnconfirmedTx fails on a pool of admitted transactions: "+err.Error())
			return "-"
		}
		if !seen[idsStr(o)] {
			seen[idsStr(o)] = true
			e.sampled = append(e.sampled, o)
			e.checkOrder(o, "GetUnconfirmedTx")
		}
	}
	e.out.Count(fmt.Sprintf("distinct-orders-sampled:%d", minInt(len(e.sampled), 9)))
	return "-"
}

func minInt(a, b int) int {
	if a < b {
		return a
	}
	return b
}

// opReplay: a block of the producer with the given pending transactions in the given order is handed to a node that
// never saw them (a copy of the replica as it was at `sync`).
func (e *Exec) opReplay(order []int) string {
	w := e.w
	if e.base == nil {
		return "bad-op"
	}
	e.replays++
	blk, err := e.formatBlock(e.base, w.Miners[0], order)
	if err != nil {
		return "error:" + err.Error()
	}
	ids := e.blockIDs(blk, "m0")
	e.seq++
	c, err := e.base.OpenCopy(e.scratch, fmt.Sprintf("rc%d", e.seq))
	if err != nil {
		return "error:" + err.Error()
	}
	defer kvmem.Drop(c.Root)
	registerTick(c)
	full := isPerm(order, e.snapNodes)
	// a proper prefix of an order is what the size limit produces: it must be closed under the property's relation
	respects := firstViolated(order, e.snapSpec) == nil && noDup(order) && subset(order, e.snapNodes)
	stage, err := e.receive(c, blk, false) // a forced order is hypothetical: the size limit is packBlock's business
	if err != nil {
		if respects {
			key := "order-not-replayable"
			if stage != "walk" {
				key = "block-" + stage + "-failed"
			}
			e.violate(key, fmt.Sprintf("a block with the pending transactions in order %v (which respects every dependency and anti-dependency) is refused by a node that never saw them (%s: %v)", order, stage, err))
		} else if full && stage == "walk" && firstViolated(order, realEdges(e.snapGraph)) == nil {
			e.violate("graph-admits-unreplayable-order", fmt.Sprintf("the pool graph of the implementation allows the order %v, but a block with that order is refused by a node that never saw the transactions (%v)", order, err))
		}
		return "reject"
	}
	if !full {
		return "ok"
	}
	// expected tables: the producer's tables (pool applied) + the award + the fees of the block
	got := e.tablesOfKeys(c, e.snapKeys) // (keys that appeared after the snapshot are not part of the comparison)
	award := ids[0]
	awardAmt := w.specAward(blk.Height)
	var rest []uRow
	fees := int64(0)
	for _, r := range got.U {
		if r.Tx == award {
			if r.Addr != "m0" || r.Amt != fmt.Sprint(awardAmt) {
				e.violate("award-invalid", fmt.Sprintf("replica holds award row %s, expected m0:%d", r, awardAmt))
			}
			continue
		}
		if t := w.Txs[r.Tx]; t != nil && r.Off < len(t.Outs) && t.Outs[r.Off].Addr == "$" && r.Tx != 0 && inList(order, r.Tx) {
			if r.Addr != "m0" || r.Amt != fmt.Sprint(t.Outs[r.Off].Amt) {
				e.violate("fee-wrong", fmt.Sprintf("replica holds fee row %s, expected m0:%d", r, t.Outs[r.Off].Amt))
			}
			fees++
			continue
		}
		rest = append(rest, r)
	}
	wantFees := int64(0)
	for _, i := range order {
		for _, o := range w.Txs[i].Outs {
			if o.Addr == "$" {
				wantFees++
			}
		}
	}
	if fees != wantFees {
		e.violate("fee-wrong", fmt.Sprintf("replica holds %d fee rows after the block, the block pays %d fees", fees, wantFees))
	}
	exp := &tables{U: e.snapP.U, KV: e.snapP.KV}
	g2 := &tables{U: rest, KV: got.KV}
	tp, _ := new(big.Int).SetString(e.snapP.Total, 10)
	tg, _ := new(big.Int).SetString(got.Total, 10)
	exp.Total = new(big.Int).Add(tp, big.NewInt(awardAmt)).String()
	g2.Total = tg.String()
	if exp.String() != g2.String() {
		if respects {
			e.violate("replica-state-differs", fmt.Sprintf("order %v: replica after the block {%s} vs producer's pending state + award + fees {%s}", order, g2, exp))
		}
		return "differ"
	}
	return "ok"
}

func inList(l []int, x int) bool {
	for _, y := range l {
		if y == x {
			return true
		}
	}
	return false
}
func noDup(l []int) bool {
	s := map[int]bool{}
	for _, x := range l {
		if s[x] {
			return false
		}
		s[x] = true
	}
	return true
}
func subset(l, of []int) bool {
	for _, x := range l {
		if !inList(of, x) {
			return false
		}
	}
	return true
}

// opPack: the real packBlock on the producer, confirmBlockForMiner's ledger + state steps, the replica receives the block.
func (e *Exec) opPack() string {
	w := e.w
	if !bytes.Equal(w.P.S.GetLatestBlockid(), w.R.S.GetLatestBlockid()) {
		return "error:tips-differ"
	}
	poolBefore, _ := e.realPool()
	spec := specEdges(e.txInfos(e.admitted))
	height := w.P.L.GetMeta().TrunkHeight + 1
	blk, err := w.Miner.VerifPackBlock(w.P.Ctx, height, time.Now(), nil)
	if err != nil {
		e.violate("pack-failed", "packBlock fails on a pool of admitted transactions: "+err.Error())
		e.broken = true
		return "-"
	}
	ids := e.blockIDs(blk, "m0")
	e.out.Count(fmt.Sprintf("packed-txs:%d", minInt(len(ids)-1, 9)))
	e.checkBlockShape(blk, "packBlock")
	// the packed transactions: pending ones, each once, closed under the property's relation, in an order that respects it
	var body []int
	for i, tx := range blk.Transactions {
		if !tx.Coinbase && !tx.Autogen {
			body = append(body, ids[i])
		}
	}
	e.packed = body
	if !noDup(body) || !subset(body, poolBefore) {
		e.violate("order-not-permutation", fmt.Sprintf("packBlock packs %v out of the pending transactions %v", body, poolBefore))
	} else if v := firstViolated(body, spec); v != nil {
		if v.Kind == "anti" {
			e.violate("order-violates-antidependency", fmt.Sprintf("packBlock packs %v: tx %d overwrites a key version that tx %d only reads, but comes first (or alone)", body, v.V, v.U))
		} else {
			e.violate("order-violates-dependency", fmt.Sprintf("packBlock packs %v: tx %d consumes an output / key version of tx %d, but comes first (or alone)", body, v.V, v.U))
		}
	}
	if len(body) < len(poolBefore) {
		e.out.Count("packed-prefix-only")
	}
	// producer: confirmBlockForMiner (ledger, then PlayForMiner)
	if st := w.P.L.ConfirmBlock(chainlib.CloneBlock(blk), false); !st.Succ {
		e.violate("producer-confirm-failed", fmt.Sprintf("the producer's ledger refuses its own block: %v", st.Error))
		e.broken = true
		return "-"
	}
	if err := w.P.S.PlayForMiner(blk.Blockid); err != nil {
		e.violate("producer-play-failed", "PlayForMiner fails on the producer's own block: "+err.Error())
		e.broken = true
		return "-"
	}
	// replica
	if stage, err := e.receive(w.R, blk, true); err != nil {
		key := "packed-block-not-replayable"
		if stage != "walk" {
			key = "block-" + stage + "-failed"
		}
		e.violate(key, fmt.Sprintf("the block the producer packed (txs %v) is refused by a node that never saw its transactions (%s: %v)", body, stage, err))
		e.broken = true // the two nodes cannot be kept aligned: end of case
		return "-"
	}
	e.reconcile()
	left, _ := e.realPool()
	if len(left) == 0 {
		// (with transactions left pending by the size limit the producer's tables are ahead of the chain; the
		// comparison then happens after the block that empties the pool)
		a, b := e.observe(w.P), e.observe(w.R)
		if a != b {
			e.violate("replica-state-differs", fmt.Sprintf("after the packed block (txs %v): producer {%s} vs replica {%s}", body, a, b))
		}
		e.out.Count("packed-block-states-compared")
	}
	want := []int{}
	for _, i := range poolBefore {
		if !inList(body, i) {
			want = append(want, i)
		}
	}
	sort.Ints(left)
	sort.Ints(want)
	if idsStr(left) != idsStr(want) {
		e.violate("pool-membership", fmt.Sprintf("after the packed block the pending set is %v, expected %v", left, want))
	}
	return "-"
}

func (e *Exec) txInfos(ids []int) []*TxInfo {
	var r []*TxInfo
	for _, i := range ids {
		r = append(r, e.w.Txs[i])
	}
	return r
}

// opRawSort: the real TopSortDFS on an arbitrary graph (several runs: Go's map order varies between them).
func (e *Exec) opRawSort(nodes []int, es string) string {
	var edges [][2]int
	for _, s := range splitList(es) {
		p := strings.Split(s, ">")
		if len(p) == 2 {
			edges = append(edges, [2]int{atoi(p[0]), atoi(p[1])})
		}
	}
	all := append([]int{}, nodes...)
	for _, x := range edges {
		if !inList(all, x[1]) {
			all = append(all, x[1])
		}
	}
	acyclic := randomExtension(all, edges, xvlib.NewRng(1)) != nil
	ans := ""
	for run := 0; run < 6; run++ {
		g := txn.TxGraph{}
		for _, n := range nodes {
			g[fmt.Sprintf("n%d", n)] = []string{}
		}
		for _, x := range edges {
			g[fmt.Sprintf("n%d", x[0])] = append(g[fmt.Sprintf("n%d", x[0])], fmt.Sprintf("n%d", x[1]))
		}
		order, cyclic, sizes := txn.TopSortDFS(g)
		var a string
		if cyclic {
			a = "cyclic"
			if acyclic {
				e.violate("topsort-cycle-flag-wrong", "TopSortDFS reports a cycle in an acyclic graph")
			}
		} else {
			if !acyclic {
				e.violate("topsort-cycle-flag-wrong", "TopSortDFS reports no cycle in a cyclic graph")
			}
			var o []int
			for _, s := range order {
				o = append(o, atoi(strings.TrimPrefix(s, "n")))
			}
			if !isPerm(o, all) {
				e.violate("order-not-permutation", fmt.Sprintf("TopSortDFS yields %v for nodes %v", o, all))
			} else if v := firstViolated(o, realEdges(edges)); v != nil {
				e.violate("order-violates-dependency", fmt.Sprintf("TopSortDFS yields %v although %d>%d is an edge", o, v.U, v.V))
			}
			sort.Ints(sizes)
			a = "ok sizes=" + idsStr(sizes)
		}
		if ans != "" && a != ans {
			e.violate("topsort-unstable", "TopSortDFS answers differ between runs on the same graph: "+ans+" / "+a)
		}
		ans = a
	}
	return ans
}
