package main

// The environment of the real miner (kernel/engines/xuperos/miner): a scriptable consensus (the harness decides what
// ProcessBeforeMiner answers: no truncation / truncate to a given block; what it writes into the block's consensus
// storage), a network that captures what the miner broadcasts, a generic pre-execution of kernel contract methods
// ($timer_task.Add) and the trigger target of the generated timer tasks ($xvkv.tick).

import (
	"encoding/json"
	"fmt"
	"strings"
	"sync"
	"time"

	"github.com/xuperchain/xupercore/bcs/ledger/xledger/state/xmodel"
	lpb "github.com/xuperchain/xupercore/bcs/ledger/xledger/xldgpb"
	xctx "github.com/xuperchain/xupercore/kernel/common/xcontext"
	"github.com/xuperchain/xupercore/kernel/consensus/base"
	cctx "github.com/xuperchain/xupercore/kernel/consensus/context"
	"github.com/xuperchain/xupercore/kernel/contract"
	nctx "github.com/xuperchain/xupercore/kernel/network/context"
	"github.com/xuperchain/xupercore/kernel/network/p2p"
	"github.com/xuperchain/xupercore/protos"

	"xv/chainlib"
	"xv/xvlib"
)

// ---------------------------------------------------------------- consensus

// scriptCons is the consensus the miner of a harness node talks to.
type scriptCons struct {
	mu         sync.Mutex
	truncateTo []byte // answered (once) by the next ProcessBeforeMiner
	storage    []byte // consensus storage (json of state.ConsensusStorage) handed to the miner
	before     int    // calls of ProcessBeforeMiner
	calculated [][]byte
	confirmed  [][]byte
	// restamp: CalculateBlock changes the block the way a proof-of-work consensus does (new nonce, hence a new block
	// id, signed again with the miner's key); one round
	restamp bool
	signer  *xvlib.Account
}

func (c *scriptCons) CompeteMaster(height int64) (bool, bool, error) { return true, false, nil }
func (c *scriptCons) CheckMinerMatch(ctx xctx.XContext, block cctx.BlockInterface) (bool, error) {
	return true, nil
}
func (c *scriptCons) ProcessBeforeMiner(timestamp int64) ([]byte, []byte, error) {
	c.mu.Lock()
	defer c.mu.Unlock()
	c.before++
	t := c.truncateTo
	c.truncateTo = nil
	return t, c.storage, nil
}
func (c *scriptCons) CalculateBlock(block cctx.BlockInterface) error {
	c.mu.Lock()
	defer c.mu.Unlock()
	if c.restamp {
		c.restamp = false
		if err := block.SetItem("nonce", int32(7+len(c.calculated))); err != nil {
			return err
		}
		id, err := block.MakeBlockId()
		if err != nil {
			return err
		}
		sig, err := xvlib.Crypto().SignECDSA(c.signer.Pri, id)
		if err != nil {
			return err
		}
		if err := block.SetItem("sign", sig); err != nil {
			return err
		}
	}
	c.calculated = append(c.calculated, append([]byte{}, block.GetBlockid()...))
	return nil
}
func (c *scriptCons) ProcessConfirmBlock(block cctx.BlockInterface) error {
	c.mu.Lock()
	defer c.mu.Unlock()
	c.confirmed = append(c.confirmed, append([]byte{}, block.GetBlockid()...))
	return nil
}
func (c *scriptCons) GetConsensusStatus() (base.ConsensusStatus, error) {
	return nil, fmt.Errorf("scripted consensus has no status")
}

// ---------------------------------------------------------------- network

// captureNet records what the miner broadcasts (Miner.broadcastBlock runs in its own goroutine).
type captureNet struct {
	ch chan *protos.XuperMessage
}

func newCaptureNet() *captureNet { return &captureNet{ch: make(chan *protos.XuperMessage, 16)} }

func (n *captureNet) Start() {}
func (n *captureNet) Stop()  {}
func (n *captureNet) SendMessage(_ xctx.XContext, m *protos.XuperMessage, _ ...p2p.OptionFunc) error {
	select {
	case n.ch <- m:
	default:
	}
	return nil
}
func (n *captureNet) SendMessageWithResponse(xctx.XContext, *protos.XuperMessage, ...p2p.OptionFunc) ([]*protos.XuperMessage, error) {
	return nil, fmt.Errorf("no peers")
}
func (n *captureNet) NewSubscriber(protos.XuperMessage_MessageType, interface{}, ...p2p.SubscriberOption) p2p.Subscriber {
	return nil
}
func (n *captureNet) Register(p2p.Subscriber) error   { return nil }
func (n *captureNet) UnRegister(p2p.Subscriber) error { return nil }
func (n *captureNet) Context() *nctx.NetCtx           { return nil }
func (n *captureNet) PeerInfo() protos.PeerInfo       { return protos.PeerInfo{} }

// drain empties the capture channel (messages of earlier rounds).
func (n *captureNet) drain() {
	for {
		select {
		case <-n.ch:
		default:
			return
		}
	}
}

// nextBlock waits for the block the miner broadcasts (full-block mode: the message carries the block).
func (n *captureNet) nextBlock(wait time.Duration) (*lpb.InternalBlock, error) {
	select {
	case m := <-n.ch:
		blk := &lpb.InternalBlock{}
		if err := p2p.Unmarshal(m, blk); err != nil {
			return nil, err
		}
		if m.GetHeader().GetType() != protos.XuperMessage_SENDBLOCK {
			return blk, fmt.Errorf("broadcast type %v", m.GetHeader().GetType())
		}
		return blk, nil
	case <-time.After(wait):
		return nil, fmt.Errorf("nothing broadcast within %v", wait)
	}
}

// ---------------------------------------------------------------- timer tasks

const (
	timerContract = "$timer_task"
	timerBucket   = "timer"
	timerKeyPfx   = "T." // op-line name of a key of the timer bucket: T.<key>
)

// bucketOf maps the op-line name of a key to (bucket, key).
func bucketOf(name string) (string, string) {
	if strings.HasPrefix(name, timerKeyPfx) {
		return timerBucket, name[len(timerKeyPfx):]
	}
	return chainlib.KVBucket, name
}

// nameOfKey is the inverse of bucketOf ("" for buckets the harness does not track).
func nameOfKey(bucket string, key []byte) string {
	switch bucket {
	case chainlib.KVBucket:
		return string(key)
	case timerBucket:
		return timerKeyPfx + string(key)
	}
	return ""
}

// tick is the method the generated timer tasks trigger: $xvkv.tick(args = json {"prog": "<$xvkv program>"}); the
// program language is the one of $xvkv.run restricted to get / put / del.
func tick(ctx contract.KContext) (*contract.Response, error) {
	var a map[string]interface{}
	if err := json.Unmarshal(ctx.Args()["args"], &a); err != nil {
		return nil, err
	}
	prog, _ := a["prog"].(string)
	for _, st := range strings.Split(prog, ";") {
		w := strings.Fields(st)
		if len(w) == 0 {
			continue
		}
		switch {
		case w[0] == "get" && len(w) == 2:
			ctx.Get(chainlib.KVBucket, []byte(w[1]))
		case w[0] == "put" && len(w) == 3:
			if err := ctx.Put(chainlib.KVBucket, []byte(w[1]), []byte(w[2])); err != nil {
				return nil, err
			}
		case w[0] == "del" && len(w) == 2:
			if err := ctx.Del(chainlib.KVBucket, []byte(w[1])); err != nil {
				return nil, err
			}
		default:
			return nil, fmt.Errorf("tick: bad statement %q", st)
		}
	}
	return &contract.Response{Status: 200}, nil
}

func registerTick(n *chainlib.Node) {
	defer func() { recover() }()
	n.CM.GetKernRegistry().RegisterKernMethod(chainlib.KVContract, "tick", tick)
}

// preExecKernel pre-executes one kernel contract method in a sandbox over the node's live state (the steps of
// chainlib.PreExecKV for an arbitrary xkernel method).
func preExecKernel(n *chainlib.Node, initiator, contractName, method string, args map[string][]byte) *chainlib.PreExecResult {
	r := &chainlib.PreExecResult{}
	sb, err := n.CM.NewStateSandbox(&contract.SandboxConfig{XMReader: n.S.CreateXMReader(), UTXOReader: n.S.CreateUtxoReader()})
	if err != nil {
		r.Err = err
		return r
	}
	req := &protos.InvokeRequest{ModuleName: "xkernel", ContractName: contractName, MethodName: method, Args: args}
	ctx, err := n.CM.NewContext(&contract.ContextConfig{State: sb, Initiator: initiator, AuthRequire: []string{initiator},
		ResourceLimits: contract.MaxLimits, Module: req.ModuleName, ContractName: req.ContractName})
	if err != nil {
		r.Err = err
		return r
	}
	resp, err := ctx.Invoke(req.MethodName, req.Args)
	if err != nil {
		ctx.Release()
		r.Err = err
		return r
	}
	used := ctx.ResourceUsed()
	ctx.Release()
	r.Status = resp.Status
	r.Body = string(resp.Body)
	if err := sb.Flush(); err != nil {
		r.Err = err
		return r
	}
	rw := sb.RWSet()
	rq := *req
	rq.ResourceLimits = contract.ToPbLimits(used)
	r.Requests = []*protos.InvokeRequest{&rq}
	r.Inputs = xmodel.GetTxInputs(rw.RSet)
	r.Outputs = xmodel.GetTxOutputs(rw.WSet)
	return r
}

// timerAddArgs renders the arguments of $timer_task.Add for "at height h run the $xvkv program prog".
func timerAddArgs(h int, prog string) map[string][]byte {
	trig := map[string]interface{}{"height": h, "module": "xkernel", "contract": chainlib.KVContract, "method": "tick",
		"args": map[string]interface{}{"prog": prog}}
	b, _ := json.Marshal(trig)
	return map[string][]byte{"block_height": []byte(fmt.Sprint(h)), "trigger": b}
}
