package main

// Generator: pools built from the motifs the property names — dependency chains, diamonds, read-only sharers of a
// key followed by a writer (also of never-written and of deleted keys), key-version chains, fee payers, stale
// submissions, transactions evicted by a peer block, pools larger than the block size limit — then the check phase.

import (
	"fmt"
	"sort"
	"strings"

	"xv/xvlib"
)

type Gen struct {
	e     *Exec
	r     *xvlib.Rng
	out   *xvlib.Out
	tier  string
	canon []string
	// spendable outputs as the generator believes (confirmed or pending), per owner
	avail map[string][]InRef
	nkeys int
	vseq  int
	// a timer task exists in this case
	timers bool
	// the next `mine` line carries fault=<store> (one round)
	fault string
}

func (g *Gen) emit(line string) string {
	g.out.Begin(line) // (if the code under test kills the process, the case that was running is the failing input)
	a := g.e.exec(line)
	g.out.Emit(line, a)
	g.canon = append(g.canon, line)
	return a
}

func (g *Gen) user() string { return fmt.Sprintf("u%d", g.r.Intn(4)) }

func (g *Gen) take(owner string) (InRef, bool) {
	l := g.avail[owner]
	if len(l) == 0 {
		return InRef{}, false
	}
	i := g.r.Intn(len(l))
	x := l[i]
	g.avail[owner] = append(append([]InRef{}, l[:i]...), l[i+1:]...)
	return x, true
}

func (g *Gen) anyOwner() string {
	var os []string
	for o, l := range g.avail {
		if len(l) > 0 && o[0] == 'u' {
			os = append(os, o)
		}
	}
	sort.Strings(os)
	if len(os) == 0 {
		return ""
	}
	return os[g.r.Intn(len(os))]
}

// xfer renders + submits a transfer of one output of `from` to the given receivers (amount split evenly, optional fee);
// returns the index of the new transaction (or -1).
func (g *Gen) xfer(kind string, from string, in InRef, tos []string, prog string, pad int) int {
	w := g.e.w
	idx := w.freshIdx()
	left := in.Amt
	var outs []OutInfo
	if w.Fee && g.r.Chance(1, 2) && left > int64(len(tos))+3 {
		fee := int64(1 + g.r.Intn(3))
		outs = append(outs, OutInfo{"$", fee})
		left -= fee
	}
	per := left / int64(len(tos))
	for i, to := range tos {
		a := per
		if i == len(tos)-1 {
			a = left - per*int64(len(tos)-1)
		}
		outs = append(outs, OutInfo{to, a})
	}
	// the fee output is not always first
	if len(outs) > 1 && outs[0].Addr == "$" && g.r.Bool() {
		outs[0], outs[len(outs)-1] = outs[len(outs)-1], outs[0]
	}
	t := &TxInfo{Idx: idx, From: from, Ins: []InRef{in}, Outs: outs, Prog: prog, Pad: pad}
	line := fmt.Sprintf("%s %d from=%s", kind, idx, from)
	if prog != "" {
		line += " prog=" + prog
	}
	if pad > 0 {
		line += fmt.Sprintf(" pad=%d", pad)
	}
	line += " " + t.body()
	g.emit(line)
	if kind == "atx" && inList(g.e.admitted, idx) {
		for off, o := range outs {
			if o.Addr != "$" && o.Amt > 0 {
				g.avail[o.Addr] = append(g.avail[o.Addr], InRef{idx, off, o.Addr, o.Amt})
			}
		}
	}
	return idx
}

func (g *Gen) ktx(kind string, from string, prog string) int {
	idx := g.e.w.freshIdx()
	g.emit(fmt.Sprintf("%s %d from=%s prog=%s", kind, idx, from, prog))
	return idx
}

func (g *Gen) val() string { g.vseq++; return fmt.Sprintf("v%d", g.vseq) }

// the keys the pool motifs work on (the world also tracks timer-bucket rows and the keys z0..z2 that only timer tasks write)
var poolKeys = []string{"k0", "k1", "k2", "k3", "k4", "k5"}

func (g *Gen) key() string { return poolKeys[g.r.Intn(len(poolKeys))] }

func (g *Gen) height() int { return int(g.e.w.P.L.GetMeta().TrunkHeight) }

// timerAdd submits a transaction that registers a timer task ($timer_task.Add): at height h run prog.
func (g *Gen) timerAdd(h int, prog string) int {
	idx := g.e.w.freshIdx()
	g.emit(fmt.Sprintf("atx %d from=%s timer=%d:%s", idx, g.user(), h, prog))
	g.timers = true
	return idx
}

// timerProg draws the program of a timer task: writes to keys only timer tasks use (cannot conflict with the pool),
// or reads / writes / deletes of the keys the pool motifs work on (conflicts with pending transactions happen).
func (g *Gen) timerProg(shared bool) string {
	z := fmt.Sprintf("z%d", g.r.Intn(3))
	if !shared {
		if g.r.Chance(1, 4) {
			return "put_" + z + "_" + g.val() + "+put_z" + fmt.Sprint(g.r.Intn(3)) + "_" + g.val()
		}
		return "put_" + z + "_" + g.val()
	}
	switch g.r.Intn(4) {
	case 0:
		return "get_" + g.key() + "+put_" + z + "_" + g.val()
	case 1:
		return "put_" + g.key() + "_" + g.val()
	case 2:
		return "del_" + g.key()
	}
	return "get_" + g.key() + "+put_" + g.key() + "_" + g.val()
}

// pendingTimerTx reports whether a pending transaction touches the timer bucket.
func (g *Gen) pendingTimerTx() bool {
	for _, i := range g.e.admitted {
		t := g.e.w.Txs[i]
		for _, k := range t.KOut {
			if strings.HasPrefix(k.Key, timerKeyPfx) {
				return true
			}
		}
	}
	return false
}

// sharedTaskDue: a timer task of the producer's live state is due at height h and its program touches a key the pool
// motifs work on. (In a round that walks the state — truncation, state behind the ledger — the pending transactions are
// re-admitted by a goroutine alongside packBlock; with such a task the outcome depends on that race.)
func (g *Gen) sharedTaskDue(h int) bool {
	ts, err := g.e.tasksOf(g.e.w.P)
	if err != nil {
		return true
	}
	for _, t := range ts {
		if t.Height != h {
			continue
		}
		for _, k := range poolKeys {
			if strings.Contains(t.Prog, " "+k) {
				return true
			}
		}
	}
	return false
}

// mine emits one round of the real miner, preceded by the claims the model needs: the trunk height and the timer
// tasks of the producer's live state.
func (g *Gen) mine(trunc int) {
	e := g.e
	if e.broken {
		return
	}
	g.emit(fmt.Sprintf("height %d", g.height()))
	if ts, err := e.tasksOf(e.w.P); err == nil {
		for _, t := range ts {
			if t.ConfirmedH >= 0 {
				g.emit(fmt.Sprintf("task %d %d c=%d", t.Height, t.ID, t.ConfirmedH))
			} else {
				g.emit(fmt.Sprintf("task %d %d p", t.Height, t.ID))
			}
		}
	}
	line := "mine"
	if g.fault != "" {
		line += " fault=" + g.fault
		g.fault = ""
	} else if trunc > 0 {
		line += fmt.Sprintf(" trunc=%d", trunc)
	} else if g.r.Chance(1, 6) {
		line += " fresh=1"
	}
	if g.r.Chance(1, 6) {
		line += " pow=1" // the consensus re-stamps the block in CalculateBlock (new nonce, id, signature)
	}
	g.emit(line)
}

// a timer task registered by a pending transaction: due at the very next block (while its registration is still
// pending) or later
func (g *Gen) motifTimer() int {
	d := 1 + g.r.Intn(3)
	g.timerAdd(g.height()+d, g.timerProg(g.r.Chance(1, 3)))
	return 1
}

// ---------- motifs (each returns roughly how many transactions it added)

func (g *Gen) motifChain() int {
	o := g.anyOwner()
	if o == "" {
		return 0
	}
	in, _ := g.take(o)
	n := 2 + g.r.Intn(3)
	cur, owner := in, o
	for i := 0; i < n; i++ {
		to := g.user()
		idx := g.xfer("atx", owner, cur, []string{to}, "", 0)
		// continue with the output just created
		l := g.avail[to]
		found := false
		for j := len(l) - 1; j >= 0; j-- {
			if l[j].Tx == idx {
				cur, owner = l[j], to
				g.avail[to] = append(append([]InRef{}, l[:j]...), l[j+1:]...)
				found = true
				break
			}
		}
		if !found {
			return i + 1
		}
	}
	g.avail[owner] = append(g.avail[owner], cur)
	return n
}

func (g *Gen) motifDiamond() int {
	o := g.anyOwner()
	if o == "" {
		return 0
	}
	in, _ := g.take(o)
	mid, end := g.user(), g.user()
	a := g.xfer("atx", o, in, []string{mid, mid}, "", 0)
	var legs []InRef
	l := g.avail[mid]
	var keep []InRef
	for _, x := range l {
		if x.Tx == a {
			legs = append(legs, x)
		} else {
			keep = append(keep, x)
		}
	}
	g.avail[mid] = keep
	if len(legs) != 2 {
		return 1
	}
	b := g.xfer("atx", mid, legs[0], []string{end}, "", 0)
	c := g.xfer("atx", mid, legs[1], []string{end}, "", 0)
	// join: one transaction spending both legs
	var ins []InRef
	keep = nil
	for _, x := range g.avail[end] {
		if x.Tx == b || x.Tx == c {
			ins = append(ins, x)
		} else {
			keep = append(keep, x)
		}
	}
	g.avail[end] = keep
	if len(ins) != 2 {
		return 3
	}
	w := g.e.w
	idx := w.freshIdx()
	to := g.user()
	t := &TxInfo{Idx: idx, From: end, Ins: ins, Outs: []OutInfo{{to, ins[0].Amt + ins[1].Amt}}}
	g.emit(fmt.Sprintf("atx %d from=%s %s", idx, end, t.body()))
	if inList(g.e.admitted, idx) {
		g.avail[to] = append(g.avail[to], InRef{idx, 0, to, ins[0].Amt + ins[1].Amt})
	}
	return 4
}

// read-only sharers of one key, then a writer (put or delete), optionally a reader of the new version
func (g *Gen) motifReadersWriter() int {
	k := g.key()
	n := 1 + g.r.Intn(3)
	for i := 0; i < n; i++ {
		prog := "get_" + k
		if g.r.Chance(1, 3) {
			prog += "+put_" + g.otherKey(k) + "_" + g.val()
		}
		g.ktx("atx", g.user(), prog)
	}
	cnt := n + 1
	if g.r.Chance(1, 4) {
		g.ktx("atx", g.user(), "del_"+k)
	} else {
		g.ktx("atx", g.user(), "put_"+k+"_"+g.val())
	}
	if g.r.Chance(1, 2) {
		g.ktx("atx", g.user(), "get_"+k)
		cnt++
	}
	return cnt
}

func (g *Gen) otherKey(k string) string {
	for {
		o := g.key()
		if o != k {
			return o
		}
	}
}

func (g *Gen) motifKeyChain() int {
	k := g.key()
	n := 2 + g.r.Intn(2)
	for i := 0; i < n; i++ {
		g.ktx("atx", g.user(), "put_"+k+"_"+g.val())
	}
	return n
}

// a contract transaction that also moves tokens (both kinds of dependency on one transaction)
func (g *Gen) motifMixed() int {
	o := g.anyOwner()
	if o == "" {
		return 0
	}
	in, _ := g.take(o)
	k := g.key()
	prog := "get_" + k
	if g.r.Bool() {
		prog = "put_" + k + "_" + g.val()
	}
	g.xfer("atx", o, in, []string{g.user()}, prog, 0)
	return 1
}

// stale submissions: a double spend and a transaction whose read version was overwritten before it was submitted
func (g *Gen) motifStale() int {
	cnt := 0
	if o := g.anyOwner(); o != "" {
		in, _ := g.take(o)
		g.xfer("atx", o, in, []string{g.user()}, "", 0)
		g.xfer("atx", o, in, []string{g.user()}, "", 0) // same output again: refused
		cnt++
	}
	k := g.key()
	held := g.ktx("dtx", g.user(), "get_"+k+"+put_"+g.otherKey(k)+"_"+g.val())
	g.ktx("atx", g.user(), "put_"+k+"_"+g.val())
	g.emit(fmt.Sprintf("submit %d", held)) // reads the overwritten version: refused
	return cnt + 1
}

// a peer block that conflicts with pending transactions: they and their dependents leave the pool
func (g *Gen) motifEvict() int {
	// the peer's transaction spends a confirmed output (one of the setup block)
	var in InRef
	o := ""
	for _, u := range []string{"u0", "u1", "u2", "u3"} {
		for j, x := range g.avail[u] {
			if x.Tx >= 1 && x.Tx <= 4 && o == "" {
				in, o = x, u
				g.avail[u] = append(append([]InRef{}, g.avail[u][:j]...), g.avail[u][j+1:]...)
			}
		}
	}
	if o == "" {
		return 0
	}
	var ftxs []int
	ftxs = append(ftxs, g.xfer("dtx", o, in, []string{g.user()}, "", 0))
	y := g.xfer("atx", o, in, []string{g.user()}, "", 0)
	// a dependent of y
	for owner, l := range g.avail {
		for j, x := range l {
			if x.Tx == y {
				g.avail[owner] = append(append([]InRef{}, l[:j]...), l[j+1:]...)
				g.xfer("atx", owner, x, []string{g.user()}, "", 0)
				break
			}
		}
	}
	// a key no pending transaction has written: the peer's transaction must cite the confirmed version
	var free []string
	for _, k := range poolKeys { // (not the keys timer tasks write: the peer's block carries the timer transaction of its height)
		if g.e.kvStr(g.e.w.P, k) == g.e.kvStr(g.e.w.R, k) {
			free = append(free, k)
		}
	}
	if g.r.Bool() && len(free) > 0 {
		k := free[g.r.Intn(len(free))]
		ftxs = append(ftxs, g.ktx("dtx", g.user(), "put_"+k+"_"+g.val()))
		g.ktx("atx", g.user(), "get_"+k)
		g.ktx("atx", g.user(), "put_"+k+"_"+g.val())
	}
	// unrelated pending transactions survive
	g.motifReadersWriterSmall()
	g.emit("fblock txs=" + idsStr(ftxs))
	// the generator's view of spendable outputs: drop what is no longer there
	g.pruneAvail()
	return 2
}

func (g *Gen) motifReadersWriterSmall() {
	k := g.key()
	g.ktx("atx", g.user(), "get_"+k)
	g.ktx("atx", g.user(), "put_"+k+"_"+g.val())
}

func (g *Gen) pruneAvail() {
	have := map[string]bool{}
	for _, r := range g.e.tablesOf(g.e.w.P).U {
		have[fmt.Sprintf("%d.%d", r.Tx, r.Off)] = true
	}
	for o, l := range g.avail {
		var keep []InRef
		for _, x := range l {
			if have[fmt.Sprintf("%d.%d", x.Tx, x.Off)] {
				keep = append(keep, x)
			}
		}
		g.avail[o] = keep
	}
}

// ---------- scenario

func (g *Gen) scenario(profile string) {
	g.canon = nil
	g.timers = false
	fee := g.r.Bool()
	reset := "reset fee=0"
	gap := 0
	if fee {
		reset = "reset fee=1"
		// the award schedule: configured award, decay by a (dyadic) ratio every gap blocks
		if g.r.Chance(3, 4) {
			reset += fmt.Sprintf(" award=%d", []int{50, 1000, 37, 64, 1}[g.r.Intn(5)])
			if g.r.Chance(4, 5) {
				gap = 1 + g.r.Intn(3)
				reset += fmt.Sprintf(" decay=%d:%s", gap, []string{"1/2", "3/4", "1/4", "1/1", "5/4", "0/1", "7/8"}[g.r.Intn(7)])
			}
		}
	}
	big := profile == "size"
	if big {
		reset += " mb=1"
	}
	if a := g.emit(reset); a != "ok" {
		g.out.Stats.Notes = append(g.out.Stats.Notes, "reset failed: "+a)
		return
	}
	if fee {
		for _, h := range []int{0, 1 + g.r.Intn(3), gap*2 + g.r.Intn(2), 4 + g.r.Intn(9)} {
			g.emit(fmt.Sprintf("award %d", h))
		}
	}
	g.avail = map[string][]InRef{}
	// rounds before the pool under test: the setup block, sometimes one or two more blocks
	filler := 0
	if !big && g.r.Chance(1, 3) {
		filler = 1 + g.r.Intn(2)
	}
	// setup block: every user splits its genesis output; four keys are created; sometimes a timer task is registered
	// that is due in the block that packs the pool under test
	for i := 0; i < 4; i++ {
		u := fmt.Sprintf("u%d", i)
		g.xfer("atx", u, InRef{0, i, u, 1000}, []string{u, u, u, u}, "", 0)
	}
	g.ktx("atx", "u0", "put_k0_a+put_k1_b")
	g.ktx("atx", "u1", "put_k2_c+put_k3_d")
	if !big && g.r.Chance(1, 4) {
		g.timerAdd(2+filler, g.timerProg(g.r.Chance(1, 2)))
		if g.r.Chance(1, 3) {
			g.timerAdd(2+filler+g.r.Intn(2), g.timerProg(false))
		}
	}
	g.mine(0)
	g.pruneAvail()
	for i := 0; i < filler; i++ {
		switch g.r.Intn(3) {
		case 0:
			g.motifReadersWriterSmall()
		case 1:
			g.motifChain()
		}
		if g.r.Chance(1, 3) && !(len(g.e.admitted) > 0 && g.sharedTaskDue(g.height()+2)) {
			// a peer block reaches the producer's ledger only; the round has to walk the state to it first (the pending
			// transactions are rolled back and re-admitted by that walk)
			g.emit("fblock txs= lazy=1")
		}
		g.mine(0)
		g.pruneAvail()
	}

	target := 2 + g.r.Intn(5)
	if g.r.Chance(1, 5) {
		target = 7 + g.r.Intn(6)
	}
	n := 0
	if big {
		// a pool larger than the block limit (0.8 MB of transactions): dependency chains of padded transfers whose
		// sizes are chosen so that a transaction in the middle of a chain no longer fits while its (small)
		// dependents would
		shapes := [][]int{{340000, 340000, 200000, 0, 0}, {150000, 0}}
		if g.r.Bool() {
			shapes = [][]int{{260000, 260000, 260000, 100000, 0}, {0, 300000, 0}}
		}
		for _, pads := range shapes {
			o := g.anyOwner()
			in, _ := g.take(o)
			cur, owner := in, o
			for _, pad := range pads {
				if pad > 0 {
					pad += g.r.Intn(20000)
				}
				to := g.user()
				idx := g.xfer("atx", owner, cur, []string{to}, "", pad)
				l := g.avail[to]
				for j := len(l) - 1; j >= 0; j-- {
					if l[j].Tx == idx {
						cur, owner = l[j], to
						g.avail[to] = append(append([]InRef{}, l[:j]...), l[j+1:]...)
						break
					}
				}
			}
		}
		g.motifReadersWriterSmall()
	} else {
		for tries := 0; n < target && tries < 12; tries++ {
			switch g.r.Intn(10) {
			case 9:
				if g.r.Chance(1, 2) {
					n += g.motifTimer()
				} else {
					n += g.motifReadersWriter()
				}
			case 0, 1:
				n += g.motifReadersWriter()
			case 2:
				n += g.motifChain()
			case 3:
				n += g.motifDiamond()
			case 4:
				n += g.motifKeyChain()
			case 5:
				n += g.motifMixed()
			case 6:
				n += g.motifStale()
			case 7:
				// (the peer's block carries the timer transaction of its height: no task on pool keys may be due there)
				if (tries == 0 || g.r.Chance(1, 3)) && !g.sharedTaskDue(g.height()+1) {
					n += g.motifEvict()
				}
			case 8:
				n += g.motifReadersWriter()
			}
		}
	}
	g.check()
	// a second round on top of the packed block (the pool left over by a size-limited block, or a fresh small pool)
	if big || g.r.Chance(1, 3) {
		if !big {
			g.motifReadersWriterSmall()
			g.motifMixed()
		}
		g.check()
	}
	g.out.Case(strings.Join(g.canon, "\n"), len(g.e.snapNodes) >= 2)
}

// check: snapshot, model-facing description of the start state and the pool, graph, sampled orders, enumerated
// orders forced onto replicas, the real packed block.
func (g *Gen) check() {
	e := g.e
	if e.broken {
		return
	}
	if a := g.emit("sync"); a != "-" {
		g.out.Stats.Notes = append(g.out.Stats.Notes, "sync failed: "+a)
		return
	}
	bt := e.tablesOf(e.base)
	for _, r := range bt.U {
		g.emit(fmt.Sprintf("utxo %d.%d %s %s", r.Tx, r.Off, r.Addr, r.Amt))
	}
	for _, k := range e.w.Keys {
		s := e.kvStr(e.base, k)
		if s == "-" || s == "err" {
			continue
		}
		ver := s[strings.LastIndex(s, "@")+1:]
		if strings.HasPrefix(s, "DEL@") {
			g.emit(fmt.Sprintf("dkey %s %s", k, ver))
		} else {
			g.emit(fmt.Sprintf("key %s %s", k, ver))
		}
	}
	for _, t := range e.snapPool {
		g.emit(fmt.Sprintf("ptx %d %s", t.Idx, t.body()))
	}
	g.out.Count(fmt.Sprintf("pool-size:%02d", minInt(len(e.snapPool), 13)))
	nAnti, nDep := 0, 0
	for _, s := range e.snapSpec {
		if s.Kind == "anti" {
			nAnti++
		} else {
			nDep++
		}
	}
	if nAnti > 0 {
		g.out.Count("pools-with-antidependency")
	}
	if nDep > 0 {
		g.out.Count("pools-with-dependency")
	}
	g.emit("graph")
	ns := 40
	if g.tier == "thorough" {
		ns = 64
	}
	g.emit(fmt.Sprintf("sample %d", ns))
	budget := 8
	if g.tier == "thorough" {
		budget = 40
	}
	done := map[string]bool{}
	try := func(o []int, replay bool) {
		k := idsStr(o)
		if done[k] || len(o) == 0 {
			return
		}
		done[k] = true
		g.emit("order " + k)
		if replay {
			g.emit("replay " + k)
		}
	}
	for i, o := range e.sampled {
		try(o, i < 3)
	}
	// every order the graph allows (all of them for small pools), forced onto a replica
	if len(e.snapNodes) >= 1 {
		var ext [][]int
		complete := false
		if len(e.snapNodes) <= 6 {
			ext, complete = linearExtensions(e.snapNodes, e.snapGraph, 720)
		}
		if complete && len(ext) <= budget {
			for _, o := range ext {
				try(o, true)
			}
			g.out.Count("pools-with-all-orders-replayed")
		} else {
			for i := 0; i < budget; i++ {
				var o []int
				if complete {
					o = ext[g.r.Intn(len(ext))]
				} else {
					o = randomExtension(e.snapNodes, e.snapGraph, g.r)
				}
				if o != nil {
					try(o, true)
				}
			}
		}
		// orders that break one dependency / anti-dependency: model and implementation must both refuse them
		if len(e.snapSpec) > 0 && len(e.sampled) > 0 {
			for k := 0; k < 2; k++ {
				s := e.snapSpec[g.r.Intn(len(e.snapSpec))]
				o := append([]int{}, e.sampled[0]...)
				iu, iv := -1, -1
				for i, x := range o {
					if x == s.U {
						iu = i
					}
					if x == s.V {
						iv = i
					}
				}
				if iu >= 0 && iv >= 0 {
					o[iu], o[iv] = o[iv], o[iu]
					try(o, true)
				}
			}
		}
		// prefixes (what a size limit produces)
		if len(e.sampled) > 0 && len(e.snapNodes) > 1 {
			o := e.sampled[g.r.Intn(len(e.sampled))]
			p := o[:1+g.r.Intn(len(o)-1)]
			g.emit("replay " + idsStr(p))
		}
	}
	// the block: mostly the real miner's full round, sometimes after a truncation the consensus asks for (the setup
	// block stays), sometimes packBlock alone (hook VerifPackBlock) with the ledger / state steps done by the harness
	h := g.height()
	trunc := 0
	if h >= 2 {
		trunc = 1 + g.r.Intn(h-1)
	}
	switch {
	case trunc > 0 && !g.pendingTimerTx() && !(len(e.admitted) > 0 && g.sharedTaskDue(h-trunc+1)) && g.r.Chance(1, 5):
		g.mine(trunc)
	case !g.timers && g.r.Chance(1, 8):
		g.emit("pack")
	case !g.timers && g.r.Chance(1, 6) && g.stateAtTip():
		g.mineFaulted()
	default:
		g.mine(0)
	}
	if len(e.packed) > 0 && !e.broken {
		if len(e.packed) == len(e.snapNodes) {
			g.emit("order " + idsStr(e.packed))
		}
		g.emit("replay " + idsStr(e.packed))
	}
	g.pruneAvail()
}

// scripted builds one named corner-case scenario (used to write the corpus files).
func (g *Gen) scripted(name string) {
	g.canon = nil
	if g.scriptedMiner(name) {
		return
	}
	fee := "0"
	if name == "diamond-fee" {
		fee = "1"
	}
	reset := "reset fee=" + fee
	if name == "size-limit" {
		reset += " mb=1"
	}
	g.emit(reset)
	g.avail = map[string][]InRef{}
	for i := 0; i < 4; i++ {
		u := fmt.Sprintf("u%d", i)
		g.xfer("atx", u, InRef{0, i, u, 1000}, []string{u, u, u, u}, "", 0)
	}
	g.ktx("atx", "u0", "put_k0_a+put_k1_b")
	g.ktx("atx", "u1", "put_k2_c+put_k3_d")
	g.emit("pack")
	g.pruneAvail()
	switch name {
	case "readers-writer":
		g.ktx("atx", "u0", "get_k0")
		g.ktx("atx", "u1", "get_k0+put_k1_x")
		g.ktx("atx", "u2", "put_k0_y")
		g.ktx("atx", "u3", "get_k0")
	case "never-written-and-delete":
		g.ktx("atx", "u0", "get_k4")
		g.ktx("atx", "u1", "put_k4_new")
		g.ktx("atx", "u2", "get_k2")
		g.ktx("atx", "u3", "del_k2")
		g.ktx("atx", "u0", "get_k2")
	case "diamond-fee":
		g.motifDiamond()
		g.motifChain()
	case "size-limit":
		for _, pads := range [][]int{{340000, 340000, 200000, 0, 0}, {150000, 0}} {
			o := g.anyOwner()
			in, _ := g.take(o)
			cur, owner := in, o
			for _, pad := range pads {
				to := g.user()
				idx := g.xfer("atx", owner, cur, []string{to}, "", pad)
				l := g.avail[to]
				for j := len(l) - 1; j >= 0; j-- {
					if l[j].Tx == idx {
						cur, owner = l[j], to
						g.avail[to] = append(append([]InRef{}, l[:j]...), l[j+1:]...)
						break
					}
				}
			}
		}
	case "evicted-and-stale":
		g.motifStale()
		g.motifEvict()
	}
	g.check()
}

// scriptedMiner: the corner cases of the miner round (truncation with a decaying award, timer tasks).
func (g *Gen) scriptedMiner(name string) bool {
	g.avail = map[string][]InRef{}
	setup := func(reset string) {
		g.emit(reset)
		for i := 0; i < 4; i++ {
			u := fmt.Sprintf("u%d", i)
			g.xfer("atx", u, InRef{0, i, u, 1000}, []string{u, u, u, u}, "", 0)
		}
		g.ktx("atx", "u0", "put_k0_a+put_k1_b")
	}
	switch name {
	case "miner-truncate-decay":
		// the award halves every 3 blocks; the consensus asks to cut the tip (height 2 again), later two blocks (the
		// re-mined block stands in an earlier period than the cut tip)
		setup("reset fee=1 award=1000 decay=3:1/2")
		for _, h := range []int{0, 2, 3, 5, 6, 9} {
			g.emit(fmt.Sprintf("award %d", h))
		}
		g.mine(0)
		g.pruneAvail()
		g.motifReadersWriterSmall()
		g.mine(0)
		g.mine(1)
		g.motifChain()
		g.mine(0)
		g.mine(0)
		g.motifReadersWriterSmall()
		g.mine(2)
		g.mine(0)
		g.check()
	case "timer-due":
		// a timer task registered in block 1 is due at height 3; the pool of that round does not touch its keys; then the
		// consensus cuts the block that ran it and the task runs again in the re-mined block
		setup("reset fee=0")
		g.timerAdd(3, "put_z0_t1+put_z1_t2")
		g.timerAdd(3, "put_z0_t3")
		g.timerAdd(5, "del_z1")
		g.mine(0)
		g.pruneAvail()
		g.mine(0)
		g.motifReadersWriterSmall()
		g.motifChain()
		g.check()
		g.mine(1)
		g.mine(0)
		g.mine(0)
	case "timer-tx-cites-later-transaction":
		// (known finding) the registration of a task due at the very next height is still pending when the block is packed
		setup("reset fee=0")
		g.mine(0)
		g.timerAdd(2, "put_z0_t1")
		g.check()
	case "timer-reads-pending-write":
		// (known finding, same key) a confirmed task reads k1; a pending transaction has written k1
		setup("reset fee=0")
		g.timerAdd(3, "get_k1+put_z0_t1")
		g.mine(0)
		g.mine(0)
		g.ktx("atx", "u1", "put_k1_y")
		g.check()
	case "timer-tx-overwrites-version-read-later":
		// (known finding) a confirmed task overwrites k0; a pending transaction only read k0
		setup("reset fee=0")
		g.timerAdd(3, "put_k0_t1")
		g.mine(0)
		g.mine(0)
		g.ktx("atx", "u1", "get_k0")
		g.check()
	default:
		return false
	}
	return true
}

// ---------- raw graphs for TopSortDFS

func (g *Gen) rawGraph() string {
	n := 1 + g.r.Intn(9)
	nodes := make([]int, n)
	for i := range nodes {
		nodes[i] = i + 1
	}
	// a random order makes the graph acyclic; sometimes one back edge or a self loop is added
	perm := append([]int{}, nodes...)
	for i := len(perm) - 1; i > 0; i-- {
		j := g.r.Intn(i + 1)
		perm[i], perm[j] = perm[j], perm[i]
	}
	var es []string
	dens := 1 + g.r.Intn(4)
	for i := 0; i < n; i++ {
		for j := i + 1; j < n; j++ {
			if g.r.Intn(6) < dens {
				es = append(es, fmt.Sprintf("%d>%d", perm[i], perm[j]))
				if g.r.Chance(1, 12) {
					es = append(es, fmt.Sprintf("%d>%d", perm[i], perm[j])) // duplicate edge
				}
			}
		}
	}
	switch g.r.Intn(8) {
	case 0:
		if n >= 2 {
			i := g.r.Intn(n - 1)
			j := i + 1 + g.r.Intn(n-1-i)
			es = append(es, fmt.Sprintf("%d>%d", perm[j], perm[i]))
		}
	case 1:
		x := perm[g.r.Intn(n)]
		es = append(es, fmt.Sprintf("%d>%d", x, x))
	case 2:
		es = append(es, fmt.Sprintf("%d>%d", perm[0], n+1)) // child-only node
	}
	return fmt.Sprintf("rawsort nodes=%s e=%s", idsStr(nodes), strings.Join(es, ","))
}
