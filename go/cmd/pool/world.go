package main

// World of one case: accounts, the producer node and the replica node, abstract transactions with their
// real counterparts, op-line parsing / rendering, and the harness's own (spec-side) dependency relation.

import (
	"fmt"
	"math/big"
	"sort"
	"strconv"
	"strings"

	pb "github.com/xuperchain/xupercore/bcs/ledger/xledger/xldgpb"
	"github.com/xuperchain/xupercore/kernel/engines/xuperos/miner"

	"xv/chainlib"
	"xv/xvlib"
)

const delFlag = "\x00"

type InRef struct {
	Tx, Off int
	Addr    string
	Amt     int64
}
type OutInfo struct {
	Addr string // "u0", "m0" or "$" (fee)
	Amt  int64
}
type KIn struct {
	Key       string
	VTx, VOff int // VTx = -1: never written
}
type KOut struct {
	Key, Val string
	Del      bool
}
type TxInfo struct {
	Idx      int
	Tx       *pb.Transaction
	Coinbase bool
	From     string
	Ins      []InRef
	Outs     []OutInfo
	KIn      []KIn
	KOut     []KOut
	Prog     string
	Timer    string // "<height>:<prog>": the transaction calls $timer_task.Add (run $xvkv program prog at that height)
	Autogen  bool   // the timer transaction of a block
	Pad      int    // bytes of padding in Desc (size-limit cases)
	Built    bool   // the real transaction exists
}

type World struct {
	Fee     bool
	Award   int64 // the configured award (height 0 .. gap-1)
	Gap     int64 // award_decay.height_gap (0 = no decay)
	Num     int64 // award_decay.ratio = Num / Den
	Den     int64
	MaxMB   int
	Cons    *scriptCons
	Net     *captureNet
	Miner   *miner.Miner
	Genesis []byte
	Users   []*xvlib.Account
	Miners  []*xvlib.Account
	AddrOf  map[string]string
	NameOf  map[string]string
	Txs     map[int]*TxInfo
	TxByID  map[string]int
	NextIdx int
	P, R    *chainlib.Node
	Keys    []string
	nodeSeq int
}

// specAward is the award schedule as the genesis configuration describes it, computed by the harness itself in exact
// arithmetic: award * ratio^(height / gap), rounded half up; the configured award when there is no decay.
func (w *World) specAward(height int64) int64 {
	if w.Gap == 0 {
		return w.Award
	}
	p := height / w.Gap
	a, d := big.NewInt(w.Award), big.NewInt(1)
	for i := int64(0); i < p; i++ {
		a.Mul(a, big.NewInt(w.Num))
		d.Mul(d, big.NewInt(w.Den))
	}
	// round(a / d) = floor((2a + d) / 2d)
	n := new(big.Int).Add(new(big.Int).Mul(a, big.NewInt(2)), d)
	n.Div(n, new(big.Int).Mul(d, big.NewInt(2)))
	return n.Int64()
}

func (w *World) addKey(k string) {
	for _, x := range w.Keys {
		if x == k {
			return
		}
	}
	w.Keys = append(w.Keys, k)
	sort.Strings(w.Keys)
}

func (w *World) bind(t *TxInfo) { w.TxByID[string(t.Tx.Txid)] = t.Idx }

func (w *World) freshIdx() int {
	for {
		if _, ok := w.Txs[w.NextIdx]; !ok {
			return w.NextIdx
		}
		w.NextIdx++
	}
}

// bindForeign numbers a transaction the harness did not describe itself (award / root transactions).
func (w *World) bindForeign(tx *pb.Transaction, t *TxInfo) int {
	if i, ok := w.TxByID[string(tx.Txid)]; ok {
		return i
	}
	t.Idx = w.freshIdx()
	t.Tx = tx
	t.Built = true
	w.Txs[t.Idx] = t
	w.bind(t)
	return t.Idx
}

// ---------- rendering

func (t *TxInfo) body() string {
	var sb strings.Builder
	var ins []string
	for _, r := range t.Ins {
		ins = append(ins, fmt.Sprintf("%d.%d:%s:%d:0", r.Tx, r.Off, r.Addr, r.Amt))
	}
	sb.WriteString("in=" + strings.Join(ins, ","))
	var outs []string
	for _, o := range t.Outs {
		outs = append(outs, fmt.Sprintf("%s:%d:0", o.Addr, o.Amt))
	}
	sb.WriteString(" out=" + strings.Join(outs, ","))
	var kin []string
	for _, k := range t.KIn {
		if k.VTx < 0 {
			kin = append(kin, k.Key+"@-")
		} else {
			kin = append(kin, fmt.Sprintf("%s@%d.%d", k.Key, k.VTx, k.VOff))
		}
	}
	sb.WriteString(" kin=" + strings.Join(kin, ","))
	var kout []string
	for _, k := range t.KOut {
		if k.Del {
			kout = append(kout, k.Key+"=DEL")
		} else {
			kout = append(kout, k.Key+"="+k.Val)
		}
	}
	sb.WriteString(" kout=" + strings.Join(kout, ","))
	return sb.String()
}

// defLine renders the defining line of a transaction (`dtx` / `atx`).
func (t *TxInfo) defLine(kind string) string {
	s := fmt.Sprintf("%s %d from=%s", kind, t.Idx, t.From)
	if t.Prog != "" {
		s += " prog=" + t.Prog
	}
	if t.Timer != "" {
		s += " timer=" + t.Timer
	}
	if t.Pad > 0 {
		s += fmt.Sprintf(" pad=%d", t.Pad)
	}
	return s + " " + t.body()
}

// ---------- parsing

func fields(line string) (string, []string, map[string]string) {
	ws := strings.Fields(line)
	if len(ws) == 0 {
		return "", nil, nil
	}
	kv := map[string]string{}
	var pos []string
	for _, w := range ws[1:] {
		i := strings.Index(w, "=")
		if i > 0 && !strings.ContainsAny(w[:i], ":@>") {
			kv[w[:i]] = w[i+1:]
		} else {
			pos = append(pos, w)
		}
	}
	return ws[0], pos, kv
}

func splitList(s string) []string {
	if s == "" {
		return nil
	}
	return strings.Split(s, ",")
}

func atoi(s string) int { n, _ := strconv.Atoi(s); return n }

func parseIDs(s string) []int {
	var r []int
	for _, x := range splitList(s) {
		r = append(r, atoi(x))
	}
	return r
}

func idsStr(l []int) string {
	s := make([]string, len(l))
	for i, x := range l {
		s[i] = strconv.Itoa(x)
	}
	return strings.Join(s, ",")
}

func parseIns(s string) []InRef {
	var r []InRef
	for _, e := range splitList(s) {
		p := strings.Split(e, ":")
		if len(p) < 3 {
			continue
		}
		vo := strings.Split(p[0], ".")
		if len(vo) != 2 {
			continue
		}
		a, _ := strconv.ParseInt(p[2], 10, 64)
		r = append(r, InRef{Tx: atoi(vo[0]), Off: atoi(vo[1]), Addr: p[1], Amt: a})
	}
	return r
}

func parseOuts(s string) []OutInfo {
	var r []OutInfo
	for _, e := range splitList(s) {
		p := strings.Split(e, ":")
		if len(p) < 2 {
			continue
		}
		a, _ := strconv.ParseInt(p[1], 10, 64)
		r = append(r, OutInfo{Addr: p[0], Amt: a})
	}
	return r
}

func parseKIn(s string) []KIn {
	var r []KIn
	for _, e := range splitList(s) {
		p := strings.Split(e, "@")
		if len(p) != 2 {
			continue
		}
		k := KIn{Key: p[0], VTx: -1}
		if p[1] != "-" {
			vo := strings.Split(p[1], ".")
			if len(vo) == 2 {
				k.VTx, k.VOff = atoi(vo[0]), atoi(vo[1])
			}
		}
		r = append(r, k)
	}
	return r
}

func parseKOut(s string) []KOut {
	var r []KOut
	for _, e := range splitList(s) {
		i := strings.Index(e, "=")
		if i < 0 {
			continue
		}
		ko := KOut{Key: e[:i], Val: e[i+1:]}
		if ko.Val == "DEL" {
			ko.Del, ko.Val = true, ""
		}
		r = append(r, ko)
	}
	return r
}

// ---------- the property's dependency relation, computed by the harness from what the transactions declare
// (independent of the graph the implementation builds)

type edge struct {
	U, V int
	Kind string // "dep" (output / key version consumed) or "anti" (read-only reader before overwriter)
}

func (t *TxInfo) writes(k string) bool {
	for _, o := range t.KOut {
		if o.Key == k {
			return true
		}
	}
	return false
}

func specEdges(pool []*TxInfo) []edge {
	in := map[int]bool{}
	for _, t := range pool {
		in[t.Idx] = true
	}
	seen := map[string]bool{}
	var es []edge
	add := func(u, v int, kind string) {
		if u == v {
			return
		}
		k := fmt.Sprintf("%d>%d", u, v)
		if seen[k] {
			return
		}
		seen[k] = true
		es = append(es, edge{u, v, kind})
	}
	for _, v := range pool {
		for _, r := range v.Ins {
			if in[r.Tx] {
				add(r.Tx, v.Idx, "dep")
			}
		}
		for _, k := range v.KIn {
			if k.VTx >= 0 && in[k.VTx] {
				add(k.VTx, v.Idx, "dep")
			}
		}
	}
	for _, u := range pool {
		for _, rk := range u.KIn {
			if u.writes(rk.Key) {
				continue
			}
			for _, v := range pool {
				if v.Idx == u.Idx || !v.writes(rk.Key) {
					continue
				}
				for _, wk := range v.KIn {
					if wk.Key == rk.Key && wk.VTx == rk.VTx && (wk.VTx < 0 || wk.VOff == rk.VOff) {
						add(u.Idx, v.Idx, "anti")
					}
				}
			}
		}
	}
	return es
}

func edgesStr(es [][2]int) string {
	seen := map[string]bool{}
	var ss []string
	for _, e := range es {
		s := fmt.Sprintf("%d>%d", e[0], e[1])
		if !seen[s] {
			seen[s] = true
			ss = append(ss, s)
		}
	}
	if len(ss) == 0 {
		return "none"
	}
	sort.Strings(ss)
	return strings.Join(ss, ",")
}

// firstViolated returns the first edge (u,v) of es with v placed before u (or u missing while v present) in order.
func firstViolated(order []int, es []edge) *edge {
	pos := map[int]int{}
	for i, x := range order {
		pos[x] = i
	}
	for i := range es {
		pu, okU := pos[es[i].U]
		pv, okV := pos[es[i].V]
		if okV && (!okU || pu > pv) {
			return &es[i]
		}
	}
	return nil
}

func isPerm(order []int, nodes []int) bool {
	if len(order) != len(nodes) {
		return false
	}
	a := append([]int{}, order...)
	b := append([]int{}, nodes...)
	sort.Ints(a)
	sort.Ints(b)
	for i := range a {
		if a[i] != b[i] || (i > 0 && a[i] == a[i-1]) {
			return false
		}
	}
	return true
}

// linearExtensions enumerates the orders of nodes that respect es, at most max of them (in lexicographic search
// order); complete reports whether the enumeration was exhaustive.
func linearExtensions(nodes []int, es [][2]int, max int) (res [][]int, complete bool) {
	complete = true
	n := len(nodes)
	used := make([]bool, n)
	cur := []int{}
	idx := map[int]int{}
	for i, x := range nodes {
		idx[x] = i
	}
	var rec func()
	rec = func() {
		if len(res) >= max {
			complete = false
			return
		}
		if len(cur) == n {
			res = append(res, append([]int{}, cur...))
			return
		}
		for i := 0; i < n; i++ {
			if used[i] {
				continue
			}
			ok := true
			for _, e := range es {
				if e[1] == nodes[i] {
					if j, in := idx[e[0]]; in && !used[j] && e[0] != e[1] {
						ok = false
						break
					}
				}
			}
			if !ok {
				continue
			}
			used[i] = true
			cur = append(cur, nodes[i])
			rec()
			cur = cur[:len(cur)-1]
			used[i] = false
		}
	}
	rec()
	return
}

// randomExtension draws one random linear extension (Kahn with random choice); nil if the relation is cyclic.
func randomExtension(nodes []int, es [][2]int, r *xvlib.Rng) []int {
	left := append([]int{}, nodes...)
	var out []int
	for len(left) > 0 {
		var ready []int
		for i, x := range left {
			ok := true
			for _, e := range es {
				if e[1] == x {
					for _, y := range left {
						if y == e[0] {
							ok = false
						}
					}
				}
			}
			if ok {
				ready = append(ready, i)
			}
		}
		if len(ready) == 0 {
			return nil
		}
		i := ready[r.Intn(len(ready))]
		out = append(out, left[i])
		left = append(left[:i], left[i+1:]...)
	}
	return out
}
