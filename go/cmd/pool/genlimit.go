package main

// Generator, second part: block size limits that BIND and storage write faults inside a mining round.
//
// `limit` cases: MaxTxSizePerBlock (0.8 MB at mb=1) is small relative to the pool and the pending transactions have
// very different sizes: two or three padded transactions that cannot share a block, each with small relatives standing
// behind it in the property's relation (a child spending its output, a reader / overwriter of the key version it
// writes, the overwriter / deleter of a key it only reads, the other leg and the join of a diamond), so that whichever
// of them the pool order puts last is the transaction that no longer fits while its small relatives still would. The
// pool is then drained block by block (every block goes to the replica), so a transaction left behind by one block is
// judged again in the block that finally carries it.
//
// faulted rounds: `mine fault=state|ledger` (the PlayForMiner batch / the ConfirmBlock batch fails), then the miner's
// own recovery: the next round walks the state to the ledger tip and goes on.

import (
	"bytes"
	"fmt"
	"strings"
)

func (g *Gen) stateAtTip() bool {
	p := g.e.w.P
	return bytes.Equal(p.S.GetLatestBlockid(), p.L.GetMeta().TipBlockid)
}

// mineFaulted: a round that fails on an injected write fault, the packed list of the block it left in the ledger (if
// any) replayed on the model's start state, then the recovery round.
func (g *Gen) mineFaulted() {
	e := g.e
	g.fault = "state"
	if g.r.Chance(1, 4) {
		g.fault = "ledger"
	}
	advanced := g.fault == "state"
	e.packed = nil
	g.mine(0)
	if e.broken {
		return
	}
	if advanced && len(e.packed) > 0 {
		g.emit("replay " + idsStr(e.packed))
	}
	g.mine(0)
	if advanced {
		e.packed = nil // (packed relative to the state after the first block, not to the snapshot)
	}
}

// ktxPad: a key transaction padded to a given size.
func (g *Gen) ktxPad(from, prog string, pad int) int {
	idx := g.e.w.freshIdx()
	line := fmt.Sprintf("atx %d from=%s prog=%s", idx, from, prog)
	if pad > 0 {
		line += fmt.Sprintf(" pad=%d", pad)
	}
	g.emit(line)
	return idx
}

// outOf removes and returns the spendable output the generator recorded for transaction idx.
func (g *Gen) outOf(idx int) (InRef, bool) {
	for _, o := range []string{"u0", "u1", "u2", "u3"} {
		l := g.avail[o]
		for j, x := range l {
			if x.Tx == idx {
				g.avail[o] = append(append([]InRef{}, l[:j]...), l[j+1:]...)
				return x, true
			}
		}
	}
	return InRef{}, false
}

// bigWithRelatives: one padded transaction and the small transactions that stand behind it in the relation.
func (g *Gen) bigWithRelatives(pad int, k string) {
	o := g.anyOwner()
	switch g.r.Intn(7) {
	case 0: // large parent, small child (and grandchild)
		if o == "" {
			return
		}
		in, _ := g.take(o)
		p := g.xfer("atx", o, in, []string{g.user()}, "", pad)
		for i := 0; i < 1+g.r.Intn(2); i++ {
			x, ok := g.outOf(p)
			if !ok {
				break
			}
			p = g.xfer("atx", x.Addr, x, []string{g.user()}, "", 0)
		}
	case 1: // large writer of a key, small reader / overwriter of the version it writes
		g.ktxPad(g.user(), "put_"+k+"_"+g.val(), pad)
		if g.r.Bool() {
			g.ktx("atx", g.user(), "get_"+k)
		}
		if g.r.Bool() {
			g.ktx("atx", g.user(), "put_"+k+"_"+g.val())
		}
	case 2, 3: // large READ-ONLY reader, small overwriter / deleter of the version it read
		prog := "get_" + k
		if g.r.Chance(1, 3) {
			prog += "+put_" + g.otherKey(k) + "_" + g.val()
		}
		g.ktxPad(g.user(), prog, pad)
		if g.r.Chance(1, 3) {
			g.ktx("atx", g.user(), "get_"+k) // a small sharer of the same version
		}
		if g.r.Chance(1, 4) {
			g.ktx("atx", g.user(), "del_"+k)
		} else {
			g.ktx("atx", g.user(), "put_"+k+"_"+g.val())
		}
		if g.r.Chance(1, 3) {
			g.ktx("atx", g.user(), "get_"+k) // reads the new version
		}
	case 4: // a transfer that also reads a key (both kinds of relation on the large transaction)
		if o == "" {
			return
		}
		in, _ := g.take(o)
		p := g.xfer("atx", o, in, []string{g.user()}, "get_"+k, pad)
		g.ktx("atx", g.user(), "put_"+k+"_"+g.val())
		if x, ok := g.outOf(p); ok && g.r.Bool() {
			g.xfer("atx", x.Addr, x, []string{g.user()}, "", 0)
		}
	case 5: // diamond with one large leg
		if o == "" {
			return
		}
		in, _ := g.take(o)
		mid, end := g.user(), g.user()
		a := g.xfer("atx", o, in, []string{mid, mid}, "", 0)
		l1, ok1 := g.outOf(a)
		l2, ok2 := g.outOf(a)
		if !ok1 || !ok2 {
			return
		}
		b := g.xfer("atx", mid, l1, []string{end}, "", pad)
		c := g.xfer("atx", mid, l2, []string{end}, "", 0)
		i1, ok1 := g.outOf(b)
		i2, ok2 := g.outOf(c)
		if !ok1 || !ok2 {
			return
		}
		idx := g.e.w.freshIdx()
		to := g.user()
		t := &TxInfo{Idx: idx, From: end, Ins: []InRef{i1, i2}, Outs: []OutInfo{{to, i1.Amt + i2.Amt}}}
		g.emit(fmt.Sprintf("atx %d from=%s %s", idx, end, t.body()))
		if inList(g.e.admitted, idx) {
			g.avail[to] = append(g.avail[to], InRef{idx, 0, to, i1.Amt + i2.Amt})
		}
	case 6: // small parent, large child, small grandchild
		if o == "" {
			return
		}
		in, _ := g.take(o)
		p := g.xfer("atx", o, in, []string{g.user()}, "", 0)
		if x, ok := g.outOf(p); ok {
			p = g.xfer("atx", x.Addr, x, []string{g.user()}, "", pad)
			if y, ok := g.outOf(p); ok {
				g.xfer("atx", y.Addr, y, []string{g.user()}, "", 0)
			}
		}
	}
}

func (g *Gen) limitScenario() {
	g.canon = nil
	g.timers = false
	g.fault = ""
	reset := "reset fee=0 mb=1"
	if g.r.Bool() {
		reset = "reset fee=1 mb=1"
		if g.r.Bool() {
			reset += fmt.Sprintf(" award=%d", []int{50, 1000, 37}[g.r.Intn(3)])
		}
	}
	if a := g.emit(reset); a != "ok" {
		g.out.Stats.Notes = append(g.out.Stats.Notes, "reset failed: "+a)
		return
	}
	g.avail = map[string][]InRef{}
	for i := 0; i < 4; i++ {
		u := fmt.Sprintf("u%d", i)
		g.xfer("atx", u, InRef{0, i, u, 1000}, []string{u, u, u, u}, "", 0)
	}
	g.ktx("atx", "u0", "put_k0_a+put_k1_b")
	g.ktx("atx", "u1", "put_k2_c+put_k3_d")
	g.mine(0)
	g.pruneAvail()
	// the limit is 0.8 * 2^20 = 838860 bytes: two transactions of 430..600 KB or three of 290..400 KB never share a block
	nb := 2 + g.r.Intn(2)
	lo, span := 430000, 170000
	if nb == 3 {
		lo, span = 290000, 110000
	}
	keys := append([]string{}, poolKeys...)
	for i := len(keys) - 1; i > 0; i-- {
		j := g.r.Intn(i + 1)
		keys[i], keys[j] = keys[j], keys[i]
	}
	if g.r.Chance(1, 4) {
		keys[1] = keys[0] // two large transactions on one key
	}
	if g.r.Chance(1, 3) {
		g.motifReadersWriterSmall()
	}
	for i := 0; i < nb; i++ {
		g.bigWithRelatives(lo+g.r.Intn(span), keys[i])
		if g.r.Chance(1, 4) {
			g.motifChain()
		}
	}
	// drain the pool block by block
	g.check()
	for round := 0; round < 4 && !g.e.broken && len(g.e.admitted) > 0; round++ {
		if round == 0 {
			g.check()
			continue
		}
		g.mine(0)
	}
	if len(g.e.admitted) > 0 && !g.e.broken {
		g.out.Count("limit:pool-not-drained")
	}
	g.out.Count("limit-cases")
	g.out.Case(strings.Join(g.canon, "\n"), true)
}
