package main

// `mine`: one round of the REAL miner on the producer (Miner.mining through the hook VerifMining: state walk,
// Consensus.ProcessBeforeMiner, truncateForMiner, packBlock = getTimerTx + getUnconfirmedTx + getAwardTx +
// FormatMinerBlock, confirmBlockForMiner = CalculateBlock + Ledger.ConfirmBlock + State.PlayForMiner +
// ProcessConfirmBlock, broadcastBlock) against a scripted consensus; the block as it was broadcast is handed to the
// replica. The oracles judge the block against the property: height and parent, award by the schedule of the genesis
// configuration at the block's height, timer transaction = the tasks of the confirmed state due at that height, packed
// transactions in an order that respects the property's relation, accepted and replayed by nodes that never saw the
// pending transactions (the long-lived replica, and a fresh node that replays the producer's trunk from genesis).

import (
	"bytes"
	"encoding/json"
	"fmt"
	"math/big"
	"sort"
	"strings"
	"sync"
	"time"

	"github.com/xuperchain/xupercore/bcs/ledger/xledger/state"
	pb "github.com/xuperchain/xupercore/bcs/ledger/xledger/xldgpb"

	"xv/chainlib"
	"xv/kvmem"
)

// task is one row <height>_<id> of the timer bucket.
type task struct {
	Height, ID int
	Prog       string // $xvkv program (decoded)
	ConfirmedH int64  // height of the block that confirmed the $timer_task.Add; -1 = pending
	key        string
}

// tasksOf lists the timer tasks of a node's live state.
func (e *Exec) tasksOf(n *chainlib.Node) ([]task, error) {
	it, err := n.S.CreateXMReader().Select(timerBucket, []byte("0"), []byte(":"))
	if err != nil {
		return nil, err
	}
	defer it.Close()
	var ts []task
	for it.Next() {
		key := string(it.Key())
		p := strings.Split(key, "_")
		if len(p) != 2 {
			continue
		}
		vd := it.Value()
		if vd == nil || vd.PureData == nil || string(vd.PureData.Value) == delFlag {
			continue
		}
		t := task{Height: atoi(p[0]), ID: atoi(p[1]), ConfirmedH: -1, key: key}
		v := timerVal([]byte(key), vd.PureData.Value)
		t.Prog = decProg(strings.TrimPrefix(v, "#"))
		if tx, _, err := n.S.QueryTx(vd.RefTxid); err == nil && tx != nil && len(tx.Blockid) > 0 {
			if hd, err := n.L.QueryBlockHeader(tx.Blockid); err == nil {
				t.ConfirmedH = hd.Height
			}
		}
		ts = append(ts, t)
	}
	sort.Slice(ts, func(i, j int) bool { return ts[i].key < ts[j].key }) // the order $timer_task.Do visits them in
	return ts, nil
}

// progWrites folds the writes of $xvkv programs run one after the other: key -> value (delFlag = deleted).
func progWrites(progs []string) map[string]string {
	w := map[string]string{}
	for _, p := range progs {
		for _, st := range strings.Split(p, ";") {
			f := strings.Fields(st)
			switch {
			case len(f) == 3 && f[0] == "put":
				w[f[1]] = f[2]
			case len(f) == 2 && f[0] == "del":
				w[f[1]] = delFlag
			}
		}
	}
	return w
}

func mapStr(m map[string]string) string {
	var ks []string
	for k := range m {
		ks = append(ks, k)
	}
	sort.Strings(ks)
	var ss []string
	for _, k := range ks {
		v := m[k]
		if v == delFlag {
			v = "DEL"
		}
		ss = append(ss, k+"="+v)
	}
	return strings.Join(ss, ",")
}

// opTask: claim about one timer task of the producer's live state: `task <height> <id> c=<h>` (confirmed by the block
// at height h) or `task <height> <id> p` (registered by a pending transaction).
func (e *Exec) opTask(pos []string, kv map[string]string) string {
	if len(pos) < 2 {
		return "bad-op"
	}
	ts, err := e.tasksOf(e.w.P)
	if err != nil {
		return "error:" + err.Error()
	}
	for _, t := range ts {
		if t.Height == atoi(pos[0]) && t.ID == atoi(pos[1]) {
			if c, ok := kv["c"]; ok {
				if t.ConfirmedH == int64(atoi(c)) {
					return "ok"
				}
				return "differ"
			}
			if len(pos) == 3 && pos[2] == "p" && t.ConfirmedH < 0 {
				return "ok"
			}
			return "differ"
		}
	}
	return "absent"
}

// opAward: the real award schedule at a height, judged against the schedule of the genesis configuration.
func (e *Exec) opAward(pos []string) string {
	if len(pos) != 1 {
		return "bad-op"
	}
	h := int64(atoi(pos[0]))
	got := e.w.P.L.GenesisBlock.CalcAward(h)
	if got.Cmp(big.NewInt(e.w.specAward(h))) != 0 {
		e.violate("award-schedule-wrong", fmt.Sprintf("CalcAward(%d) = %s, the schedule of the genesis configuration (award %d, x %d/%d every %d blocks) gives %d",
			h, got, e.w.Award, e.w.Num, e.w.Den, e.w.Gap, e.w.specAward(h)))
	}
	return got.String()
}

// blockAt returns the id of the block k blocks below the tip of the node's trunk.
func blockBelowTip(n *chainlib.Node, k int) ([]byte, int64, error) {
	meta := n.L.GetMeta()
	id, h := meta.TipBlockid, meta.TrunkHeight
	for i := 0; i < k; i++ {
		hd, err := n.L.QueryBlockHeader(id)
		if err != nil {
			return nil, 0, err
		}
		id, h = hd.PreHash, h-1
	}
	return id, h, nil
}

func (e *Exec) opMine(kv map[string]string) string {
	w := e.w
	k := atoi(kv["trunc"])
	// (the producer's state may lag behind its ledger — a peer block confirmed but not yet played: the round walks first)
	if !bytes.Equal(w.P.L.GetMeta().TipBlockid, w.R.S.GetLatestBlockid()) {
		return "error:tips-differ"
	}
	// recovering: the round walks the producer's state (truncation, or state behind the ledger); State.Walk re-admits the
	// rolled-back pending transactions in a goroutine that runs alongside packBlock
	recovering := k > 0
	if !bytes.Equal(w.P.S.GetLatestBlockid(), w.P.L.GetMeta().TipBlockid) {
		e.out.Count("mine:state-behind-ledger")
		recovering = true
	}
	h0 := w.P.L.GetMeta().TrunkHeight
	if k < 0 || int64(k) > h0 {
		return "bad-op"
	}
	target, targetH, err := blockBelowTip(w.P, k)
	if err != nil {
		return "error:" + err.Error()
	}
	poolBefore, _ := e.realPool()
	spec := specEdges(e.txInfos(e.admitted))
	wantH := targetH + 1
	// the property's expectation of the timer transaction: the tasks of the confirmed state (as of the parent
	// block) that are due at the new block's height
	rtasks, err := e.tasksOf(w.R)
	if err != nil {
		return "error:" + err.Error()
	}
	var dueProgs []string
	var dueIDs []int
	for _, t := range rtasks {
		if int64(t.Height) == wantH && t.ConfirmedH >= 0 && t.ConfirmedH <= targetH {
			dueProgs = append(dueProgs, t.Prog)
			dueIDs = append(dueIDs, t.ID)
		}
	}
	wantWrites := progWrites(dueProgs)

	if k > 0 {
		w.Cons.truncateTo = target
		e.out.Count("mine:truncating")
	}
	curTerm, curBlockNum := 1+wantH/3, 1+wantH%3
	w.Cons.storage, _ = json.Marshal(map[string]interface{}{"curTerm": curTerm, "curBlockNum": curBlockNum})
	if kv["pow"] == "1" {
		w.Cons.restamp = true
		e.out.Count("mine:restamped-by-consensus")
	}
	// fault=state|ledger: the first storage write group of this round that goes to the state store / the ledger store
	// fails (nothing of it is applied). In a round that neither truncates nor walks these are the single batch of
	// State.PlayForMiner and the batch of Ledger.ConfirmBlock.
	fault, hit := kv["fault"], false
	tip0 := append([]byte{}, w.P.L.GetMeta().TipBlockid...)
	if fault != "" {
		if (fault != "state" && fault != "ledger") || k > 0 || recovering {
			return "bad-op"
		}
		store := w.P.StatePath()
		if fault == "ledger" {
			store = w.P.LedgerPath()
		}
		var fmu sync.Mutex
		kvmem.SetWriteFault(func(path string) bool {
			fmu.Lock()
			defer fmu.Unlock()
			if !hit && path == store {
				hit = true
				return true
			}
			return false
		})
	}
	w.Net.drain()
	nconf := len(w.Cons.confirmed)
	merr := w.Miner.VerifMining(w.P.Ctx)
	kvmem.SetWriteFault(nil)
	state.VerifWaitRecover()
	if fault != "" && !hit {
		e.out.Stats.Notes = append(e.out.Stats.Notes, "mine fault="+fault+": no write group reached that store")
	}
	// the round failed on the injected fault: what the ledger holds now is what peers are served (block sync); the
	// state follows at the start of the next round (Miner.mining: ledger tip != state tip -> State.Walk)
	faulted := hit && merr != nil
	if faulted {
		e.out.Count("mine:round-failed-on-injected-fault:" + fault)
		if bytes.Equal(w.P.L.GetMeta().TipBlockid, tip0) {
			return fmt.Sprintf("failed h=%d", w.P.L.GetMeta().TrunkHeight)
		}
		e.out.Count("mine:block-in-ledger-not-played")
	}
	if merr != nil && !faulted {
		e.violate("mining-failed", fmt.Sprintf("Miner.mining fails on a pool of admitted transactions (truncate %d block(s)): %v", k, merr))
		e.broken = true
		return "-"
	}
	e.out.Count("mine:rounds")
	tip := w.P.L.GetMeta().TipBlockid
	var blk *pb.InternalBlock
	var berr error
	if faulted {
		if blk, err = w.P.L.QueryBlock(tip); err != nil {
			e.violate("trunk-unreadable", fmt.Sprintf("the block the failed round left at the tip of the ledger cannot be read: %v", err))
			e.broken = true
			return "-"
		}
		blk = chainlib.CloneBlock(blk)
	} else if blk, berr = w.Net.nextBlock(10 * time.Second); berr != nil || blk == nil {
		e.violate("block-not-broadcast", fmt.Sprintf("the miner did not broadcast the block it produced: %v", berr))
		if blk, err = w.P.L.QueryBlock(tip); err != nil {
			e.broken = true
			return "-"
		}
	}
	if !bytes.Equal(blk.Blockid, tip) {
		e.violate("mined-block-not-tip", fmt.Sprintf("the miner broadcast block %x, the tip of its ledger is %x", blk.Blockid, tip))
	}
	if !faulted && (len(w.Cons.confirmed) != nconf+1 || !bytes.Equal(w.Cons.confirmed[nconf], blk.Blockid)) {
		e.violate("consensus-not-notified", "Consensus.ProcessConfirmBlock was not called exactly once with the produced block")
	}
	ids := e.blockIDs(blk, "m0")
	e.out.Count(fmt.Sprintf("mined-txs:%d", minInt(len(ids)-1, 9)))

	// ---- the block's place in the chain
	if blk.Height != wantH || !bytes.Equal(blk.PreHash, target) {
		e.violate("block-height-wrong", fmt.Sprintf("the block produced after truncating %d block(s) of a trunk of height %d has height %d on parent %x, expected height %d on parent %x",
			k, h0, blk.Height, blk.PreHash, wantH, target))
	}
	if got := w.P.L.GetMeta().TrunkHeight; got != wantH {
		e.violate("block-height-wrong", fmt.Sprintf("after the round the producer's trunk has height %d, expected %d", got, wantH))
	}
	if blk.CurTerm != curTerm || blk.CurBlockNum != curBlockNum {
		e.violate("consensus-storage-lost", fmt.Sprintf("ProcessBeforeMiner handed term %d / block number %d to the miner, the block carries %d / %d", curTerm, curBlockNum, blk.CurTerm, blk.CurBlockNum))
	}
	// ---- award, coinbase count, IsValidTx / VerifyBlock on the producer's own ledger
	e.checkBlockShape(blk, "mining")
	// ---- timer transaction
	var timer *pb.Transaction
	timerAt := -1
	nAuto := 0
	for i, tx := range blk.Transactions {
		if tx.Autogen && !tx.Coinbase {
			nAuto++
			if timer == nil {
				timer, timerAt = tx, i
			}
		}
	}
	var fired []int
	citesLater, overwritesRead := "", ""
	if timer != nil {
		ti := w.Txs[ids[timerAt]]
		posOf := map[int]int{}
		for i, x := range ids {
			posOf[x] = i
		}
		for _, ki := range ti.KIn {
			if strings.HasPrefix(ki.Key, timerKeyPfx) {
				if p := strings.Split(ki.Key[len(timerKeyPfx):], "_"); len(p) == 2 {
					fired = append(fired, atoi(p[1]))
				}
			}
			if ki.VTx >= 0 {
				if p, in := posOf[ki.VTx]; in && p > timerAt && citesLater == "" {
					citesLater = fmt.Sprintf("the timer transaction (position %d) reads %s@%d.%d, written by tx %d at position %d of the same block", timerAt, ki.Key, ki.VTx, ki.VOff, ki.VTx, p)
				}
			}
		}
		// a later transaction of the block cites a key version the timer transaction replaces
		for i := timerAt + 1; i < len(ids) && overwritesRead == ""; i++ {
			u := w.Txs[ids[i]]
			for _, uk := range u.KIn {
				for _, tk := range ti.KIn {
					if uk.Key == tk.Key && uk.VTx == tk.VTx && (uk.VTx < 0 || uk.VOff == tk.VOff) && ti.writes(tk.Key) && overwritesRead == "" {
						overwritesRead = fmt.Sprintf("tx %d at position %d cites %s at the version the timer transaction (position %d) replaces", u.Idx, i, uk.Key, timerAt)
					}
				}
			}
		}
		sort.Ints(fired)
	}
	ans := fmt.Sprintf("h=%d award=%s timer=%s", blk.Height, awardOf(blk), idsOr(fired, "-"))
	if faulted {
		ans = fmt.Sprintf("failed h=%d", blk.Height)
	}
	if citesLater == "" {
		switch {
		case nAuto > 1:
			e.violate("timer-tx-count", fmt.Sprintf("%d timer transactions in one block", nAuto))
		case len(wantWrites) > 0 && timer == nil:
			e.violate("timer-tx-missing", fmt.Sprintf("tasks %v of the confirmed state are due at height %d (writes %s), but the block carries no timer transaction", dueIDs, wantH, mapStr(wantWrites)))
		case len(wantWrites) == 0 && timer != nil:
			e.violate("timer-tx-spurious", fmt.Sprintf("no task of the confirmed state is due at height %d, but the block carries a timer transaction (tasks %v)", wantH, fired))
		case timer != nil:
			if timerAt != 1 {
				e.violate("timer-tx-not-second", fmt.Sprintf("the timer transaction stands at position %d of the block", timerAt))
			}
			got := map[string]string{}
			for _, o := range timer.TxOutputsExt {
				if o.Bucket == chainlib.KVBucket {
					got[string(o.Key)] = string(o.Value)
				}
			}
			if mapStr(got) != mapStr(wantWrites) {
				e.violate("timer-tx-wrong", fmt.Sprintf("the timer transaction of the block at height %d writes {%s}; the tasks %v due at that height write {%s}", wantH, mapStr(got), dueIDs, mapStr(wantWrites)))
			}
		}
	}
	// ---- the packed transactions: pending ones, each once, closed under the property's relation, in an order that respects it
	var body []int
	for i, tx := range blk.Transactions {
		if !tx.Coinbase && !tx.Autogen {
			body = append(body, ids[i])
		}
	}
	e.packed = body
	if !noDup(body) || !subset(body, poolBefore) {
		e.violate("order-not-permutation", fmt.Sprintf("the miner packs %v out of the pending transactions %v", body, poolBefore))
	} else if v := firstViolated(body, spec); v != nil {
		if v.Kind == "anti" {
			e.violate("order-violates-antidependency", fmt.Sprintf("the miner packs %v: tx %d overwrites a key version that tx %d only reads, but comes first (or alone)", body, v.V, v.U))
		} else {
			e.violate("order-violates-dependency", fmt.Sprintf("the miner packs %v: tx %d consumes an output / key version of tx %d, but comes first (or alone)", body, v.V, v.U))
		}
	}
	if len(body) < len(poolBefore) {
		e.out.Count("packed-prefix-only")
	}
	// ---- a node that never saw the pending transactions receives the block
	if stage, err := e.receive(w.R, blk, true); err != nil {
		key := "mined-block-not-replayable"
		what := fmt.Sprintf("the block the miner produced (height %d, txs %v) is refused by a node that never saw its transactions (%s: %v)", blk.Height, body, stage, err)
		switch {
		case stage != "walk":
			key = "block-" + stage + "-failed"
		case citesLater != "":
			key = "timer-tx-cites-later-transaction"
			what += "; " + citesLater
		case overwritesRead != "":
			key = "timer-tx-overwrites-version-read-later"
			what += "; " + overwritesRead
		}
		e.violate(key, what)
		e.broken = true
		return ans
	}
	if faulted {
		// (the producer's state still stands on the parent block; the next round walks it to the ledger tip)
		return ans
	}
	e.reconcile()
	left, _ := e.realPool()
	// the total supply is the genesis amount plus the awards of the trunk, whatever is still pending
	if a, b := w.P.S.GetTotal().String(), w.R.S.GetTotal().String(); a != b {
		e.violate("replica-state-differs:total", fmt.Sprintf("after the mined block (height %d): total supply of the producer %s, of the node that replayed its blocks %s", blk.Height, a, b))
	}
	if recovering || kv["fresh"] == "1" {
		// what the producer has stored: a copy of its storage image, opened as after a restart
		e.seq++
		if c, err := w.P.OpenCopy(e.scratch, fmt.Sprintf("ro%d", e.seq)); err != nil {
			e.violate("producer-image-unreadable", fmt.Sprintf("a copy of the producer's storage image cannot be opened after the round: %v", err))
		} else {
			if a, b := c.S.GetTotal().String(), w.R.S.GetTotal().String(); a != b {
				e.violate("replica-state-differs:total-after-restart", fmt.Sprintf("after the mined block (height %d): total supply stored by the producer %s, of the node that replayed its blocks %s", blk.Height, a, b))
			}
			kvmem.Drop(c.Root)
			e.out.Count("mine:producer-image-reopened")
		}
	}
	if len(left) == 0 {
		a, b := e.observe(w.P), e.observe(w.R)
		if a != b {
			e.violate("replica-state-differs", fmt.Sprintf("after the mined block (height %d, txs %v): producer {%s} vs replica {%s}", blk.Height, body, a, b))
		}
		e.out.Count("mined-block-states-compared")
	}
	var want []int
	for _, i := range poolBefore {
		if !inList(body, i) {
			want = append(want, i)
		}
	}
	sort.Ints(left)
	sort.Ints(want)
	if !recovering && idsStr(left) != idsStr(want) {
		e.violate("pool-membership", fmt.Sprintf("after the mined block the pending set is %v, expected %v", left, want))
	} else if recovering && !subset(left, want) {
		// (pending transactions that depended on a cut-off block, or that the block's timer transaction made stale, are
		// dropped when the walk re-admits them)
		e.violate("pool-membership", fmt.Sprintf("after the mined block the pending set is %v, not a subset of %v", left, want))
	}
	// ---- after a truncation: a fresh node replays the producer's whole trunk from genesis
	if k > 0 || kv["fresh"] == "1" {
		e.freshReplay()
	}
	return ans
}

func awardOf(blk *pb.InternalBlock) string {
	if len(blk.Transactions) == 0 || !blk.Transactions[0].Coinbase || len(blk.Transactions[0].TxOutputs) == 0 {
		return "none"
	}
	return new(big.Int).SetBytes(blk.Transactions[0].TxOutputs[0].Amount).String()
}

func idsOr(l []int, empty string) string {
	if len(l) == 0 {
		return empty
	}
	return idsStr(l)
}

// freshReplay: a node created from the genesis configuration receives every block of the producer's trunk in order
// (the checks of Miner.ProcBlock / batchConfirmBlock, then Walk) and must end in the producer's state.
func (e *Exec) freshReplay() {
	w := e.w
	e.seq++
	f, err := chainlib.NewNode(e.scratch, fmt.Sprintf("fresh%d", e.seq), w.Genesis, w.Miners[1])
	if err != nil {
		e.out.Stats.Notes = append(e.out.Stats.Notes, "fresh replica: "+err.Error())
		return
	}
	defer kvmem.Drop(f.Root)
	registerTick(f)
	root, err := w.P.L.QueryBlockHeader(w.P.L.GetMeta().RootBlockid)
	if err != nil {
		return
	}
	for id := root.NextHash; len(id) > 0; {
		blk, err := w.P.L.QueryBlock(id)
		if err != nil {
			e.violate("trunk-unreadable", fmt.Sprintf("the producer's trunk cannot be read at %x: %v", id, err))
			return
		}
		next := blk.NextHash
		wire := chainlib.CloneBlock(blk)
		if stage, err := e.receive(f, wire, true); err != nil {
			e.violate("trunk-not-replayable", fmt.Sprintf("a fresh node that replays the producer's trunk from genesis refuses the block at height %d (%s: %v)", blk.Height, stage, err))
			return
		}
		id = next
	}
	if len(e.admitted) == 0 {
		a, b := e.observe(w.P), e.observe(f)
		if a != b {
			e.violate("fresh-replica-state-differs", fmt.Sprintf("producer {%s} vs a fresh node that replayed its trunk {%s}", a, b))
		}
	}
	e.out.Count("fresh-replays")
}
