// Engine `pool` (C13): blocks a node produces from its own pool are valid everywhere and replay to the
// producer's state; the pool order respects dependencies and anti-dependencies.
//
// Two real xupercore nodes run in-process on the in-memory kvdb engine: the producer (miner m0) and a replica
// that never sees the pending transactions. The same op lines are the input of the Lean driver `xvdriver pool`.
//
// op lines (answer `-` = not compared with the model):
//
//	reset fee=0|1 [mb=N] [award=A] [decay=G:N/D]   new case: two fresh nodes on the same genesis (4 users x 1000;
//	                                fee=1: award A (default 50), multiplied by N/D every G blocks)           -> ok
//	dtx <id> from=u [prog=P] [timer=H:P] [pad=N] in=.. out=..   define a transaction (pre-executes the $xvkv program
//	                                P, or $timer_task.Add "at height H run P", on the producer's live state, builds,
//	                                signs) without submitting it                                           -> -
//	atx <id> ...                    dtx + State.DoTx on the producer                                         -> -
//	submit <id>                     State.DoTx of a defined transaction                                      -> -
//	fblock txs=<ids>                a peer block (miner m1) with the given defined transactions; replica and
//	                                producer receive it (IsValidTx, VerifyBlock, ConfirmBlock, Walk)         -> -
//	sync                            snapshot for the check phase: replica image (= state without the pool),
//	                                the pending set in admission order, the implementation's graph           -> -
//	utxo <tx>.<off> <addr> <amt>    start state (replica tables): an unspent output                          -> ok
//	key|dkey <k> <tx>.<off>         start state: current version of a live | deleted key                     -> ok
//	ptx <id> in=.. out=.. kin=.. kout=..   a pending transaction, in admission order                         -> ok
//	graph                           edges of Tx.SortUnconfirmedTx (sorted, de-duplicated)                    -> a>b,..|none
//	sample <n>                      n x State.GetUnconfirmedTx(false); every order is checked by the oracle  -> -
//	order <ids>                     is it a permutation of the pool that respects the implementation's graph -> possible|impossible
//	replay <ids>                    a producer block (award first) with these pending transactions in this order
//	                                is handed to a copy of the replica (IsValidTx, VerifyBlock, ConfirmBlock,
//	                                Walk); ok = accepted and (for a full order) tables equal to the producer's
//	                                pending state + award + fees                                             -> ok|reject|differ
//	pack                            the real packBlock (VerifPackBlock) on the producer, ConfirmBlock +
//	                                PlayForMiner there, the replica receives the block; observables compared -> -
//	rawsort nodes=.. e=a>b,..       the real TopSortDFS on an arbitrary graph (6 runs)                        -> cyclic|ok sizes=..
//	award <h>                       the real GenesisBlock.CalcAward(h)                                       -> amount
//	height <h>                      claim: the producer's trunk height                                       -> ok|differ
//	task <H> <id> c=<h> | p         claim: a timer task of the producer's live state, registered by a
//	                                transaction confirmed at height h / still pending                       -> ok|differ|absent
//	mine [trunc=K] [fresh=1] [pow=1]  one round of the REAL Miner.mining on the producer (hook VerifMining) against a
//	                                scripted consensus whose ProcessBeforeMiner names the block K below the tip as
//	                                truncate target: truncateForMiner, packBlock (timer tx, pool prefix, award),
//	                                confirmBlockForMiner (ConfirmBlock, PlayForMiner), broadcast; the block as
//	                                broadcast goes to the replica; after a truncation (or fresh=1) a fresh node
//	                                replays the producer's trunk from genesis; pow=1: the consensus re-stamps the
//	                                block in CalculateBlock (nonce, id, signature)          -> h=<height> award=<amt> timer=<task ids|->
//	mine fault=state|ledger         a round in which the first storage write group to the state store (the batch of
//	                                State.PlayForMiner) / the ledger store (Ledger.ConfirmBlock) fails; the block a
//	                                failed round leaves in the ledger is judged like a broadcast block and goes to the
//	                                replica (peers are served it by block sync); the NEXT `mine` is the miner's own
//	                                recovery (ledger tip != state tip: State.Walk, then the next block)   -> failed h=<ledger height>
//
// Oracle keys (impl-side, independent of the model): order-violates-dependency, order-violates-antidependency,
// order-not-permutation, graph-misses-dependency, graph-misses-antidependency, graph-admits-unreplayable-order, order-not-replayable,
// packed-block-not-replayable, replica-state-differs, award-not-first, award-invalid, award-count, fee-wrong,
// block-verify-failed, block-<stage>-failed, producer-confirm-failed, producer-play-failed, pack-failed,
// pool-membership, pool-order-failed, topsort-cycle-flag-wrong, topsort-unstable, panic; of the miner round:
// mining-failed, block-not-broadcast, mined-block-not-tip, consensus-not-notified, block-height-wrong, award-invalid
// (the schedule of the genesis configuration at the block's height, computed by the harness in exact arithmetic),
// award-schedule-wrong, timer-tx-missing, timer-tx-spurious, timer-tx-wrong, timer-tx-not-second, timer-tx-count,
// timer-tx-cites-later-transaction, timer-tx-overwrites-version-read-later (known findings), mined-block-not-replayable,
// trunk-not-replayable, fresh-replica-state-differs, trunk-unreadable, replica-state-differs:total (total supply of producer vs
// replica after every round), replica-state-differs:total-after-restart (the total stored in a reopened copy of the
// producer's image), producer-image-unreadable.
package main

import (
	"fmt"
	"io/ioutil"
	"os"
	"path/filepath"
	"sort"
	"strings"

	"xv/kvmem"
	"xv/xvlib"
)

func splitCases(lines []string) [][]string {
	var cases [][]string
	var cur []string
	for _, l := range lines {
		op, _, _ := fields(l)
		if op == "reset" && len(cur) > 0 {
			cases = append(cases, cur)
			cur = nil
		}
		cur = append(cur, l)
	}
	if len(cur) > 0 {
		cases = append(cases, cur)
	}
	return cases
}

func main() {
	args := xvlib.ParseArgs()
	out := xvlib.NewOut(args.Out)
	defer out.Close()
	ex := &Exec{scratch: args.Scratch, out: out, rng: xvlib.NewRng(args.Seed)}
	// As a further engine of C03 (a transaction is confirmed through a block - the node's own block too - only if its
	// inputs are outputs of the chain the block extends): only the findings that say so are C03's, the rest is C13's.
	// As a further engine of C06 (a block the node wrote to its ledger must be one the state machine can apply when the
	// process dies before the state play and the node walks to its ledger tip on restart): the blocks the real miner
	// confirmed that a replica cannot replay.
	if args.Prop == "C03" || args.Prop == "C06" {
		defer func() {
			var keep []xvlib.Violation
			for _, v := range out.Stats.Violations {
				if args.Prop == "C03" && strings.HasPrefix(v.Key, "order-violates-dependency") || strings.HasPrefix(v.Key, "mined-block-not-replayable") || args.Prop == "C03" && strings.HasPrefix(v.Key, "packed-block-not-replayable") {
					keep = append(keep, v)
				}
			}
			out.Stats.Violations = keep
		}()
	}
	runLines := func(lines []string) {
		for _, c := range splitCases(lines) {
			for _, l := range c {
				out.Begin(l)
				out.Emit(l, ex.exec(l))
			}
			out.Case(fmt.Sprint(c), true)
		}
		ex.dropCase()
		ex.w = nil
	}
	if args.Replay != "" {
		runLines(xvlib.ReadLines(args.Replay))
		return
	}
	if name := os.Getenv("XV_SCRIPT"); name != "" {
		g := &Gen{e: ex, r: xvlib.NewRng(args.Seed), out: out, tier: "quick"}
		g.scripted(name)
		ioutil.WriteFile(os.Getenv("XV_SCRIPT_OUT"), []byte(strings.Join(g.canon, "\n")+"\n"), 0644)
		return
	}
	// 0. corpus: minimal replays of repaired defects and corner cases, first on every run
	corpus, _ := filepath.Glob(filepath.Join("corpus", "C13", "*.ops"))
	sort.Strings(corpus)
	for _, f := range corpus {
		runLines(xvlib.ReadLines(f))
		out.Count("corpus-file")
	}
	if len(corpus) == 0 {
		out.Stats.Notes = append(out.Stats.Notes, "corpus/C13 not found (run from the framework root)")
	}
	g := &Gen{e: ex, r: xvlib.NewRng(args.Seed*1000003 + 13), out: out, tier: args.Tier}
	// 1. TopSortDFS on arbitrary graphs
	nraw := 3000
	ncases := 400
	nsize := 4
	nlimit := 24
	if args.Tier == "thorough" {
		nraw, ncases, nsize, nlimit = 60000, 5000, 60, 300
	}
	if n := xvlib.EnvInt("XV_LIMIT_CASES", -1); n >= 0 {
		nlimit = n
	}
	if n := xvlib.EnvInt("XV_CASES", 0); n > 0 {
		ncases = n
	}
	for i := 0; i < nraw; i++ {
		l := g.rawGraph()
		out.Emit(l, ex.exec(l))
		out.Count("rawsort")
	}
	// 2. pools
	for i := 0; i < ncases; i++ {
		g.scenario("mixed")
		if i < 2 {
			out.Sample(map[string]interface{}{"ops": headTail(g.canon, 40)})
		}
		kvmem.Drop(args.Scratch)
	}
	for i := 0; i < nsize; i++ {
		g.scenario("size")
		kvmem.Drop(args.Scratch)
	}
	// 3. block size limits that bind (large transactions with small relatives), pools drained block by block
	for i := 0; i < nlimit; i++ {
		g.limitScenario()
		if i < 1 {
			out.Sample(map[string]interface{}{"ops": headTail(g.canon, 40)})
		}
		kvmem.Drop(args.Scratch)
	}
	out.Count(fmt.Sprintf("replica-replays-total:%d", ex.replays))
	out.Stats.Rule = fmt.Sprintf("%d random graphs (1-9 nodes, duplicate edges, back edges, self loops, child-only nodes) through the real TopSortDFS, 6 runs each; "+
		"%d generated pools on two real nodes (producer + replica that never sees the pending transactions), fee and no-fee genesis, award schedules with and without decay (dyadic ratios, gaps 1-3): "+
		"blocks are produced by the real Miner.mining (scripted consensus; 1 in 5 final rounds after a truncation of 1..height-1 blocks requested through ProcessBeforeMiner; 1 in 8 by packBlock alone), "+
		"timer tasks registered by $timer_task.Add (due while pending, due after confirmation, on keys the pool does / does not touch); a mined setup block, 0-2 filler blocks, then 2-12 pending transactions "+
		"from motifs (token chains, diamonds, read-only sharers of a key + writer/deleter incl. never-written keys, key-version chains, contract txs moving tokens, fee payers, "+
		"refused stale submissions, transactions evicted by a conflicting peer block), %d pools above the 0.8 MB block limit; per pool: graph vs model, >=40 GetUnconfirmedTx samples, "+
		"every order the implementation's graph allows (all of them when few, else a random subset) and the real packBlock output are formatted as producer blocks and handed to a fresh "+
		"copy of the replica; non-trivial = pool of >= 2 transactions; distinct by full op list", nraw, ncases, nsize)
}

func headTail(s []string, n int) []string {
	if len(s) <= n {
		return s
	}
	return append(append([]string{}, s[:n]...), "...")
}
