// Engine `collect` (third engine of C14): the COLLECTION side of quorum certificates.
//
// The engines `safety` and `bftmatch` judge finished certificates (CheckProposal / CheckVote /
// CheckMinerMatch).  This engine drives the code that ASSEMBLES one: a real chained-bft Smr (the
// collector) receives real proposal and vote messages through its package-private handlers
// (handleReceivedProposal / handleReceivedVoteMsg, run synchronously through the export shim, build
// tag verif), with real keys and real ECDSA signatures.  After every message the observable state of the
// collector is read back: HighQC, the pacemaker's view, the vote signatures stored for the proposal
// (Smr.qcVoteMsgs) and the certificate it hands out (GetCompleteHighQC, what the next proposal carries
// as justify).
//
// op lines (also the input of the Lean driver `xvdriver collect`):
//
//	reset <n> <col> [<c> <b0> <m>]     a fresh collector whose address is account <col>; the validator set
//	                                   is 0..n-1 for every view (with the optional part: for views >= c the
//	                                   set is b0..b0+m-1)
//	reset xp|td <n> <col> <start> <tip> <J1> <J2> <J3>
//	                                   a collector RESTARTED on a ledger (the real xpoa / tdpos constructor): restart.go
//	prop <id> <view> <parent> <pview> <entry>...
//	                                   a proposal message arrives: proposal <id> of view <view> whose justify
//	                                   names <parent>, declares the view <pview> and carries the entries
//	                                   (signatures over <parent>)        -> high=<id> view=<v>
//	vote <id> <dview> <entry>...       a vote message arrives that names proposal <id>, declares the view
//	                                   <dview> and carries the signature list <entry>... (an honest vote has
//	                                   one)                               -> ok|reject|drop high=<id> view=<v> log=<..>
//	cert                               GetCompleteHighQC                  -> id=<id> sigs=<..>
//	propose                            ProcessProposal: the justify of the node's next proposal message, read
//	                                   from the message it sends           -> id=<id> sigs=<..> | none
//
// entry = <addr><kind> as in engine safety: v valid signature by account <addr> over the id the message
// names; r the same member signing again (other signature bytes); w signature over another id; o the member's
// genuine signature over the root id 0 (valid only in a message naming 0); c corrupted signature; m claims <addr>
// but carries key+signature of an outsider.  An address >= n is a non-member.
// Logs and certificates are printed as <addr><v|x>+..., x = the stored signature does NOT verify (real
// VerifyVoteMsgSign) for the id it is stored under.
package main

import (
	"container/list"
	"encoding/json"
	"fmt"
	"path/filepath"
	"sort"
	"strconv"
	"strings"
	"sync/atomic"
	"time"

	"github.com/xuperchain/xupercore/kernel/consensus/base"
	bft "github.com/xuperchain/xupercore/kernel/consensus/base/driver/chained-bft"
	cCrypto "github.com/xuperchain/xupercore/kernel/consensus/base/driver/chained-bft/crypto"
	bftpb "github.com/xuperchain/xupercore/kernel/consensus/base/driver/chained-bft/pb"
	cctx "github.com/xuperchain/xupercore/kernel/consensus/context"
	"github.com/xuperchain/xupercore/kernel/network/p2p"
	xuperp2p "github.com/xuperchain/xupercore/protos"
	"xv/xvlib"
)

const bcName = "xv"

// ---------------------------------------------------------------- accounts and signatures

var (
	accts    []*xvlib.Account
	addrIdx  = map[string]int{}
	sigCache = map[string][]byte{}
	verCache = map[string]bool{}
	verifier *cCrypto.CBFTCrypto
)

const outsider = 90

func acct(i int) *xvlib.Account {
	for len(accts) <= i {
		a := xvlib.NewAccount(len(accts))
		addrIdx[a.Address] = len(accts)
		accts = append(accts, a)
	}
	return accts[i]
}

func idBytes(id int) []byte { return []byte{byte(id)} }

func idOf(b []byte) int {
	if len(b) != 1 {
		return -1
	}
	return int(b[0])
}

func sign(i int, msg []byte) []byte {
	k := fmt.Sprintf("%d/%x", i, msg)
	if s, ok := sigCache[k]; ok {
		return s
	}
	s, err := xvlib.Crypto().SignECDSA(acct(i).Pri, msg)
	if err != nil {
		panic(err)
	}
	sigCache[k] = s
	return s
}

type entry struct {
	addr int
	kind byte
	id   int // the id named by the message that carries the entry
	sig  *bftpb.QuorumCertSign
}

// good: the entry is a genuine signature of account addr over the id its message names
func (e entry) good() bool { return e.kind == 'v' || e.kind == 'r' || (e.kind == 'o' && e.id == 0) }

// mkEntry builds the signature entry <addr><kind> of a message that names proposal id.
func mkEntry(tok string, id int) (entry, error) {
	if len(tok) < 2 {
		return entry{}, fmt.Errorf("bad entry %q", tok)
	}
	kind := tok[len(tok)-1]
	a, err := strconv.Atoi(tok[:len(tok)-1])
	if err != nil || a < 0 || a >= outsider {
		return entry{}, fmt.Errorf("bad entry %q", tok)
	}
	e := &bftpb.QuorumCertSign{Address: acct(a).Address, PublicKey: acct(a).PubJSON}
	switch kind {
	case 'v':
		e.Sign = sign(a, idBytes(id))
	case 'r':
		sg, err := xvlib.Crypto().SignECDSA(acct(a).Pri, idBytes(id))
		if err != nil {
			return entry{}, err
		}
		e.Sign = sg
	case 'w':
		e.Sign = sign(a, []byte{byte(id), 0x77})
	case 'o':
		// the signature this account made over the ROOT id (a genuine vote for proposal 0), presented in a message
		// that names <id>: the very bytes the collector may have verified before under the other id
		e.Sign = sign(a, idBytes(0))
	case 'c':
		s := append([]byte{}, sign(a, idBytes(id))...)
		s[len(s)/2] ^= 0x20
		e.Sign = s
	case 'm':
		e.PublicKey = acct(outsider).PubJSON
		e.Sign = sign(outsider, idBytes(id))
	default:
		return entry{}, fmt.Errorf("bad kind %q", tok)
	}
	return entry{addr: a, kind: kind, id: id, sig: e}, nil
}

// verifies: the real VerifyVoteMsgSign on a signature entry for proposal id (cached).
func verifies(s *bftpb.QuorumCertSign, id int) bool {
	k := fmt.Sprintf("%s|%s|%x|%d", s.GetAddress(), s.GetPublicKey(), s.GetSign(), id)
	if v, ok := verCache[k]; ok {
		return v
	}
	ok, _ := verifier.VerifyVoteMsgSign(s, idBytes(id))
	verCache[k] = ok
	return ok
}

func fmtSigns(signs []*bftpb.QuorumCertSign, id int) string {
	if len(signs) == 0 {
		return "-"
	}
	var parts []string
	for _, s := range signs {
		a, ok := addrIdx[s.GetAddress()]
		if !ok {
			a = 99
		}
		f := "x"
		if verifies(s, id) {
			f = "v"
		}
		parts = append(parts, fmt.Sprintf("%d%s", a, f))
	}
	return strings.Join(parts, "+")
}

// ---------------------------------------------------------------- the collector node

type election struct {
	n              int
	c, b0, m       int // views >= c: validators b0..b0+m-1 (m == 0: one set for all views)
	cacheA, cacheB []string
}

func rangeAddrs(lo, cnt int) []string {
	r := make([]string, cnt)
	for i := range r {
		r[i] = acct(lo + i).Address
	}
	return r
}

func (e *election) members(view int64) (lo, cnt int) {
	if e.m > 0 && view >= int64(e.c) {
		return e.b0, e.m
	}
	return 0, e.n
}

func (e *election) GetLeader(int64) string { return "" } // the collector's own voting is not under test
func (e *election) GetValidators(view int64) []string {
	lo, cnt := e.members(view)
	if lo == 0 && cnt == e.n {
		return e.cacheA
	}
	return e.cacheB
}
func (e *election) GetIntAddress(string) string { return "" }

type proposal struct {
	view   int64
	parent int
}

type arrival struct {
	id      int
	dview   int64
	entries []entry
	known   bool // the proposal was known to the collector and in its tree when the vote arrived
}

type world struct {
	smr   *bft.Smr
	net   *stubNet
	msgs  []*xuperp2p.XuperMessage // the proposal messages delivered to the collector, in order
	el    *election
	col   int
	props map[int]proposal // proposals delivered (id -> what the proposal message said)
	arr   []arrival
	ops   []string
	// ids whose quorum the collector declared through vote collection
	declared     map[int]bool
	sentProposal *xuperp2p.XuperMessage
	// a restarted collector (reset xp|td, restart.go): the plugin instance that owns the Smr, the nodes of the tree rebuilt
	// from the ledger (id -> view, parent), the signature entries of the certificate the ledger holds for a block (the
	// justify of its successor), the id of the instance's genesis block
	plugin      base.ConsensusImplInterface
	restart     *restartCfg
	ledgerNodes map[int]proposal
	ledgerSigs  map[int][]entry
	genesis     int
}

// node: what the collector's tree holds under id - a delivered proposal or a block of the ledger it was restarted on
func (w *world) node(id int) (proposal, bool) {
	if p, ok := w.props[id]; ok {
		return p, true
	}
	p, ok := w.ledgerNodes[id]
	return p, ok
}

// retire stops the goroutines of the plugin instance of a restarted collector
func (w *world) retire() {
	if w != nil && w.plugin != nil {
		// the constructor starts the Smr from a goroutine of its own (`go smr.Start()`): stopping it before it has
		// registered its subscribers would race with the registration
		for i := 0; i < 40000 && atomic.LoadInt32(&w.net.regs) < 3; i++ {
			time.Sleep(50 * time.Microsecond)
		}
		w.plugin.Stop()
		w.plugin = nil
	}
}

var w *world

func newWorld(n, col, c, b0, m int) *world {
	initQC := &bft.QuorumCert{
		VoteInfo:         &bft.VoteInfo{ProposalId: idBytes(0), ProposalView: 0},
		LedgerCommitInfo: &bft.LedgerCommitInfo{CommitStateId: idBytes(0)},
	}
	root := &bft.ProposalNode{In: initQC}
	logger := xvlib.Logger("collect")
	tree := &bft.QCPendingTree{Genesis: root, Root: root, HighQC: root, CommitQC: root,
		OrphanList: list.New(), OrphanMap: map[string]bool{}, Log: logger}
	a := acct(col)
	addr := &cctx.Address{Address: a.Address, PrivateKeyStr: a.PriJSON, PublicKeyStr: a.PubJSON, PrivateKey: a.Pri, PublicKey: a.Pub}
	cc := cCrypto.NewCBFTCrypto(addr, xvlib.Crypto())
	el := &election{n: n, c: c, b0: b0, m: m, cacheA: rangeAddrs(0, n)}
	if m > 0 {
		el.cacheB = rangeAddrs(b0, m)
	}
	rules := &bft.DefaultSaftyRules{Crypto: cc, QcTree: tree, Log: logger}
	net := newStubNet()
	smr := bft.NewSmr(bcName, a.Address, logger, net, cc, &bft.DefaultPaceMaker{}, rules, el, tree)
	return &world{smr: smr, net: net, el: el, col: col, props: map[int]proposal{0: {view: 0, parent: -1}}, declared: map[int]bool{}}
}

func quorum(n int) int { return n - (n-1)/3 - 1 }

func (w *world) highID() int { return idOf(w.smr.GetHighQC().GetProposalId()) }

// inTree: the proposal is reachable from the root of the collector's pending tree (the real lookup)
func (w *world) inTree(id int) bool {
	return w.smr.VerifQcTree().DFSQueryNode(idBytes(id)) != nil
}

// supporters: distinct members, besides the collector, of the validator set in force for the TRUE view of
// proposal id from whom a valid signature over id has arrived in a vote message naming id (any position of
// its signature list).  collectable: only arrivals while the proposal was known and in the tree.
func (w *world) supporters(id int, collectable bool) map[int]bool {
	res := map[int]bool{}
	p, ok := w.node(id)
	if !ok {
		return res
	}
	lo, cnt := w.el.members(p.view)
	if !collectable {
		// a restarted collector also holds the certificate the ledger carries for the block (the justify of its successor)
		for _, e := range w.ledgerSigs[id] {
			if e.good() && e.addr >= lo && e.addr < lo+cnt && e.addr != w.col {
				res[e.addr] = true
			}
		}
	}
	for _, a := range w.arr {
		if a.id != id || (collectable && !a.known) {
			continue
		}
		es := a.entries
		if collectable && len(es) > 1 {
			es = es[:1] // the collector is only obliged to take the vote itself (first signature)
		}
		if collectable && a.dview != p.view {
			continue // a vote that lies about the view need not be collected
		}
		for _, e := range es {
			if e.good() && e.addr >= lo && e.addr < lo+cnt && e.addr != w.col {
				res[e.addr] = true
			}
		}
	}
	return res
}

// classify names the kind of junk that explains a quorum declared without enough supporters: first by what the
// collector COUNTED (the vote log it stored for the proposal), then, when the log looks clean, by what arrived.
func (w *world) classify(id int, need int, signs []*bftpb.QuorumCertSign) string {
	p := w.props[id]
	lo, cnt := w.el.members(p.view)
	member := func(a int) bool { return a >= lo && a < lo+cnt }
	anyMember := func(a int) bool { // member of the set of some view
		if a < w.el.n {
			return true
		}
		return w.el.m > 0 && a >= w.el.b0 && a < w.el.b0+w.el.m
	}
	// how did a stored signature arrive: as the vote (first signature) of a message naming id, as a rider of such a
	// message, or not at all in a message naming id
	arrivedAs := func(s *bftpb.QuorumCertSign) string {
		res := "never"
		if w.fromLedger(id, s) {
			return "vote" // part of the certificate the ledger holds for this very id
		}
		for _, a := range w.arr {
			for i, e := range a.entries {
				if a.id == id && string(e.sig.GetSign()) == string(s.GetSign()) && e.sig.GetAddress() == s.GetAddress() {
					if i == 0 {
						return "vote"
					}
					res = "rider"
				}
			}
		}
		return res
	}
	seen := map[string]bool{}
	for _, s := range signs {
		a, ok := addrIdx[s.GetAddress()]
		how := arrivedAs(s)
		switch {
		case how == "rider":
			return "unchecked-rider-signature-counted"
		case how == "never":
			return "other-id-vote-counted"
		case !verifies(s, id):
			return "invalid-signature-counted"
		case !ok || !member(a):
			if ok && anyMember(a) {
				return "declared-view-selects-set"
			}
			return "non-member-counted"
		case seen[s.GetAddress()]:
			return "repeated-vote-counted"
		case a == w.col:
			return "collector-own-vote-counted"
		}
		seen[s.GetAddress()] = true
	}
	// the log is clean: the threshold itself was too low
	if last := w.arr[len(w.arr)-1]; last.dview != p.view {
		return "declared-view-selects-set" // the threshold of the set of the view the vote declares
	}
	return "quorum-not-reached"
}

func (w *world) violate(out *xvlib.Out, key, what string, impl string) {
	if out == nil {
		return
	}
	out.Violate(xvlib.Violation{Key: "collect:" + key, What: what, Ops: append([]string{}, w.ops...), Impl: []string{impl}})
}

// ---------------------------------------------------------------- messages

func voteMsg(id int, dview int64, es []entry) *xuperp2p.XuperMessage {
	vb, _ := json.Marshal(&bft.VoteInfo{ProposalId: idBytes(id), ProposalView: dview, ParentId: nil, ParentView: 0})
	lb, _ := json.Marshal(&bft.LedgerCommitInfo{VoteInfoHash: idBytes(id)})
	var sigs []*bftpb.QuorumCertSign
	for _, e := range es {
		sigs = append(sigs, e.sig)
	}
	return p2p.NewMessage(xuperp2p.XuperMessage_CHAINED_BFT_VOTE_MSG, &bftpb.VoteMsg{VoteInfo: vb, LedgerCommitInfo: lb, Signature: sigs},
		p2p.WithBCName(bcName), p2p.WithLogId("xv"))
}

func propMsg(proposer, id int, view int64, parent int, pview int64, es []entry) *xuperp2p.XuperMessage {
	var sigs []*bftpb.QuorumCertSign
	for _, e := range es {
		sigs = append(sigs, e.sig)
	}
	jb, _ := json.Marshal(&bft.QuorumCert{VoteInfo: &bft.VoteInfo{ProposalId: idBytes(parent), ProposalView: pview}, SignInfos: sigs})
	pm := &bftpb.ProposalMsg{ProposalView: view, ProposalId: idBytes(id), Timestamp: 1, JustifyQC: jb}
	dg, _ := cCrypto.MakeProposalMsgDigest(pm)
	pm.MsgDigest = dg
	pm.Sign = &bftpb.QuorumCertSign{Address: acct(proposer).Address, PublicKey: acct(proposer).PubJSON, Sign: sign(proposer, dg)}
	return p2p.NewMessage(xuperp2p.XuperMessage_CHAINED_BFT_NEW_PROPOSAL_MSG, pm, p2p.WithBCName(bcName), p2p.WithLogId("xv"))
}

// ---------------------------------------------------------------- executor + oracles

func exec(line string, out *xvlib.Out) (res string) {
	defer func() {
		if r := recover(); r != nil {
			res = fmt.Sprintf("panic")
			if w != nil {
				w.violate(out, "handler-panics", fmt.Sprintf("the collector's message handler panics: %v", r), res)
			}
		}
	}()
	f := strings.Fields(line)
	if len(f) == 0 {
		return "bad-op"
	}
	num := func(i int) (int, bool) {
		if i >= len(f) {
			return 0, false
		}
		v, err := strconv.Atoi(f[i])
		return v, err == nil
	}
	switch f[0] {
	case "reset":
		if len(f) > 1 && (f[1] == "xp" || f[1] == "td") {
			c, ok := parseRestart(f)
			if !ok {
				return "bad-op"
			}
			w.retire()
			w = nil
			nw, err := newRestartWorld(c)
			if err != nil {
				if strings.HasPrefix(err.Error(), "bad entry") || strings.HasPrefix(err.Error(), "bad kind") {
					return "bad-op"
				}
				if out != nil {
					out.Violate(xvlib.Violation{Key: "collect:restart-fails", What: "a node cannot be restarted on this ledger: " + err.Error(), Ops: []string{line}, Impl: []string{"fail"}})
				}
				return "fail"
			}
			w = nw
			w.ops = []string{line}
			res = w.restartAnswer()
			w.restartOracle(out, res)
			return res
		}
		n, ok1 := num(1)
		col, ok2 := num(2)
		if !ok1 || !ok2 || n < 1 || n > 40 || col < 0 || col >= outsider || (len(f) != 3 && len(f) != 6) {
			return "bad-op"
		}
		c, b0, m := 0, 0, 0
		if len(f) == 6 {
			var o1, o2, o3 bool
			c, o1 = num(3)
			b0, o2 = num(4)
			m, o3 = num(5)
			if !o1 || !o2 || !o3 || m < 1 || m > 40 || b0 < 0 || b0+m >= outsider {
				return "bad-op"
			}
		}
		w.retire()
		w = newWorld(n, col, c, b0, m)
		w.ops = []string{line}
		return "ok"
	}
	if w == nil {
		return "bad-op"
	}
	w.ops = append(w.ops, line)
	switch f[0] {
	case "prop":
		id, o1 := num(1)
		view, o2 := num(2)
		parent, o3 := num(3)
		pview, o4 := num(4)
		if !o1 || !o2 || !o3 || !o4 || id < 0 || id > 200 || parent < 0 || parent > 200 {
			return "bad-op"
		}
		var es []entry
		for _, tok := range f[5:] {
			e, err := mkEntry(tok, parent)
			if err != nil {
				return "bad-op"
			}
			es = append(es, e)
		}
		proposer := (w.col + 1) % w.el.n
		highBefore := w.highID()
		pmsg := propMsg(proposer, id, int64(view), parent, int64(pview), es)
		w.msgs = append(w.msgs, pmsg)
		w.smr.VerifHandleReceivedProposal(pmsg)
		if _, dup := w.props[id]; !dup {
			w.props[id] = proposal{view: int64(view), parent: parent}
			if ln, ok := w.ledgerNodes[id]; ok {
				w.props[id] = ln // the tree of a restarted collector already holds the block under its true view
			}
		}
		res = fmt.Sprintf("high=%d view=%d", w.highID(), w.smr.GetCurrentView())
		// oracle: a proposal moves HighQC to the proposal its justify certifies only with a quorum of that view's set
		// (the certificate check itself is the business of engines safety / bftmatch; here: the collector's state)
		if h := w.highID(); h != highBefore && h != 0 {
			p, known := w.node(h)
			good := map[int]bool{}
			if known && h == parent {
				lo, cnt := w.el.members(p.view)
				for _, e := range es {
					if e.good() && e.addr >= lo && e.addr < lo+cnt {
						good[e.addr] = true // the collector of that certificate is not known here: counted like CheckProposal does
					}
				}
				if len(good)+1 < quorum(cnt)+1 {
					w.violate(out, "proposal-justify-moves-highqc-without-quorum", fmt.Sprintf("a proposal message moved HighQC to proposal %d although its justify carries valid signatures of %d distinct members of the view's set (n=%d)", h, len(good), cnt), res)
				}
			} else {
				w.violate(out, "highqc-moved-elsewhere", fmt.Sprintf("a proposal message whose justify names %d moved HighQC to %d", parent, h), res)
			}
		}
		return res
	case "vote":
		id, o1 := num(1)
		dview, o2 := num(2)
		if !o1 || !o2 || id < 0 || id > 200 {
			return "bad-op"
		}
		var es []entry
		for _, tok := range f[3:] {
			e, err := mkEntry(tok, id)
			if err != nil {
				return "bad-op"
			}
			es = append(es, e)
		}
		highBefore, viewBefore := w.highID(), w.smr.GetCurrentView()
		_, delivered := w.props[id]
		known := delivered && w.inTree(id)
		err := w.smr.VerifHandleReceivedVoteMsg(voteMsg(id, int64(dview), es))
		w.arr = append(w.arr, arrival{id: id, dview: int64(dview), entries: es, known: known})
		ret := "reject"
		switch err {
		case nil:
			ret = "ok"
		case bft.EmptyTarget:
			ret = "drop"
		}
		signs, _ := w.smr.VerifVotes(idBytes(id))
		high, view := w.highID(), w.smr.GetCurrentView()
		res = fmt.Sprintf("%s high=%d view=%d log=%s", ret, high, view, fmtSigns(signs, id))
		w.voteOracles(out, id, int64(dview), es, known, highBefore, viewBefore, high, view, signs, res)
		return res
	case "propose":
		// the node makes its next proposal: the justify it puts into the proposal message (reloadJustifyQC)
		const newID = 150
		if err := w.smr.ProcessProposal(w.smr.GetCurrentView(), idBytes(newID), []string{"peer"}); err != nil {
			return "none"
		}
		var pm *bftpb.ProposalMsg
		deadline := time.After(5 * time.Second)
		for pm == nil {
			select {
			case m := <-w.net.sent:
				got := &bftpb.ProposalMsg{}
				if m.GetHeader().GetType() == xuperp2p.XuperMessage_CHAINED_BFT_NEW_PROPOSAL_MSG && p2p.Unmarshal(m, got) == nil && idOf(got.GetProposalId()) == newID {
					pm = got
					w.sentProposal = m
				}
			case <-deadline:
				w.violate(out, "proposal-not-sent", "ProcessProposal returned nil but no proposal message was sent", "lost")
				return "lost"
			}
		}
		qc := &bft.QuorumCert{}
		if err := json.Unmarshal(pm.GetJustifyQC(), qc); err != nil || qc.VoteInfo == nil {
			return "unreadable"
		}
		id := idOf(qc.GetProposalId())
		res = fmt.Sprintf("id=%d sigs=%s", id, fmtSigns(qc.GetSignsInfo(), id))
		w.certOracle(out, id, qc.GetSignsInfo(), res, false)
		w.replicaOracle(out, id, res)
		return res
	case "cert":
		qc := w.smr.GetCompleteHighQC()
		id := idOf(qc.GetProposalId())
		res = fmt.Sprintf("id=%d sigs=%s", id, fmtSigns(qc.GetSignsInfo(), id))
		w.certOracle(out, id, qc.GetSignsInfo(), res, true)
		return res
	}
	return "bad-op"
}

func (w *world) voteOracles(out *xvlib.Out, id int, dview int64, es []entry, known bool, highBefore int, viewBefore int64, high int, view int64,
	signs []*bftpb.QuorumCertSign, res string) {
	p, delivered := w.props[id]
	lo, cnt := 0, w.el.n
	if delivered {
		lo, cnt = w.el.members(p.view)
	}
	need := quorum(cnt)
	// Q1 soundness: the handler moved HighQC or the view = it declared a quorum for the proposal the vote names
	if high != highBefore || view != viewBefore {
		sup := w.supporters(id, false)
		switch {
		case !delivered:
			w.violate(out, "quorum-for-unknown-proposal", fmt.Sprintf("a vote for proposal %d, which the collector never received, moved HighQC %d->%d / view %d->%d", id, highBefore, high, viewBefore, view), res)
		case len(sup) < need:
			key := w.classify(id, need, signs)
			w.violate(out, key, fmt.Sprintf("the collector declared a quorum for proposal %d (HighQC %d->%d, view %d->%d) although valid votes of only %d distinct members besides itself have arrived; %d required (n=%d)",
				id, highBefore, high, viewBefore, view, len(sup), need, cnt), res)
		default:
			if high != highBefore && high != id {
				w.violate(out, "highqc-moved-elsewhere", fmt.Sprintf("votes for proposal %d moved HighQC to %d", id, high), res)
			}
			if view != viewBefore && view != p.view+1 {
				w.violate(out, "view-not-certified-view-plus-one", fmt.Sprintf("a quorum for proposal %d of view %d moved the pacemaker to view %d", id, p.view, view), res)
			}
		}
		if delivered && len(sup) >= need {
			w.declared[id] = true
		}
	}
	// Q3 completeness: a quorum of distinct valid votes that the collector could take has arrived => declared
	if delivered && known {
		if sup := w.supporters(id, true); len(sup) >= need && len(es) > 0 {
			first := es[0]
			genuine := first.good() && first.addr >= lo && first.addr < lo+cnt && first.addr != w.col && dview == p.view
			hn, _ := w.node(high)
			hv := hn.view
			if genuine && (view < p.view+1 || hv < p.view) {
				w.violate(out, "genuine-quorum-not-declared", fmt.Sprintf("valid votes of %d distinct members besides the collector have arrived for proposal %d (view %d, %d required, n=%d) but HighQC is %d and the view %d",
					len(sup), id, p.view, need, cnt, high, view), res)
			}
		}
	}
	// Q4 the stored vote log of the proposal: what the threshold is computed from and what is handed out as certificate
	seen := map[string]bool{}
	for _, s := range signs {
		a, ok := addrIdx[s.GetAddress()]
		switch {
		case !verifies(s, id):
			w.violate(out, "log-holds-invalid-signature", fmt.Sprintf("the collector stored, for proposal %d, a signature that does not verify for it", id), res)
		case w.fromLedger(id, s):
			// part of the certificate the ledger holds for this id (re-loaded at the restart): which entries a certificate
			// may carry besides its quorum is the business of CheckMinerMatch, which admitted it
		case !ok || !delivered || a < lo || a >= lo+cnt:
			w.violate(out, "log-holds-non-member", fmt.Sprintf("the collector stored, for proposal %d, the signature of an address outside the validator set of its view", id), res)
		case seen[s.GetAddress()]:
			w.violate(out, "log-holds-repeated-member", fmt.Sprintf("the collector stored two signatures of member %d for proposal %d", a, id), res)
		case a == w.col:
			w.violate(out, "log-holds-collector-own-vote", fmt.Sprintf("the collector stored its own vote for proposal %d (it is counted once more by the implicit +1 of the threshold)", id), res)
		}
		seen[s.GetAddress()] = true
	}
}

// certOracle: the certificate handed out for a HighQC that was reached by collecting votes carries a quorum and
// is accepted by a replica's real CheckProposal.
func (w *world) certOracle(out *xvlib.Out, id int, signs []*bftpb.QuorumCertSign, res string, direct bool) {
	if !w.declared[id] {
		return
	}
	p := w.props[id]
	lo, cnt := w.el.members(p.view)
	good := map[int]bool{}
	for _, s := range signs {
		if a, ok := addrIdx[s.GetAddress()]; ok && verifies(s, id) && a >= lo && a < lo+cnt && a != w.col {
			good[a] = true
		}
	}
	if len(good) < quorum(cnt) {
		w.violate(out, "certificate-below-quorum", fmt.Sprintf("the certificate the collector hands out for proposal %d carries valid signatures of %d distinct members besides itself; %d required (n=%d)", id, len(good), quorum(cnt), cnt), res)
		return
	}
	if !direct {
		return
	}
	// a replica that knows the proposal checks the certificate with the real CheckProposal
	root := &bft.ProposalNode{In: &bft.QuorumCert{VoteInfo: &bft.VoteInfo{ProposalId: idBytes(id), ProposalView: p.view}}}
	tree := &bft.QCPendingTree{Genesis: root, Root: root, HighQC: root, OrphanList: list.New(), OrphanMap: map[string]bool{}, Log: xvlib.Logger("replica")}
	rules := &bft.DefaultSaftyRules{Crypto: verifier, QcTree: tree, Log: xvlib.Logger("replica")}
	parent := &bft.QuorumCert{VoteInfo: &bft.VoteInfo{ProposalId: idBytes(id), ProposalView: p.view}, SignInfos: signs}
	next := &bft.QuorumCert{VoteInfo: &bft.VoteInfo{ProposalId: idBytes(201), ProposalView: p.view + 1, ParentId: idBytes(id), ParentView: p.view}}
	if err := rules.CheckProposal(next, parent, w.el.GetValidators(p.view)); err != nil {
		w.violate(out, "certificate-rejected-by-replica", fmt.Sprintf("the certificate the collector hands out for proposal %d is refused by a replica's CheckProposal: %v", id, err), res)
	}
}

// replicaOracle: end to end.  A replica (another validator, a real Smr of its own) that received the same proposal
// messages as the collector receives the collector's NEXT proposal: if the collector declared the quorum for
// proposal id by collecting genuine votes, the replica's real handleReceivedProposal must accept the justify (its
// HighQC moves to id).
func (w *world) replicaOracle(out *xvlib.Out, id int, res string) {
	if !w.declared[id] || w.sentProposal == nil || id == 0 {
		return
	}
	p := w.props[id]
	lo, cnt := w.el.members(p.view)
	rep := lo
	if rep == w.col && cnt > 1 {
		rep++
	}
	if w.restart != nil {
		// a replica restarted on the same ledger refuses every proposal above view 3 until it confirms a block (the ledger
		// state of a new Smr is 0): it cannot tell anything about the certificate
		return
	}
	r := newWorld(w.el.n, rep, w.el.c, w.el.b0, w.el.m)
	for _, m := range w.msgs {
		r.smr.VerifHandleReceivedProposal(m)
	}
	if r.smr.VerifQcTree().DFSQueryNode(idBytes(id)) == nil {
		return // the replica does not hold the proposal (refused justify): nothing to compare
	}
	before := r.highID()
	r.smr.VerifHandleReceivedProposal(w.sentProposal)
	bn, _ := w.node(before)
	if after := r.highID(); after != id && bn.view <= p.view {
		w.violate(out, "certificate-rejected-by-replica", fmt.Sprintf("the collector declared a quorum for proposal %d with genuine votes, but a replica that receives the collector's next proposal does not accept its justify (replica HighQC %d -> %d)", id, before, after), res)
	}
}

// ---------------------------------------------------------------- generator

type gen struct {
	out   *xvlib.Out
	cases int
}

// run executes one case (op lines; the first is a reset)
func (g *gen) run(kind string, lines []string) {
	nontrivial := false
	for _, l := range lines {
		g.out.Begin(l)
		r := exec(l, g.out)
		g.out.Emit(l, r)
		if strings.HasPrefix(l, "vote") {
			nontrivial = true
			g.out.Count("vote:" + strings.Fields(r)[0])
		}
	}
	// the node's next proposal (what it puts on the wire as justify): whenever HighQC left the root, else now and then
	if w != nil && kind != "replay" && kind != "corpus" && (w.highID() != 0 || g.cases%16 == 0) {
		l := "propose"
		g.out.Begin(l)
		g.out.Emit(l, exec(l, g.out))
		lines = append(lines, l)
	}
	g.out.Case(strings.Join(lines, ";"), nontrivial)
	g.out.Count("case:" + kind)
	if w != nil && w.highID() != 0 {
		g.out.Count("case-reached-quorum")
	}
	g.cases++
}

// alphabet of single arrivals for a collector col of n validators collecting for proposal id of view v
func alphabet(n, col, id int, v int64, full bool) []string {
	var a []string
	vt := func(id int, v int64, es string) string { return fmt.Sprintf("vote %d %d %s", id, v, es) }
	var others []int
	for i := 0; i < n; i++ {
		if i != col {
			others = append(others, i)
		}
	}
	for _, i := range others {
		a = append(a, vt(id, v, fmt.Sprintf("%dv", i)))
	}
	a = append(a, vt(id, v, fmt.Sprintf("%dv", col))) // the collector's own vote comes back
	a = append(a, vt(id, v, fmt.Sprintf("%dv", n)))   // non-member
	m1 := col
	if len(others) > 0 {
		m1 = others[0]
	}
	a = append(a, vt(id, v, fmt.Sprintf("%dr", m1))) // the same member, other signature bytes
	a = append(a, vt(id, v, fmt.Sprintf("%dw", m1))) // signature over another id
	a = append(a, vt(0, 0, fmt.Sprintf("%dv", m1)))  // genuine vote for another known proposal (the root)
	if full {
		a = append(a, vt(id, v, fmt.Sprintf("%dc", m1)), vt(id, v, fmt.Sprintf("%dm", m1)))
		a = append(a, vt(id, v, fmt.Sprintf("%do", m1)))                 // the member's genuine vote for the root, replayed for this id
		a = append(a, vt(id+50, v, fmt.Sprintf("%dv", m1)))              // a proposal the collector never received
		a = append(a, vt(id, v, fmt.Sprintf("%dv %dv %dv", m1, n, n+1))) // riders: unchecked extra signatures
		if len(others) > 1 {
			a = append(a, vt(id, v, fmt.Sprintf("%dv %dv", others[1], m1)))
			a = append(a, vt(0, 0, fmt.Sprintf("%dv", others[1])))
		}
		a = append(a, fmt.Sprintf("vote %d %d", id, v)) // no signature at all
	}
	var res []string
	seen := map[string]bool{}
	for _, x := range a {
		if !seen[x] {
			seen[x] = true
			res = append(res, x)
		}
	}
	return res
}

// sequences enumerates all sequences of 1..max symbols of a, shorter ones first (so that the first witness of a
// kind of violation is a shortest one)
func sequences(a []string, max int, f func([]string)) {
	for l := 1; l <= max; l++ {
		idx := make([]int, l)
		for {
			seq := make([]string, l)
			for i, k := range idx {
				seq[i] = a[k]
			}
			f(seq)
			i := l - 1
			for i >= 0 {
				idx[i]++
				if idx[i] < len(a) {
					break
				}
				idx[i] = 0
				i--
			}
			if i < 0 {
				break
			}
		}
	}
}

func quorumVotes(n, col int) []string {
	var es []string
	for i := 0; i < n && len(es) < quorum(n); i++ {
		if i != col {
			es = append(es, fmt.Sprintf("%dv", i))
		}
	}
	return es
}

func main() {
	args := xvlib.ParseArgs()
	out := xvlib.NewOut(args.Out)
	defer out.Close()
	a0 := acct(outsider)
	verifier = cCrypto.NewCBFTCrypto(&cctx.Address{Address: a0.Address, PrivateKeyStr: a0.PriJSON, PublicKeyStr: a0.PubJSON, PrivateKey: a0.Pri, PublicKey: a0.Pub}, xvlib.Crypto())
	g := &gen{out: out}
	if args.Replay != "" {
		g.runFile("replay", args.Replay)
		return
	}
	files, _ := filepath.Glob(filepath.Join("corpus", "C14", "collect-*.ops"))
	sort.Strings(files)
	for _, f := range files {
		g.runFile("corpus", f)
	}
	rng := xvlib.NewRng(args.Seed)
	thorough := args.Tier == "thorough"
	g.generate(rng, thorough)
	out.Stats.Exhaustive = false
	out.Stats.Rule = rule(thorough)
}

// runFile executes the cases of an op file (each starts with a reset line)
func (g *gen) runFile(kind, path string) {
	var cur []string
	for _, l := range xvlib.ReadLines(path) {
		if strings.HasPrefix(l, "reset") && len(cur) > 0 {
			g.run(kind, cur)
			cur = nil
		}
		cur = append(cur, l)
	}
	if len(cur) > 0 {
		g.run(kind, cur)
	}
}
