package main

// The RESTART path of the collector.  `reset xp|td ...` builds the real xpoa / tdpos plugin (chained-bft enabled)
// through its public constructor on a stub ledger that already holds blocks 0..tip: InitQCTree rebuilds the pending
// tree from the last ledger blocks, the pacemaker is set from the tip and the justify signatures of the last three
// ledger blocks are re-loaded into the vote log of the new Smr (LoadVotes) - a second writer of the log the quorum
// is counted from, besides the vote handler.  The Smr of the plugin then receives proposal and vote messages like
// the collector of a plain `reset`.
//
//	reset <xp|td> <n> <col> <start> <tip> <J1> <J2> <J3>
//	      validators 0..n-1 (configured initial set, in force for every view), the node is account <col>,
//	      StartHeight <start>, ledger blocks 0..<tip>; J1 J2 J3 = the signature entries of the justify
//	      certificates in the storage of blocks tip-2, tip-1, tip (`-` = none, else entries joined by `,`;
//	      each certifies the block's predecessor; ignored for blocks at or below StartHeight, which carry no
//	      signatures)                  -> high=<id> view=<v> log<i>=<..> for every node i of the rebuilt tree
//
// Proposal ids of a restarted collector: the root of the rebuilt tree is id 0 as after a plain reset; the ledger
// block of height h has id h-R for h >= R and 100+h below, R = height of the root block (tip-3; StartHeight-1 while
// tip <= StartHeight; 0 while tip < 3).  Views are block heights.

import (
	"encoding/json"
	"fmt"
	"reflect"
	"strconv"
	"strings"
	"unsafe"

	"github.com/xuperchain/xupercore/bcs/consensus/tdpos"
	"github.com/xuperchain/xupercore/bcs/consensus/xpoa"
	"github.com/xuperchain/xupercore/kernel/common/xcontext"
	"github.com/xuperchain/xupercore/kernel/consensus/base"
	ccommon "github.com/xuperchain/xupercore/kernel/consensus/base/common"
	bft "github.com/xuperchain/xupercore/kernel/consensus/base/driver/chained-bft"
	bftpb "github.com/xuperchain/xupercore/kernel/consensus/base/driver/chained-bft/pb"
	cctx "github.com/xuperchain/xupercore/kernel/consensus/context"
	"github.com/xuperchain/xupercore/kernel/consensus/def"
	"xv/xvlib"
)

const (
	xpPeriod   = 3000 // ms
	xpBlockNum = 10
	tdPeriod   = 1000 // ms; alternate_interval = term_interval = period
	tdBlockNum = 8
	tdInitMs   = 1600000000000
	maxTip     = 60
)

type restartCfg struct {
	kind       string // xp | td
	n, col     int
	start, tip int64
	just       [3][]string // entry tokens of the justify of blocks tip-2, tip-1, tip
}

// rootHeight: the ledger block InitQCTree makes the root of the rebuilt tree (names the ids of the op lines)
func rootHeight(start, tip int64) int64 {
	switch {
	case tip <= start:
		return start - 1
	case tip < 3:
		return 0
	}
	return tip - 3
}

func relID(root, h int64) int {
	if h >= root {
		return int(h - root)
	}
	return int(100 + h)
}

func parseRestart(f []string) (*restartCfg, bool) {
	if len(f) != 9 {
		return nil, false
	}
	c := &restartCfg{kind: f[1]}
	var err [4]error
	c.n, err[0] = strconv.Atoi(f[2])
	c.col, err[1] = strconv.Atoi(f[3])
	c.start, err[2] = strconv.ParseInt(f[4], 10, 64)
	c.tip, err[3] = strconv.ParseInt(f[5], 10, 64)
	for _, e := range err {
		if e != nil {
			return nil, false
		}
	}
	if c.n < 1 || c.n > 40 || c.col < 0 || c.col >= outsider || c.start < 1 || c.tip+1 < c.start || c.tip > maxTip {
		return nil, false
	}
	for i, j := range f[6:] {
		if j == "-" {
			continue
		}
		c.just[i] = strings.Split(j, ",")
		for _, t := range c.just[i] {
			if _, err := mkEntry(t, 0); err != nil {
				return nil, false
			}
		}
	}
	return c, true
}

// smrOf reads the package-private field `smr` of a consensus plugin instance.
func smrOf(impl interface{}) *bft.Smr {
	v := reflect.ValueOf(impl)
	if v.Kind() != reflect.Ptr || v.Elem().Kind() != reflect.Struct {
		return nil
	}
	f := v.Elem().FieldByName("smr")
	if !f.IsValid() || f.Kind() != reflect.Ptr || f.IsNil() {
		return nil
	}
	return (*bft.Smr)(unsafe.Pointer(f.Pointer()))
}

func tdTs(K int, term, pos, bp int64) int64 {
	termTime := int64(K) * tdBlockNum * tdPeriod
	posTime := int64(tdBlockNum) * tdPeriod
	ms := tdInitMs + (term-1)*termTime + pos*posTime + bp*tdPeriod + tdPeriod/2
	return ms * 1000000
}

// newRestartWorld builds the ledger and the plugin; the error names what could not be built.
func newRestartWorld(c *restartCfg) (*world, error) {
	root := rootHeight(c.start, c.tip)
	id := func(h int64) []byte { return idBytes(relID(root, h)) }
	// the ledger blocks were produced by this node when it is a validator (it collected their certificates, which
	// therefore do not carry its own signature), else by validator 0
	producer := 0
	if c.col < c.n {
		producer = c.col
	}
	w := &world{el: &election{n: c.n, cacheA: rangeAddrs(0, c.n)}, col: c.col, props: map[int]proposal{}, declared: map[int]bool{},
		ledgerNodes: map[int]proposal{}, ledgerSigs: map[int][]entry{}, genesis: relID(root, c.start-1), restart: c}
	l := newStubLedger()
	slot := int64(0)
	for h := int64(0); h <= c.tip; h++ {
		b := &blk{proposer: acct(producer).Address, height: h, id: id(h), storage: []byte("{}")}
		if h > 0 {
			b.pre = id(h - 1)
		}
		if c.kind == "xp" {
			b.ts = h * xpPeriod * 1000000
		} else {
			b.ts = (tdInitMs - 1000000 + h*1000) * 1000000
		}
		if h >= c.start {
			st := ccommon.ConsensusStorage{}
			if c.kind == "td" {
				K := int64(c.n)
				b.ts = tdTs(c.n, 1+slot/(K*tdBlockNum), (slot/tdBlockNum)%K, slot%tdBlockNum)
				st.CurTerm, st.CurBlockNum = 1+slot/(K*tdBlockNum), slot%tdBlockNum
				slot++
			}
			vi := &bft.VoteInfo{ProposalId: id(h - 1), ProposalView: h - 1}
			if h >= 2 {
				vi.ParentId, vi.ParentView = id(h-2), h-2
			}
			qc := &bft.QuorumCert{VoteInfo: vi}
			if h > c.start {
				toks := quorumVotesBut(c.n, c.col, producer)
				if k := h - (c.tip - 2); k >= 0 {
					toks = c.just[k]
				}
				var es []entry
				for _, t := range toks {
					e, err := mkEntry(t, relID(root, h-1))
					if err != nil {
						return nil, err
					}
					es = append(es, e)
					qc.SignInfos = append(qc.SignInfos, e.sig)
				}
				w.ledgerSigs[relID(root, h-1)] = es
			}
			old, err := ccommon.NewToOldQC(qc)
			if err != nil {
				return nil, err
			}
			st.Justify = old
			b.storage, _ = json.Marshal(st)
		}
		l.put(b)
		if h >= root {
			w.ledgerNodes[relID(root, h)] = proposal{view: h, parent: relID(root, h-1)}
		}
	}
	w.props[0] = w.ledgerNodes[0]
	a := acct(c.col)
	net := newStubNet()
	net.account = a.Address
	ctx := cctx.ConsensusCtx{
		BaseCtx:  xcontext.BaseCtx{XLog: xvlib.Logger("collect")},
		BcName:   bcName,
		Address:  &cctx.Address{Address: a.Address, PrivateKeyStr: a.PriJSON, PublicKeyStr: a.PubJSON, PrivateKey: a.Pri, PublicKey: a.Pub},
		Crypto:   xvlib.Crypto(),
		Contract: stubMgr{},
		Ledger:   l,
		Network:  net,
	}
	init := rangeAddrs(0, c.n)
	var impl base.ConsensusImplInterface
	if c.kind == "xp" {
		cfg := map[string]interface{}{"period": xpPeriod, "block_num": xpBlockNum,
			"init_proposer": map[string][]string{"address": init}, "bft_config": map[string]bool{}}
		js, _ := json.Marshal(cfg)
		impl = xpoa.NewXpoaConsensus(ctx, def.ConsensusConfig{ConsensusName: "xpoa", Config: string(js), StartHeight: c.start, Index: 0})
	} else {
		ks := strconv.Itoa
		cfg := map[string]interface{}{
			"timestamp": strconv.FormatInt(tdInitMs*1000000, 10), "proposer_num": ks(c.n), "period": ks(tdPeriod),
			"alternate_interval": ks(tdPeriod), "term_interval": ks(tdPeriod), "block_num": ks(tdBlockNum),
			"vote_unit_price": "1", "init_proposer": map[string][]string{"1": init}, "bft_config": map[string]bool{},
		}
		js, _ := json.Marshal(cfg)
		impl = tdpos.NewTdposConsensus(ctx, def.ConsensusConfig{ConsensusName: "tdpos", Config: string(js), StartHeight: c.start, Index: 0})
	}
	// a nil pointer inside a non-nil interface is what the constructors return on failure
	if impl == nil || reflect.ValueOf(impl).IsNil() {
		return nil, fmt.Errorf("the %s constructor returned nil", c.kind)
	}
	w.plugin = impl
	w.smr = smrOf(impl)
	w.net = net
	if w.smr == nil {
		impl.Stop()
		return nil, fmt.Errorf("the %s instance has no smr", c.kind)
	}
	return w, nil
}

// quorumVotesBut: valid votes of the first quorum of members other than the node itself and the block producer
func quorumVotesBut(n, col, producer int) []string {
	var es []string
	for i := 0; i < n && len(es) < quorum(n); i++ {
		if i != col && i != producer {
			es = append(es, fmt.Sprintf("%dv", i))
		}
	}
	return es
}

// restartAnswer: what the restart produced - HighQC, the pacemaker's view and the vote log of every node of the tree
func (w *world) restartAnswer() string {
	var b strings.Builder
	fmt.Fprintf(&b, "high=%d view=%d", w.highID(), w.smr.GetCurrentView())
	for i := 0; i < len(w.ledgerNodes); i++ {
		signs, _ := w.smr.VerifVotes(idBytes(i))
		fmt.Fprintf(&b, " log%d=%s", i, fmtSigns(signs, i))
	}
	return b.String()
}

// restartOracle: the proposal a restarted node treats as certified (HighQC: what its next block is built on and
// justified by) is the root / the genesis of the instance or a block whose certificate the ledger holds: valid
// signatures over its id of a quorum of distinct members besides the node.
func (w *world) restartOracle(out *xvlib.Out, res string) {
	h := w.highID()
	if h == 0 || h == w.genesis {
		return
	}
	p, ok := w.ledgerNodes[h]
	if !ok {
		w.violate(out, "restart-highqc-not-in-ledger", fmt.Sprintf("after the restart HighQC is %d, which is no block of the ledger the tree was rebuilt from", h), res)
		return
	}
	_, cnt := w.el.members(p.view)
	if sup := w.supporters(h, false); len(sup) < quorum(cnt) {
		w.violate(out, "restart-highqc-not-certified", fmt.Sprintf("after the restart HighQC is block %d (view %d) although the ledger holds valid signatures over its id of only %d distinct members besides the node; %d required (n=%d)",
			h, p.view, len(sup), quorum(cnt), cnt), res)
	}
}

// fromLedger: the signature entry is part of the certificate the ledger holds for proposal id
func (w *world) fromLedger(id int, s *bftpb.QuorumCertSign) bool {
	for _, e := range w.ledgerSigs[id] {
		if string(e.sig.GetSign()) == string(s.GetSign()) && e.sig.GetAddress() == s.GetAddress() {
			return true
		}
	}
	return false
}
