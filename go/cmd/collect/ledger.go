package main

// Stub ledger / block / contract manager used to build the real xpoa and tdpos plugins (chained-bft enabled)
// through their public constructors on a ledger that already holds blocks: the RESTART path, which rebuilds the
// pending tree from the ledger (InitQCTree) and re-loads the justify signatures of the last ledger blocks into the
// vote log of the new Smr (LoadVotes).  Same shape as go/cmd/bftmatch/stubs.go; no contract state is recorded
// (the validator set is the configured initial set for every view).

import (
	"errors"
	"fmt"

	"github.com/xuperchain/xupercore/kernel/contract"
	"github.com/xuperchain/xupercore/kernel/ledger"
)

var errNotFound = errors.New("block not found")

type blk struct {
	proposer string
	height   int64
	id       []byte
	storage  []byte
	ts       int64
	pre      []byte
}

func (b *blk) GetProposer() []byte                  { return []byte(b.proposer) }
func (b *blk) GetHeight() int64                     { return b.height }
func (b *blk) GetBlockid() []byte                   { return b.id }
func (b *blk) GetConsensusStorage() ([]byte, error) { return b.storage, nil }
func (b *blk) GetTimestamp() int64                  { return b.ts }
func (b *blk) SetItem(string, interface{}) error    { return errors.New("immutable") }
func (b *blk) GetPreHash() []byte                   { return b.pre }
func (b *blk) GetNextHash() []byte                  { return nil }
func (b *blk) GetPublicKey() string                 { return "" }
func (b *blk) GetSign() []byte                      { return nil }
func (b *blk) GetTxIDs() []string                   { return nil }
func (b *blk) GetInTrunk() bool                     { return true }
func (b *blk) MakeBlockId() ([]byte, error)         { return b.id, nil }

type stubLedger struct {
	chain []*blk // by height
	byID  map[string]*blk
}

func newStubLedger() *stubLedger { return &stubLedger{byID: map[string]*blk{}} }

func (l *stubLedger) put(b *blk) {
	l.chain = append(l.chain, b)
	l.byID[string(b.id)] = b
}

func (l *stubLedger) GetConsensusConf() ([]byte, error) { return nil, nil }
func (l *stubLedger) QueryBlock(id []byte) (ledger.BlockHandle, error) {
	if b, ok := l.byID[string(id)]; ok {
		return b, nil
	}
	return nil, errNotFound
}
func (l *stubLedger) QueryBlockByHeight(h int64) (ledger.BlockHandle, error) {
	if h < 0 || h >= int64(len(l.chain)) {
		return nil, errNotFound
	}
	return l.chain[h], nil
}
func (l *stubLedger) GetTipBlock() ledger.BlockHandle { return l.chain[len(l.chain)-1] }
func (l *stubLedger) GetTipXMSnapshotReader() (ledger.XMSnapshotReader, error) {
	return tipReader{}, nil
}
func (l *stubLedger) CreateSnapshot(id []byte) (ledger.XMReader, error) {
	if _, ok := l.byID[string(id)]; !ok {
		return nil, errNotFound
	}
	return snapReader{}, nil
}
func (l *stubLedger) GetTipSnapshot() (ledger.XMReader, error) { return snapReader{}, nil }

type tipReader struct{}

func (tipReader) Get(string, []byte) ([]byte, error) { return nil, nil }

type snapReader struct{}

func (snapReader) Get(string, []byte) (*ledger.VersionedData, error) { return nil, nil }
func (snapReader) Select(string, []byte, []byte) (ledger.XMIterator, error) {
	return nil, fmt.Errorf("not supported")
}

// ---- contract manager stub (kernel method registration is a no-op)

type stubMgr struct{}

func (stubMgr) NewContext(*contract.ContextConfig) (contract.Context, error) { return nil, nil }
func (stubMgr) NewStateSandbox(*contract.SandboxConfig) (contract.StateSandbox, error) {
	return nil, nil
}
func (stubMgr) GetKernRegistry() contract.KernRegistry { return stubReg{} }

type stubReg struct{}

func (stubReg) RegisterKernMethod(string, string, contract.KernMethod) {}
func (stubReg) RegisterShortcut(string, string, string)                {}
func (stubReg) GetKernMethod(string, string) (contract.KernMethod, error) {
	return nil, errors.New("none")
}
