package main

// Network stub: the collector registers nothing and whatever it sends goes nowhere.

import (
	xctx "github.com/xuperchain/xupercore/kernel/common/xcontext"
	nctx "github.com/xuperchain/xupercore/kernel/network/context"
	"github.com/xuperchain/xupercore/kernel/network/p2p"
	pb "github.com/xuperchain/xupercore/protos"
)

type stubNet struct{}

func (n *stubNet) Start() {}
func (n *stubNet) Stop()  {}
func (n *stubNet) SendMessage(xctx.XContext, *pb.XuperMessage, ...p2p.OptionFunc) error {
	return nil
}
func (n *stubNet) SendMessageWithResponse(xctx.XContext, *pb.XuperMessage, ...p2p.OptionFunc) ([]*pb.XuperMessage, error) {
	return nil, nil
}
func (n *stubNet) NewSubscriber(pb.XuperMessage_MessageType, interface{}, ...p2p.SubscriberOption) p2p.Subscriber {
	return nil
}
func (n *stubNet) Register(p2p.Subscriber) error   { return nil }
func (n *stubNet) UnRegister(p2p.Subscriber) error { return nil }
func (n *stubNet) Context() *nctx.NetCtx           { return nil }
func (n *stubNet) PeerInfo() pb.PeerInfo           { return pb.PeerInfo{} }
