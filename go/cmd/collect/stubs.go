package main

// Network stub: the node registers nothing; what it sends is kept for the harness to read.

import (
	"sync/atomic"

	xctx "github.com/xuperchain/xupercore/kernel/common/xcontext"
	nctx "github.com/xuperchain/xupercore/kernel/network/context"
	"github.com/xuperchain/xupercore/kernel/network/p2p"
	pb "github.com/xuperchain/xupercore/protos"
)

// stubNet keeps what the node sends (the production code sends from a goroutine of its own).
type stubNet struct {
	sent    chan *pb.XuperMessage
	account string // the node's own address (the consensus plugins take it from the network's PeerInfo)
	regs    int32  // subscribers registered so far (Smr.Start registers three, from a goroutine of its own)
}

func newStubNet() *stubNet { return &stubNet{sent: make(chan *pb.XuperMessage, 64)} }

func (n *stubNet) Start() {}
func (n *stubNet) Stop()  {}
func (n *stubNet) SendMessage(_ xctx.XContext, m *pb.XuperMessage, _ ...p2p.OptionFunc) error {
	select {
	case n.sent <- m:
	default: // nobody reads: drop
	}
	return nil
}
func (n *stubNet) SendMessageWithResponse(xctx.XContext, *pb.XuperMessage, ...p2p.OptionFunc) ([]*pb.XuperMessage, error) {
	return nil, nil
}
func (n *stubNet) NewSubscriber(pb.XuperMessage_MessageType, interface{}, ...p2p.SubscriberOption) p2p.Subscriber {
	return nil
}
func (n *stubNet) Register(p2p.Subscriber) error {
	atomic.AddInt32(&n.regs, 1)
	return nil
}
func (n *stubNet) UnRegister(p2p.Subscriber) error { return nil }
func (n *stubNet) Context() *nctx.NetCtx           { return nil }
func (n *stubNet) PeerInfo() pb.PeerInfo           { return pb.PeerInfo{Account: n.account} }
