package main

import (
	"fmt"
	"strings"

	"xv/xvlib"
)

func rule(thorough bool) string {
	s := "a real Smr collects for proposal 1 (view 1, child of the root): ALL arrival sequences of <= 3 vote messages over the full alphabet (every other member, the collector's own vote, a non-member, the same member re-signing, wrong-id / corrupted / key-mismatch signatures, votes for the root and for a proposal never received, messages with extra rider signatures or none) for n <= 4, all sequences of <= 4 over the reduced alphabet for n = 5 and n = 7, other collector positions; two proposals (siblings, parent/child with a justify) with all interleavings of their votes; votes before the proposal and for an orphan; validator sets that differ per view with votes declaring another view; random longer sequences for n <= 10; a case is non-trivial if it delivers a vote, distinct by op lines"
	if thorough {
		s += "; thorough: sequences one longer, n = 6, 8 over the reduced alphabet, n = 10 with all continuations of <= 4 arrivals after three votes, 30000 random cases"
	}
	return s
}

func (g *gen) single(kind string, n, col int, full bool, max int) {
	a := alphabet(n, col, 1, 1, full)
	sequences(a, max, func(seq []string) {
		lines := []string{fmt.Sprintf("reset %d %d", n, col), "prop 1 1 0 0"}
		lines = append(lines, seq...)
		lines = append(lines, "cert")
		g.run(kind, lines)
	})
}

func (g *gen) generate(rng *xvlib.Rng, thorough bool) {
	extra := 0
	if thorough {
		extra = 1
	}
	// A. one proposal, every arrival sequence
	for n := 1; n <= 4; n++ {
		g.single("single-full", n, 0, true, 3+extra)
	}
	g.single("single-reduced", 5, 0, false, 3+extra)
	{
		// n = 5 (quorum 3), one vote more: three other members, the collector, a repeat, a non-member
		a := []string{"vote 1 1 1v", "vote 1 1 2v", "vote 1 1 3v", "vote 1 1 0v", "vote 1 1 1r", "vote 1 1 5v"}
		sequences(a, 4+extra, func(seq []string) {
			if len(seq) < 4+extra {
				return
			}
			lines := append([]string{"reset 5 0", "prop 1 1 0 0"}, seq...)
			g.run("single-n5", append(lines, "cert"))
		})
	}
	g.single("single-reduced", 4, 2, false, 3+extra)
	g.single("single-reduced", 5, 4, false, 3+extra)
	g.single("single-reduced", 3, 3, false, 3+extra) // the collector is not a validator
	{
		// n = 7 (quorum 4): three other members, the collector, a repeat, a non-member
		n, col := 7, 0
		a := []string{"vote 1 1 1v", "vote 1 1 2v", "vote 1 1 3v", "vote 1 1 4v", "vote 1 1 0v", "vote 1 1 1r", "vote 1 1 7v"}
		max := 4 + extra
		sequences(a, max, func(seq []string) {
			lines := append([]string{fmt.Sprintf("reset %d %d", n, col), "prop 1 1 0 0"}, seq...)
			g.run("single-n7", append(lines, "cert"))
		})
	}
	if thorough {
		g.single("single-reduced", 6, 0, false, 4)
		g.single("single-reduced", 8, 1, false, 3)
		// n = 10 (quorum 6): five other members, a repeat, the collector: every order of up to 7 arrivals would be
		// 7^7; the last arrivals decide, so the first four are fixed
		a := []string{"vote 1 1 1v", "vote 1 1 2v", "vote 1 1 3v", "vote 1 1 4v", "vote 1 1 5v", "vote 1 1 6v", "vote 1 1 0v", "vote 1 1 1r", "vote 1 1 10v"}
		sequences(a, 4, func(seq []string) {
			lines := append([]string{"reset 10 0", "prop 1 1 0 0", "vote 1 1 1v", "vote 1 1 2v", "vote 1 1 3v"}, seq...)
			g.run("single-n10", append(lines, "cert"))
		})
	}
	// B. two proposals: votes for one never count for the other
	for n := 2; n <= 5; n++ {
		col := 0
		var a []string
		for i := 1; i < n && i <= 3; i++ {
			a = append(a, fmt.Sprintf("vote 1 1 %dv", i), fmt.Sprintf("vote 2 1 %dv", i))
		}
		sequences(a, 4+extra, func(seq []string) {
			lines := append([]string{fmt.Sprintf("reset %d %d", n, col), "prop 1 1 0 0", "prop 2 1 0 0"}, seq...)
			g.run("siblings", append(lines, "cert"))
		})
		// parent / child: the child's justify certifies the parent
		a = nil
		for i := 1; i < n && i <= 3; i++ {
			a = append(a, fmt.Sprintf("vote 1 1 %dv", i), fmt.Sprintf("vote 2 2 %dv", i))
		}
		just := strings.Join(quorumVotes(n, 0), " ")
		sequences(a, 3+extra, func(seq []string) {
			lines := append([]string{fmt.Sprintf("reset %d %d", n, col), "prop 1 1 0 0", strings.TrimSpace("prop 2 2 1 1 " + just)}, seq...)
			g.run("chain", append(lines, "cert"))
			// the same votes, part of them before the child is known
			if len(seq) >= 2 {
				lines = append([]string{fmt.Sprintf("reset %d %d", n, col), "prop 1 1 0 0"}, seq[:1]...)
				lines = append(lines, strings.TrimSpace("prop 2 2 1 1 "+just))
				lines = append(lines, seq[1:]...)
				g.run("chain-late-child", append(lines, "cert"))
			}
		})
		// a child whose justify is junk is known but not stored: its votes are never collected
		for _, j := range []string{"", "1w", fmt.Sprintf("%dv", n), "1v 1v 1r"} {
			lines := []string{fmt.Sprintf("reset %d %d", n, col), "prop 1 1 0 0", strings.TrimSpace("prop 2 2 1 1 " + j)}
			for i := 1; i < n; i++ {
				lines = append(lines, fmt.Sprintf("vote 2 2 %dv", i))
			}
			g.run("chain-bad-justify", append(lines, "cert"))
		}
	}
	// C. votes that arrive before the proposal; votes for an orphan proposal
	for n := 2; n <= 5; n++ {
		var a []string
		for i := 1; i < n && i <= 3; i++ {
			a = append(a, fmt.Sprintf("vote 1 1 %dv", i))
		}
		a = append(a, "vote 1 1 1r")
		sequences(a, 2, func(pre []string) {
			sequences(a, 2+extra, func(post []string) {
				lines := append([]string{fmt.Sprintf("reset %d 0", n)}, pre...)
				lines = append(lines, "prop 1 1 0 0")
				lines = append(lines, post...)
				g.run("early-votes", append(lines, "cert"))
			})
		})
		just := strings.Join(quorumVotes(n, 0), " ")
		var b []string
		for i := 1; i < n && i <= 3; i++ {
			b = append(b, fmt.Sprintf("vote 2 2 %dv", i))
		}
		sequences(b, 2, func(pre []string) {
			sequences(b, 2, func(post []string) {
				lines := append([]string{fmt.Sprintf("reset %d 0", n), strings.TrimSpace("prop 2 2 1 1 " + just)}, pre...)
				lines = append(lines, "prop 1 1 0 0")
				lines = append(lines, post...)
				g.run("orphan", append(lines, "cert"))
			})
		})
	}
	// E. the validator set depends on the view (A = 0..n-1 for view 1, B = b0..b0+m-1 from view 2 on); the view a vote
	// or a justify DECLARES is not covered by any signature
	for _, cfg := range [][4]int{{4, 0, 4, 4}, {7, 0, 0, 4}, {4, 0, 2, 4}, {4, 5, 4, 4}, {5, 1, 3, 7}} {
		n, col, b0, m := cfg[0], cfg[1], cfg[2], cfg[3]
		reset := fmt.Sprintf("reset %d %d 2 %d %d", n, col, b0, m)
		var a []string
		add := func(x string) {
			for _, y := range a {
				if x == y {
					return
				}
			}
			a = append(a, x)
		}
		pick := func(lo, cnt, k int) []int { // k members of lo..lo+cnt-1 other than the collector
			var r []int
			for i := lo; i < lo+cnt && len(r) < k; i++ {
				if i != col {
					r = append(r, i)
				}
			}
			return r
		}
		for _, i := range pick(0, n, 2) {
			add(fmt.Sprintf("vote 1 1 %dv", i))
			add(fmt.Sprintf("vote 1 2 %dv", i))
		}
		for _, i := range pick(b0, m, 2) {
			add(fmt.Sprintf("vote 1 1 %dv", i))
			add(fmt.Sprintf("vote 1 2 %dv", i))
		}
		add(fmt.Sprintf("vote 1 0 %dv", pick(0, n, 1)[0]))
		add(fmt.Sprintf("vote 1 3 %dv", pick(b0, m, 1)[0]))
		sequences(a, 3+extra, func(seq []string) {
			lines := append([]string{reset, "prop 1 1 0 0"}, seq...)
			g.run("views", append(lines, "cert"))
		})
		// proposal 2 of view 2 is voted by B; its justify certifies proposal 1 of view 1 (set A)
		justA := strings.Join(quorumVotes(n, col), " ")
		var b []string
		for _, i := range pick(b0, m, 3) {
			b = append(b, fmt.Sprintf("vote 2 2 %dv", i))
		}
		for _, i := range pick(0, n, 1) {
			b = append(b, fmt.Sprintf("vote 2 2 %dv", i), fmt.Sprintf("vote 2 1 %dv", i))
		}
		sequences(b, 3, func(seq []string) {
			lines := append([]string{reset, "prop 1 1 0 0", strings.TrimSpace("prop 2 2 1 1 " + justA)}, seq...)
			g.run("views-chain", append(lines, "cert"))
		})
		// a justify that lies about the view of the proposal it certifies: signed by the other view's set
		var jb []string
		for _, i := range pick(b0, m, m) {
			jb = append(jb, fmt.Sprintf("%dv", i))
		}
		for _, pv := range []int{1, 2, 3} {
			g.run("views-justify", []string{reset, "prop 1 1 0 0", fmt.Sprintf("prop 2 2 1 %d %s", pv, strings.Join(jb, " ")), "cert"})
			g.run("views-justify", []string{reset, "prop 1 1 0 0", strings.TrimSpace(fmt.Sprintf("prop 2 2 1 %d %s", pv, justA)), "cert"})
		}
	}
	// F. restarted collectors
	g.restarts(rng, thorough)
	// D. random longer sequences, n up to 10, near the threshold
	cases := 1500
	if thorough {
		cases = 30000
	}
	for i := 0; i < cases; i++ {
		n := 1 + rng.Intn(10)
		col := rng.Intn(n)
		if rng.Chance(1, 12) {
			col = n // the collector is not a validator
		}
		lines := []string{fmt.Sprintf("reset %d %d", n, col), "prop 1 1 0 0"}
		two := rng.Chance(1, 3)
		if two {
			lines = append(lines, "prop 2 1 0 0")
		}
		a := alphabet(n, col, 1, 1, true)
		var mem []string
		for j := 0; j < n; j++ {
			if j != col {
				mem = append(mem, fmt.Sprintf("%dv", j))
			}
		}
		q := quorum(n)
		cnt := q - 1 + rng.Intn(3)
		perm := rngPerm(rng, len(mem))
		var seq []string
		for j := 0; j < cnt && j < len(mem); j++ {
			seq = append(seq, "vote 1 1 "+mem[perm[j]])
		}
		junk := rng.Intn(5)
		for j := 0; j < junk; j++ {
			switch {
			case rng.Chance(1, 2) && len(seq) > 0:
				seq = append(seq, seq[rng.Intn(len(seq))]) // a vote is delivered again
			case two && rng.Chance(1, 2) && len(mem) > 0:
				seq = append(seq, "vote 2 1 "+mem[rng.Intn(len(mem))])
			default:
				seq = append(seq, a[rng.Intn(len(a))])
			}
		}
		for j := len(seq) - 1; j > 0; j-- {
			k := rng.Intn(j + 1)
			seq[j], seq[k] = seq[k], seq[j]
		}
		lines = append(lines, seq...)
		g.run("random", append(lines, "cert"))
		if i < 2 {
			g.out.Sample(map[string]interface{}{"ops": lines})
		}
	}
}

func rngPerm(r *xvlib.Rng, n int) []int {
	p := make([]int, n)
	for i := range p {
		p[i] = i
	}
	for j := n - 1; j > 0; j-- {
		k := r.Intn(j + 1)
		p[j], p[k] = p[k], p[j]
	}
	return p
}

// restarts: F. a collector RESTARTED on a ledger, through the real xpoa / tdpos constructors (restart.go).  For every
// plugin, validator count, position of the node and (StartHeight, tip) - restart states proper, the states where the
// root of the rebuilt tree is still the genesis of the instance, StartHeight just below the tip (the genesis inside the
// rebuilt tree) - the proposal message of the tip block / of the block below it (HighQC, whose certificate was re-loaded
// from the ledger) is delivered again, followed by all arrival sequences of <= 2 vote messages over the reduced
// alphabet and every single message of the full alphabet; votes without the proposal message; a proposal above the tip.
func (g *gen) restarts(rng *xvlib.Rng, thorough bool) {
	type nc struct{ n, col int }
	type st struct{ start, tip int64 }
	ncs := []nc{{1, 0}, {2, 0}, {3, 0}, {3, 1}, {4, 0}, {4, 2}, {5, 1}, {7, 3}, {3, 3}, {4, 5}}
	sts := []st{{1, 4}, {1, 5}, {1, 9}, {2, 6}, {4, 8}, {3, 4}, {3, 5}, {1, 3}, {1, 2}, {2, 2}, {2, 1}}
	// deep: all arrival sequences of <= 2 messages (thorough: 3; everywhere else 2) and the full alphabet; elsewhere single messages
	deepNc := map[nc]bool{{2, 0}: true, {3, 0}: true, {3, 1}: true, {4, 0}: true, {4, 2}: true, {3, 3}: true}
	deepSt := map[st]bool{{1, 4}: true, {2, 6}: true, {3, 4}: true, {1, 3}: true}
	if thorough {
		ncs = append(ncs, nc{6, 0}, nc{10, 4})
		sts = append(sts, st{1, 30}, st{5, 7}, st{6, 9})
	}
	for _, kind := range []string{"xp", "td"} {
		for _, c := range ncs {
			producer := 0
			if c.col < c.n {
				producer = c.col
			}
			for _, s := range sts {
				root := rootHeight(s.start, s.tip)
				tipRel := int(s.tip - root)
				deep := deepNc[c] && deepSt[s]
				max := 1
				switch {
				case deep && thorough:
					max = 3
				case deep || thorough:
					max = 2
				}
				for variant := 0; variant < 2; variant++ {
					// the certificates of the last three blocks: an exact quorum / every member but the node itself
					cert := quorumVotesBut(c.n, c.col, producer)
					if variant == 1 {
						cert = nil
						for i := 0; i < c.n; i++ {
							if i != c.col {
								cert = append(cert, fmt.Sprintf("%dv", i))
							}
						}
						if len(cert) == len(quorumVotesBut(c.n, c.col, producer)) && !rng.Chance(1, 4) {
							continue
						}
					}
					j := "-"
					if len(cert) > 0 {
						j = strings.Join(cert, ",")
					}
					reset := fmt.Sprintf("reset %s %d %d %d %d %s %s %s", kind, c.n, c.col, s.start, s.tip, j, j, j)
					for _, target := range []int{tipRel, tipRel - 1} {
						if target < 1 {
							continue
						}
						view := root + int64(target)
						prop := strings.TrimSpace(fmt.Sprintf("prop %d %d %d %d %s", target, view, target-1, view-1, strings.Join(cert, " ")))
						a := alphabet(c.n, c.col, target, view, false)
						if variant == 0 {
							sequences(a, max, func(seq []string) {
								lines := append([]string{reset, prop}, seq...)
								g.run("restart-"+kind, append(lines, "cert"))
							})
							if deep || thorough {
								for _, x := range alphabet(c.n, c.col, target, view, true) {
									g.run("restart-"+kind, []string{reset, prop, x, "cert"})
								}
							}
							// the votes without the proposal message: a restarted node knows the root only
							if len(a) > 1 {
								g.run("restart-noprop-"+kind, []string{reset, a[0], a[1], "cert"})
								g.run("restart-lateprop-"+kind, []string{reset, a[0], prop, a[0], a[1], "cert"})
							}
							// a proposal message that lies about the view / the parent of a block the tree already holds
							g.run("restart-badprop-"+kind, []string{reset, fmt.Sprintf("prop %d %d %d %d", target, view+1, target, view), a[0], fmt.Sprintf("vote %d %d %dv", target, view+1, (c.col+1)%c.n), "cert"})
						} else {
							sequences(a, 1, func(seq []string) {
								lines := append([]string{reset, prop}, seq...)
								g.run("restart-"+kind, append(lines, "cert"))
							})
						}
					}
					if variant == 0 {
						// the next block's proposal arrives (a restarted node's ledger state is 0: above view 3 it is only remembered),
						// then its votes
						next := tipRel + 1
						view := s.tip + 1
						prop := strings.TrimSpace(fmt.Sprintf("prop %d %d %d %d %s", next, view, tipRel, s.tip, strings.Join(cert, " ")))
						lines := []string{reset, prop}
						for i := 0; i < c.n && i < 4; i++ {
							if i != c.col {
								lines = append(lines, fmt.Sprintf("vote %d %d %dv", next, view, i))
							}
						}
						g.run("restart-next-"+kind, append(lines, "cert"))
					}
				}
			}
		}
	}
}
