// Engine `sandbox` (C10): drives the real sandbox.XMCache (kernel/contract/sandbox) with
// programs of Get / Put / Del / Select(bounds, early stop) over two kinds of backing reader,
// then re-runs every program over sandbox.XMReaderFromRWSet(rwset).
//
// op lines (also the input of the Lean driver `xvdriver sandbox`):
//
//	reset <kind> <b:k:ver:val>...   new case; backing state. kind m = sandbox.MemXModel holding every
//	                                entry (a missing key is ErrNotFound); kind x = reader with the
//	                                semantics of the ledger's XModel: entries with val 0 (delete mark)
//	                                are found by Get only (not iterated), a never-written key is
//	                                returned by Get as an empty-version entry, Select never errors
//	get <b> <k>                     -> v<val> | nf (ErrNotFound) | del (ErrHasDel) | err
//	put <b> <k> <val>               -> ok | err            (val 0 is the delete mark "\x00")
//	del <b> <k>                     -> ok | err
//	sel <b> <lo> <hi> <n>           Select(bucket, lo, hi) then n calls of Next(), Close
//	                                -> [k:val ...] r=<entries in the read set afterwards> | err | panic
//	                                lo/hi: key number or - (nil)
//	rwset                           -> R b:k:ver:val ... W b:k:val ...   (sorted)
//	rerun                           run the ops of this case again on a fresh cache over
//	                                XMReaderFromRWSet(RWSet()); -> same | diff
//
// buckets: 0 = "$transient", i = "b<i>";  keys: "k<i>" (one digit, so byte order = numeric order);
// values: 0 = "\x00" (delete mark), 1 = empty, n>=2 = "v<n>"; versions: 0 = empty version
// (RefTxid nil, RefOffset 0), n>=1 = RefTxid "t<n>", RefOffset n%4.
package main

import (
	"bytes"
	"fmt"
	"path/filepath"
	"sort"
	"strconv"
	"strings"

	"github.com/xuperchain/xupercore/kernel/contract"
	"github.com/xuperchain/xupercore/kernel/contract/sandbox"
	"github.com/xuperchain/xupercore/kernel/ledger"
	"xv/xvlib"
)

// ---------------------------------------------------------------- encoding of the abstract ids

const nBuckets = 4

func bucketName(b int) string {
	if b == 0 {
		return sandbox.TransientBucket
	}
	return "b" + strconv.Itoa(b)
}

func bucketID(s string) int {
	if s == sandbox.TransientBucket {
		return 0
	}
	n, err := strconv.Atoi(strings.TrimPrefix(s, "b"))
	if err != nil {
		return -1
	}
	return n
}

func keyBytes(k int) []byte { return []byte("k" + strconv.Itoa(k)) }

func keyID(k []byte) int {
	if len(k) < 2 || k[0] != 'k' {
		return -1
	}
	n, err := strconv.Atoi(string(k[1:]))
	if err != nil {
		return -1
	}
	return n
}

func valBytes(v int) []byte {
	switch v {
	case 0:
		return []byte(sandbox.DelFlag)
	case 1:
		return []byte{}
	}
	return []byte("v" + strconv.Itoa(v))
}

func valID(v []byte) int {
	if bytes.Equal(v, []byte(sandbox.DelFlag)) {
		return 0
	}
	if len(v) == 0 {
		return 1
	}
	if v[0] == 'v' {
		if n, err := strconv.Atoi(string(v[1:])); err == nil {
			return n
		}
	}
	return -1
}

func mkData(b, k, ver, val int) *ledger.VersionedData {
	d := &ledger.VersionedData{PureData: &ledger.PureData{Bucket: bucketName(b), Key: keyBytes(k), Value: valBytes(val)}}
	if ver > 0 {
		d.RefTxid = []byte("t" + strconv.Itoa(ver))
		d.RefOffset = int32(ver % 4)
	}
	return d
}

func verID(d *ledger.VersionedData) int {
	if d.RefTxid == nil {
		if d.RefOffset == 0 {
			return 0
		}
		return -1
	}
	n, err := strconv.Atoi(strings.TrimPrefix(string(d.RefTxid), "t"))
	if err != nil || int32(n%4) != d.RefOffset {
		return -1
	}
	return n
}

// ---------------------------------------------------------------- backing readers

type entry struct{ b, k, ver, val int }

// xfake has the observable semantics of bcs/ledger/xledger/state/xmodel.XModel (Get falls back to
// the delete table, then to an empty-version entry; Select iterates live keys only and never
// returns an error) without needing a ledger.
type xfake struct {
	live *sandbox.MemXModel
	dead map[string]*ledger.VersionedData
}

func (x *xfake) Get(bucket string, key []byte) (*ledger.VersionedData, error) {
	if v, err := x.live.Get(bucket, key); err == nil {
		return v, nil
	}
	if v, ok := x.dead[bucket+"/"+string(key)]; ok {
		return v, nil
	}
	return &ledger.VersionedData{PureData: &ledger.PureData{Bucket: bucket, Key: key}}, nil
}

type emptyIter struct{}

func (emptyIter) Key() []byte                  { return nil }
func (emptyIter) Value() *ledger.VersionedData { return nil }
func (emptyIter) Next() bool                   { return false }
func (emptyIter) Error() error                 { return nil }
func (emptyIter) Close()                       {}

func (x *xfake) Select(bucket string, start, end []byte) (ledger.XMIterator, error) {
	it, err := x.live.Select(bucket, start, end)
	if err != nil { // XModel.Select: a range iterator over the table; an inverted range is empty, not an error
		return emptyIter{}, nil
	}
	return it, nil
}

func buildReader(kind byte, es []entry) ledger.XMReader {
	m := sandbox.NewMemXModel()
	if kind == 'm' {
		for _, e := range es {
			m.Put(bucketName(e.b), keyBytes(e.k), mkData(e.b, e.k, e.ver, e.val))
		}
		return m
	}
	x := &xfake{live: m, dead: map[string]*ledger.VersionedData{}}
	for _, e := range es {
		rk := bucketName(e.b) + "/" + string(keyBytes(e.k))
		if e.val == 0 {
			x.dead[rk] = mkData(e.b, e.k, e.ver, e.val)
			// a later live entry of the same key replaces it in MemXModel order; keep last-wins
			continue
		}
		delete(x.dead, rk)
		m.Put(bucketName(e.b), keyBytes(e.k), mkData(e.b, e.k, e.ver, e.val))
	}
	return x
}

// ---------------------------------------------------------------- executor on the real code

type bk struct{ b, k int }

func bound(s string) []byte {
	if s == "-" {
		return nil
	}
	n, _ := strconv.Atoi(s)
	return keyBytes(n)
}

type selRes struct {
	ok     bool
	status string // "", err, panic
	keys   []int
	vals   []int
}

func (r selRes) list() string {
	var p []string
	for i := range r.keys {
		p = append(p, fmt.Sprintf("%d:%d", r.keys[i], r.vals[i]))
	}
	return "[" + strings.Join(p, " ") + "]"
}

func rsetSize(c *sandbox.XMCache) int { return len(c.RWSet().RSet) }

func doSelect(c *sandbox.XMCache, b int, lo, hi string, n int) (res selRes) {
	defer func() {
		if r := recover(); r != nil {
			res = selRes{status: "panic"}
		}
	}()
	it, err := c.Select(bucketName(b), bound(lo), bound(hi))
	if err != nil {
		return selRes{status: "err"}
	}
	res.ok = true
	for i := 0; i < n; i++ {
		if !it.Next() {
			break
		}
		res.keys = append(res.keys, keyID(it.Key()))
		res.vals = append(res.vals, valID(it.Value()))
	}
	it.Close()
	return res
}

// execOp runs one op (not reset/rwset/rerun) on cache c; returns canonical answer and, for sel, the structured result.
func execOp(c *sandbox.XMCache, w []string) (ans string, sr selRes) {
	defer func() {
		if r := recover(); r != nil {
			ans = "panic"
		}
	}()
	switch w[0] {
	case "get":
		b, _ := strconv.Atoi(w[1])
		k, _ := strconv.Atoi(w[2])
		v, err := c.Get(bucketName(b), keyBytes(k))
		switch {
		case err == nil:
			return "v" + strconv.Itoa(valID(v)), sr
		case err == sandbox.ErrNotFound:
			return "nf", sr
		case err == sandbox.ErrHasDel:
			return "del", sr
		}
		return "err", sr
	case "put":
		b, _ := strconv.Atoi(w[1])
		k, _ := strconv.Atoi(w[2])
		v, _ := strconv.Atoi(w[3])
		if err := c.Put(bucketName(b), keyBytes(k), valBytes(v)); err != nil {
			return "err", sr
		}
		return "ok", sr
	case "del":
		b, _ := strconv.Atoi(w[1])
		k, _ := strconv.Atoi(w[2])
		if err := c.Del(bucketName(b), keyBytes(k)); err != nil {
			return "err", sr
		}
		return "ok", sr
	case "sel":
		b, _ := strconv.Atoi(w[1])
		n, _ := strconv.Atoi(w[4])
		sr = doSelect(c, b, w[2], w[3], n)
		if !sr.ok {
			return sr.status, sr
		}
		return sr.list() + " r=" + strconv.Itoa(rsetSize(c)), sr
	}
	return "bad-op", sr
}

func dumpRW(c *sandbox.XMCache) string {
	rw := c.RWSet()
	var rs, ws []string
	type row struct {
		b, k int
		s    string
	}
	var rr, wr []row
	for _, r := range rw.RSet {
		b, k := bucketID(r.PureData.Bucket), keyID(r.PureData.Key)
		rr = append(rr, row{b, k, fmt.Sprintf("%d:%d:%d:%d", b, k, verID(r), valID(r.PureData.Value))})
	}
	for _, p := range rw.WSet {
		b, k := bucketID(p.Bucket), keyID(p.Key)
		wr = append(wr, row{b, k, fmt.Sprintf("%d:%d:%d", b, k, valID(p.Value))})
	}
	less := func(x []row) func(i, j int) bool {
		return func(i, j int) bool {
			if x[i].b != x[j].b {
				return x[i].b < x[j].b
			}
			return x[i].k < x[j].k
		}
	}
	sort.SliceStable(rr, less(rr))
	sort.SliceStable(wr, less(wr))
	for _, r := range rr {
		rs = append(rs, r.s)
	}
	for _, r := range wr {
		ws = append(ws, r.s)
	}
	return strings.Join(append(append(append([]string{"R"}, rs...), "W"), ws...), " ")
}

func wsetString(c *sandbox.XMCache) string {
	s := dumpRW(c)
	return s[strings.Index(s, "W"):]
}

// selList strips the read-set count off a sel answer (the count is not an observable of a contract call)
func selList(ans string) string {
	if i := strings.Index(ans, " r="); i >= 0 {
		return ans[:i]
	}
	return ans
}

// ---------------------------------------------------------------- one case: execution + property oracle

type viol struct{ key, what string }

// runCase executes the op lines of one case (first line is `reset`) on the real code and evaluates
// the property oracle on what the real code returned. Returns the answers and the violations.
func runCase(lines []string) (answers []string, viols []viol) {
	add := func(key, f string, a ...interface{}) { viols = append(viols, viol{key, fmt.Sprintf(f, a...)}) }
	w0 := strings.Fields(lines[0])
	if len(w0) < 2 || w0[0] != "reset" || (w0[1] != "m" && w0[1] != "x") {
		return []string{"bad-op"}, nil
	}
	kind := w0[1][0]
	var es []entry
	for _, t := range w0[2:] {
		p := strings.Split(t, ":")
		if len(p) != 4 {
			return []string{"bad-op"}, nil
		}
		var e entry
		e.b, _ = strconv.Atoi(p[0])
		e.k, _ = strconv.Atoi(p[1])
		e.ver, _ = strconv.Atoi(p[2])
		e.val, _ = strconv.Atoi(p[3])
		es = append(es, e)
	}
	// shadow of the backing state (independent of the code under test)
	back := map[bk]entry{}
	for _, e := range es {
		back[bk{e.b, e.k}] = e
	}
	backLive := func(b, k int) (int, bool) { // value a reader of the underlying state must see
		e, ok := back[bk{b, k}]
		if !ok || e.val == 0 || e.ver == 0 {
			return 0, false
		}
		return e.val, true
	}
	iterated := func(e entry) bool { return kind == 'm' || e.val != 0 } // does the reader's Select iterate it
	pend := map[bk]int{}                                               // latest write of this execution
	view := func(b, k int) (int, bool) {
		if v, ok := pend[bk{b, k}]; ok {
			return v, v != 0
		}
		return backLive(b, k)
	}
	mustRead := map[bk]string{} // keys the read set has to hold, with the reason

	c := sandbox.NewXModelCache(&contract.SandboxConfig{XMReader: buildReader(kind, es)})
	answers = append(answers, "ok")
	var prog [][]string
	for _, line := range lines[1:] {
		w := strings.Fields(line)
		if len(w) == 0 {
			answers = append(answers, "bad-op")
			continue
		}
		switch {
		case w[0] == "get" && len(w) == 3, w[0] == "put" && len(w) == 4, w[0] == "del" && len(w) == 3, w[0] == "sel" && len(w) == 5:
			prog = append(prog, w)
			ans, sr := execOp(c, w)
			answers = append(answers, ans)
			b, _ := strconv.Atoi(w[1])
			switch w[0] {
			case "get":
				k, _ := strconv.Atoi(w[2])
				want, live := view(b, k)
				_, pending := pend[bk{b, k}]
				cause := "underlying"
				if pending && live {
					cause = "after-put"
				} else if pending {
					cause = "after-del"
				}
				if ans == "panic" || ans == "err" {
					add("get-"+ans, "%s answered %s", line, ans)
				} else if live && ans != "v"+strconv.Itoa(want) {
					add("ryw-"+cause, "%s answered %s; the latest write/underlying state says v%d", line, ans, want)
				} else if !live && ans != "nf" && ans != "del" {
					add("ryw-"+cause, "%s answered %s for an absent key", line, ans)
				}
				if _, ok := back[bk{b, k}]; !pending && (ok || kind == 'x') {
					mustRead[bk{b, k}] = "Get fell through to the underlying state"
				}
			case "put", "del":
				k, _ := strconv.Atoi(w[2])
				v := 0
				if w[0] == "put" {
					v, _ = strconv.Atoi(w[3])
				}
				if ans != "ok" {
					add("put-"+ans, "%s answered %s", line, ans)
				}
				pend[bk{b, k}] = v
			case "sel":
				n, _ := strconv.Atoi(w[4])
				lo, hi := -1, 1<<30
				if w[2] != "-" {
					lo, _ = strconv.Atoi(w[2])
				}
				if w[3] != "-" {
					hi, _ = strconv.Atoi(w[3])
				}
				if !sr.ok {
					if sr.status == "panic" {
						add("select-panic", "%s panicked", line)
					} else if !(w[2] != "-" && w[3] != "-" && lo > hi) {
						add("select-error", "%s was refused although the range is well formed", line)
					}
					break
				}
				// expected: the live keys of [lo,hi) in order (shadow), first n of them
				var expK, expV []int
				for k := 0; k < 10; k++ {
					if k >= lo && k < hi {
						if v, ok := view(b, k); ok {
							expK = append(expK, k)
							expV = append(expV, v)
						}
					}
				}
				full := len(expK)
				if len(expK) > n {
					expK, expV = expK[:n], expV[:n]
				}
				bad := false
				for i, k := range sr.keys {
					if pv, ok := pend[bk{b, k}]; ok && pv == 0 {
						add("select-yields-deleted", "%s yielded key %d (value code %d) which this execution deleted", line, k, sr.vals[i])
						bad = true
					} else if _, ok := view(b, k); !ok {
						e, inBack := back[bk{b, k}]
						switch {
						case !inBack || e.ver == 0:
							add("select-yields-never-written", "%s yielded key %d which was never written (empty version)", line, k)
						default:
							add("select-yields-dead", "%s yielded key %d which is deleted in the underlying state", line, k)
						}
						bad = true
					} else if k < lo || k >= hi {
						add("select-out-of-range", "%s yielded key %d", line, k)
						bad = true
					}
					if i > 0 && sr.keys[i-1] >= k {
						add("select-order", "%s yielded %d after %d", line, k, sr.keys[i-1])
						bad = true
					}
				}
				if !bad {
					if len(sr.keys) < len(expK) {
						add("select-misses-live", "%s yielded %v, live keys are %v (of %d)", line, sr.keys, expK, full)
					} else if len(sr.keys) > len(expK) {
						add("select-too-many", "%s yielded %v, live keys are %v", line, sr.keys, expK)
					} else {
						for i := range expK {
							if sr.keys[i] != expK[i] {
								add("select-misses-live", "%s yielded %v, live keys are %v", line, sr.keys, expK)
								break
							}
							if sr.vals[i] != expV[i] {
								add("select-wrong-value", "%s yielded %d:%d, expected value %d", line, sr.keys[i], sr.vals[i], expV[i])
								break
							}
						}
					}
				}
				// read-set obligations of the scan: every key the underlying reader iterates up to the last
				// yielded key (all of the range when the scan ran to its end)
				upto := hi
				if len(sr.keys) == n && n > 0 {
					upto = sr.keys[len(sr.keys)-1] + 1
				} else if n == 0 {
					upto = lo
				}
				for _, e := range es {
					if e2 := back[bk{e.b, e.k}]; e2 != e {
						continue
					}
					if e.b == b && e.k >= lo && e.k < hi && e.k < upto && iterated(e) {
						if _, ok := pend[bk{b, e.k}]; ok {
							// a key written or deleted in this execution is shadowed by the write set; outside the
							// transient bucket Put has force-read it, which is checked through wset-not-in-rset
							continue
						}
						mustRead[bk{b, e.k}] = "iterated by Select " + strings.Join(w[2:], " ")
					}
				}
			}
		case w[0] == "rwset" && len(w) == 1:
			answers = append(answers, dumpRW(c))
			rw := c.RWSet()
			have := map[bk]bool{}
			for _, r := range rw.RSet {
				b, k := bucketID(r.PureData.Bucket), keyID(r.PureData.Key)
				have[bk{b, k}] = true
				e, ok := back[bk{b, k}]
				switch {
				case ok && (verID(r) != e.ver || valID(r.PureData.Value) != e.val):
					add("rset-wrong-version", "read set holds %d:%d with version %d value %d; the underlying state has version %d value %d", b, k, verID(r), valID(r.PureData.Value), e.ver, e.val)
				case !ok && verID(r) != 0:
					add("rset-wrong-version", "read set holds never-written %d:%d with version %d", b, k, verID(r))
				}
			}
			for key, why := range mustRead {
				if !have[key] {
					add("rset-missing-read", "key %d:%d is not in the read set (%s)", key.b, key.k, why)
				}
			}
			ws := map[bk]int{}
			for _, p := range rw.WSet {
				b, k := bucketID(p.Bucket), keyID(p.Key)
				ws[bk{b, k}] = valID(p.Value)
				if _, ok := pend[bk{b, k}]; !ok {
					add("wset-extra", "write set holds %d:%d which was never written", b, k)
				}
				_, inBack := back[bk{b, k}]
				if b != 0 && !have[bk{b, k}] && (kind == 'x' || inBack) {
					add("wset-not-in-rset", "written key %d:%d is not in the read set", b, k)
				}
			}
			for key, v := range pend {
				if got, ok := ws[key]; !ok || got != v {
					add("wset-not-final", "write set value of %d:%d is %d (present=%v), final write was %d", key.b, key.k, got, ok, v)
				}
			}
		case w[0] == "rerun" && len(w) == 1:
			c2 := sandbox.NewXModelCache(&contract.SandboxConfig{XMReader: sandbox.XMReaderFromRWSet(c.RWSet())})
			res := "same"
			idx := 0
			for i, l := range lines[1:] {
				pw := strings.Fields(l)
				if len(pw) == 0 || pw[0] == "rwset" || pw[0] == "rerun" {
					continue
				}
				if idx >= len(prog) {
					break
				}
				idx++
				a2, _ := execOp(c2, pw)
				if selList(a2) != selList(answers[i+1]) {
					res = "diff"
					add("replay-diverges-"+pw[0], "over XMReaderFromRWSet %q answers %s, first run answered %s", l, selList(a2), selList(answers[i+1]))
					break
				}
			}
			if res == "same" && wsetString(c2) != wsetString(c) {
				res = "diff"
				add("replay-diverges-wset", "write set over XMReaderFromRWSet is %s, first run %s", wsetString(c2), wsetString(c))
			}
			answers = append(answers, res)
		default:
			answers = append(answers, "bad-op")
		}
	}
	return answers, viols
}

// shrink drops ops / backing entries while a violation with the same key persists.
func shrink(lines []string, key string) []string {
	has := func(ls []string) bool {
		_, vs := runCase(ls)
		for _, v := range vs {
			if v.key == key {
				return true
			}
		}
		return false
	}
	cur := append([]string{}, lines...)
	for changed := true; changed; {
		changed = false
		for i := 1; i < len(cur); i++ {
			cand := append(append([]string{}, cur[:i]...), cur[i+1:]...)
			if has(cand) {
				cur, changed = cand, true
				i--
			}
		}
		w := strings.Fields(cur[0])
		for i := 2; i < len(w); i++ {
			cw := append(append([]string{}, w[:i]...), w[i+1:]...)
			cand := append([]string{strings.Join(cw, " ")}, cur[1:]...)
			if has(cand) {
				cur, w, changed = cand, cw, true
				i--
			}
		}
	}
	return cur
}

// ---------------------------------------------------------------- generators

func entriesString(es []entry) string {
	var p []string
	for _, e := range es {
		p = append(p, fmt.Sprintf("%d:%d:%d:%d", e.b, e.k, e.ver, e.val))
	}
	return strings.Join(p, " ")
}

func randWorld(r *xvlib.Rng, nKeys int) (byte, []entry) {
	kind := byte('m')
	if r.Bool() {
		kind = 'x'
	}
	var es []entry
	ver := 1
	for b := 0; b < nBuckets; b++ {
		if b == 0 && kind == 'x' {
			continue // the ledger never stores the transient bucket
		}
		for k := 0; k < nKeys; k++ {
			if b >= 2 && !r.Chance(1, 3) {
				continue
			}
			switch r.Intn(6) {
			case 0, 1, 2: // live
				es = append(es, entry{b, k, ver, 2 + r.Intn(4)})
				ver++
			case 3: // deleted in the underlying state
				es = append(es, entry{b, k, ver, 0})
				ver++
			case 4: // never written (absent)
			case 5:
				if kind == 'm' && r.Chance(1, 2) { // an empty-version entry (as a read-set derived reader holds)
					es = append(es, entry{b, k, 0, 1})
				}
			}
		}
	}
	return kind, es
}

func randBound(r *xvlib.Rng, nKeys int) string {
	if r.Chance(1, 3) {
		return "-"
	}
	return strconv.Itoa(r.Intn(nKeys + 1))
}

func randProgram(r *xvlib.Rng, nKeys, maxOps int) []string {
	n := 1 + r.Intn(maxOps)
	var ops []string
	nextVal := 10
	hot := 1 + r.Intn(2) // most ops hit one bucket so that they interact
	for i := 0; i < n; i++ {
		b := hot
		if r.Chance(1, 6) {
			b = r.Intn(nBuckets)
		}
		k := r.Intn(nKeys)
		switch r.Intn(10) {
		case 0, 1:
			ops = append(ops, fmt.Sprintf("get %d %d", b, k))
		case 2, 3, 4:
			v := nextVal
			nextVal++
			if r.Chance(1, 12) {
				v = r.Intn(2) // the delete mark / the empty value written through Put
			}
			ops = append(ops, fmt.Sprintf("put %d %d %d", b, k, v))
		case 5, 6:
			ops = append(ops, fmt.Sprintf("del %d %d", b, k))
		default:
			lo, hi := randBound(r, nKeys), randBound(r, nKeys)
			if lo != "-" && hi != "-" && r.Chance(4, 5) {
				a, _ := strconv.Atoi(lo)
				c, _ := strconv.Atoi(hi)
				if a > c {
					lo, hi = hi, lo
				}
			}
			cnt := 99
			if r.Chance(1, 2) {
				cnt = r.Intn(nKeys + 1)
			}
			ops = append(ops, fmt.Sprintf("sel %d %s %s %d", b, lo, hi, cnt))
		}
	}
	return ops
}

// exhaustive universe: 3 keys in bucket 1
var exWorlds = []string{
	"reset m 1:0:1:2 1:1:2:0 1:2:0:1",          // MemXModel: live, deleted, empty-version entry
	"reset x 1:0:1:2 1:1:2:0",                  // XModel-like: live, deleted, never written
	"reset x 1:1:1:3 1:2:2:4 2:0:3:5 2:1:4:0", // XModel-like: never written, live, live; other bucket populated
}

func exAlphabet(small bool) []string {
	var a []string
	for k := 0; k < 3; k++ {
		a = append(a, fmt.Sprintf("get 1 %d", k), fmt.Sprintf("put 1 %d %d", k, 7+k), fmt.Sprintf("del 1 %d", k))
	}
	sels := []string{"sel 1 - - 99", "sel 1 - - 1", "sel 1 1 - 99", "sel 1 - 2 2", "sel 1 0 - 0", "sel 1 1 3 1"}
	if small {
		sels = sels[:3]
	}
	return append(a, sels...)
}

func main() {
	args := xvlib.ParseArgs()
	out := xvlib.NewOut(args.Out)
	defer out.Close()
	reported := map[string]int{}
	runAndEmit := func(lines []string) {
		answers, viols := runCase(lines)
		for i, l := range lines {
			a := "bad-op"
			if i < len(answers) {
				a = answers[i]
			}
			out.Emit(l, a)
		}
		nontrivial := false
		for i, l := range lines {
			w := strings.Fields(l)
			if len(w) == 0 {
				continue
			}
			if w[0] == "sel" || w[0] == "get" {
				nontrivial = true
			}
			if w[0] != "reset" && w[0] != "rwset" && w[0] != "rerun" && i < len(answers) {
				a := answers[i]
				if w[0] == "sel" && strings.HasPrefix(a, "[") {
					n := 0
					if s := selList(a); len(s) > 2 {
						n = len(strings.Fields(s))
					}
					a = "yield" + strconv.Itoa(n)
				} else if w[0] == "get" && strings.HasPrefix(a, "v") {
					a = "value"
				}
				out.Count(w[0] + ":" + a)
			}
			if w[0] == "reset" && len(w) > 1 {
				out.Count("backing:" + w[1])
			}
		}
		out.Case(strings.Join(lines, ";"), nontrivial)
		seen := map[string]bool{}
		for _, v := range viols {
			if seen[v.key] {
				continue
			}
			seen[v.key] = true
			out.Count("violation:" + v.key)
			if reported[v.key] >= 2 {
				continue
			}
			reported[v.key]++
			min := shrink(lines, v.key)
			ma, mv := runCase(min)
			what := v.what
			for _, x := range mv {
				if x.key == v.key {
					what = x.what
					break
				}
			}
			out.Violate(xvlib.Violation{Key: v.key, What: what, Ops: min, Impl: ma})
		}
	}
	runFile := func(path string) {
		var cur []string
		for _, l := range xvlib.ReadLines(path) {
			if strings.HasPrefix(l, "reset") && len(cur) > 0 {
				runAndEmit(cur)
				cur = nil
			}
			cur = append(cur, l)
		}
		if len(cur) > 0 {
			runAndEmit(cur)
		}
	}
	if args.Replay != "" {
		runFile(args.Replay)
		out.Stats.Rule = "replay of " + args.Replay
		return
	}
	rng := xvlib.NewRng(args.Seed)
	thorough := args.Tier == "thorough"
	// 0. the corpus (replays of repaired defects and hand-written corner cases) runs first
	corpusFiles, _ := filepath.Glob(filepath.Join("corpus", args.Prop, "*.ops"))
	sort.Strings(corpusFiles)
	for _, f := range corpusFiles {
		runFile(f)
		out.Count("corpus-file")
	}
	// 1. exhaustive programs over 3 keys x 3 backing states
	exLen, exLenSmall := 3, 4
	randCases := 2000
	if thorough {
		exLen, exLenSmall = 5, 5
		randCases = 50000
	}
	exCount := 0
	var rec func(world string, alpha []string, prog []string, depth, max int, minLen int)
	rec = func(world string, alpha []string, prog []string, depth, max int, minLen int) {
		if depth >= minLen && depth > 0 {
			lines := append(append([]string{world}, prog...), "rwset", "rerun")
			runAndEmit(lines)
			exCount++
		}
		if depth == max {
			return
		}
		for _, op := range alpha {
			rec(world, alpha, append(prog, op), depth+1, max, minLen)
		}
	}
	for _, w := range exWorlds {
		rec(w, exAlphabet(false), nil, 0, exLen, 1)
		if exLenSmall > exLen {
			rec(w, exAlphabet(true), nil, 0, exLenSmall, exLen+1) // longer programs over the reduced scan alphabet
		}
	}
	// 2. random programs ≤ 15 ops over ≤ 8 keys, 4 buckets incl. the transient one
	for i := 0; i < randCases; i++ {
		nKeys := 2 + rng.Intn(7)
		kind, es := randWorld(rng, nKeys)
		prog := randProgram(rng, nKeys, 15)
		lines := append([]string{strings.TrimSpace("reset " + string(kind) + " " + entriesString(es))}, prog...)
		lines = append(lines, "rwset", "rerun")
		runAndEmit(lines)
		if i < 3 {
			a, _ := runCase(lines)
			out.Sample(map[string]interface{}{"ops": lines, "impl": a})
		}
	}
	out.Stats.Exhaustive = true
	out.Stats.Rule = fmt.Sprintf("exhaustive: every program of ≤ %d ops over the full alphabet (get/put/del on 3 keys, 6 scans with different bounds and early stops) and of ≤ %d ops over the reduced alphabet (3 scans), on each of 3 backing states (MemXModel with live/deleted/empty-version entries; XModel-like with live/deleted/never-written keys; XModel-like with a second bucket): %d programs; random: %d programs of ≤ 15 ops over ≤ 8 keys and 4 buckets (incl. the transient bucket) on random backing states of both reader kinds; every program is followed by the RW-set dump and a re-run over XMReaderFromRWSet; a case is non-trivial if it reads; distinct by op lines", exLen, exLenSmall, exCount, randCases)
}
